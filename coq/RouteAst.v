(** * RouteAst: a deep embedding of the Python subset in which the public differentiation objects are
    written (Partial, Derivative, Differential, LocatedDifferential: __init__, at, as_expression,
    component, component_at and their module-level helpers), an object model of those classes
    ([RouteModel]), and an interpreter.

    harness/tie_extract.py translates the CURRENT source of those methods (GeneratedRoute.v);
    TieRoute.v proves that each computes the object model, and that the object model composes to the
    route functions of Routes.v (what the properties C05-C07, C14 are stated about).

    What is taken from the model (oracle): [e.at(point)] = [eval], [e._numeric_partial(v, point)] =
    [fwd], [e._numeric_partials(point)] = [numeric_partials] over an enumeration of the variable-name
    set, [e._synthetic_partial(v)] = [synth_fwd], [e._synthetic_partials()] = [synthetic_partials],
    [e._normalize()] = an arbitrary function [norm] (the simplifier; tied separately),
    [e._reset_evaluation_cache()] = no effect on the pure result (C09), and the constructors and
    methods of the OTHER route classes = the object model's functions (each tied to its own body). *)
From Coq Require Import ZArith List Bool String Ascii.
From SM Require Import Num Syntax Outcome MathFun Eval Forward Reverse Synth.
Import ListNotations.
Open Scope string_scope.
Open Scope list_scope.

Inductive rx : Type :=
| RSelf
| RName (x : string)
| RNone
| RZero                                   (* the int 0 used as a default *)
| RStr (s : string)                       (* a string literal / message *)
| RField (f : string)                     (* self._f *)
| RIsNone (t : rx)
| RNot (t : rx)
| RAnd (a b : rx)
| RIsPoint (t : rx)                       (* isinstance(t, pt.Point) *)
| RIn (key : string) (t : rx)             (* "key" in t *)
| RIndex (t : rx) (key : string)          (* t["key"] *)
| RPrivDict (key : string) (t : rx)       (* { "key": t } *)
| RGet (d k dflt : rx)                    (* d.get(k, dflt) *)
| RGetName (t : rx)                       (* va.get_variable_name(t) *)
| RSingleName (t : rx)                    (* be.get_the_single_variable_name(t, message) *)
| RNumberLine (n x : rx)                  (* pt.point_on_number_line(n, x) *)
| RCall (recv : rx) (m : string) (args : list (string * rx))   (* recv.m(args), keyword args by name *)
| RNew (cls : string) (args : list (string * rx))              (* pa.Partial(...), ld.LocatedDifferential(...) *)
| RHelper (f : string) (args : list (string * rx))             (* a module-level helper of the same file *)
| RMapValues (d : rx) (k v : string) (body : rx)               (* util.map_dictionary_values(d, lambda k, v: body) *)
| RVarNames (t : rx)                      (* t._variable_names *)
| RLen (t : rx)
| RCmpInt (t : rx) (z : Z).               (* t == z, for a length *)

Inductive rstmt : Type :=
| RSReturn (t : rx)
| RSIf (c : rx) (th el : list rstmt)
| RSAssign (x : string) (t : rx)
| RSSetField (f : string) (t : rx)        (* self._f = t *)
| RSExpr (t : rx)
| RSUnpack1 (x : string) (t : rx)         (* (x,) = t *)
| RSRaise                                 (* raise Exception(...) *)
| RSRaiseCoord.                           (* raise er.CoordinateMissing(...) *)

Record rfun : Type := mkRFun { r_params : list string; r_body : list rstmt }.

Section Model.
  Context {T : Type} (N : NumOps T).
  Notation E := (expr T).
  Variable norm : E -> E.                     (* t._normalize() *)
  Variable enum : E -> list name.             (* the iteration order of t._variable_names *)

  (** ** the object model *)
  Record partial_obj : Type := mkPartial { pe : E; pv : name; psp : option E }.
  Record diff_obj : Type := mkDiff { de : E; dsps : option (list (name * E)) }.
  Record located_obj : Type := mkLocated { le : E; lp : point T; lnps : list (name * T) }.
  Record deriv_obj : Type := mkDeriv { dve : E; dvv : name; dvp : partial_obj }.

  Definition retrieve_synthetic_partial (e : E) (v : name) : E := norm (synth_fwd N v e).

  Definition mk_partial (e : E) (v : name) (early : bool) (priv : option E) : partial_obj :=
    mkPartial e v (match priv with
                   | Some s => Some s
                   | None => if early then Some (retrieve_synthetic_partial e v) else None
                   end).

  Definition partial_at (o : partial_obj) (p : point T) : outcome T :=
    match psp o with
    | None => fwd N (pv o) p (pe o)
    | Some s => _ <- eval N p (pe o) ;; eval N p s
    end.

  Definition partial_as_expression (o : partial_obj) : E * partial_obj :=
    match psp o with
    | Some s => (s, o)
    | None => let s := retrieve_synthetic_partial (pe o) (pv o) in (s, mkPartial (pe o) (pv o) (Some s))
    end.

  (* None = the constructor raises (more than one variable) *)
  Definition mk_derivative (e : E) (early : bool) : option deriv_obj :=
    match the_single_variable_name e with
    | Some v => Some (mkDeriv e v (mk_partial e v early None))
    | None => None
    end.

  Definition derivative_at_point (o : deriv_obj) (p : point T) : outcome T := partial_at (dvp o) p.
  Definition derivative_at_number (o : deriv_obj) (x : T) : outcome T := partial_at (dvp o) [(dvv o, x)].

  Definition mk_differential (e : E) (early : bool) : diff_obj :=
    mkDiff e (if early
              then Some (map (fun xs : name * E => (fst xs, norm (snd xs))) (synthetic_partials N e (enum e)))
              else None).

  Definition diff_component (o : diff_obj) (v : name) : partial_obj :=
    match dsps o with
    | None => mk_partial (de o) v false None
    | Some sps =>
        match slookup v sps with
        | None => mk_partial (de o) v false None
        | Some s => mk_partial (de o) v false (Some s)
        end
    end.

  Definition mk_located (e : E) (p : point T) (priv : option (list (name * T))) : outcome located_obj :=
    match priv with
    | Some nps => Val (mkLocated e p nps)
    | None => nps <- numeric_partials N p e (enum e) ;; Val (mkLocated e p nps)
    end.

  Fixpoint eval_values (p : point T) (sps : list (name * E)) : outcome (list (name * T)) :=
    match sps with
    | [] => Val []
    | (x, s) :: r => w <- eval N p s ;; ws <- eval_values p r ;; Val ((x, w) :: ws)
    end.

  Definition diff_at (o : diff_obj) (p : point T) : outcome located_obj :=
    _ <- eval N p (de o) ;;
    match dsps o with
    | None => mk_located (de o) p None
    | Some sps => nps <- eval_values p sps ;; mk_located (de o) p (Some nps)
    end.

  Definition diff_component_at (o : diff_obj) (v : name) (p : point T) : outcome T :=
    partial_at (diff_component o v) p.

  Definition located_component (o : located_obj) (v : name) : T :=
    match lookup v (lnps o) with Some d => d | None => n0 N end.

  (** ** values of the interpreter *)
  Inductive rval : Type :=
  | RVE (e : E)
  | RVN (x : T)
  | RVName (v : name)
  | RVB (b : bool)
  | RVNone
  | RVZero
  | RVStr (s : string)
  | RVPoint (p : point T)
  | RVPartial (o : partial_obj)
  | RVDeriv (o : deriv_obj)
  | RVDiff (o : diff_obj)
  | RVLocated (o : located_obj)
  | RVNames (l : list name)               (* a set of variable names, as the duplicate-free list var_names *)
  | RVNat (n : nat)
  | RVDict (d : list (name * rval))       (* a dict keyed by variable names, in insertion order *)
  | RVPriv (key : string) (w : rval).

  Definition dictE (d : list (name * E)) : rval := RVDict (map (fun xs => (fst xs, RVE (snd xs))) d).
  Definition dictN (d : list (name * T)) : rval := RVDict (map (fun xs => (fst xs, RVN (snd xs))) d).

  Fixpoint to_dictN (d : list (name * rval)) : option (list (name * T)) :=
    match d with
    | [] => Some []
    | (x, RVN w) :: r => match to_dictN r with Some ws => Some ((x, w) :: ws) | None => None end
    | _ => None
    end.
  Fixpoint to_dictE (d : list (name * rval)) : option (list (name * E)) :=
    match d with
    | [] => Some []
    | (x, RVE w) :: r => match to_dictE r with Some ws => Some ((x, w) :: ws) | None => None end
    | _ => None
    end.

  Definition renv := list (string * rval).
  Fixpoint rlook (x : string) (r : renv) : option rval :=
    match r with
    | [] => None
    | (y, w) :: r' => if String.eqb x y then Some w else rlook x r'
    end.

  Definition rstuck {A} : outcome A := PyErr TypeError.
  Definition raises {A} : outcome A := PyErr ValueError.     (* a plain Exception raised by the library *)

  (* va.get_variable_name: a str, or a Variable *)
  Definition get_name (w : rval) : outcome name :=
    match w with
    | RVName v => Val v
    | RVE (Var v) => Val v
    | _ => rstuck
    end.

  Definition priv_of (w : rval) (key : string) : outcome (option rval) :=
    match w with
    | RVNone => Val None
    | RVPriv k u => if String.eqb k key then Val (Some u) else Val None
    | _ => rstuck
    end.

  Fixpoint kwarg (k : string) (l : list (string * rval)) : option rval :=
    match l with
    | [] => None
    | (k', w) :: r => if String.eqb k k' then Some w else kwarg k r
    end.
  Definition positional (l : list (string * rval)) : list rval :=
    map snd (filter (fun kw => String.eqb (fst kw) "") l).

  Definition as_bool (w : option rval) (dflt : bool) : outcome bool :=
    match w with None => Val dflt | Some (RVB b) => Val b | _ => rstuck end.

  (** constructor calls of the route classes: the object model *)
  Definition rnew (cls : string) (args : list (string * rval)) : outcome rval :=
    if String.eqb cls "Partial" then
      match positional args with
      | [RVE e; v] =>
          vn <- get_name v ;;
          early <- as_bool (kwarg "compute_early" args) false ;;
          match kwarg "_private" args with
          | None => Val (RVPartial (mk_partial e vn early None))
          | Some pw =>
              o <- priv_of pw "synthetic_partial" ;;
              match o with
              | None => Val (RVPartial (mk_partial e vn early None))
              | Some (RVE s) => Val (RVPartial (mk_partial e vn early (Some s)))
              | Some _ => rstuck
              end
          end
      | _ => rstuck
      end
    else if String.eqb cls "LocatedDifferential" then
      match positional args with
      | [RVE e; RVPoint p] =>
          match kwarg "_private" args with
          | None => o <- mk_located e p None ;; Val (RVLocated o)
          | Some pw =>
              q <- priv_of pw "numeric_partials" ;;
              match q with
              | None => o <- mk_located e p None ;; Val (RVLocated o)
              | Some (RVDict d) =>
                  match to_dictN d with
                  | Some nps => o <- mk_located e p (Some nps) ;; Val (RVLocated o)
                  | None => rstuck
                  end
              | Some _ => rstuck
              end
          end
      | _ => rstuck
      end
    else rstuck.

  (** method calls on values: expressions (oracle = the model), route objects (the object model).
      The result and the receiver afterwards (as_expression stores what it computed). *)
  Definition rcall (recv : rval) (m : string) (args : list (string * rval)) : outcome (rval * rval) :=
    match recv, positional args with
    | RVE e, [] =>
        if String.eqb m "_reset_evaluation_cache" then Val (RVNone, recv)
        else if String.eqb m "_normalize" then Val (RVE (norm e), recv)
        else if String.eqb m "_synthetic_partials" then Val (dictE (synthetic_partials N e (enum e)), recv)
        else rstuck
    | RVE e, [RVPoint p] =>
        if String.eqb m "at" then x <- eval N p e ;; Val (RVN x, recv)
        else if String.eqb m "_evaluate" then x <- eval N p e ;; Val (RVN x, recv)
        else if String.eqb m "_numeric_partials" then d <- numeric_partials N p e (enum e) ;; Val (dictN d, recv)
        else rstuck
    | RVE e, [RVName v] =>
        if String.eqb m "_synthetic_partial" then Val (RVE (synth_fwd N v e), recv) else rstuck
    | RVE e, [RVName v; RVPoint p] =>
        if String.eqb m "_numeric_partial" then x <- fwd N v p e ;; Val (RVN x, recv) else rstuck
    | RVPartial o, [RVPoint p] =>
        if String.eqb m "at" then x <- partial_at o p ;; Val (RVN x, recv) else rstuck
    | RVPartial o, [] =>
        if String.eqb m "as_expression" then
          let (s, o') := partial_as_expression o in Val (RVE s, RVPartial o')
        else rstuck
    | RVDiff o, [v] =>
        if String.eqb m "component" then vn <- get_name v ;; Val (RVPartial (diff_component o vn), recv)
        else rstuck
    | _, _ => rstuck
    end.

  (** module-level helpers of the route files: the object model's pieces (each tied to its own body) *)
  Definition initial_synthetic_partial (e : E) (v : name) (early : bool) (priv : option E) : option E :=
    match priv with
    | Some s => Some s
    | None => if early then Some (retrieve_synthetic_partial e v) else None
    end.

  Definition initial_synthetic_partials (e : E) (early : bool) : option (list (name * E)) :=
    if early then Some (map (fun xs : name * E => (fst xs, norm (snd xs))) (synthetic_partials N e (enum e)))
    else None.

  Definition initial_numeric_partials (e : E) (p : point T) (priv : option (list (name * T)))
    : outcome (list (name * T)) :=
    match priv with
    | Some nps => Val nps
    | None => numeric_partials N p e (enum e)
    end.

  Definition oe (o : option E) : rval := match o with Some s => RVE s | None => RVNone end.

  Definition rhelper (f : string) (args : list rval) : outcome rval :=
    if String.eqb f "_retrieve_synthetic_partial" then
      match args with [RVE e; RVName v] => Val (RVE (retrieve_synthetic_partial e v)) | _ => rstuck end
    else if String.eqb f "_initial_synthetic_partial" then
      match args with
      | [RVE e; RVName v; RVB early; pw] =>
          o <- priv_of pw "synthetic_partial" ;;
          match o with
          | None => Val (oe (initial_synthetic_partial e v early None))
          | Some (RVE s) => Val (oe (initial_synthetic_partial e v early (Some s)))
          | Some _ => rstuck
          end
      | _ => rstuck
      end
    else if String.eqb f "_initial_synthetic_partials" then
      match args with
      | [RVE e; RVB early] =>
          Val (match initial_synthetic_partials e early with Some d => dictE d | None => RVNone end)
      | _ => rstuck
      end
    else if String.eqb f "_initial_numeric_partials" then
      match args with
      | [RVE e; RVPoint p; pw] =>
          q <- priv_of pw "numeric_partials" ;;
          match q with
          | None => d <- initial_numeric_partials e p None ;; Val (dictN d)
          | Some (RVDict d) =>
              match to_dictN d with
              | Some nps => d' <- initial_numeric_partials e p (Some nps) ;; Val (dictN d')
              | None => rstuck
              end
          | Some _ => rstuck
          end
      | _ => rstuck
      end
    else rstuck.

  (** ** the interpreter.  State: local variables and the fields of [self]. *)
  Definition rfields := list (string * rval).
  Definition rres (A : Type) := outcome (A * rfields).

  Fixpoint set_field (f : string) (w : rval) (fs : rfields) : rfields :=
    match fs with
    | [] => [(f, w)]
    | (g, u) :: r => if String.eqb f g then (g, w) :: r else (g, u) :: set_field f w r
    end.

  Fixpoint dict_find (v : name) (l : list (name * rval)) : option rval :=
    match l with
    | [] => None
    | (x, u) :: rest => if name_eqb v x then Some u else dict_find v rest
    end.

  Section Loops.
    Fixpoint rmap_loop (f : name -> rval -> rfields -> rres rval) (d : list (name * rval)) (fs : rfields)
      : rres (list (name * rval)) :=
      match d with
      | [] => Val ([], fs)
      | (x, w) :: r =>
          o <- f x w fs ;;
          let (u, fs1) := o in
          q <- rmap_loop f r fs1 ;;
          let (us, fs2) := q in
          Val ((x, u) :: us, fs2)
      end.
  End Loops.

  Fixpoint rev_ (self : rval) (r : renv) (fs : rfields) (t : rx) {struct t} : rres rval :=
    let rargs :=
      fix rargs (fs : rfields) (l : list (string * rx)) : rres (list (string * rval)) :=
        match l with
        | [] => Val ([], fs)
        | (k, a) :: rest =>
            o <- rev_ self r fs a ;;
            let (w, fs1) := o in
            q <- rargs fs1 rest ;;
            let (ws, fs2) := q in
            Val ((k, w) :: ws, fs2)
        end in
    match t with
    | RSelf => Val (self, fs)
    | RName x => match rlook x r with Some w => Val (w, fs) | None => rstuck end
    | RNone => Val (RVNone, fs)
    | RZero => Val (RVZero, fs)
    | RStr s => Val ((if String.eqb s "whatever" then RVName whatever else RVStr s), fs)
    | RField f => match rlook f fs with Some w => Val (w, fs) | None => rstuck end
    | RIsNone a =>
        o <- rev_ self r fs a ;;
        let (w, fs1) := o in Val (RVB (match w with RVNone => true | _ => false end), fs1)
    | RNot a =>
        o <- rev_ self r fs a ;;
        let (w, fs1) := o in match w with RVB b => Val (RVB (negb b), fs1) | _ => rstuck end
    | RAnd a b =>
        o <- rev_ self r fs a ;;
        let (w, fs1) := o in
        match w with
        | RVB true => q <- rev_ self r fs1 b ;;
                      let (u, fs2) := q in match u with RVB c => Val (RVB c, fs2) | _ => rstuck end
        | RVB false => Val (RVB false, fs1)
        | _ => rstuck
        end
    | RIsPoint a =>
        o <- rev_ self r fs a ;;
        let (w, fs1) := o in Val (RVB (match w with RVPoint _ => true | _ => false end), fs1)
    | RIn key a =>
        o <- rev_ self r fs a ;;
        let (w, fs1) := o in
        match w with
        | RVPriv k _ => Val (RVB (String.eqb k key), fs1)
        | _ => rstuck
        end
    | RIndex a key =>
        o <- rev_ self r fs a ;;
        let (w, fs1) := o in
        match w with
        | RVPriv k u => if String.eqb k key then Val (u, fs1) else PyErr KeyError
        | _ => rstuck
        end
    | RPrivDict key a =>
        o <- rev_ self r fs a ;;
        let (w, fs1) := o in Val (RVPriv key w, fs1)
    | RGet d k dflt =>
        o <- rev_ self r fs d ;;
        let (wd, fs1) := o in
        q <- rev_ self r fs1 k ;;
        let (wk, fs2) := q in
        z <- rev_ self r fs2 dflt ;;
        let (wz, fs3) := z in
        match wd, wk with
        | RVDict dd, RVName v =>
            Val ((match dict_find v dd with Some u => u | None => wz end), fs3)
        | _, _ => rstuck
        end
    | RGetName a =>
        o <- rev_ self r fs a ;;
        let (w, fs1) := o in v <- get_name w ;; Val (RVName v, fs1)
    | RSingleName a =>
        o <- rev_ self r fs a ;;
        let (w, fs1) := o in
        match w with
        | RVE e => match the_single_variable_name e with
                   | Some v => Val (RVName v, fs1)
                   | None => raises
                   end
        | _ => rstuck
        end
    | RNumberLine n x =>
        o <- rev_ self r fs n ;;
        let (wn, fs1) := o in
        q <- rev_ self r fs1 x ;;
        let (wx, fs2) := q in
        match wn, wx with
        | RVName v, RVN c => Val (RVPoint [(v, c)], fs2)
        | _, _ => rstuck
        end
    | RCall recv m args =>
        o <- rev_ self r fs recv ;;
        let (wr, fs1) := o in
        q <- rargs fs1 args ;;
        let (ws, fs2) := q in
        z <- rcall wr m ws ;;
        let (res, wr') := z in
        (* a method called on a field of self may update the object held in that field *)
        Val (res, match recv with RField f => set_field f wr' fs2 | _ => fs2 end)
    | RNew cls args =>
        q <- rargs fs args ;;
        let (ws, fs1) := q in
        w <- rnew cls ws ;; Val (w, fs1)
    | RHelper f args =>
        q <- rargs fs args ;;
        let (ws, fs1) := q in
        w <- rhelper f (map snd ws) ;; Val (w, fs1)
    | RVarNames a =>
        o <- rev_ self r fs a ;;
        let (w, fs1) := o in match w with RVE e => Val (RVNames (var_names e), fs1) | _ => rstuck end
    | RLen a =>
        o <- rev_ self r fs a ;;
        let (w, fs1) := o in match w with RVNames l => Val (RVNat (List.length l), fs1) | _ => rstuck end
    | RCmpInt a z =>
        o <- rev_ self r fs a ;;
        let (w, fs1) := o in match w with RVNat n => (if Z.ltb z 0 then rstuck else Val (RVB (Nat.eqb n (Z.to_nat z)), fs1)) | _ => rstuck end
    | RMapValues d k v body =>
        o <- rev_ self r fs d ;;
        let (wd, fs1) := o in
        match wd with
        | RVDict dd =>
            q <- rmap_loop (fun x u fs' => rev_ self ((v, u) :: (k, RVName x) :: r) fs' body) dd fs1 ;;
            let (us, fs2) := q in Val (RVDict us, fs2)
        | _ => rstuck
        end
    end.

  Definition rflow := (renv + rval)%type.

  Fixpoint rexec (self : rval) (r : renv) (fs : rfields) (st : rstmt) {struct st} : rres rflow :=
    let block :=
      fix block (r : renv) (fs : rfields) (l : list rstmt) {struct l} : rres rflow :=
        match l with
        | [] => Val (inl r, fs)
        | st :: rest =>
            o <- rexec self r fs st ;;
            let (f, fs1) := o in
            match f with
            | inl r' => block r' fs1 rest
            | inr w => Val (inr w, fs1)
            end
        end in
    match st with
    | RSReturn t => o <- rev_ self r fs t ;; let (w, fs1) := o in Val (inr w, fs1)
    | RSIf c th el =>
        o <- rev_ self r fs c ;;
        let (w, fs1) := o in
        match w with
        | RVB true => block r fs1 th
        | RVB false => block r fs1 el
        | _ => rstuck
        end
    | RSAssign x t => o <- rev_ self r fs t ;; let (w, fs1) := o in Val (inl ((x, w) :: r), fs1)
    | RSSetField f t => o <- rev_ self r fs t ;; let (w, fs1) := o in Val (inl r, set_field f w fs1)
    | RSExpr t => o <- rev_ self r fs t ;; let (_, fs1) := o in Val (inl r, fs1)
    | RSUnpack1 x t =>
        o <- rev_ self r fs t ;;
        let (w, fs1) := o in
        match w with RVNames [v] => Val (inl ((x, RVName v) :: r), fs1) | _ => rstuck end
    | RSRaise => raises
    | RSRaiseCoord => CoordMissing
    end.

  Fixpoint rexec_block (self : rval) (r : renv) (fs : rfields) (l : list rstmt) : rres rflow :=
    match l with
    | [] => Val (inl r, fs)
    | st :: rest =>
        o <- rexec self r fs st ;;
        let (f, fs1) := o in
        match f with
        | inl r' => rexec_block self r' fs1 rest
        | inr w => Val (inr w, fs1)
        end
    end.

  (** a method call: the returned value (RVNone when the body falls off the end) and the fields of
      self afterwards *)
  Definition rmethod (f : rfun) (self : rval) (fs : rfields) (args : list rval) : rres rval :=
    if Nat.eqb (List.length (r_params f)) (List.length args) then
      o <- rexec_block self (combine (r_params f) args) fs (r_body f) ;;
      let (fl, fs1) := o in
      match fl with
      | inr w => Val (w, fs1)
      | inl _ => Val (RVNone, fs1)
      end
    else rstuck.
End Model.

Arguments RVE {T} e.
Arguments RVN {T} x.
Arguments RVName {T} v.
Arguments RVB {T} b.
Arguments RVNone {T}.
Arguments RVZero {T}.
Arguments RVStr {T} s.
Arguments RVPoint {T} p.
Arguments RVPartial {T} o.
Arguments RVDeriv {T} o.
Arguments RVDiff {T} o.
Arguments RVLocated {T} o.
Arguments RVNames {T} l.
Arguments RVNat {T} n.
Arguments RVDict {T} d.
Arguments RVPriv {T} key w.

(** ** reset-before-read discipline (syntactic)

    The interpreter above reads [t._evaluate(p)] and [t._numeric_partial(v, p)] as the pure model
    functions.  That reading is justified (Stateful.v, C09: an evaluation that starts from a reset
    store is the pure one) only when the memo fields below [t] have just been cleared.  [disciplined]
    checks exactly that, on the translated bodies: on every path, every call that READS the cache
    (_evaluate, _numeric_partial) has a receiver that is a plain name / field / self on which
    [_reset_evaluation_cache()] was called earlier in the same straight-line code, with no assignment
    to that name or field in between.  Calls that reset on their own (at, _numeric_partials) need
    nothing.  TieRoute.reset_discipline proves it of all current route bodies by computation. *)
Definition recv_key (t : rx) : option string :=
  match t with
  | RSelf => Some "self"
  | RName x => Some x
  | RField f => Some (String.append "self." f)
  | _ => None
  end.

Definition reads_cache (m : string) : bool :=
  String.eqb m "_evaluate" || String.eqb m "_numeric_partial".

Fixpoint key_in (k : string) (l : list string) : bool :=
  match l with [] => false | x :: r => String.eqb k x || key_in k r end.

Fixpoint reads_ok (clean : list string) (t : rx) {struct t} : bool :=
  let args_ok :=
    fix args_ok (l : list (string * rx)) : bool :=
      match l with [] => true | (_, a) :: r => reads_ok clean a && args_ok r end in
  match t with
  | RSelf | RName _ | RNone | RZero | RStr _ | RField _ => true
  | RIsNone a | RNot a | RIsPoint a | RIn _ a | RIndex a _ | RPrivDict _ a | RGetName a
  | RSingleName a | RVarNames a | RLen a | RCmpInt a _ => reads_ok clean a
  | RAnd a b | RNumberLine a b => reads_ok clean a && reads_ok clean b
  | RGet a b c => reads_ok clean a && reads_ok clean b && reads_ok clean c
  | RCall recv m args =>
      reads_ok clean recv && args_ok args &&
      (if reads_cache m then match recv_key recv with Some k => key_in k clean | None => false end else true)
  | RNew _ args | RHelper _ args => args_ok args
  | RMapValues d _ _ body => reads_ok clean d && reads_ok clean body
  end.

Fixpoint drop_key (k : string) (l : list string) : list string :=
  match l with [] => [] | x :: r => if String.eqb k x then drop_key k r else x :: drop_key k r end.

Fixpoint disciplined_stmt (clean : list string) (s : rstmt) {struct s} : bool * list string :=
  let block :=
    fix block (clean : list string) (l : list rstmt) {struct l} : bool :=
      match l with
      | [] => true
      | s :: rest => let (ok, clean') := disciplined_stmt clean s in ok && block clean' rest
      end in
  match s with
  | RSReturn t => (reads_ok clean t, clean)
  | RSIf c th el => (reads_ok clean c && block clean th && block clean el, [])   (* nothing is assumed clean after a branch *)
  | RSAssign x t => (reads_ok clean t, drop_key x clean)
  | RSSetField f t => (reads_ok clean t, drop_key (String.append "self." f) clean)
  | RSExpr (RCall recv m []) =>
      if String.eqb m "_reset_evaluation_cache"
      then match recv_key recv with Some k => (true, k :: clean) | None => (true, clean) end
      else (reads_ok clean (RCall recv m []), clean)
  | RSExpr t => (reads_ok clean t, clean)
  | RSUnpack1 x t => (reads_ok clean t, drop_key x clean)
  | RSRaise | RSRaiseCoord => (true, clean)
  end.

Fixpoint disciplined (clean : list string) (l : list rstmt) : bool :=
  match l with
  | [] => true
  | s :: rest => let (ok, clean') := disciplined_stmt clean s in ok && disciplined clean' rest
  end.
