(** * TieRules: every _reduce_* method of the CURRENT source (GeneratedSym.v, regenerated on
    every run), interpreted by SymAst.scall, computes exactly the model's rule (Rules.v) — for
    every number interface N and every tree of the method's class. *)
From Coq Require Import ZArith List Bool String Lia.
From SM Require Import Num Syntax Outcome MathFun Rules SymAst SymLemmas Generated GeneratedSym.
Import ListNotations.
Open Scope string_scope.
Open Scope list_scope.

Section Tie.
  Context {T : Type} (N : NumOps T).
  Variable oracle : string -> list (val (T:=T)) -> option (val (T:=T)).
  Notation E := (expr T).

  Definition run (f : sfun) (e : E) : option (option E) := as_reduced (scall N oracle f (VE e) []).

  Ltac opq := cbn -[nofZ nfloat n_e nsum nadd nsub nmul ndiv nneg npow npowi nsqrt ncbrt nln nsin ncos neqb nltb
                    nint nfinite mf_add mf_multiply nat_of skipn firstn groups_of Z.div Z.sub Z.add Z.even Z.odd Z.leb
                    Pos.gcd Pos.eqb Pos.mul]; unfold n0, n1, nm1.
  Ltac tie0 := intros; unfold run, scall, as_reduced; opq.
  Ltac split_ifs :=
    repeat match goal with
           | |- context [if ?b then _ else _] =>
               lazymatch b with
               | context [if _ then _ else _] => fail
               | _ => destruct b eqn:?; opq
               end
           | |- context [match nint N ?c with _ => _ end] => destruct (nint N c) eqn:?; opq
           end.
  Ltac tie_un a := tie0; destruct a; opq; try reflexivity; split_ifs; try reflexivity.
  Ltac tie_bin a b := tie0; destruct a; opq; try reflexivity; destruct b; opq; try reflexivity;
                      split_ifs; try reflexivity.

  (** ** Minus, Divide *)
  Lemma reduce_minus_to_sum_with_negation_tied : forall a b,
    run gen_sym_Minus_reduce_minus_to_sum_with_negation (Minus a b) = Some (reduce_minus_to_sum_with_negation (Minus a b)).
  Proof. tie0. reflexivity. Qed.

  Lemma reduce_divide_to_multiplying_with_reciprocal_tied : forall a b,
    run gen_sym_Divide_reduce_divide_to_multiplying_with_reciprocal (Divide a b) =
    Some (reduce_divide_to_multiplying_with_reciprocal (Divide a b)).
  Proof. tie0. reflexivity. Qed.

  (** ** Negation *)
  Lemma reduce_negation_of_negation_tied : forall a,
    run gen_sym_Negation_reduce_negation_of_negation (Neg a) = Some (reduce_negation_of_negation (Neg a)).
  Proof. tie_un a. Qed.

  (** ** Reciprocal *)
  Lemma reduce_reciprocal_of_reciprocal_tied : forall a,
    run gen_sym_Reciprocal_reduce_reciprocal_of_reciprocal (Recip a) = Some (reduce_reciprocal_of_reciprocal (Recip a)).
  Proof. tie_un a. Qed.

  Lemma reduce_reciprocal_of_negation_tied : forall a,
    run gen_sym_Reciprocal_reduce_reciprocal_of_negation (Recip a) = Some (reduce_reciprocal_of_negation (Recip a)).
  Proof. tie_un a. Qed.

  (** ** Power *)
  Lemma reduce_u_to_the_one_tied : forall a b,
    run gen_sym_Power_reduce_u_to_the_one (Power a b) = Some (reduce_u_to_the_one N (Power a b)).
  Proof. tie_un b. Qed.

  Lemma reduce_u_to_the_zero_tied : forall a b,
    run gen_sym_Power_reduce_u_to_the_zero (Power a b) = Some (reduce_u_to_the_zero N (Power a b)).
  Proof. tie_un b. Qed.

  Lemma reduce_one_to_the_u_tied : forall a b,
    run gen_sym_Power_reduce_one_to_the_u (Power a b) = Some (reduce_one_to_the_u N (Power a b)).
  Proof. tie_un a. Qed.

  Lemma reduce_u_to_the_n_at_least_two_tied : forall a b,
    run gen_sym_Power_reduce_u_to_the_n_at_least_two (Power a b) = Some (reduce_u_to_the_n_at_least_two N (Power a b)).
  Proof.
    tie_un b.
    match goal with
    | H1 : (2 <=? ?z)%Z = true, H2 : (0 <? ?z)%Z = false |- _ =>
        apply Z.leb_le in H1; apply Z.ltb_ge in H2; lia
    end.
  Qed.

  Lemma reduce_u_to_the_negative_one_tied : forall a b,
    run gen_sym_Power_reduce_u_to_the_negative_one (Power a b) = Some (reduce_u_to_the_negative_one N (Power a b)).
  Proof. tie_un b. Qed.

  Lemma reduce_power_with_constant_base_tied : forall a b,
    run gen_sym_Power_reduce_power_with_constant_base (Power a b) = Some (reduce_power_with_constant_base N (Power a b)).
  Proof. tie_un a. Qed.

  Lemma reduce_power_of_power_tied : forall a b,
    run gen_sym_Power_reduce_power_of_power (Power a b) = Some (reduce_power_of_power (Power a b)).
  Proof. tie_un a. Qed.

  Lemma reduce_u_to_the_negation_of_v_tied : forall a b,
    run gen_sym_Power_reduce_u_to_the_negation_of_v (Power a b) = Some (reduce_u_to_the_negation_of_v (Power a b)).
  Proof. tie_un b. Qed.

  Lemma reduce_reciprocal_u_to_the_v_tied : forall a b,
    run gen_sym_Power_reduce_reciprocal_u__to_the_v (Power a b) = Some (reduce_reciprocal_u_to_the_v (Power a b)).
  Proof. tie_un a. Qed.

  (** ** NthPower *)
  Lemma reduce_nth_power_where_n_is_one_tied : forall a n,
    run gen_sym_NthPower_reduce_nth_power_where_n_is_one (NthPow a n) = Some (reduce_nth_power_where_n_is_one (NthPow a n)).
  Proof. tie0. split_ifs; reflexivity. Qed.

  Lemma gcd_quot_pos_l : forall m n : positive, (0 <? Zpos m / Zpos (Pos.gcd m n))%Z = true.
  Proof.
    intros m n. apply Z.ltb_lt.
    destruct (Pos.gcd_divide_l m n) as [k Hk].
    rewrite Hk at 1. rewrite Pos2Z.inj_mul, Z.div_mul by discriminate. reflexivity.
  Qed.

  Lemma gcd_quot_pos_r : forall m n : positive, (0 <? Zpos n / Zpos (Pos.gcd m n))%Z = true.
  Proof.
    intros m n. apply Z.ltb_lt.
    destruct (Pos.gcd_divide_r m n) as [k Hk].
    rewrite Hk at 1. rewrite Pos2Z.inj_mul, Z.div_mul by discriminate. reflexivity.
  Qed.

  Lemma reduce_nth_power_of_mth_root_tied : forall a n,
    run gen_sym_NthPower_reduce_nth_power_of_mth_root (NthPow a n) = Some (reduce_nth_power_of_mth_root (NthPow a n)).
  Proof.
    tie0. destruct a; opq; try reflexivity.
    destruct (Pos.eqb n0 n) eqn:Hmn; opq; [reflexivity|].
    destruct (Pos.eqb (Pos.gcd n0 n) 1) eqn:Hg; opq; [reflexivity|].
    rewrite gcd_quot_pos_l. opq. rewrite gcd_quot_pos_r. reflexivity.
  Qed.

  Lemma reduce_nth_power_of_mth_power_tied : forall a n,
    run gen_sym_NthPower_reduce_nth_power_of_mth_power (NthPow a n) = Some (reduce_nth_power_of_mth_power (NthPow a n)).
  Proof. tie_un a. Qed.

  Lemma reduce_nth_power_of_negation_tied : forall a n,
    run gen_sym_NthPower_reduce_nth_power_of_negation (NthPow a n) = Some (reduce_nth_power_of_negation (NthPow a n)).
  Proof. tie_un a. Qed.

  Lemma reduce_nth_power_of_reciprocal_tied : forall a n,
    run gen_sym_NthPower_reduce_nth_power_of_reciprocal (NthPow a n) = Some (reduce_nth_power_of_reciprocal (NthPow a n)).
  Proof. tie_un a. Qed.

  Lemma reduce_nth_power_of_exponential_tied : forall a n,
    run gen_sym_NthPower_reduce_nth_power_of_exponential (NthPow a n) = Some (reduce_nth_power_of_exponential N (NthPow a n)).
  Proof. tie_un a. Qed.

  (** ** NthRoot *)
  Lemma reduce_nth_root_where_n_is_one_tied : forall a n,
    run gen_sym_NthRoot_reduce_nth_root_where_n_is_one (NthRoot a n) = Some (reduce_nth_root_where_n_is_one (NthRoot a n)).
  Proof. tie0. split_ifs; reflexivity. Qed.

  Lemma reduce_nth_root_of_mth_power_tied : forall a n,
    run gen_sym_NthRoot_reduce_nth_root_of_mth_power (NthRoot a n) = Some (reduce_nth_root_of_mth_power (NthRoot a n)).
  Proof. tie_un a. Qed.

  Lemma reduce_nth_root_of_mth_root_tied : forall a n,
    run gen_sym_NthRoot_reduce_nth_root_of_mth_root (NthRoot a n) = Some (reduce_nth_root_of_mth_root (NthRoot a n)).
  Proof. tie_un a. Qed.

  Lemma reduce_odd_nth_root_of_negation_tied : forall a n,
    run gen_sym_NthRoot_reduce_odd_nth_root_of_negation (NthRoot a n) = Some (reduce_odd_nth_root_of_negation (NthRoot a n)).
  Proof. tie_un a. Qed.

  Lemma reduce_nth_root_of_reciprocal_tied : forall a n,
    run gen_sym_NthRoot_reduce_nth_root_of_reciprocal (NthRoot a n) = Some (reduce_nth_root_of_reciprocal (NthRoot a n)).
  Proof. tie_un a. Qed.

  (** ** Exponential, Logarithm *)
  Lemma reduce_exponential_of_logarithm_tied : forall a b,
    run gen_sym_Exponential_reduce_exponential_of_logarithm (Exp a b) = Some (reduce_exponential_of_logarithm N (Exp a b)).
  Proof. tie_un a. Qed.

  Lemma reduce_exponential_of_negation_tied : forall a b,
    run gen_sym_Exponential_reduce_exponential_of_negation (Exp a b) = Some (reduce_exponential_of_negation (Exp a b)).
  Proof. tie_un a. Qed.

  Lemma reduce_logarithm_of_exponential_tied : forall a b,
    run gen_sym_Logarithm_reduce_logarithm_of_exponential (Log a b) = Some (reduce_logarithm_of_exponential N (Log a b)).
  Proof. tie_un a. Qed.

  Lemma reduce_logarithm_of_reciprocal_tied : forall a b,
    run gen_sym_Logarithm_reduce_logarithm_of_reciprocal (Log a b) = Some (reduce_logarithm_of_reciprocal (Log a b)).
  Proof. tie_un a. Qed.

  Lemma reduce_logarithm_of_nth_power_tied : forall a b,
    run gen_sym_Logarithm_reduce_logarithm_of_nth_power (Log a b) = Some (reduce_logarithm_of_nth_power N (Log a b)).
  Proof. tie_un a. Qed.

  (** ** Cosine, Sine *)
  Lemma reduce_cosine_of_negation_tied : forall a,
    run gen_sym_Cosine_reduce_cosine_of_negation (Cos a) = Some (reduce_cosine_of_negation (Cos a)).
  Proof. tie_un a. Qed.

  Lemma reduce_sine_of_negation_tied : forall a,
    run gen_sym_Sine_reduce_sine_of_negation (Sin a) = Some (reduce_sine_of_negation (Sin a)).
  Proof. tie_un a. Qed.
  Ltac loops :=
    repeat first
      [ erewrite comp_loop_VE_E; [| intros; reflexivity | intros; reflexivity]
      | rewrite app_nil_r
      | rewrite as_exprs_VE
      | rewrite filter_true
      | rewrite filter_val_is
      | rewrite filter_not_val_is
      | progress opq ].

  Lemma reduce_negation_of_sum_tied : forall a,
    run gen_sym_Negation_reduce_negation_of_sum (Neg a) = Some (reduce_negation_of_sum (Neg a)).
  Proof. tie0. destruct a; opq; try reflexivity. loops. reflexivity. Qed.

  Lemma reduce_reciprocal_of_product_tied : forall a,
    run gen_sym_Reciprocal_reduce_reciprocal_of_product (Recip a) = Some (reduce_reciprocal_of_product (Recip a)).
  Proof. tie0. destruct a; opq; try reflexivity. loops. reflexivity. Qed.
  (** ** class tests *)
  Lemma is_cls_Const : forall e : E, is_cls "Constant" e = is_Const e. Proof. destruct e; reflexivity. Qed.
  Lemma is_cls_Add : forall e : E, is_cls "Add" e = is_Add e. Proof. destruct e; reflexivity. Qed.
  Lemma is_cls_Mul : forall e : E, is_cls "Multiply" e = is_Mul e. Proof. destruct e; reflexivity. Qed.
  Lemma is_cls_Neg : forall e : E, is_cls "Negation" e = is_Neg e. Proof. destruct e; reflexivity. Qed.
  Lemma is_cls_Recip : forall e : E, is_cls "Reciprocal" e = is_Recip e. Proof. destruct e; reflexivity. Qed.
  Lemma is_cls_NthPow : forall e : E, is_cls "NthPower" e = is_NthPow e. Proof. destruct e; reflexivity. Qed.
  Lemma is_cls_NthRoot : forall e : E, is_cls "NthRoot" e = is_NthRoot e. Proof. destruct e; reflexivity. Qed.
  Lemma is_cls_Exp : forall e : E, is_cls "Exponential" e = is_Exp e. Proof. destruct e; reflexivity. Qed.
  Lemma is_cls_Log : forall e : E, is_cls "Logarithm" e = is_Log e. Proof. destruct e; reflexivity. Qed.

  Lemma filter_is_cls : forall cls (f : E -> bool) (l : list E),
    (forall e, is_cls cls e = f e) -> filter (is_cls cls) l = filter f l.
  Proof. intros. apply filter_ext_in'. assumption. Qed.

  Lemma filter_not_is_cls : forall cls (f : E -> bool) (l : list E),
    (forall e, is_cls cls e = f e) ->
    filter (fun e => negb (is_cls cls e)) l = filter (fun e => negb (f e)) l.
  Proof. intros cls f l H. apply filter_ext_in'. intros a. rewrite H. reflexivity. Qed.

  Ltac norm :=
    repeat first
      [ rewrite map_id | rewrite map_length | rewrite Z_of_nat_eqb | rewrite Z_of_nat_leb1
      | rewrite app_nil_r | rewrite as_exprs_VE | rewrite filter_true
      | rewrite filter_val_is | rewrite filter_not_val_is ].

  (** ** Add *)
  Lemma reduce_sum_by_eliminating_zeros_tied : forall l,
    run gen_sym_Add_reduce_sum_by_eliminating_zeros (Add l) = Some (reduce_sum_by_eliminating_zeros N (Add l)).
  Proof.
    tie0.
    erewrite (comp_loop_VE_E _ _ (fun e => e) (fun x => negb (is_const_eq N (nofZ N 0) x))).
    2: intros; reflexivity.
    2: { intros e; destruct e; opq; reflexivity. }
    opq. norm.
    destruct (Nat.eqb _ _); opq; [reflexivity|]. norm. reflexivity.
  Qed.

  Lemma reduce_product_by_eliminating_ones_tied : forall l,
    run gen_sym_Multiply_reduce_product_by_eliminating_ones (Mul l) = Some (reduce_product_by_eliminating_ones N (Mul l)).
  Proof.
    tie0.
    erewrite (comp_loop_VE_E _ _ (fun e => e) (fun x => negb (is_const_eq N (nofZ N 1) x))).
    2: intros; reflexivity.
    2: { intros e; destruct e; opq; reflexivity. }
    opq. norm.
    destruct (Nat.eqb _ _); opq; [reflexivity|]. norm. reflexivity.
  Qed.

  Lemma reduce_product_when_multiplying_by_zero_tied : forall l,
    run gen_sym_Multiply_reduce_product_when_multiplying_by_zero (Mul l) =
    Some (reduce_product_when_multiplying_by_zero N (Mul l)).
  Proof.
    tie0.
    erewrite (anyall_any_VE _ (is_const_eq N (nofZ N 0))).
    2: { intros e; destruct e; opq; reflexivity. }
    opq. destruct (existsb _ _); reflexivity.
  Qed.
  Lemma reduce_by_flattening_nested_sums_tied : forall l,
    run gen_sym_Add_reduce_by_flattening_nested_sums (Add l) = Some (reduce_by_flattening_nested_sums (Add l)).
  Proof.
    tie0.
    pose proof (find_first_split_cls "Add" l 0) as H.
    rewrite (split_first_ext _ is_Add) in H by apply is_cls_Add.
    destruct (split_first is_Add l) as [[[before hit] after]|].
    - destruct H as (H1 & H2 & H3). rewrite H1. opq.
      destruct hit; try discriminate H3. opq.
      rewrite nat_of_of_nat. opq. rewrite nat_of_succ. opq. subst l.
      rewrite slice_before, slice_after. opq. change (skipn 0 (map (@VE T) before)) with (map (@VE T) before).
      rewrite app_nil_r, <- !map_app, as_exprs_VE. reflexivity.
    - rewrite H. reflexivity.
  Qed.

  Lemma reduce_by_flattening_nested_products_tied : forall l,
    run gen_sym_Multiply_reduce_by_flattening_nested_products (Mul l) = Some (reduce_by_flattening_nested_products (Mul l)).
  Proof.
    tie0.
    pose proof (find_first_split_cls "Multiply" l 0) as H.
    rewrite (split_first_ext _ is_Mul) in H by apply is_cls_Mul.
    destruct (split_first is_Mul l) as [[[before hit] after]|].
    - destruct H as (H1 & H2 & H3). rewrite H1. opq.
      destruct hit; try discriminate H3. opq.
      rewrite nat_of_of_nat. opq. rewrite nat_of_succ. opq. subst l.
      rewrite slice_before, slice_after. opq. change (skipn 0 (map (@VE T) before)) with (map (@VE T) before).
      rewrite app_nil_r, <- !map_app, as_exprs_VE. reflexivity.
    - rewrite H. reflexivity.
  Qed.
  Ltac fin :=
    repeat match goal with
           | |- context [map (fun e => VE (@?f e)) ?l] =>
               rewrite <- (map_map f (@VE T) l)
           end;
    repeat match goal with
           | |- context [[VE ?x]] => change [VE x] with (map (@VE T) [x])
           end;
    rewrite <- ?map_app, ?as_exprs_VE; try reflexivity.

  Lemma reduce_product_by_eliminating_negations_tied : forall l,
    run gen_sym_Multiply_reduce_product_by_eliminating_negations (Mul l) =
    Some (reduce_product_by_eliminating_negations N (Mul l)).
  Proof.
    tie0. norm.
    rewrite (filter_is_cls _ is_Neg) by apply is_cls_Neg.
    rewrite (filter_not_is_cls _ is_Neg) by apply is_cls_Neg.
    opq. norm. rewrite Z_of_nat_eqb0.
    destruct (filter is_Neg l) as [|ng negs] eqn:Hn; [reflexivity|].
    rewrite <- Hn. 
    replace (Nat.eqb (List.length (filter is_Neg l)) 0) with false by (rewrite Hn; reflexivity).
    opq.
    erewrite (comp_loop_map _ (@VE T) _ _ (fun e => VE (inner_of e)) (fun _ => true)).
    2: intros; reflexivity.
    2: { intros a Ha _. apply filter_In_true in Ha. destruct a; try discriminate Ha. reflexivity. }
    opq. norm. rewrite Z_even_of_nat.
    destruct (Nat.even _); fin.
  Qed.
  Definition cval (e : E) : T := match e with Const c => c | _ => nofZ N 0 end.

  Lemma as_nums_cval : forall l : list E, as_nums N (map (fun e => VN (cval e)) l) = Some (map cval l).
  Proof. induction l as [|a l IH]; cbn [map as_nums]; [reflexivity | rewrite IH; reflexivity]. Qed.

  Lemma const_values_cval : forall l : list E, map cval (filter is_Const l) = const_values (filter is_Const l).
  Proof.
    induction l as [|a l IH]; [reflexivity|]. cbn [filter].
    destruct a; cbn [is_Const]; try exact IH. cbn [map const_values flat_map cval app]. f_equal. exact IH.
  Qed.

  Lemma reduce_sum_by_consolidating_constants_tied : forall l,
    run gen_sym_Add_reduce_sum_by_consolidating_constants (Add l) =
    Some (reduce_sum_by_consolidating_constants N (Add l)).
  Proof.
    tie0. norm.
    rewrite (filter_is_cls _ is_Const) by apply is_cls_Const.
    rewrite (filter_not_is_cls _ is_Const) by apply is_cls_Const.
    opq. norm.
    destruct (Nat.leb _ 1); opq; [reflexivity|].
    erewrite (comp_loop_map _ (@VE T) _ _ (fun e => VN (cval e)) (fun _ => true)).
    2: intros; reflexivity.
    2: { intros a Ha _. apply filter_In_true in Ha. destruct a; try discriminate Ha. reflexivity. }
    opq. norm. unfold mfcall. rewrite as_nums_cval, const_values_cval. opq. fin.
  Qed.

  Lemma reduce_product_by_consolidating_constants_tied : forall l,
    run gen_sym_Multiply_reduce_product_by_consolidating_constants (Mul l) =
    Some (reduce_product_by_consolidating_constants N (Mul l)).
  Proof.
    tie0. norm.
    rewrite (filter_is_cls _ is_Const) by apply is_cls_Const.
    rewrite (filter_not_is_cls _ is_Const) by apply is_cls_Const.
    opq. norm.
    destruct (Nat.leb _ 1); opq; [reflexivity|].
    erewrite (comp_loop_map _ (@VE T) _ _ (fun e => VN (cval e)) (fun _ => true)).
    2: intros; reflexivity.
    2: { intros a Ha _. apply filter_In_true in Ha. destruct a; try discriminate Ha. reflexivity. }
    opq. norm. unfold mfcall. rewrite as_nums_cval, const_values_cval. opq. fin.
  Qed.
  (** keys of the grouping dictionaries *)
  Definition injP (k : positive) : val (T:=T) := VZ (Zpos k).
  Definition injN (b : T) : val (T:=T) := VN b.
  Lemma injP_eqb : forall a b, key_eqb N (injP a) (injP b) = Pos.eqb a b.
  Proof. reflexivity. Qed.
  Lemma injN_eqb : forall a b, key_eqb N (injN a) (injN b) = neqb N a b.
  Proof. reflexivity. Qed.

  Lemma inner_comp : forall (f : E -> bool) (vs l : list E),
    (forall x, In x vs -> In x (filter f l)) ->
    (forall x, f x = true -> attr (VE x) "_inner" = Some (VE (inner_of x))) ->
    comp_loop (fun it : val => attr it "_inner") (fun _ : val => Some true) (map VE vs)
    = Some (map VE (map inner_of vs)).
  Proof.
    intros f vs l Hin Hattr.
    rewrite (comp_loop_map _ (@VE T) _ _ (fun e => VE (inner_of e)) (fun _ => true)).
    - rewrite filter_true, map_map. reflexivity.
    - intros; reflexivity.
    - intros a Ha _. apply Hattr. apply (filter_In_true _ f l). apply Hin. exact Ha.
  Qed.

  Lemma reduce_product_by_consolidating_nth_powers_tied : forall l,
    run gen_sym_Multiply_reduce_product_by_consolidating_nth_powers (Mul l) =
    Some (reduce_product_by_consolidating_nth_powers (Mul l)).
  Proof.
    tie0. norm.
    rewrite (filter_is_cls _ is_NthPow) by apply is_cls_NthPow.
    rewrite (filter_not_is_cls _ is_NthPow) by apply is_cls_NthPow.
    opq. norm.
    destruct (Nat.leb _ 1); opq; [reflexivity|].
    erewrite (key_loop_map _ (@VE T) _ (fun e => injP (pos_of_nth e))).
    2: { intros a Ha. apply filter_In_true in Ha. destruct a; try discriminate Ha. reflexivity. }
    opq.
    rewrite (groups_of_embed N Pos.eqb injP injP_eqb pos_of_nth).
    opq. rewrite map_map. opq.
    set (groups := group_by_key Pos.eqb pos_of_nth (filter is_NthPow l)).
    assert (Hmem : forall kv, In kv groups -> forall x, In x (snd kv) -> In x (filter is_NthPow l)).
    { intros [k vs] Hkv x Hx. exact (group_members Pos.eqb pos_of_nth _ k vs x Hkv Hx). }
    erewrite (anyall_all_map _ (fun x : positive * list E => VL (map VE (snd x))) _
                (fun kv => Nat.leb (List.length (snd kv)) 1)).
    2: { intros a _. opq. rewrite map_length, Z_of_nat_leb1. reflexivity. }
    opq. fold (all_singletons groups).
    destruct (all_singletons groups); opq; [reflexivity|].
    erewrite (kv_loop_map _ _ (fun kv : positive * list E => injP (fst kv))
                (fun kv => VL (map VE (snd kv))) _
                (fun kv => (injP (fst kv), VL (map VE (map inner_of (snd kv)))))).
    2: { intros a Ha. opq.
         rewrite (inner_comp is_NthPow (snd a) l (Hmem a Ha)).
         - reflexivity.
         - intros x Hx. destruct x; try discriminate Hx. reflexivity. }
    opq.
    erewrite (kv_loop_map _ _ (fun kv : positive * list E => injP (fst kv))
                (fun kv => VL (map VE (map inner_of (snd kv)))) _
                (fun kv => VE (NthPow (Mul (map inner_of (snd kv))) (fst kv)))).
    2: { intros a _. opq. norm. reflexivity. }
    opq. norm. fin.
  Qed.
  Lemma reduce_product_by_consolidating_nth_roots_tied : forall l,
    run gen_sym_Multiply_reduce_product_by_consolidating_nth_roots (Mul l) =
    Some (reduce_product_by_consolidating_nth_roots (Mul l)).
  Proof.
    tie0. norm.
    rewrite (filter_is_cls _ is_NthRoot) by apply is_cls_NthRoot.
    rewrite (filter_not_is_cls _ is_NthRoot) by apply is_cls_NthRoot.
    opq. norm.
    destruct (Nat.leb _ 1); opq; [reflexivity|].
    erewrite (key_loop_map _ (@VE T) _ (fun e => injP (pos_of_nth e))).
    2: { intros a Ha. apply filter_In_true in Ha. destruct a; try discriminate Ha. reflexivity. }
    opq.
    rewrite (groups_of_embed N Pos.eqb injP injP_eqb pos_of_nth).
    opq. rewrite map_map. opq.
    set (groups := group_by_key Pos.eqb pos_of_nth (filter is_NthRoot l)).
    assert (Hmem : forall kv, In kv groups -> forall x, In x (snd kv) -> In x (filter is_NthRoot l)).
    { intros [k vs] Hkv x Hx. exact (group_members Pos.eqb pos_of_nth _ k vs x Hkv Hx). }
    erewrite (anyall_all_map _ (fun x : positive * list E => VL (map VE (snd x))) _
                (fun kv => Nat.leb (List.length (snd kv)) 1)).
    2: { intros a _. opq. rewrite map_length, Z_of_nat_leb1. reflexivity. }
    opq. fold (all_singletons groups).
    destruct (all_singletons groups); opq; [reflexivity|].
    erewrite (kv_loop_map _ _ (fun kv : positive * list E => injP (fst kv))
                (fun kv => VL (map VE (snd kv))) _
                (fun kv => (injP (fst kv), VL (map VE (map inner_of (snd kv)))))).
    2: { intros a Ha. opq.
         rewrite (inner_comp is_NthRoot (snd a) l (Hmem a Ha)).
         - reflexivity.
         - intros x Hx. destruct x; try discriminate Hx. reflexivity. }
    opq.
    erewrite (kv_loop_map _ _ (fun kv : positive * list E => injP (fst kv))
                (fun kv => VL (map VE (map inner_of (snd kv)))) _
                (fun kv => VE (NthRoot (Mul (map inner_of (snd kv))) (fst kv)))).
    2: { intros a _. opq. norm. reflexivity. }
    opq. norm. fin.
  Qed.
  Lemma reduce_product_by_consolidating_exponentials_tied : forall l,
    run gen_sym_Multiply_reduce_product_by_consolidating_exponentials (Mul l) =
    Some (reduce_product_by_consolidating_exponentials N (Mul l)).
  Proof.
    tie0. norm.
    rewrite (filter_is_cls _ is_Exp) by apply is_cls_Exp.
    rewrite (filter_not_is_cls _ is_Exp) by apply is_cls_Exp.
    opq. norm.
    destruct (Nat.leb _ 1); opq; [reflexivity|].
    erewrite (key_loop_map _ (@VE T) _ (fun e => injN ((base_of N) e))).
    2: { intros a Ha. apply filter_In_true in Ha. destruct a; try discriminate Ha. reflexivity. }
    opq.
    rewrite (groups_of_embed N (neqb N) injN injN_eqb (base_of N)).
    opq. rewrite map_map. opq.
    set (groups := group_by_key (neqb N) (base_of N) (filter is_Exp l)).
    assert (Hmem : forall kv, In kv groups -> forall x, In x (snd kv) -> In x (filter is_Exp l)).
    { intros [k vs] Hkv x Hx. exact (group_members (neqb N) (base_of N) _ k vs x Hkv Hx). }
    erewrite (anyall_all_map _ (fun x : T * list E => VL (map VE (snd x))) _
                (fun kv => Nat.leb (List.length (snd kv)) 1)).
    2: { intros a _. opq. rewrite map_length, Z_of_nat_leb1. reflexivity. }
    opq. fold (all_singletons groups).
    destruct (all_singletons groups); opq; [reflexivity|].
    erewrite (kv_loop_map _ _ (fun kv : T * list E => injN (fst kv))
                (fun kv => VL (map VE (snd kv))) _
                (fun kv => (injN (fst kv), VL (map VE (map inner_of (snd kv)))))).
    2: { intros a Ha. opq.
         rewrite (inner_comp is_Exp (snd a) l (Hmem a Ha)).
         - reflexivity.
         - intros x Hx. destruct x; try discriminate Hx. reflexivity. }
    opq.
    erewrite (kv_loop_map _ _ (fun kv : T * list E => injN (fst kv))
                (fun kv => VL (map VE (map inner_of (snd kv)))) _
                (fun kv => VE (Exp (Add (map inner_of (snd kv))) (fst kv)))).
    2: { intros a _. opq. norm. reflexivity. }
    opq. norm. fin.
  Qed.
  Lemma reduce_sum_by_consolidating_logarithms_tied : forall l,
    run gen_sym_Add_reduce_sum_by_consolidating_logarithms (Add l) =
    Some (reduce_sum_by_consolidating_logarithms N (Add l)).
  Proof.
    tie0. norm.
    rewrite (filter_is_cls _ is_Log) by apply is_cls_Log.
    rewrite (filter_not_is_cls _ is_Log) by apply is_cls_Log.
    opq. norm.
    destruct (Nat.leb _ 1); opq; [reflexivity|].
    erewrite (key_loop_map _ (@VE T) _ (fun e => injN ((base_of N) e))).
    2: { intros a Ha. apply filter_In_true in Ha. destruct a; try discriminate Ha. reflexivity. }
    opq.
    rewrite (groups_of_embed N (neqb N) injN injN_eqb (base_of N)).
    opq. rewrite map_map. opq.
    set (groups := group_by_key (neqb N) (base_of N) (filter is_Log l)).
    assert (Hmem : forall kv, In kv groups -> forall x, In x (snd kv) -> In x (filter is_Log l)).
    { intros [k vs] Hkv x Hx. exact (group_members (neqb N) (base_of N) _ k vs x Hkv Hx). }
    erewrite (anyall_all_map _ (fun x : T * list E => VL (map VE (snd x))) _
                (fun kv => Nat.leb (List.length (snd kv)) 1)).
    2: { intros a _. opq. rewrite map_length, Z_of_nat_leb1. reflexivity. }
    opq. fold (all_singletons groups).
    destruct (all_singletons groups); opq; [reflexivity|].
    erewrite (kv_loop_map _ _ (fun kv : T * list E => injN (fst kv))
                (fun kv => VL (map VE (snd kv))) _
                (fun kv => (injN (fst kv), VL (map VE (map inner_of (snd kv)))))).
    2: { intros a Ha. opq.
         rewrite (inner_comp is_Log (snd a) l (Hmem a Ha)).
         - reflexivity.
         - intros x Hx. destruct x; try discriminate Hx. reflexivity. }
    opq.
    erewrite (kv_loop_map _ _ (fun kv : T * list E => injN (fst kv))
                (fun kv => VL (map VE (map inner_of (snd kv)))) _
                (fun kv => VE (Log (Mul (map inner_of (snd kv))) (fst kv)))).
    2: { intros a _. opq. norm. reflexivity. }
    opq. norm. fin.
  Qed.
  (** ** The whole reducer pass, regenerated from the source: for the class of [e], the names listed
      by its [_reducers] property in order (Generated.gen_reducers), each looked up among the
      translated method bodies (GeneratedSym.gen_sym_reducers), tried in turn. *)
  Fixpoint lookup_names (c : string) (t : list (string * list string)) : list string :=
    match t with
    | [] => []
    | (c', ns) :: r => if String.eqb c c' then ns else lookup_names c r
    end.

  Fixpoint lookup_body (c m : string) (t : list (string * string * sfun)) : option sfun :=
    match t with
    | [] => None
    | (c', m', f) :: r => if String.eqb c c' && String.eqb m m' then Some f else lookup_body c m r
    end.

  (* None = stuck (a missing body or a Python type error) *)
  Fixpoint gen_first_reducer (c : string) (names : list string) (e : E) : option (option (string * E)) :=
    match names with
    | [] => Some None
    | nm :: r =>
        match lookup_body c nm gen_sym_reducers with
        | None => None
        | Some f =>
            match run f e with
            | Some (Some e') => Some (Some (nm, e'))
            | Some None => gen_first_reducer c r e
            | None => None
            end
        end
    end.

  Definition gen_apply_reducers (e : E) : option (option (string * E)) :=
    gen_first_reducer (cls_of e) (lookup_names (cls_of e) gen_reducers) e.

  Ltac step_rule :=
    match goal with
    | |- context [run ?g ?e] =>
        first
          [ rewrite reduce_by_flattening_nested_sums_tied | rewrite reduce_sum_by_eliminating_zeros_tied
          | rewrite reduce_sum_by_consolidating_logarithms_tied | rewrite reduce_sum_by_consolidating_constants_tied
          | rewrite reduce_minus_to_sum_with_negation_tied | rewrite reduce_negation_of_negation_tied
          | rewrite reduce_negation_of_sum_tied | rewrite reduce_by_flattening_nested_products_tied
          | rewrite reduce_product_when_multiplying_by_zero_tied | rewrite reduce_product_by_eliminating_ones_tied
          | rewrite reduce_product_by_eliminating_negations_tied | rewrite reduce_product_by_consolidating_nth_powers_tied
          | rewrite reduce_product_by_consolidating_nth_roots_tied | rewrite reduce_product_by_consolidating_exponentials_tied
          | rewrite reduce_product_by_consolidating_constants_tied | rewrite reduce_divide_to_multiplying_with_reciprocal_tied
          | rewrite reduce_reciprocal_of_reciprocal_tied | rewrite reduce_reciprocal_of_negation_tied
          | rewrite reduce_reciprocal_of_product_tied | rewrite reduce_u_to_the_one_tied
          | rewrite reduce_u_to_the_zero_tied | rewrite reduce_one_to_the_u_tied
          | rewrite reduce_u_to_the_n_at_least_two_tied | rewrite reduce_u_to_the_negative_one_tied
          | rewrite reduce_power_with_constant_base_tied | rewrite reduce_power_of_power_tied
          | rewrite reduce_u_to_the_negation_of_v_tied | rewrite reduce_reciprocal_u_to_the_v_tied
          | rewrite reduce_nth_power_where_n_is_one_tied | rewrite reduce_nth_power_of_mth_root_tied
          | rewrite reduce_nth_power_of_mth_power_tied | rewrite reduce_nth_power_of_negation_tied
          | rewrite reduce_nth_power_of_reciprocal_tied | rewrite reduce_nth_power_of_exponential_tied
          | rewrite reduce_nth_root_where_n_is_one_tied | rewrite reduce_nth_root_of_mth_power_tied
          | rewrite reduce_nth_root_of_mth_root_tied | rewrite reduce_odd_nth_root_of_negation_tied
          | rewrite reduce_nth_root_of_reciprocal_tied | rewrite reduce_exponential_of_logarithm_tied
          | rewrite reduce_exponential_of_negation_tied | rewrite reduce_logarithm_of_exponential_tied
          | rewrite reduce_logarithm_of_reciprocal_tied | rewrite reduce_logarithm_of_nth_power_tied
          | rewrite reduce_cosine_of_negation_tied | rewrite reduce_sine_of_negation_tied ]
    end.

  Theorem reducer_pass_tied : forall e : E, gen_apply_reducers e = Some (apply_reducers N e).
  Proof.
    intros e. unfold gen_apply_reducers, apply_reducers.
    destruct e; cbn [cls_of lookup_names gen_reducers String.eqb Ascii.eqb Bool.eqb reducers_of
                     gen_first_reducer lookup_body gen_sym_reducers andb first_reducer
                     reducers_Add reducers_Minus reducers_Negation reducers_Multiply reducers_Divide
                     reducers_Reciprocal reducers_Power reducers_NthPower reducers_NthRoot
                     reducers_Exponential reducers_Logarithm reducers_Cosine reducers_Sine];
      try reflexivity;
      repeat (step_rule;
              match goal with
              | |- context [match ?r with Some _ => _ | None => _ end] =>
                  lazymatch r with
                  | context [match _ with _ => _ end] => fail
                  | _ => destruct r; try reflexivity
                  end
              end).
  Qed.
End Tie.
