(** * Rules: every _reduce_* method as a partial function  expr -> option expr, and the
    per-class reducer lists in source order.  [None] = the reducer returned None. *)
From Coq Require Import ZArith List Bool String.
From SM Require Import Num Syntax Outcome MathFun Eval.
Import ListNotations.
Open Scope string_scope.
Open Scope list_scope.

Section Rules.
  Context {T : Type} (N : NumOps T).
  Notation E := (expr T).
  Notation C0 := (Const (n0 N)).
  Notation C1 := (Const (n1 N)).

  (** ** helpers (utilities.py, base_expression/expression.py) *)

  (* be.partition_by_given_type: (hits, misses), both in the original order *)
  Definition partition_by (f : E -> bool) (l : list E) : list E * list E :=
    (filter f l, filter (fun x => negb (f x)) l).

  (* be.first_of_given_type: (before, hit, after) *)
  Fixpoint split_first (f : E -> bool) (l : list E) : option (list E * E * list E) :=
    match l with
    | [] => None
    | x :: r =>
        if f x then Some ([], x, r)
        else match split_first f r with
             | Some (b, h, a) => Some (x :: b, h, a)
             | None => None
             end
    end.

  (* util.group_by_key: groups in first-occurrence order of their key, members in order;
     the key kept is that of the first member (a dict keeps its first key object). *)
  Section Group.
    Context {K V : Type} (keqb : K -> K -> bool).
    Fixpoint group_insert (k : K) (v : V) (g : list (K * list V)) : list (K * list V) :=
      match g with
      | [] => [(k, [v])]
      | (k', vs) :: r =>
          if keqb k k' then (k', vs ++ [v]) :: r else (k', vs) :: group_insert k v r
      end.
    Definition group_by_key (key : V -> K) (l : list V) : list (K * list V) :=
      fold_left (fun g v => group_insert (key v) v g) l [].
  End Group.

  Definition is_const_eq (c : T) (e : E) : bool :=
    match e with Const v => neqb N v c | _ => false end.

  Definition const_values (l : list E) : list T :=
    flat_map (fun e => match e with Const v => [v] | _ => [] end) l.

  Definition all_singletons {K V} (g : list (K * list V)) : bool :=
    forallb (fun kv => Nat.leb (List.length (snd kv)) 1) g.

  Definition pos_of_nth (e : E) : positive :=
    match e with NthPow _ n | NthRoot _ n => n | _ => 1%positive end.
  Definition base_of (e : E) : T :=
    match e with Exp _ b | Log _ b => b | _ => n0 N end.

  (** ** Add *)
  Definition reduce_by_flattening_nested_sums (e : E) : option E :=
    match e with
    | Add l => match split_first is_Add l with
               | Some (before, Add nested, after) => Some (Add (before ++ nested ++ after))
               | _ => None
               end
    | _ => None
    end.

  Definition reduce_sum_by_eliminating_zeros (e : E) : option E :=
    match e with
    | Add l =>
        let non_zeros := filter (fun x => negb (is_const_eq (n0 N) x)) l in
        if Nat.eqb (List.length non_zeros) (List.length l) then None else Some (Add non_zeros)
    | _ => None
    end.

  Definition reduce_sum_by_consolidating_logarithms (e : E) : option E :=
    match e with
    | Add l =>
        let (logs, non_logs) := partition_by is_Log l in
        if Nat.leb (List.length logs) 1 then None
        else
          let groups := group_by_key (neqb N) base_of logs in
          if all_singletons groups then None
          else Some (Add (non_logs ++
                          map (fun kv => Log (Mul (map inner_of (snd kv))) (fst kv)) groups))
    | _ => None
    end.

  Definition reduce_sum_by_consolidating_constants (e : E) : option E :=
    match e with
    | Add l =>
        let (consts, non_consts) := partition_by is_Const l in
        if Nat.leb (List.length consts) 1 then None
        else Some (Add (non_consts ++ [Const (mf_add N (const_values consts))]))
    | _ => None
    end.

  (** ** Minus *)
  Definition reduce_minus_to_sum_with_negation (e : E) : option E :=
    match e with
    | Minus a b => Some (Add [a; Neg b])
    | _ => None
    end.

  (** ** Negation *)
  Definition reduce_negation_of_negation (e : E) : option E :=
    match e with
    | Neg (Neg u) => Some u
    | _ => None
    end.

  Definition reduce_negation_of_sum (e : E) : option E :=
    match e with
    | Neg (Add l) => Some (Add (map Neg l))
    | _ => None
    end.

  (** ** Multiply *)
  Definition reduce_by_flattening_nested_products (e : E) : option E :=
    match e with
    | Mul l => match split_first is_Mul l with
               | Some (before, Mul nested, after) => Some (Mul (before ++ nested ++ after))
               | _ => None
               end
    | _ => None
    end.

  Definition reduce_product_when_multiplying_by_zero (e : E) : option E :=
    match e with
    | Mul l => if existsb (is_const_eq (n0 N)) l then Some C0 else None
    | _ => None
    end.

  Definition reduce_product_by_eliminating_ones (e : E) : option E :=
    match e with
    | Mul l =>
        let non_ones := filter (fun x => negb (is_const_eq (n1 N) x)) l in
        if Nat.eqb (List.length non_ones) (List.length l) then None else Some (Mul non_ones)
    | _ => None
    end.

  Definition reduce_product_by_eliminating_negations (e : E) : option E :=
    match e with
    | Mul l =>
        let (negs, non_negs) := partition_by is_Neg l in
        match negs with
        | [] => None
        | _ =>
            if Nat.even (List.length negs)
            then Some (Mul (non_negs ++ map inner_of negs))
            else Some (Mul (non_negs ++ map inner_of negs ++ [Const (nm1 N)]))
        end
    | _ => None
    end.

  Definition reduce_product_by_consolidating_nth_powers (e : E) : option E :=
    match e with
    | Mul l =>
        let (pows, non_pows) := partition_by is_NthPow l in
        if Nat.leb (List.length pows) 1 then None
        else
          let groups := group_by_key Pos.eqb pos_of_nth pows in
          if all_singletons groups then None
          else Some (Mul (non_pows ++
                          map (fun kv => NthPow (Mul (map inner_of (snd kv))) (fst kv)) groups))
    | _ => None
    end.

  Definition reduce_product_by_consolidating_nth_roots (e : E) : option E :=
    match e with
    | Mul l =>
        let (roots, non_roots) := partition_by is_NthRoot l in
        if Nat.leb (List.length roots) 1 then None
        else
          let groups := group_by_key Pos.eqb pos_of_nth roots in
          if all_singletons groups then None
          else Some (Mul (non_roots ++
                          map (fun kv => NthRoot (Mul (map inner_of (snd kv))) (fst kv)) groups))
    | _ => None
    end.

  Definition reduce_product_by_consolidating_exponentials (e : E) : option E :=
    match e with
    | Mul l =>
        let (exps, non_exps) := partition_by is_Exp l in
        if Nat.leb (List.length exps) 1 then None
        else
          let groups := group_by_key (neqb N) base_of exps in
          if all_singletons groups then None
          else Some (Mul (non_exps ++
                          map (fun kv => Exp (Add (map inner_of (snd kv))) (fst kv)) groups))
    | _ => None
    end.

  Definition reduce_product_by_consolidating_constants (e : E) : option E :=
    match e with
    | Mul l =>
        let (consts, non_consts) := partition_by is_Const l in
        if Nat.leb (List.length consts) 1 then None
        else Some (Mul (non_consts ++ [Const (mf_multiply N (const_values consts))]))
    | _ => None
    end.

  (** ** Divide *)
  Definition reduce_divide_to_multiplying_with_reciprocal (e : E) : option E :=
    match e with
    | Divide a b => Some (Mul [a; Recip b])
    | _ => None
    end.

  (** ** Reciprocal *)
  Definition reduce_reciprocal_of_reciprocal (e : E) : option E :=
    match e with
    | Recip (Recip u) => Some u
    | _ => None
    end.

  Definition reduce_reciprocal_of_negation (e : E) : option E :=
    match e with
    | Recip (Neg u) => Some (Neg (Recip u))
    | _ => None
    end.

  Definition reduce_reciprocal_of_product (e : E) : option E :=
    match e with
    | Recip (Mul l) => Some (Mul (map Recip l))
    | _ => None
    end.

  (** ** Power *)
  Definition reduce_u_to_the_one (e : E) : option E :=
    match e with
    | Power u (Const c) => if neqb N c (n1 N) then Some u else None
    | _ => None
    end.

  Definition reduce_u_to_the_zero (e : E) : option E :=
    match e with
    | Power u (Const c) => if neqb N c (n0 N) then Some C1 else None
    | _ => None
    end.

  Definition reduce_one_to_the_u (e : E) : option E :=
    match e with
    | Power (Const c) u => if neqb N c (n1 N) then Some C1 else None
    | _ => None
    end.

  Definition reduce_u_to_the_n_at_least_two (e : E) : option E :=
    match e with
    | Power u (Const c) =>
        match nint N c with
        | Some z => if Z.leb 2 z then Some (NthPow u (Z.to_pos z)) else None
        | None => None
        end
    | _ => None
    end.

  Definition reduce_u_to_the_negative_one (e : E) : option E :=
    match e with
    | Power u (Const c) => if neqb N c (nm1 N) then Some (Recip u) else None
    | _ => None
    end.

  Definition reduce_power_with_constant_base (e : E) : option E :=
    match e with
    | Power (Const c) u =>
        if nltb N (n0 N) c && negb (neqb N c (n1 N)) then Some (Exp u c) else None
    | _ => None
    end.

  Definition reduce_power_of_power (e : E) : option E :=
    match e with
    | Power (Power u v) w => Some (Power u (Mul [v; w]))
    | _ => None
    end.

  Definition reduce_u_to_the_negation_of_v (e : E) : option E :=
    match e with
    | Power u (Neg v) => Some (Recip (Power u v))
    | _ => None
    end.

  Definition reduce_reciprocal_u_to_the_v (e : E) : option E :=
    match e with
    | Power (Recip u) v => Some (Recip (Power u v))
    | _ => None
    end.

  (** ** NthPower *)
  Definition reduce_nth_power_where_n_is_one (e : E) : option E :=
    match e with
    | NthPow u n => if Pos.eqb n 1 then Some u else None
    | _ => None
    end.

  Definition reduce_nth_power_of_mth_root (e : E) : option E :=
    match e with
    | NthPow (NthRoot u m) n =>
        if Pos.eqb m n then Some u
        else
          let g := Pos.gcd m n in
          if Pos.eqb g 1 then None
          else Some (NthPow (NthRoot u (Z.to_pos (Zpos m / Zpos g))) (Z.to_pos (Zpos n / Zpos g)))
    | _ => None
    end.

  Definition reduce_nth_power_of_mth_power (e : E) : option E :=
    match e with
    | NthPow (NthPow u m) n => Some (NthPow u (n * m))
    | _ => None
    end.

  Definition reduce_nth_power_of_negation (e : E) : option E :=
    match e with
    | NthPow (Neg u) n =>
        if Z.even (Zpos n) then Some (NthPow u n) else Some (Neg (NthPow u n))
    | _ => None
    end.

  Definition reduce_nth_power_of_reciprocal (e : E) : option E :=
    match e with
    | NthPow (Recip u) n => Some (Recip (NthPow u n))
    | _ => None
    end.

  Definition reduce_nth_power_of_exponential (e : E) : option E :=
    match e with
    | NthPow (Exp u b) n => Some (Exp (Mul [Const (nofZ N (Zpos n)); u]) b)
    | _ => None
    end.

  (** ** NthRoot *)
  Definition reduce_nth_root_where_n_is_one (e : E) : option E :=
    match e with
    | NthRoot u n => if Pos.eqb n 1 then Some u else None
    | _ => None
    end.

  Definition reduce_nth_root_of_mth_power (e : E) : option E :=
    match e with
    | NthRoot (NthPow u m) n => Some (NthPow (NthRoot u n) m)
    | _ => None
    end.

  Definition reduce_nth_root_of_mth_root (e : E) : option E :=
    match e with
    | NthRoot (NthRoot u m) n => Some (NthRoot u (n * m))
    | _ => None
    end.

  Definition reduce_odd_nth_root_of_negation (e : E) : option E :=
    match e with
    | NthRoot (Neg u) n => if Z.odd (Zpos n) then Some (Neg (NthRoot u n)) else None
    | _ => None
    end.

  Definition reduce_nth_root_of_reciprocal (e : E) : option E :=
    match e with
    | NthRoot (Recip u) n => Some (Recip (NthRoot u n))
    | _ => None
    end.

  (** ** Exponential *)
  Definition reduce_exponential_of_logarithm (e : E) : option E :=
    match e with
    | Exp (Log u b') b => if neqb N b b' then Some u else None
    | _ => None
    end.

  Definition reduce_exponential_of_negation (e : E) : option E :=
    match e with
    | Exp (Neg u) b => Some (Recip (Exp u b))
    | _ => None
    end.

  (** ** Logarithm *)
  Definition reduce_logarithm_of_exponential (e : E) : option E :=
    match e with
    | Log (Exp u b') b => if neqb N b b' then Some u else None
    | _ => None
    end.

  Definition reduce_logarithm_of_reciprocal (e : E) : option E :=
    match e with
    | Log (Recip u) b => Some (Neg (Log u b))
    | _ => None
    end.

  Definition reduce_logarithm_of_nth_power (e : E) : option E :=
    match e with
    | Log (NthPow u n) b =>
        if Z.odd (Zpos n) then Some (Mul [Const (nofZ N (Zpos n)); Log u b]) else None
    | _ => None
    end.

  (** ** Cosine, Sine *)
  Definition reduce_cosine_of_negation (e : E) : option E :=
    match e with
    | Cos (Neg u) => Some (Cos u)
    | _ => None
    end.

  Definition reduce_sine_of_negation (e : E) : option E :=
    match e with
    | Sin (Neg u) => Some (Neg (Sin u))
    | _ => None
    end.

  (** ** The per-class reducer lists, in source order (tied to the source by Tie.v) *)
  Definition rule := (string * (E -> option E))%type.

  Definition reducers_Add : list rule :=
    [ ("_reduce_by_flattening_nested_sums", reduce_by_flattening_nested_sums);
      ("_reduce_sum_by_eliminating_zeros", reduce_sum_by_eliminating_zeros);
      ("_reduce_sum_by_consolidating_logarithms", reduce_sum_by_consolidating_logarithms);
      ("_reduce_sum_by_consolidating_constants", reduce_sum_by_consolidating_constants) ].
  Definition reducers_Minus : list rule :=
    [ ("_reduce_minus_to_sum_with_negation", reduce_minus_to_sum_with_negation) ].
  Definition reducers_Negation : list rule :=
    [ ("_reduce_negation_of_negation", reduce_negation_of_negation);
      ("_reduce_negation_of_sum", reduce_negation_of_sum) ].
  Definition reducers_Multiply : list rule :=
    [ ("_reduce_by_flattening_nested_products", reduce_by_flattening_nested_products);
      ("_reduce_product_when_multiplying_by_zero", reduce_product_when_multiplying_by_zero);
      ("_reduce_product_by_eliminating_ones", reduce_product_by_eliminating_ones);
      ("_reduce_product_by_eliminating_negations", reduce_product_by_eliminating_negations);
      ("_reduce_product_by_consolidating_nth_powers", reduce_product_by_consolidating_nth_powers);
      ("_reduce_product_by_consolidating_nth_roots", reduce_product_by_consolidating_nth_roots);
      ("_reduce_product_by_consolidating_exponentials", reduce_product_by_consolidating_exponentials);
      ("_reduce_product_by_consolidating_constants", reduce_product_by_consolidating_constants) ].
  Definition reducers_Divide : list rule :=
    [ ("_reduce_divide_to_multiplying_with_reciprocal", reduce_divide_to_multiplying_with_reciprocal) ].
  Definition reducers_Reciprocal : list rule :=
    [ ("_reduce_reciprocal_of_reciprocal", reduce_reciprocal_of_reciprocal);
      ("_reduce_reciprocal_of_negation", reduce_reciprocal_of_negation);
      ("_reduce_reciprocal_of_product", reduce_reciprocal_of_product) ].
  Definition reducers_Power : list rule :=
    [ ("_reduce_u_to_the_one", reduce_u_to_the_one);
      ("_reduce_u_to_the_zero", reduce_u_to_the_zero);
      ("_reduce_one_to_the_u", reduce_one_to_the_u);
      ("_reduce_u_to_the_n_at_least_two", reduce_u_to_the_n_at_least_two);
      ("_reduce_u_to_the_negative_one", reduce_u_to_the_negative_one);
      ("_reduce_power_with_constant_base", reduce_power_with_constant_base);
      ("_reduce_power_of_power", reduce_power_of_power);
      ("_reduce_u_to_the_negation_of_v", reduce_u_to_the_negation_of_v);
      ("_reduce_reciprocal_u__to_the_v", reduce_reciprocal_u_to_the_v) ].
  Definition reducers_NthPower : list rule :=
    [ ("_reduce_nth_power_where_n_is_one", reduce_nth_power_where_n_is_one);
      ("_reduce_nth_power_of_mth_root", reduce_nth_power_of_mth_root);
      ("_reduce_nth_power_of_mth_power", reduce_nth_power_of_mth_power);
      ("_reduce_nth_power_of_negation", reduce_nth_power_of_negation);
      ("_reduce_nth_power_of_reciprocal", reduce_nth_power_of_reciprocal);
      ("_reduce_nth_power_of_exponential", reduce_nth_power_of_exponential) ].
  Definition reducers_NthRoot : list rule :=
    [ ("_reduce_nth_root_where_n_is_one", reduce_nth_root_where_n_is_one);
      ("_reduce_nth_root_of_mth_power", reduce_nth_root_of_mth_power);
      ("_reduce_nth_root_of_mth_root", reduce_nth_root_of_mth_root);
      ("_reduce_odd_nth_root_of_negation", reduce_odd_nth_root_of_negation);
      ("_reduce_nth_root_of_reciprocal", reduce_nth_root_of_reciprocal) ].
  Definition reducers_Exponential : list rule :=
    [ ("_reduce_exponential_of_logarithm", reduce_exponential_of_logarithm);
      ("_reduce_exponential_of_negation", reduce_exponential_of_negation) ].
  Definition reducers_Logarithm : list rule :=
    [ ("_reduce_logarithm_of_exponential", reduce_logarithm_of_exponential);
      ("_reduce_logarithm_of_reciprocal", reduce_logarithm_of_reciprocal);
      ("_reduce_logarithm_of_nth_power", reduce_logarithm_of_nth_power) ].
  Definition reducers_Cosine : list rule :=
    [ ("_reduce_cosine_of_negation", reduce_cosine_of_negation) ].
  Definition reducers_Sine : list rule :=
    [ ("_reduce_sine_of_negation", reduce_sine_of_negation) ].

  Definition reducers_of (e : E) : list rule :=
    match e with
    | Const _ | Var _ => []
    | Add _ => reducers_Add
    | Mul _ => reducers_Multiply
    | Minus _ _ => reducers_Minus
    | Divide _ _ => reducers_Divide
    | Power _ _ => reducers_Power
    | Neg _ => reducers_Negation
    | Recip _ => reducers_Reciprocal
    | Sin _ => reducers_Sine
    | Cos _ => reducers_Cosine
    | NthPow _ _ => reducers_NthPower
    | NthRoot _ _ => reducers_NthRoot
    | Exp _ _ => reducers_Exponential
    | Log _ _ => reducers_Logarithm
    end.

  (* for reducer in self._reducers: reduced = reducer(); if reduced is not None: return reduced *)
  Fixpoint first_reducer (rs : list rule) (e : E) : option (string * E) :=
    match rs with
    | [] => None
    | (nm, f) :: r => match f e with Some e' => Some (nm, e') | None => first_reducer r e end
    end.

  Definition apply_reducers (e : E) : option (string * E) := first_reducer (reducers_of e) e.

  (** All rules of all classes (for "one application of any rule"). *)
  Definition all_rules : list rule :=
    reducers_Add ++ reducers_Minus ++ reducers_Negation ++ reducers_Multiply ++ reducers_Divide ++
    reducers_Reciprocal ++ reducers_Power ++ reducers_NthPower ++ reducers_NthRoot ++
    reducers_Exponential ++ reducers_Logarithm ++ reducers_Cosine ++ reducers_Sine.
End Rules.
