(** * RebuildAst: the one-line methods through which rewriting re-creates a node — [_rebuild] of the
    four base classes and of Constant / Variable — and the read-only properties [n], [base], [value],
    [name]; a deep embedding and an interpreter.  The other embeddings use these as primitives
    (StepAst.trebuild, SymAst's attributes n / base / value / name); GeneratedRebuild.v holds the
    CURRENT source, TieRebuild.v proves it computes those primitives.

    Meaning given to [self.__class__(args)] and [Constant(x)] / [Variable(x)]: the node of that class
    with those children and that parameter (the constructors' validation is the business of
    TieCtor.v; the arguments here are existing expressions and the node's own stored parameter). *)
From Coq Require Import ZArith List Bool String Ascii.
From SM Require Import Num Syntax.
Import ListNotations.
Open Scope string_scope.
Open Scope list_scope.

Inductive px : Type :=
| PName (x : string)                       (* a parameter of the method *)
| PField (f : string)                      (* self._f / self.f *)
| PSelfClass (args : list (string * px))   (* self.__class__(args); kind "*" = starred *)
| PCtor (cls : string) (arg : px).         (* Constant(arg), Variable(arg) *)

Record pfun : Type := mkPFun { p_params : list string; p_star : bool; p_ret : px }.

Section Interp.
  Context {T : Type}.
  Notation E := (expr T).

  Inductive pval : Type :=
  | PVE (e : E)
  | PVL (l : list E)
  | PVN (x : T)
  | PVPos (n : positive)
  | PVName (v : name).

  Definition penv := list (string * pval).
  Fixpoint plook (x : string) (r : penv) : option pval :=
    match r with
    | [] => None
    | (y, w) :: r' => if String.eqb x y then Some w else plook x r'
    end.

  (** the stored fields *)
  Definition pfield (self : E) (f : string) : option pval :=
    if String.eqb f "_parameter" then
      match self with
      | NthPow _ n | NthRoot _ n => Some (PVPos n)
      | Exp _ b | Log _ b => Some (PVN b)
      | _ => None
      end
    else if String.eqb f "value" then
      match self with Const c => Some (PVN c) | _ => None end
    else if String.eqb f "name" then
      match self with Var x => Some (PVName x) | _ => None end
    else None.

  (** the public read-only properties [n] and [base], as the other embeddings read them *)
  Definition pproperty (self : E) (f : string) : option pval :=
    if String.eqb f "n" then match self with NthPow _ n | NthRoot _ n => Some (PVPos n) | _ => None end
    else if String.eqb f "base" then match self with Exp _ b | Log _ b => Some (PVN b) | _ => None end
    else None.

  (** self.__class__(args) *)
  Definition pnew_same (self : E) (args : list pval) : option E :=
    match self, args with
    | Add _, l => option_map Add (fold_right (fun a acc => match a, acc with PVE e, Some es => Some (e :: es) | _, _ => None end) (Some []) l)
    | Mul _, l => option_map Mul (fold_right (fun a acc => match a, acc with PVE e, Some es => Some (e :: es) | _, _ => None end) (Some []) l)
    | Minus _ _, [PVE a; PVE b] => Some (Minus a b)
    | Divide _ _, [PVE a; PVE b] => Some (Divide a b)
    | Power _ _, [PVE a; PVE b] => Some (Power a b)
    | Neg _, [PVE a] => Some (Neg a)
    | Recip _, [PVE a] => Some (Recip a)
    | Sin _, [PVE a] => Some (Sin a)
    | Cos _, [PVE a] => Some (Cos a)
    | NthPow _ _, [PVE a; PVPos n] => Some (NthPow a n)
    | NthRoot _ _, [PVE a; PVPos n] => Some (NthRoot a n)
    | Exp _ _, [PVE a; PVN b] => Some (Exp a b)
    | Log _ _, [PVE a; PVN b] => Some (Log a b)
    | _, _ => None
    end.

  Fixpoint pev (self : E) (r : penv) (t : px) {struct t} : option pval :=
    let pargs :=
      fix pargs (l : list (string * px)) : option (list pval) :=
        match l with
        | [] => Some []
        | (k, a) :: rest =>
            match pev self r a, pargs rest with
            | Some v, Some vs =>
                if String.eqb k "*" then
                  match v with PVL items => Some (map PVE items ++ vs) | _ => None end
                else Some (v :: vs)
            | _, _ => None
            end
        end in
    match t with
    | PName x => plook x r
    | PField f => pfield self f
    | PSelfClass args => match pargs args with Some vs => option_map PVE (pnew_same self vs) | None => None end
    | PCtor cls a =>
        match pev self r a with
        | Some (PVN c) => if String.eqb cls "Constant" then Some (PVE (Const c)) else None
        | Some (PVName v) => if String.eqb cls "Variable" then Some (PVE (Var v)) else None
        | _ => None
        end
    end.

  Definition pcall (f : pfun) (self : E) (args : list pval) : option pval :=
    if p_star f then
      match p_params f with
      | [x] => pev self [(x, PVL (fold_right (fun a acc => match a with PVE e => e :: acc | _ => acc end) [] args))] (p_ret f)
      | _ => None
      end
    else if Nat.eqb (List.length (p_params f)) (List.length args)
         then pev self (combine (p_params f) args) (p_ret f) else None.
End Interp.
