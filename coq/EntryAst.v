(** * EntryAst: the three entry points of the base class that start a traversal —
    Expression._numeric_partials, Expression._synthetic_partials, Expression._normalize — as a deep
    embedding with an interpreter in the outcome monad.  GeneratedEntry.v holds their CURRENT source;
    TieEntry.v proves they compute [Reverse.numeric_partials], [Synth.synthetic_partials] and
    [Normalize.normalize]: a fresh accumulator, the cache reset, the traversal started with
    multiplier 1 (the int) / Constant(1), the read-out over the expression's own variable names;
    full reduction followed by the normal-form pass.

    Calls that leave the body get the model's meaning (each tied to its own source elsewhere):
    [self._compute_numeric_partials(acc, m, point)] = [rev] (TieOrch), [self._compute_synthetic_partials
    (acc, m)] = [synth_rev] (TieSymRev), [acc.*_partials_for(names)] = [*_partials_for] (TieAcc),
    [self._fully_reduce()] and [t._normalize_fully_reduced()] = two functions [fr], [nf] (TieStep,
    TieNorm), [self._reset_evaluation_cache()] = no effect on the pure result (C09, TieCacheBody) —
    but the numeric sweep is given its pure meaning only AFTER a reset: without one the body is stuck. *)
From Coq Require Import ZArith List Bool String Ascii.
From SM Require Import Num Syntax Outcome Eval Reverse Synth.
Import ListNotations.
Open Scope string_scope.
Open Scope list_scope.

Inductive nx : Type :=
| NSelf
| NName (x : string)
| NInt (z : Z)
| NConst (z : Z)                              (* ex.Constant(z) *)
| NNewAcc (cls : string)                      (* acc.NumericPartialsAccumulator() / acc.SyntheticPartialsAccumulator() *)
| NVarNames                                   (* self._variable_names *)
| NCall (recv : nx) (m : string) (args : list nx).

Inductive nstmt : Type :=
| NSAssign (x : string) (t : nx)
| NSExpr (t : nx)
| NSReturn (t : nx).

Record nfun : Type := mkNFun { n_params : list string; n_body : list nstmt }.

Section Interp.
  Context {T : Type} (N : NumOps T).
  Notation E := (expr T).
  Variable enum : list name.                    (* iteration order of self._variable_names *)
  Variable p : point T.                         (* the argument "point" *)
  Variable fr : E -> E.                         (* t._fully_reduce() *)
  Variable nf : E -> option E.                  (* t._normalize_fully_reduced(); None = out of fuel *)

  Inductive nval : Type :=
  | NVE (e : E)
  | NVZ (z : Z)
  | NVAccN (a : accum (T:=T))
  | NVAccS (a : saccum (T:=T))
  | NVPoint
  | NVNames
  | NVDictN (d : list (name * T))
  | NVDictE (d : list (name * E))
  | NVEo (o : option E)                       (* the normal form, None when the MODEL's fuel does not suffice *)
  | NVNone.

  Definition nenv := list (string * nval).
  Fixpoint nlook (x : string) (r : nenv) : option nval :=
    match r with
    | [] => None
    | (y, w) :: r' => if String.eqb x y then Some w else nlook x r'
    end.
  Fixpoint nset (x : string) (w : nval) (r : nenv) : nenv :=
    match r with
    | [] => [(x, w)]
    | (y, u) :: r' => if String.eqb x y then (y, w) :: r' else (y, u) :: nset x w r'
    end.

  Definition stuck {A} : outcome A := PyErr TypeError.

  (** an expression may update the environment (a callee mutates the accumulator it was handed) *)
  Definition nev_simple (r : nenv) (t : nx) : option nval :=
    match t with
    | NSelf => nlook "self" r
    | NName x => nlook x r
    | NInt z => Some (NVZ z)
    | NConst z => Some (NVE (Const (nofZ N z)))
    | NNewAcc cls =>
        if String.eqb cls "NumericPartialsAccumulator" then Some (NVAccN [])
        else if String.eqb cls "SyntheticPartialsAccumulator" then Some (NVAccS [])
        else None
    | NVarNames => Some NVNames
    | NCall _ _ _ => None
    end.

  Definition ncall (r : nenv) (recv : nx) (m : string) (args : list nx) : outcome (nenv * nval) :=
    match nev_simple r recv with
    | Some (NVE self) =>
        if String.eqb m "_reset_evaluation_cache" then
          match args with [] => Val (nset "#reset" NVNone r, NVNone) | _ => stuck end
        else if String.eqb m "_compute_numeric_partials" then
          match args with
          | [NName a; mult; pt] =>
              (* the numeric sweep READS the memo fields: it must come after a reset ("#reset" is set by
                 _reset_evaluation_cache and by nothing else), or the pure [rev] is not what it computes *)
              match nlook "#reset" r, nlook a r, nev_simple r mult, nev_simple r pt with
              | Some _, Some (NVAccN acc), Some (NVZ z), Some NVPoint =>
                  acc' <- rev N p self (nofZ N z) acc ;; Val (nset a (NVAccN acc') r, NVNone)
              | _, _, _, _ => stuck
              end
          | _ => stuck
          end
        else if String.eqb m "_compute_synthetic_partials" then
          match args with
          | [NName a; mult] =>
              match nlook a r, nev_simple r mult with
              | Some (NVAccS acc), Some (NVE me) => Val (nset a (NVAccS (synth_rev N self me acc)) r, NVNone)
              | _, _ => stuck
              end
          | _ => stuck
          end
        else if String.eqb m "_fully_reduce" then
          match args with [] => Val (r, NVE (fr self)) | _ => stuck end
        else if String.eqb m "_normalize_fully_reduced" then
          match args with
          | [] => Val (r, NVEo (nf self))
          | _ => stuck
          end
        else stuck
    | Some (NVAccN acc) =>
        if String.eqb m "numeric_partials_for" then
          match args with
          | [a] => match nev_simple r a with
                   | Some NVNames => Val (r, NVDictN (numeric_partials_for N acc enum))
                   | _ => stuck
                   end
          | _ => stuck
          end
        else stuck
    | Some (NVAccS acc) =>
        if String.eqb m "synthetic_partials_for" then
          match args with
          | [a] => match nev_simple r a with
                   | Some NVNames => Val (r, NVDictE (synthetic_partials_for N acc enum))
                   | _ => stuck
                   end
          | _ => stuck
          end
        else stuck
    | _ => stuck
    end.

  Definition nev (r : nenv) (t : nx) : outcome (nenv * nval) :=
    match t with
    | NCall recv m args => ncall r recv m args
    | _ => match nev_simple r t with Some w => Val (r, w) | None => stuck end
    end.

  (** [inr w] = returned w *)
  Fixpoint nblock (r : nenv) (l : list nstmt) : outcome (nenv + nval) :=
    match l with
    | [] => Val (inl r)
    | NSAssign x t :: rest => o <- nev r t ;; nblock (nset x (snd o) (fst o)) rest
    | NSExpr t :: rest => o <- nev r t ;; nblock (fst o) rest
    | NSReturn t :: _ => o <- nev r t ;; Val (inr (snd o))
    end.

  Definition nrun (f : nfun) (self : E) : outcome nval :=
    o <- nblock (("self", NVE self) :: map (fun x => (x, NVPoint)) (n_params f)) (n_body f) ;;
    match o with inr w => Val w | inl _ => Val NVNone end.
End Interp.
