(** * SpecObjects: formal statements of C12, C13, C15, C16 about Objects.v. *)
From Coq Require Import Reals ZArith List Bool String Permutation.
From SM Require Import Num Syntax Outcome Eval RInst Objects.
Import ListNotations.

(** the number comparison is an equivalence (true of real numbers, of Python ints/floats
    other than NaN) *)
Definition num_equiv {T} (N : NumOps T) : Prop :=
  (forall x, neqb N x x = true) /\
  (forall x y, neqb N x y = neqb N y x) /\
  (forall x y z, neqb N x y = true -> neqb N y z = true -> neqb N x z = true).

Definition C12_RInst_equiv : Prop := num_equiv RInst.

(** structural equality, as the property words it: same constructor, same arity, arguments
    pairwise equal in order, parameters numerically equal *)
Inductive struct_eq {T} (N : NumOps T) : expr T -> expr T -> Prop :=
| SE_Const c c' : neqb N c c' = true -> struct_eq N (Const c) (Const c')
| SE_Var x : struct_eq N (Var x) (Var x)
| SE_Add l l' : Forall2 (struct_eq N) l l' -> struct_eq N (Add l) (Add l')
| SE_Mul l l' : Forall2 (struct_eq N) l l' -> struct_eq N (Mul l) (Mul l')
| SE_Minus a b a' b' : struct_eq N a a' -> struct_eq N b b' -> struct_eq N (Minus a b) (Minus a' b')
| SE_Divide a b a' b' : struct_eq N a a' -> struct_eq N b b' -> struct_eq N (Divide a b) (Divide a' b')
| SE_Power a b a' b' : struct_eq N a a' -> struct_eq N b b' -> struct_eq N (Power a b) (Power a' b')
| SE_Neg a a' : struct_eq N a a' -> struct_eq N (Neg a) (Neg a')
| SE_Recip a a' : struct_eq N a a' -> struct_eq N (Recip a) (Recip a')
| SE_Sin a a' : struct_eq N a a' -> struct_eq N (Sin a) (Sin a')
| SE_Cos a a' : struct_eq N a a' -> struct_eq N (Cos a) (Cos a')
| SE_NthPow a a' n : struct_eq N a a' -> struct_eq N (NthPow a n) (NthPow a' n)
| SE_NthRoot a a' n : struct_eq N a a' -> struct_eq N (NthRoot a n) (NthRoot a' n)
| SE_Exp a a' b b' : struct_eq N a a' -> neqb N b b' = true -> struct_eq N (Exp a b) (Exp a' b')
| SE_Log a a' b b' : struct_eq N a a' -> neqb N b b' = true -> struct_eq N (Log a b) (Log a' b').

Definition C12_eqb_structural : Prop :=
  forall T (N : NumOps T), num_equiv N ->
    forall a b : expr T, eqb N a b = true <-> struct_eq N a b.

Definition C12_eqb_equivalence : Prop :=
  forall T (N : NumOps T), num_equiv N ->
    (forall a : expr T, eqb N a a = true) /\
    (forall a b : expr T, eqb N a b = eqb N b a) /\
    (forall a b c : expr T, eqb N a b = true -> eqb N b c = true -> eqb N a c = true).

Definition C12_eqb_hash : Prop :=
  forall T (N : NumOps T) (H : Type)
         (h_str : string -> H) (h_name : name -> H) (h_num : T -> H) (h_pos : positive -> H)
         (h_nat : nat -> H) (h_tuple : list H -> H),
    num_equiv N ->
    (forall x y, neqb N x y = true -> h_num x = h_num y) ->
    forall a b : expr T, eqb N a b = true ->
      hash_expr h_str h_name h_num h_pos h_nat h_tuple a =
      hash_expr h_str h_name h_num h_pos h_nat h_tuple b.

(** points: dictionaries with distinct keys *)
Definition wf_point {T} (p : point T) : Prop := NoDup (map fst p).

Definition same_coords {T} (N : NumOps T) (p q : point T) : Prop :=
  forall k, match lookup k p, lookup k q with
            | Some v, Some w => neqb N v w = true
            | None, None => True
            | _, _ => False
            end.

Definition C12_point_eq : Prop :=
  forall T (N : NumOps T), num_equiv N ->
    forall p q : point T, wf_point p -> wf_point q ->
      (point_eqb N p q = true <-> same_coords N p q).

(* equal whatever the order in which the coordinates were written *)
Definition C12_point_perm : Prop :=
  forall T (N : NumOps T), num_equiv N ->
    forall p q : point T, wf_point p -> Permutation p q -> point_eqb N p q = true.

Definition C12_point_hash : Prop :=
  forall T (N : NumOps T) (H : Type)
         (h_str : string -> H) (h_name : name -> H) (h_num : T -> H) (h_tuple : list H -> H),
    num_equiv N ->
    (forall x y, neqb N x y = true -> h_num x = h_num y) ->
    forall p q : point T, wf_point p -> wf_point q -> point_eqb N p q = true ->
      hash_point h_str h_name h_num h_tuple p = hash_point h_str h_name h_num h_tuple q.

Definition wf_obj {T} (o : pyobj (T:=T)) : Prop :=
  match o with
  | OPoint p => wf_point p
  | OLocated _ p => wf_point p
  | _ => True
  end.

(* == on all the library's objects and foreign objects: an equivalence, total (a bool: it
   never raises), false across classes, consistent with hash *)
Definition C12_py_eq_equivalence : Prop :=
  forall T (N : NumOps T), num_equiv N ->
    (forall a : pyobj (T:=T), wf_obj a -> py_eq N a a = true) /\
    (forall a b : pyobj (T:=T), wf_obj a -> wf_obj b -> py_eq N a b = py_eq N b a) /\
    (forall a b c : pyobj (T:=T), wf_obj a -> wf_obj b -> wf_obj c ->
        py_eq N a b = true -> py_eq N b c = true -> py_eq N a c = true).

Definition C12_py_eq_hash : Prop :=
  forall T (N : NumOps T) (H : Type)
         (h_str : string -> H) (h_name : name -> H) (h_num : T -> H) (h_pos : positive -> H)
         (h_nat : nat -> H) (h_tuple : list H -> H),
    num_equiv N ->
    (forall x y, neqb N x y = true -> h_num x = h_num y) ->
    forall a b : pyobj (T:=T), wf_obj a -> wf_obj b -> py_eq N a b = true ->
      py_hash h_str h_name h_num h_pos h_nat h_tuple a =
      py_hash h_str h_name h_num h_pos h_nat h_tuple b.

(** ** C13 *)
(* the expression with every number re-read *)
Fixpoint map_nums {T} (f : T -> T) (e : expr T) : expr T :=
  match e with
  | Const c => Const (f c)
  | Var x => Var x
  | Add l => Add (map (map_nums f) l)
  | Mul l => Mul (map (map_nums f) l)
  | Minus a b => Minus (map_nums f a) (map_nums f b)
  | Divide a b => Divide (map_nums f a) (map_nums f b)
  | Power a b => Power (map_nums f a) (map_nums f b)
  | Neg a => Neg (map_nums f a)
  | Recip a => Recip (map_nums f a)
  | Sin a => Sin (map_nums f a)
  | Cos a => Cos (map_nums f a)
  | NthPow a n => NthPow (map_nums f a) n
  | NthRoot a n => NthRoot (map_nums f a) n
  | Exp a b => Exp (map_nums f a) (f b)
  | Log a b => Log (map_nums f a) (f b)
  end.

(* reading the printed form back yields the expression (numbers re-read), whatever follows *)
Definition C13_parse_show : Prop :=
  forall T (read_num : T -> T) (e : expr T) (rest : list (token T)) (fuel : nat),
    (parse_fuel e <= fuel)%nat ->
    parse read_num fuel (show e ++ rest) = Some (map_nums read_num e, rest).

(* ... which is equal (==) to the original when re-reading a number gives an equal number *)
Definition C13_roundtrip_eq : Prop :=
  forall T (N : NumOps T) (read_num : T -> T), num_equiv N ->
    (forall c, neqb N (read_num c) c = true) ->
    forall e : expr T, exists e',
      parse read_num (parse_fuel e) (show e) = Some (e', []) /\ eqb N e' e = true.

(* two different expressions never print identically *)
Definition C13_show_injective : Prop :=
  forall T (a b : expr T), show a = show b -> a = b.

(* the unrepaired NthRoot printer was not injective (regression example) *)
Definition C13_old_printer_refuted : Prop :=
  exists (a : expr R) (n : positive),
    show_old_nth_root a n = show (NthPow a n) /\ NthRoot a n <> NthPow a n.

(* derivative objects print as their constructor around the printed expression *)
Definition C13_wrappers_injective : Prop :=
  forall T (a b : expr T) (v w : name),
    (show_partial a v = show_partial b w -> a = b /\ v = w) /\
    (show_derivative a = show_derivative b -> a = b) /\
    (show_differential a = show_differential b -> a = b).

(** ** C15 *)
Definition C15_operators : Prop :=
  forall T (N : NumOps T) (a b : expr T),
    op_neg a = Ok (Neg a) /\
    op_add a (AExpr b) = Ok (Add [a; b]) /\
    op_sub a (AExpr b) = Ok (Minus a b) /\
    op_mul a (AExpr b) = Ok (Mul [a; b]) /\
    op_truediv a (AExpr b) = Ok (Divide a b) /\
    op_pow N a (AExpr b) = Ok (Power a b).

Definition C15_pow_integer : Prop :=
  forall T (N : NumOps T) (a : expr T) (x : T),
    match nint N x with
    | Some z => if Z.leb 1 z then op_pow N a (ANum x) = Ok (NthPow a (Z.to_pos z))
                else op_pow N a (ANum x) = Raises
    | None => op_pow N a (ANum x) = Raises
    end.

Definition C15_rejects : Prop :=
  forall T (N : NumOps T) (a : expr T) (x : pyarg (T:=T)),
    (forall e, x <> AExpr e) ->
    op_add a x = Raises /\ op_sub a x = Raises /\ op_mul a x = Raises /\
    op_truediv a x = Raises /\
    ((forall y, x <> ANum y) -> op_pow N a x = Raises).

(** ** C16 *)
Definition C16_nth : Prop :=
  forall T (N : NumOps T) (a n : pyarg (T:=T)) (e : expr T),
    (mk_nth_power N a n = Ok e <->
       exists u x z, a = AExpr u /\ n = ANum x /\ nint N x = Some z /\ (1 <= z)%Z /\
                     e = NthPow u (Z.to_pos z)) /\
    (mk_nth_root N a n = Ok e <->
       exists u x z, a = AExpr u /\ n = ANum x /\ nint N x = Some z /\ (1 <= z)%Z /\
                     e = NthRoot u (Z.to_pos z)).

Definition C16_base : Prop :=
  forall T (N : NumOps T) (a b : pyarg (T:=T)) (e : expr T),
    (mk_exponential N a b = Ok e <->
       exists u x, a = AExpr u /\ b = ANum x /\ nleb N x (n0 N) = false /\ e = Exp u x) /\
    (mk_logarithm N a b = Ok e <->
       exists u x, a = AExpr u /\ b = ANum x /\ nleb N x (n0 N) = false /\
                   neqb N x (n1 N) = false /\ e = Log u x).

Definition C16_operands : Prop :=
  forall T (f : expr T -> expr T) (g : expr T -> expr T -> expr T) (h : list (expr T) -> expr T)
         (a b : pyarg (T:=T)) (l : list (pyarg (T:=T))) (e : expr T),
    (mk_unary f a = Ok e <-> exists u, a = AExpr u /\ e = f u) /\
    (mk_binary g a b = Ok e <-> exists u w, a = AExpr u /\ b = AExpr w /\ e = g u w) /\
    (mk_nary h l = Ok e <-> exists us, l = map (@AExpr T) us /\ e = h us) /\
    (mk_variable a = Ok e <-> exists x, a = AStr true x /\ e = Var x).

(* every expression the constructors accept, from well-formed operands, is well-formed: so it
   is governed by InDomain (at R: positive base means 0 < base) *)
Definition C16_built_wf : Prop :=
  forall (a b : pyarg (T:=R)) (e : expr R),
    (forall u, a = AExpr u -> wf RInst u) ->
    (mk_nth_power RInst a b = Ok e -> wf RInst e) /\
    (mk_nth_root RInst a b = Ok e -> wf RInst e) /\
    (mk_exponential RInst a b = Ok e -> wf RInst e) /\
    (mk_logarithm RInst a b = Ok e -> wf RInst e).
