(** Static tie: the reducer lists of Rules.v are, name for name and in order, the lists
    returned by each class's _reducers in /repo's current sources. *)
From Coq Require Import List String Bool.
From SM Require Import Num Rules Generated.
Import ListNotations.
Open Scope string_scope.

Section Names.
  Context {T : Type} (N : NumOps T).
  Definition names (rs : list (rule (T:=T))) : list string := map fst rs.

  (* the reducer lists of Rules.v, per class, sorted by class name as the generator sorts *)
  Definition model_reducers : list (string * list string) :=
    [ ("Add", names (reducers_Add N));
      ("Cosine", names reducers_Cosine);
      ("Divide", names reducers_Divide);
      ("Exponential", names (reducers_Exponential N));
      ("Logarithm", names (reducers_Logarithm N));
      ("Minus", names reducers_Minus);
      ("Multiply", names (reducers_Multiply N));
      ("Negation", names reducers_Negation);
      ("NthPower", names (reducers_NthPower N));
      ("NthRoot", names reducers_NthRoot);
      ("Power", names (reducers_Power N));
      ("Reciprocal", names reducers_Reciprocal);
      ("Sine", names reducers_Sine) ].

  Lemma reducers_tied : gen_reducers = model_reducers.
  Proof. reflexivity. Qed.
End Names.

