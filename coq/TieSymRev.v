(** * TieSymRev: the _compute_synthetic_partials methods of the CURRENT source (GeneratedSymRev.v),
    interpreted by SymRev with the formula oracle of TieSynth, compute exactly one unfolding of the
    model's reverse symbolic traversal [synth_rev] (Synth.v) — for every number interface, multiplier,
    accumulator and tree. *)
From Coq Require Import ZArith List Bool String Lia.
From SM Require Import Num Syntax Outcome MathFun Eval Forward Synth Rules SymAst SymLemmas SymRev
                       GeneratedSymRev TieSynth TieSynthAll.
Import ListNotations.
Open Scope string_scope.
Open Scope list_scope.

Section Tie.
  Context {T : Type} (N : NumOps T).
  Notation E := (expr T).
  Notation acc := (saccum (T:=T)).

  Definition runv (f : vfun) (e m : E) (a : acc) : option acc := vcall N (synth_oracle N) f e m a.

  Ltac opq := cbn -[nofZ n_e neqb synth_rev synth_fwd sacc_add without nat_of Z.of_nat Pos.pred Z.sub]; unfold n0, n1, nm1.

  Lemma symrev_Constant_tied : forall c m a, runv gen_symrev_Constant (Const c) m a = Some (synth_rev N (Const c) m a).
  Proof. reflexivity. Qed.

  Lemma symrev_Variable_tied : forall x m a, runv gen_symrev_Variable (Var x) m a = Some (synth_rev N (Var x) m a).
  Proof. reflexivity. Qed.

  Lemma symrev_Minus_tied : forall u v m a, runv gen_symrev_Minus (Minus u v) m a = Some (synth_rev N (Minus u v) m a).
  Proof. reflexivity. Qed.

  Lemma symrev_Divide_tied : forall u v m a, runv gen_symrev_Divide (Divide u v) m a = Some (synth_rev N (Divide u v) m a).
  Proof. reflexivity. Qed.

  Lemma symrev_Power_tied : forall u v m a, runv gen_symrev_Power (Power u v) m a = Some (synth_rev N (Power u v) m a).
  Proof. reflexivity. Qed.

  Lemma symrev_Unary_tied : forall e m a,
    match e with
    | Neg _ | Recip _ | Sin _ | Cos _ | NthPow _ _ | NthRoot _ _ | Exp _ _ | Log _ _ =>
        runv gen_symrev_UnaryExpression e m a = Some (synth_rev N e m a)
    | _ => True
    end.
  Proof. intros e m a. destruct e; try exact I; reflexivity. Qed.

  (** loops *)
  Fixpoint loop_model (step : nat -> E -> acc -> acc) (n : nat) (l : list E) (a : acc) : acc :=
    match l with
    | [] => a
    | x :: rest => loop_model step (S n) rest (step n x a)
    end.

  Lemma vfor_spec : forall (body : vstate (T:=T) -> nat -> val (T:=T) -> option vstate)
                           (Inv : senv (T:=T) -> Prop) (step : nat -> E -> acc -> acc),
    (forall r a n e, Inv r -> exists r', Inv r' /\ body (r, a) n (VE e) = Some (r', step n e a)) ->
    forall l n (st : vstate), Inv (fst st) ->
      exists r', vfor_loop body n st (map VE l) = Some (r', loop_model step n l (snd st)).
  Proof.
    intros body Inv step Hb l. induction l as [|x l IH]; intros n [r a] Hr; cbn [map vfor_loop loop_model fst snd] in *.
    - exists r. reflexivity.
    - destruct (Hb r a n x Hr) as (r1 & Hr1 & Heq). rewrite Heq. apply (IH (S n) (r1, step n x a)). exact Hr1.
  Qed.

  Lemma symrev_Add_tied : forall l m a, runv gen_symrev_Add (Add l) m a = Some (synth_rev N (Add l) m a).
  Proof.
    intros l m a. unfold runv, vcall. opq.
    match goal with |- context [vfor_loop ?body 0 ?st0 (map VE l)] =>
      assert (Hs : forall r a0 n e, slook "multiplier" r = Some (VE m) ->
                exists r', slook "multiplier" r' = Some (VE m) /\ body (r, a0) n (VE e) = Some (r', synth_rev N e m a0));
      [ intros r a0 n e Hr; exists (("inner", VE e) :: r); split; [exact Hr|];
        cbn [fst snd]; opq; rewrite Hr; reflexivity
      | pose proof (vfor_spec body (fun r => slook "multiplier" r = Some (VE m)) (fun _ e a0 => synth_rev N e m a0)
                    Hs l 0%nat st0 eq_refl) as Hl;
        destruct Hl as [r' Hl]; rewrite Hl ]
    end.
    clear Hl Hs. opq. f_equal. cbn [synth_rev]. generalize 0%nat. revert a.
    induction l as [|x l IH]; intros a n; [reflexivity|]. cbn [loop_model]. apply IH.
  Qed.

  Lemma mul_loop_eq : forall (whole suf : list E) (m : E) (n : nat) (a : acc),
    loop_model (fun i e a0 => synth_rev N e (Mul (m :: remove_nth i whole)) a0) n suf a
    = (fix go (i : nat) (r : list E) (acc0 : acc) {struct r} : acc :=
         match r with
         | [] => acc0
         | x :: r' => go (S i) r' (synth_rev N x (Mul (m :: remove_nth i whole)) acc0)
         end) n suf a.
  Proof.
    intros whole suf m. induction suf as [|x suf IH]; intros n a; [reflexivity|]. cbn [loop_model]. apply IH.
  Qed.

  Lemma symrev_Mul_tied : forall l m a, runv gen_symrev_Multiply (Mul l) m a = Some (synth_rev N (Mul l) m a).
  Proof.
    intros l m a. unfold runv, vcall. opq.
    match goal with |- context [vfor_loop ?body 0 ?st0 (map VE l)] =>
      assert (Hs : forall r a0 n e,
                (slook "multiplier" r = Some (VE m) /\ slook "self" r = Some (VE (Mul l))) ->
                exists r', (slook "multiplier" r' = Some (VE m) /\ slook "self" r' = Some (VE (Mul l))) /\
                           body (r, a0) n (VE e) = Some (r', synth_rev N e (Mul (m :: remove_nth n l)) a0));
      [ intros r a0 n e [Hm Hs];
        exists (("next_multiplier", VE (Mul (m :: remove_nth n l))) :: ("inner", VE e) :: ("i", VZ (Z.of_nat n)) :: r);
        split; [split; assumption|];
        cbn [fst snd]; opq; rewrite Hm, Hs; opq; rewrite nat_of_of_nat; opq;
        rewrite without_remove_nth, app_nil_r; cbn [as_exprs]; rewrite as_exprs_VE; reflexivity
      | pose proof (vfor_spec body
                    (fun r => slook "multiplier" r = Some (VE m) /\ slook "self" r = Some (VE (Mul l)))
                    (fun i e a0 => synth_rev N e (Mul (m :: remove_nth i l)) a0)
                    Hs l 0%nat st0 (conj eq_refl eq_refl)) as Hl;
        destruct Hl as [r' Hl]; rewrite Hl ]
    end.
    clear Hl Hs. opq. f_equal. cbn [synth_rev].
    (* the model's inner loop closes over the whole list, as the source does *)
    apply mul_loop_eq.
  Qed.

  (** ** the reverse symbolic traversal as a whole *)
  Definition gen_symrev (e m : E) (a : acc) : option acc :=
    match e with
    | Const _ => runv gen_symrev_Constant e m a
    | Var _ => runv gen_symrev_Variable e m a
    | Add _ => runv gen_symrev_Add e m a
    | Mul _ => runv gen_symrev_Multiply e m a
    | Minus _ _ => runv gen_symrev_Minus e m a
    | Divide _ _ => runv gen_symrev_Divide e m a
    | Power _ _ => runv gen_symrev_Power e m a
    | _ => runv gen_symrev_UnaryExpression e m a
    end.

  Theorem synth_rev_tied : forall e m a, gen_symrev e m a = Some (synth_rev N e m a).
  Proof.
    intros e m a. destruct e; unfold gen_symrev.
    - apply symrev_Constant_tied. - apply symrev_Variable_tied. - apply symrev_Add_tied. - apply symrev_Mul_tied.
    - apply symrev_Minus_tied. - apply symrev_Divide_tied. - apply symrev_Power_tied.
    - apply (symrev_Unary_tied (Neg e)). - apply (symrev_Unary_tied (Recip e)). - apply (symrev_Unary_tied (Sin e)).
    - apply (symrev_Unary_tied (Cos e)). - apply (symrev_Unary_tied (NthPow e n)). - apply (symrev_Unary_tied (NthRoot e n)).
    - apply (symrev_Unary_tied (Exp e base)). - apply (symrev_Unary_tied (Log e base)).
  Qed.
End Tie.
