(** * SymLemmas: the loops and list primitives of the SymAst interpreter, characterised on lists of
    expression values by the list functions the model (Rules.v) is written with. *)
From Coq Require Import ZArith List Bool String Lia.
From SM Require Import Num Syntax Outcome MathFun Rules SymAst.
Import ListNotations.
Open Scope string_scope.
Open Scope list_scope.

Section Lemmas.
  Context {T : Type} (N : NumOps T).
  Notation E := (expr T).
  Notation val := (val (T:=T)).

  Lemma as_exprs_VE : forall l : list E, as_exprs (map VE l) = Some l.
  Proof. induction l as [|a l IH]; cbn; [reflexivity | rewrite IH; reflexivity]. Qed.

  Lemma as_nums_VN : forall l : list T, as_nums N (map VN l) = Some l.
  Proof. induction l as [|a l IH]; cbn; [reflexivity | rewrite IH; reflexivity]. Qed.

  Lemma filter_true : forall (A : Type) (l : list A), filter (fun _ => true) l = l.
  Proof. induction l as [|a l IH]; cbn; congruence. Qed.

  Lemma comp_loop_VE : forall (f : val -> option val) (keep : val -> option bool)
                              (g : E -> val) (p : E -> bool) (l : list E),
    (forall e, f (VE e) = Some (g e)) -> (forall e, keep (VE e) = Some (p e)) ->
    comp_loop f keep (map VE l) = Some (map g (filter p l)).
  Proof.
    intros f keep g p l Hf Hk. induction l as [|a l IH]; cbn [map comp_loop filter]; [reflexivity|].
    rewrite Hk, IH. destruct (p a); [rewrite Hf|]; reflexivity.
  Qed.

  Lemma comp_loop_VE_E : forall (f : val -> option val) (keep : val -> option bool)
                                (g : E -> E) (p : E -> bool) (l : list E),
    (forall e, f (VE e) = Some (VE (g e))) -> (forall e, keep (VE e) = Some (p e)) ->
    comp_loop f keep (map VE l) = Some (map VE (map g (filter p l))).
  Proof.
    intros. rewrite map_map. apply comp_loop_VE; assumption.
  Qed.

  Lemma anyall_all_VE : forall (f : val -> option val) (p : E -> bool) (l : list E),
    (forall e, f (VE e) = Some (VB (p e))) ->
    anyall_loop true f (map VE l) = Some (forallb p l).
  Proof.
    intros f p l Hf. induction l as [|a l IH]; cbn [map anyall_loop forallb]; [reflexivity|].
    rewrite Hf. destruct (p a); [exact IH | reflexivity].
  Qed.

  Lemma anyall_any_VE : forall (f : val -> option val) (p : E -> bool) (l : list E),
    (forall e, f (VE e) = Some (VB (p e))) ->
    anyall_loop false f (map VE l) = Some (existsb p l).
  Proof.
    intros f p l Hf. induction l as [|a l IH]; cbn [map anyall_loop existsb]; [reflexivity|].
    rewrite Hf. destruct (p a); [reflexivity | exact IH].
  Qed.

  Lemma filter_val_is : forall cls (l : list E),
    filter (val_is cls) (map VE l) = map VE (filter (is_cls cls) l).
  Proof.
    intros cls l. induction l as [|a l IH]; cbn [map filter val_is]; [reflexivity|].
    destruct (is_cls cls a); cbn [map]; rewrite IH; reflexivity.
  Qed.

  Lemma filter_not_val_is : forall cls (l : list E),
    filter (fun x => negb (val_is cls x)) (map VE l) = map VE (filter (fun e => negb (is_cls cls e)) l).
  Proof.
    intros cls l. induction l as [|a l IH]; cbn [map filter val_is]; [reflexivity|].
    destruct (is_cls cls a); cbn [map negb]; rewrite IH; reflexivity.
  Qed.

  Lemma filter_ext_in' : forall (A : Type) (f g : A -> bool) (l : list A),
    (forall a, f a = g a) -> filter f l = filter g l.
  Proof. intros A f g l H. induction l as [|a l IH]; cbn; [reflexivity | rewrite H, IH; reflexivity]. Qed.

  (** be.first_of_given_type against the model's split_first *)
  Lemma find_first_split : forall (f : E -> bool) (l : list E) (i : nat),
    match split_first f l with
    | Some (before, hit, after) =>
        find_first (fun v => match v with VE e => f e | _ => false end) i (map VE l)
        = Some (i + List.length before, VE hit) /\
        l = before ++ hit :: after /\ f hit = true
    | None => find_first (fun v => match v with VE e => f e | _ => false end) i (map VE l) = None
    end.
  Proof.
    intros f l. induction l as [|a l IH]; intros i; cbn [split_first map find_first]; [reflexivity|].
    destruct (f a) eqn:Ha.
    - cbn [List.length]. rewrite Nat.add_0_r. repeat split; assumption.
    - specialize (IH (S i)). destruct (split_first f l) as [[[b h] af]|].
      + destruct IH as (H1 & H2 & H3). cbn [List.length]. rewrite H1. repeat split.
        * f_equal. f_equal. lia.
        * cbn. rewrite <- H2. reflexivity.
        * exact H3.
      + exact IH.
  Qed.

  Lemma firstn_app_len : forall (A : Type) (a b : list A), firstn (List.length a) (a ++ b) = a.
  Proof. intros. rewrite firstn_app, Nat.sub_diag, firstn_all. cbn. apply app_nil_r. Qed.

  Lemma skipn_app_len : forall (A : Type) (a b : list A), skipn (List.length a) (a ++ b) = b.
  Proof. intros. rewrite skipn_app, Nat.sub_diag, skipn_all. reflexivity. Qed.

  Lemma length_filter_VE : forall (l : list E), List.length (map (@VE T) l) = List.length l.
  Proof. intros; apply map_length. Qed.
End Lemmas.

Lemma Z_of_nat_eqb : forall a b, Z.eqb (Z.of_nat a) (Z.of_nat b) = Nat.eqb a b.
Proof.
  intros. destruct (Nat.eqb a b) eqn:H.
  - apply Nat.eqb_eq in H. subst. apply Z.eqb_refl.
  - apply Nat.eqb_neq in H. apply Z.eqb_neq. lia.
Qed.

Lemma Z_of_nat_leb : forall a b, Z.leb (Z.of_nat a) (Z.of_nat b) = Nat.leb a b.
Proof.
  intros. destruct (Nat.leb a b) eqn:H.
  - apply Nat.leb_le in H. apply Z.leb_le. lia.
  - apply Nat.leb_gt in H. apply Z.leb_gt. lia.
Qed.

Lemma Z_of_nat_leb1 : forall a, Z.leb (Z.of_nat a) 1 = Nat.leb a 1.
Proof. intros. apply (Z_of_nat_leb a 1). Qed.

(** ** generic forms (lists of values of the shape [map h l]) *)
Section Generic.
  Context {T : Type} (N : NumOps T).
  Notation E := (expr T).
  Notation val := (val (T:=T)).

  Lemma comp_loop_map : forall (A : Type) (h : A -> val) (f : val -> option val) (keep : val -> option bool)
                               (g : A -> val) (p : A -> bool) (l : list A),
    (forall a, In a l -> keep (h a) = Some (p a)) ->
    (forall a, In a l -> p a = true -> f (h a) = Some (g a)) ->
    comp_loop f keep (map h l) = Some (map g (filter p l)).
  Proof.
    intros A h f keep g p l. induction l as [|a l IH]; intros Hk Hf; cbn [map comp_loop filter]; [reflexivity|].
    rewrite (Hk a (or_introl eq_refl)), IH.
    - destruct (p a) eqn:Hp; [rewrite (Hf a (or_introl eq_refl) Hp)|]; reflexivity.
    - intros b Hb. apply Hk. right; exact Hb.
    - intros b Hb. apply Hf. right; exact Hb.
  Qed.

  Lemma anyall_all_map : forall (A : Type) (h : A -> val) (f : val -> option val) (p : A -> bool) (l : list A),
    (forall a, In a l -> f (h a) = Some (VB (p a))) ->
    anyall_loop true f (map h l) = Some (forallb p l).
  Proof.
    intros A h f p l. induction l as [|a l IH]; intros Hf; cbn [map anyall_loop forallb]; [reflexivity|].
    rewrite (Hf a (or_introl eq_refl)). destruct (p a); [|reflexivity].
    apply IH. intros b Hb. apply Hf. right; exact Hb.
  Qed.

  Lemma anyall_any_map : forall (A : Type) (h : A -> val) (f : val -> option val) (p : A -> bool) (l : list A),
    (forall a, In a l -> f (h a) = Some (VB (p a))) ->
    anyall_loop false f (map h l) = Some (existsb p l).
  Proof.
    intros A h f p l. induction l as [|a l IH]; intros Hf; cbn [map anyall_loop existsb]; [reflexivity|].
    rewrite (Hf a (or_introl eq_refl)). destruct (p a); [reflexivity|].
    apply IH. intros b Hb. apply Hf. right; exact Hb.
  Qed.

  Lemma key_loop_map : forall (A : Type) (h : A -> val) (f : val -> option val) (k : A -> val) (l : list A),
    (forall a, In a l -> f (h a) = Some (k a)) ->
    key_loop f (map h l) = Some (map (fun a => (k a, h a)) l).
  Proof.
    intros A h f k l. induction l as [|a l IH]; intros Hf; cbn [map key_loop]; [reflexivity|].
    rewrite (Hf a (or_introl eq_refl)), IH; [reflexivity|].
    intros b Hb. apply Hf. right; exact Hb.
  Qed.

  Lemma kv_loop_map : forall (A B : Type) (hk hv : A -> val) (f : val -> val -> option B) (g : A -> B) (l : list A),
    (forall a, In a l -> f (hk a) (hv a) = Some (g a)) ->
    kv_loop f (map (fun a => (hk a, hv a)) l) = Some (map g l).
  Proof.
    intros A B hk hv f g l. induction l as [|a l IH]; intros Hf; cbn [map kv_loop]; [reflexivity|].
    rewrite (Hf a (or_introl eq_refl)), IH; [reflexivity|].
    intros b Hb. apply Hf. right; exact Hb.
  Qed.


  (** group_by_key on values against group_by_key on the model's keys *)
  Section Groups.
    Context {K : Type} (keqb : K -> K -> bool) (inj : K -> val).
    Hypothesis inj_eqb : forall a b, key_eqb N (inj a) (inj b) = keqb a b.

    Definition embed (g : list (K * list E)) : list (val * list val) :=
      map (fun kv => (inj (fst kv), map VE (snd kv))) g.

    Lemma group_insert_embed : forall k (v : E) g,
      group_insert (key_eqb N) (inj k) (VE v) (embed g) = embed (group_insert keqb k v g).
    Proof.
      intros k v g. induction g as [|[k' vs] g IH]; cbn [embed map group_insert fst snd]; [reflexivity|].
      rewrite inj_eqb. destruct (keqb k k').
      - cbn [map fst snd]. rewrite map_app. reflexivity.
      - cbn [map fst snd]. f_equal. exact IH.
    Qed.

    Lemma fold_group_embed : forall (key : E -> K) (l : list E) g,
      fold_left (fun g p => group_insert (key_eqb N) (fst p) (snd p) g)
                (map (fun e => (inj (key e), VE e)) l) (embed g)
      = embed (fold_left (fun g v => group_insert keqb (key v) v g) l g).
    Proof.
      intros key l. induction l as [|a l IH]; intros g; cbn [map fold_left fst snd]; [reflexivity|].
      rewrite group_insert_embed. apply IH.
    Qed.

    Lemma groups_of_embed : forall (key : E -> K) (l : list E),
      groups_of N (map (fun e => (inj (key e), VE e)) l)
      = VD (map (fun kv => (inj (fst kv), VL (map VE (snd kv)))) (group_by_key keqb key l)).
    Proof.
      intros key l. unfold groups_of, group_by_key.
      change (@nil (val * list val)) with (embed []).
      rewrite fold_group_embed. unfold embed. rewrite map_map. reflexivity.
    Qed.

    (** members of the groups come from the input *)
    Lemma group_insert_members : forall k (v : E) g kk vs x,
      In (kk, vs) (group_insert keqb k v g) -> In x vs ->
      x = v \/ exists kk' vs', In (kk', vs') g /\ In x vs'.
    Proof.
      intros k v g. induction g as [|[k' ws] g IH]; intros kk vs x Hin Hx; cbn [group_insert] in Hin.
      - destruct Hin as [Heq|[]]. inversion Heq; subst. destruct Hx as [->|[]]. left; reflexivity.
      - destruct (keqb k k').
        + destruct Hin as [Heq|Hin].
          * inversion Heq; subst. apply in_app_or in Hx. destruct Hx as [Hx|[->|[]]].
            -- right. exists kk, ws. split; [left; reflexivity | exact Hx].
            -- left; reflexivity.
          * right. exists kk, vs. split; [right; exact Hin | exact Hx].
        + destruct Hin as [Heq|Hin].
          * inversion Heq; subst. right. exists kk, vs. split; [left; reflexivity | exact Hx].
          * destruct (IH kk vs x Hin Hx) as [->|(kk' & vs' & H1 & H2)]; [left; reflexivity|].
            right. exists kk', vs'. split; [right; exact H1 | exact H2].
    Qed.

    Lemma group_members : forall (key : E -> K) (l : list E) kk vs x,
      In (kk, vs) (group_by_key keqb key l) -> In x vs -> In x l.
    Proof.
      intros key l. unfold group_by_key.
      assert (H : forall l g kk vs x,
                 In (kk, vs) (fold_left (fun g v => group_insert keqb (key v) v g) l g) -> In x vs ->
                 In x l \/ exists kk' vs', In (kk', vs') g /\ In x vs').
      { induction l0 as [|a l0 IH]; intros g kk vs x Hin Hx; cbn [fold_left] in Hin.
        - right. exists kk, vs. split; assumption.
        - destruct (IH _ _ _ _ Hin Hx) as [H|(kk' & vs' & H1 & H2)].
          + left. right. exact H.
          + destruct (group_insert_members _ _ _ _ _ _ H1 H2) as [->|H3].
            * left. left. reflexivity.
            * right. exact H3. }
      intros kk vs x Hin Hx. destruct (H l [] kk vs x Hin Hx) as [H1|(kk' & vs' & [] & _)]. exact H1.
    Qed.
  End Groups.
End Generic.

Section More.
  Context {T : Type} (N : NumOps T).
  Notation E := (expr T).
  Notation val := (val (T:=T)).

  Lemma split_first_ext : forall (f g : E -> bool) (l : list E),
    (forall e, f e = g e) -> split_first f l = split_first g l.
  Proof.
    intros f g l H. induction l as [|a l IH]; cbn [split_first]; [reflexivity|].
    rewrite H, IH. reflexivity.
  Qed.

  Lemma find_first_split_cls : forall cls (l : list E) (i : nat),
    match split_first (is_cls cls) l with
    | Some (before, hit, after) =>
        find_first (val_is cls) i (map VE l) = Some (i + List.length before, VE hit) /\
        l = before ++ hit :: after /\ is_cls cls hit = true
    | None => find_first (val_is cls) i (map VE l) = None
    end.
  Proof. intros. apply (find_first_split (is_cls cls)). Qed.

  Lemma nat_of_of_nat : forall n, nat_of (@VZ T (Z.of_nat n)) = Some n.
  Proof.
    intros. unfold nat_of. destruct (Z.leb_spec 0 (Z.of_nat n)); [|lia].
    rewrite Nat2Z.id. reflexivity.
  Qed.

  Lemma nat_of_succ : forall n, nat_of (@VZ T (Z.of_nat n + 1)) = Some (S n).
  Proof.
    intros. replace (Z.of_nat n + 1)%Z with (Z.of_nat (S n)) by lia. apply nat_of_of_nat.
  Qed.

  Lemma slice_before : forall (b : list E) (h : E) (a : list E),
    firstn (List.length b) (map (@VE T) (b ++ h :: a)) = map VE b.
  Proof.
    intros. rewrite map_app. rewrite <- (map_length (@VE T) b). apply firstn_app_len.
  Qed.

  Lemma slice_after : forall (b : list E) (h : E) (a : list E),
    skipn (S (List.length b)) (firstn (List.length (map (@VE T) (b ++ h :: a))) (map (@VE T) (b ++ h :: a))) = map VE a.
  Proof.
    intros. rewrite firstn_all, map_app. cbn [map].
    rewrite <- (map_length (@VE T) b).
    change (map VE b ++ VE h :: map VE a) with (map VE b ++ [VE h] ++ map VE a).
    rewrite app_assoc.
    replace (S (List.length (map (@VE T) b))) with (List.length (map (@VE T) b ++ [VE h])).
    - apply skipn_app_len.
    - rewrite app_length. cbn. lia.
  Qed.

  Lemma as_exprs_app : forall (a b : list val) (x y : list E),
    as_exprs a = Some x -> as_exprs b = Some y -> as_exprs (a ++ b) = Some (x ++ y).
  Proof.
    induction a as [|v a IH]; intros b x y Ha Hb.
    - cbn in Ha. inversion Ha; subst. exact Hb.
    - cbn [as_exprs app] in *. destruct v; try discriminate.
      destruct (as_exprs a) eqn:Ea; [|discriminate]. inversion Ha; subst.
      rewrite (IH b l y eq_refl Hb). reflexivity.
  Qed.

  Lemma as_exprs_VE_app : forall (x y : list E), as_exprs (map VE x ++ map VE y) = Some (x ++ y).
  Proof. intros. rewrite <- map_app. apply as_exprs_VE. Qed.
End More.

Lemma Z_even_of_nat : forall n, Z.even (Z.of_nat n) = Nat.even n.
Proof.
  assert (H : forall n, Z.even (Z.of_nat n) = Nat.even n /\ Z.even (Z.of_nat (S n)) = Nat.even (S n)).
  { induction n as [|n [IH1 IH2]].
    - split; reflexivity.
    - split; [exact IH2|].
      replace (Z.of_nat (S (S n))) with (Z.succ (Z.succ (Z.of_nat n))) by lia.
      rewrite Z.even_succ_succ. cbn [Nat.even]. exact IH1. }
  intros n. apply H.
Qed.

Lemma Z_of_nat_eqb0 : forall n, Z.eqb (Z.of_nat n) 0 = Nat.eqb n 0.
Proof. intros. apply (Z_of_nat_eqb n 0). Qed.

Lemma filter_In_true : forall (A : Type) (f : A -> bool) (l : list A) (a : A), In a (filter f l) -> f a = true.
Proof. intros A f l a H. apply filter_In in H. tauto. Qed.
