(** C12 — equality is structural, an equivalence, and consistent with hashing. *)
From SM Require Import SpecObjects.
From SM.proofs Require Import EqHash.

Theorem C12_RInst_equiv : SpecObjects.C12_RInst_equiv.
Proof. exact RInst_equiv. Qed.
Theorem C12_eqb_structural : SpecObjects.C12_eqb_structural.
Proof. exact eqb_structural. Qed.
Theorem C12_eqb_equivalence : SpecObjects.C12_eqb_equivalence.
Proof. exact eqb_equivalence. Qed.
Theorem C12_eqb_hash : SpecObjects.C12_eqb_hash.
Proof. exact eqb_hash. Qed.
Theorem C12_point_eq : SpecObjects.C12_point_eq.
Proof. exact point_eq. Qed.
Theorem C12_point_perm : SpecObjects.C12_point_perm.
Proof. exact point_perm. Qed.
Theorem C12_point_hash : SpecObjects.C12_point_hash.
Proof. exact point_hash. Qed.
Theorem C12_py_eq_equivalence : SpecObjects.C12_py_eq_equivalence.
Proof. exact py_eq_equivalence. Qed.
Theorem C12_py_eq_hash : SpecObjects.C12_py_eq_hash.
Proof. exact py_eq_hash. Qed.

Print Assumptions C12_RInst_equiv.
Print Assumptions C12_eqb_structural.
Print Assumptions C12_eqb_equivalence.
Print Assumptions C12_eqb_hash.
Print Assumptions C12_point_eq.
Print Assumptions C12_point_perm.
Print Assumptions C12_point_hash.
Print Assumptions C12_py_eq_equivalence.
Print Assumptions C12_py_eq_hash.
