(** C14 — an expression needs exactly the coordinates of the variables it mentions. *)
From SM Require Import Spec.
From SM.proofs Require Import EvalSound OutcomeKinds OrderIndep.

Theorem C14_no_missing : Spec.C14_no_missing.
Proof. exact (no_missing eval_no_missing). Qed.
Theorem C14_missing_not_val : Spec.C14_missing_not_val.
Proof. exact eval_missing_not_val. Qed.
Theorem C14_number_accepted : Spec.C14_number_accepted.
Proof. exact number_accepted. Qed.
Theorem C14_vars_of_results : Spec.C14_vars_of_results.
Proof. exact vars_of_results. Qed.

Print Assumptions C14_no_missing.
Print Assumptions C14_missing_not_val.
Print Assumptions C14_number_accepted.
Print Assumptions C14_vars_of_results.
