(** C02 — DomainError exactly outside the strict domain. *)
From SM Require Import Spec.
From SM.proofs Require Import EvalSound.

Theorem C02_domerr_iff : Spec.C02_domerr_iff.
Proof. exact eval_domerr_iff. Qed.
Theorem C02_total : Spec.C02_total.
Proof. exact eval_total. Qed.

Print Assumptions C02_domerr_iff.
Print Assumptions C02_total.
