(** C01 — evaluation returns the real-arithmetic value of the expression. *)
From SM Require Import Spec.
From SM.proofs Require Import EvalSound.

Theorem C01_eval_sound : Spec.C01_eval_sound.
Proof. exact eval_sound. Qed.
Theorem C01_at_number : Spec.C01_at_number.
Proof. exact at_number_sound. Qed.

Print Assumptions C01_eval_sound.
Print Assumptions C01_at_number.
