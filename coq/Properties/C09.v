(** C09 — answers do not depend on what was computed before.
    Part A: the evaluation cache (any history of numeric API calls over expressions sharing
    objects, from any initial cache contents).  Part B: the simplifier's flags (any truthful
    table left behind by earlier simplifications; the result is the same whenever the step
    budget suffices).  All generic in the number type; axiom-free. *)
From SM Require Import SpecStateful.
From SM.proofs Require Import History.

Theorem C09_reset_clean : SpecStateful.C09_reset_clean.
Proof. exact reset_clean. Qed.
Theorem C09_eval_s_refines : SpecStateful.C09_eval_s_refines.
Proof. exact eval_s_refines. Qed.
Theorem C09_history_independent : SpecStateful.C09_history_independent.
Proof. exact history_independent. Qed.
Theorem C09_no_reset_refuted : SpecStateful.C09_no_reset_refuted.
Proof. exact no_reset_refuted. Qed.
Theorem C09_flags_step : SpecStateful.C09_flags_step.
Proof. exact flags_step. Qed.
Theorem C09_flags_fully_reduce : SpecStateful.C09_flags_fully_reduce.
Proof. exact flags_fully_reduce. Qed.
Theorem C09_flags_history_independent : SpecStateful.C09_flags_history_independent.
Proof. exact flags_history_independent. Qed.

Print Assumptions C09_reset_clean.
Print Assumptions C09_eval_s_refines.
Print Assumptions C09_history_independent.
Print Assumptions C09_no_reset_refuted.
Print Assumptions C09_flags_step.
Print Assumptions C09_flags_fully_reduce.
Print Assumptions C09_flags_history_independent.
