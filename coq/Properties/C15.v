(** C15 — operator syntax builds exactly the named constructors. *)
From SM Require Import SpecObjects.
From SM.proofs Require Import CtorOps.

Theorem C15_operators : SpecObjects.C15_operators.
Proof. exact operators. Qed.
Theorem C15_pow_integer : SpecObjects.C15_pow_integer.
Proof. exact pow_integer. Qed.
Theorem C15_rejects : SpecObjects.C15_rejects.
Proof. exact rejects. Qed.

Print Assumptions C15_operators.
Print Assumptions C15_pow_integer.
Print Assumptions C15_rejects.
