(** C11 — simplification terminates in a rule-free form, without cycles.
    (The quantitative clauses — quadratic step count, 20 nodes within the budget — are measured
    by the harness, not proved.) *)
From SM Require Import Spec.
From SM.proofs Require Import Termination.

Theorem C11_terminates : Spec.C11_terminates.
Proof. exact terminates. Qed.
Theorem C11_no_revisit : Spec.C11_no_revisit.
Proof. exact no_revisit. Qed.
Theorem C11_rule_free : Spec.C11_rule_free.
Proof. exact rule_free. Qed.

Print Assumptions C11_terminates.
Print Assumptions C11_no_revisit.
Print Assumptions C11_rule_free.
