(** C17 — only the library's own errors escape. *)
From SM Require Import Spec.
From SM.proofs Require Import EvalSound OutcomeKinds.

Theorem C17_no_pyerr : Spec.C17_no_pyerr.
Proof. exact (no_pyerr eval_no_pyerr). Qed.

Print Assumptions C17_no_pyerr.
