(** C10 — operations never change their operands.
    The model's expressions are immutable values, so a frame theorem over it alone would hold by
    construction.  What is proved here is about the SOURCE: the table of every write site,
    regenerated from /repo on every run, contains only memo-field writes, writes to the object
    under construction, accumulator-private writes and writes to locally created containers. *)
From Coq Require Import List.
From SM Require Import Generated TieWrites.

Theorem C10_writes_framed : forall w, In w gen_writes -> write_allowed w = true.
Proof. exact writes_framed_forall. Qed.

Print Assumptions C10_writes_framed.
