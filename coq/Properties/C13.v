(** C13 — the printed form echoes the object. *)
From SM Require Import SpecObjects.
From SM.proofs Require Import ShowParse.

Theorem C13_parse_show : SpecObjects.C13_parse_show.
Proof. exact parse_show. Qed.
Theorem C13_roundtrip_eq : SpecObjects.C13_roundtrip_eq.
Proof. exact roundtrip_eq. Qed.
Theorem C13_show_injective : SpecObjects.C13_show_injective.
Proof. exact show_injective. Qed.
Theorem C13_old_printer_refuted : SpecObjects.C13_old_printer_refuted.
Proof. exact old_printer_refuted. Qed.
Theorem C13_wrappers_injective : SpecObjects.C13_wrappers_injective.
Proof. exact wrappers_injective. Qed.

Print Assumptions C13_parse_show.
Print Assumptions C13_roundtrip_eq.
Print Assumptions C13_show_injective.
Print Assumptions C13_old_printer_refuted.
Print Assumptions C13_wrappers_injective.
