(** C05 — symbolic derivatives denote the true derivative on the original's domain.
    as_expression() is covered modulo KF-ROOT (the hypothesis [good_trace]: no even/even
    root-of-power rewrite was applied); see C08 for the refutation outside it. *)
From SM Require Import Spec SpecMore.
From SM.proofs Require Import SynthSound Glue OrderIndep SecondOrder.

Theorem C05_synth_fwd_sound : Spec.C05_synth_fwd_sound.
Proof. exact synth_fwd_sound. Qed.
Theorem C05_synth_rev_sound : Spec.C05_synth_rev_sound.
Proof. exact synth_rev_sound. Qed.
Theorem C05_as_expression_sound : Spec.C05_as_expression_sound.
Proof. exact as_expression_sound. Qed.

Theorem C05_second_order : SpecMore.C05_second_order.
Proof. exact second_order. Qed.

Print Assumptions C05_synth_fwd_sound.
Print Assumptions C05_synth_rev_sound.
Print Assumptions C05_as_expression_sound.
Print Assumptions C05_second_order.
