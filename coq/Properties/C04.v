(** C04 — reverse-mode gradient equals the forward values (hence, with C03, the true partials). *)
From SM Require Import Spec.
From SM.proofs Require Import EvalSound ReverseSound.

Theorem C04_rev_acc : Spec.C04_rev_acc.
Proof. exact (rev_acc eval_sound). Qed.
Theorem C04_rev_sound : Spec.C04_rev_sound.
Proof. exact (rev_sound eval_sound). Qed.

Print Assumptions C04_rev_acc.
Print Assumptions C04_rev_sound.
