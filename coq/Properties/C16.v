(** C16 — ill-formed expressions are rejected at construction. *)
From SM Require Import SpecObjects.
From SM.proofs Require Import CtorOps.

Theorem C16_nth : SpecObjects.C16_nth.
Proof. exact ctor_nth. Qed.
Theorem C16_base : SpecObjects.C16_base.
Proof. exact ctor_base. Qed.
Theorem C16_operands : SpecObjects.C16_operands.
Proof. exact ctor_operands. Qed.
Theorem C16_built_wf : SpecObjects.C16_built_wf.
Proof. exact built_wf. Qed.

Print Assumptions C16_nth.
Print Assumptions C16_base.
Print Assumptions C16_operands.
Print Assumptions C16_built_wf.
