(** C18 — independence from set-iteration order and coordinate order. *)
From SM Require Import Spec.
From SM.proofs Require Import OrderIndep.

Theorem C18_enum_indep : Spec.C18_enum_indep.
Proof. exact enum_indep. Qed.
Theorem C18_point_perm : Spec.C18_point_perm.
Proof. exact point_perm. Qed.
Theorem C18_synth_enum_indep : Spec.C18_synth_enum_indep.
Proof. exact synth_enum_indep. Qed.
Theorem C18_single_name : Spec.C18_single_name.
Proof. exact single_name. Qed.

Print Assumptions C18_enum_indep.
Print Assumptions C18_point_perm.
Print Assumptions C18_synth_enum_indep.
Print Assumptions C18_single_name.
