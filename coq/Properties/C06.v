(** C06 — early, late and every other differentiation route give the same answers.
    Partial.at / Derivative.at / Differential.component(v).at / component_at (late) are the same
    model function by definition (Routes.v; tied to the code by the correspondence check); the
    theorems relate the remaining routes to it.  Structural equality of the REVERSE symbolic
    route with the forward one is not claimed: it is known finding KF-ORDER. *)
From SM Require Import Spec.
From SM.proofs Require Import Glue.

Theorem C06_located : Spec.C06_located.
Proof. exact located_agrees. Qed.
Theorem C06_early : Spec.C06_early.
Proof. exact early_agrees. Qed.

Print Assumptions C06_located.
Print Assumptions C06_early.
