(** C06 — early, late and every other differentiation route give the same answers.
    Partial.at / Derivative.at / Differential.component(v).at / component_at (late) are the same
    model function by definition (Routes.v; tied to the code by the correspondence check); the
    theorems relate the remaining routes to it.  Structural equality of the REVERSE symbolic
    route with the forward one is not claimed: it is known finding KF-ORDER. *)
From SM Require Import Spec SpecRoutes.
From SM.proofs Require Import Glue RouteObjects.

Theorem C06_located : Spec.C06_located.
Proof. exact located_agrees. Qed.
Theorem C06_early : Spec.C06_early.
Proof. exact early_agrees. Qed.

(* "Differential(e).component(v) equals Partial(e, v) and Differential(e).at(p) equals
   LocatedDifferential(e, p)": the object model of RouteAst.v (tied to the four classes by
   TieRoute.v) under the equality of Objects.v (tied to the __eq__ bodies by TieObj.v) *)
Theorem C06_component_equals_partial : SpecRoutes.C06_component_equals_partial.
Proof. exact component_equals_partial_R. Qed.
Theorem C06_at_equals_located : SpecRoutes.C06_at_equals_located.
Proof. exact at_equals_located_R. Qed.
Theorem C06_at_located_same_outcome : SpecRoutes.C06_at_located_same_outcome.
Proof. exact at_located_same_outcome. Qed.

Print Assumptions C06_located.
Print Assumptions C06_early.
Print Assumptions C06_component_equals_partial.
Print Assumptions C06_at_equals_located.
Print Assumptions C06_at_located_same_outcome.
