(** C07 — derivative queries fail exactly where the expression itself is undefined. *)
From SM Require Import Spec.
From SM.proofs Require Import EvalSound OutcomeKinds Glue.

Theorem C07_fwd : Spec.C07_fwd.
Proof. exact (fwd_same_kind eval_total). Qed.
Theorem C07_rev : Spec.C07_rev.
Proof. exact (rev_same_kind eval_total). Qed.
Theorem C07_early : Spec.C07_early.
Proof. exact early_same_kind. Qed.

Print Assumptions C07_fwd.
Print Assumptions C07_rev.
Print Assumptions C07_early.
