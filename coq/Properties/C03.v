(** C03 — forward-mode partials equal the true partial derivative. *)
From SM Require Import Spec.
From SM.proofs Require Import EvalSound Deriv.

Theorem C03_fwd_sound : Spec.C03_fwd_sound.
Proof. exact (fwd_sound eval_sound). Qed.
Theorem C03_fwd_absent : Spec.C03_fwd_absent.
Proof. exact (fwd_absent eval_sound). Qed.

Print Assumptions C03_fwd_sound.
Print Assumptions C03_fwd_absent.
