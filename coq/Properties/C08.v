(** C08 — simplification preserves meaning and never shrinks the domain.
    Every rule but one instance is sound; the even/even instance of
    NthRoot(NthPower(u, m), n) => NthPower(NthRoot(u, n), m) shrinks the domain (KF-ROOT): the
    refutations below keep the witnesses. *)
From SM Require Import Spec.
From SM.proofs Require Import RulesSoundB Glue.

Theorem C08_rules_sound : Spec.C08_rules_sound.
Proof. exact rules_sound. Qed.
Theorem C08_consolidate_sound : Spec.C08_consolidate_sound.
Proof. exact consolidate_sound. Qed.
Theorem C08_step_sound : Spec.C08_step_sound.
Proof. exact step_sound_closed. Qed.
Theorem C08_fully_reduce_sound : Spec.C08_fully_reduce_sound.
Proof. exact fully_reduce_sound_closed. Qed.
Theorem C08_nfr_sound : Spec.C08_nfr_sound.
Proof. exact nfr_sound_closed. Qed.
Theorem C08_normalize_sound : Spec.C08_normalize_sound.
Proof. exact normalize_sound_closed. Qed.
(* KF-ROOT *)
Theorem C08_root_of_power_domain_refuted : Spec.C08_root_of_power_domain_refuted.
Proof. exact root_of_power_domain_refuted. Qed.
(* the value clause of the first draft of the refutation is NOT provable: [denote] is total and
   the rule preserves it; the value gap (3 versus -3) needs the next, legitimate rewrite *)
Theorem C08_root_of_power_value_not_refuted : ~ Spec.C08_root_of_power_refuted.
Proof. exact root_of_power_refuted_is_false. Qed.

Print Assumptions C08_rules_sound.
Print Assumptions C08_consolidate_sound.
Print Assumptions C08_step_sound.
Print Assumptions C08_fully_reduce_sound.
Print Assumptions C08_nfr_sound.
Print Assumptions C08_normalize_sound.
Print Assumptions C08_root_of_power_domain_refuted.
Print Assumptions C08_root_of_power_value_not_refuted.
