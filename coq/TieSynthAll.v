(** * TieSynthAll: Multiply._synthetic_partial (enumerate / list_without_entry_at) and the whole-route
    theorems [synth_fwd_tied], [synth_formula_tied]: per class, the translated method of the CURRENT source
    computes the model's synth_fwd / synth_unary_formula, for every N, variable and tree. *)
From Coq Require Import ZArith List Bool String Lia.
From SM Require Import Num Syntax Outcome MathFun Eval Forward Synth Rules SymAst SymLemmas GeneratedSym TieSynth.
Import ListNotations.
Open Scope string_scope.
Open Scope list_scope.

Section Tie.
  Context {T : Type} (N : NumOps T).
  Notation E := (expr T).
  Notation val := (val (T:=T)).

  Lemma without_remove_nth : forall (A : Type) (h : A -> val) (i : nat) (l : list A),
    without i (map h l) = map h (remove_nth i l).
  Proof.
    intros A h i l. revert i. induction l as [|a l IH]; intros i.
    - destruct i; reflexivity.
    - destruct i; cbn [map without remove_nth]; [reflexivity|]. rewrite IH. reflexivity.
  Qed.

  Lemma enum_loop_map : forall (A : Type) (h : A -> val) (f : nat -> val -> option val) (g : nat -> A -> val)
                               (l : list A) (n : nat),
    (forall i a, f i (h a) = Some (g i a)) ->
    enum_loop f n (map h l) = Some (mapi_from n g l).
  Proof.
    intros A h f g l. induction l as [|a l IH]; intros n Hf; cbn [map enum_loop mapi_from]; [reflexivity|].
    rewrite Hf, IH by exact Hf. reflexivity.
  Qed.

  Lemma mapi_from_map : forall (A B C : Type) (g : A -> B) (f : nat -> B -> C) (l : list A) (n : nat),
    mapi_from n f (map g l) = mapi_from n (fun i a => f i (g a)) l.
  Proof.
    intros A B C g f l. induction l as [|a l IH]; intros n; cbn [map mapi_from]; [reflexivity|].
    rewrite IH. reflexivity.
  Qed.

  Lemma map_mapi_from : forall (A B C : Type) (h : B -> C) (f : nat -> A -> B) (l : list A) (n : nat),
    map h (mapi_from n f l) = mapi_from n (fun i a => h (f i a)) l.
  Proof.
    intros A B C h f l. induction l as [|a l IH]; intros n; cbn [map mapi_from]; [reflexivity|].
    rewrite IH. reflexivity.
  Qed.

  Ltac opq := cbn -[nofZ nfloat n_e nsum nadd nsub nmul ndiv nneg npow npowi nsqrt ncbrt nln nsin ncos neqb nltb
                    nint nfinite mf_add mf_multiply nat_of skipn firstn groups_of synth_fwd without Z.div Z.sub Z.add
                    Z.even Z.odd Z.leb Z.of_nat Pos.gcd Pos.eqb Pos.mul Pos.pred]; unfold n0, n1, nm1.

  Lemma synthetic_partial_Multiply_tied : forall l v,
    runf N gen_sym_Multiply_synthetic_partial (Mul l) [VS v] = Some (VE (synth_fwd N v (Mul l))).
  Proof.
    intros l v. unfold runf, scall. opq.
    erewrite (enum_loop_map _ (@VE T) _ (fun i a => VE (Mul (synth_fwd N v a :: remove_nth i l)))).
    2: { intros i a. opq. rewrite nat_of_of_nat. opq. rewrite without_remove_nth, app_nil_r. cbn [as_exprs].
         rewrite as_exprs_VE. reflexivity. }
    opq. rewrite app_nil_r.
    rewrite <- (map_mapi_from _ _ _ (@VE T) (fun i a => Mul (synth_fwd N v a :: remove_nth i l))).
    rewrite as_exprs_VE. cbn [synth_fwd]. unfold mapi. rewrite mapi_from_map. reflexivity.
  Qed.

  (** ** the whole forward symbolic route: per class, the translated [_synthetic_partial] (the
      class's own or the inherited one) computes [synth_fwd] *)
  Definition gen_synth (v : name) (e : E) : option val :=
    match e with
    | Const _ => runf N gen_sym_Constant_synthetic_partial e [VS v]
    | Var _ => runf N gen_sym_Variable_synthetic_partial e [VS v]
    | Add _ => runf N gen_sym_Add_synthetic_partial e [VS v]
    | Mul _ => runf N gen_sym_Multiply_synthetic_partial e [VS v]
    | Minus _ _ => runf N gen_sym_Minus_synthetic_partial e [VS v]
    | Divide _ _ => runf N gen_sym_Divide_synthetic_partial e [VS v]
    | Power _ _ => runf N gen_sym_Power_synthetic_partial e [VS v]
    | _ => runf N gen_sym_UnaryExpression_synthetic_partial e [VS v]
    end.

  (* the formula method the inherited _synthetic_partial dispatches to, per class *)
  Definition gen_formula (e m : E) : option val :=
    match e with
    | Neg _ => runf N gen_sym_Negation_synthetic_partial_formula e [VE m]
    | Recip _ => runf N gen_sym_Reciprocal_synthetic_partial_formula e [VE m]
    | Sin _ => runf N gen_sym_Sine_synthetic_partial_formula e [VE m]
    | Cos _ => runf N gen_sym_Cosine_synthetic_partial_formula e [VE m]
    | NthPow _ _ => runf N gen_sym_NthPower_synthetic_partial_formula e [VE m]
    | NthRoot _ _ => runf N gen_sym_NthRoot_synthetic_partial_formula e [VE m]
    | Exp _ _ => runf N gen_sym_Exponential_synthetic_partial_formula e [VE m]
    | Log _ _ => runf N gen_sym_Logarithm_synthetic_partial_formula e [VE m]
    | _ => None
    end.

  Theorem synth_fwd_tied : forall v e, gen_synth v e = Some (VE (synth_fwd N v e)).
  Proof.
    intros v e. destruct e; unfold gen_synth.
    - apply synthetic_partial_Constant_tied.
    - apply synthetic_partial_Variable_tied.
    - apply synthetic_partial_Add_tied.
    - apply synthetic_partial_Multiply_tied.
    - apply synthetic_partial_Minus_tied.
    - apply synthetic_partial_Divide_tied.
    - apply synthetic_partial_Power_tied.
    - apply (synthetic_partial_Unary_tied N (Neg e)).
    - apply (synthetic_partial_Unary_tied N (Recip e)).
    - apply (synthetic_partial_Unary_tied N (Sin e)).
    - apply (synthetic_partial_Unary_tied N (Cos e)).
    - apply (synthetic_partial_Unary_tied N (NthPow e n)).
    - apply (synthetic_partial_Unary_tied N (NthRoot e n)).
    - apply (synthetic_partial_Unary_tied N (Exp e base)).
    - apply (synthetic_partial_Unary_tied N (Log e base)).
  Qed.

  Theorem synth_formula_tied : forall e m,
    match e with
    | Neg _ | Recip _ | Sin _ | Cos _ | NthPow _ _ | NthRoot _ _ | Exp _ _ | Log _ _ =>
        gen_formula e m = Some (VE (synth_unary_formula N e m))
    | _ => True
    end.
  Proof.
    intros e m. destruct e; try exact I; unfold gen_formula.
    - apply formula_Negation_tied. - apply formula_Reciprocal_tied. - apply formula_Sine_tied.
    - apply formula_Cosine_tied. - apply formula_NthPower_tied. - apply formula_NthRoot_tied.
    - apply formula_Exponential_tied. - apply formula_Logarithm_tied.
  Qed.
End Tie.
