(** * UtilAst: the list and dictionary helpers of utilities.py (list_without_entry_at,
    list_with_updated_entry_at, first_match_by_predicate, partition_by_predicate, group_by_key,
    map_dictionary_values) and the two type-directed wrappers of base_expression/expression.py
    (first_of_given_type, partition_by_given_type) as a deep embedding with an interpreter.

    These helpers are PRIMITIVES of the other embeddings (SymAst: XWithout, XFirstOfType,
    XPartition, XGroupBy, XMapValues; OrchAst: OWithout; StepAst: TUpdatedAt).  GeneratedUtil.v
    holds their CURRENT source; TieUtil.v proves that each body computes the polymorphic list
    function that gives the primitive its meaning there.  The helpers are parametric in the items
    they move around, so the interpreter works over a value type with opaque atoms and opaque
    callables; the meaning of a primitive at the value type of another embedding is the same
    polymorphic function at that type. *)
From Coq Require Import ZArith List Bool String Ascii.
Import ListNotations.
Open Scope string_scope.
Open Scope list_scope.

Inductive ux : Type :=
| UName (x : string)
| UInt (z : Z)
| UNoneLit
| ULen (t : ux)
| UNeg (t : ux)
| UAdd (a b : ux)                          (* int + int, list + list *)
| UGe (a b : ux)
| ULe (a b : ux)
| UOr (a b : ux)
| USlice (t : ux) (lo hi : option ux)      (* t[lo:hi] *)
| UList (items : list ux)                  (* [a, b] *)
| UDictNew                                 (* dict() *)
| UTuple (a b : ux)
| UApply1 (f : string) (a : ux)            (* f(a), f a parameter holding a callable *)
| UApply2 (f : string) (a b : ux)
| UNotIn (k d : ux)                        (* k not in d *)
| UItems (d : ux)                          (* d.items() *)
| ULambdaIsInst (cls : string)             (* lambda e: isinstance(e, cls) *)
| UHelper (f : string) (args : list ux).   (* util.f(args) *)

Inductive ustmt : Type :=
| USAssign (x : string) (t : ux)
| USSetItem (d : string) (k t : ux)        (* d[k] = t *)
| USAppend (x : string) (t : ux)           (* x.append(t) *)
| USAppendAt (d : string) (k t : ux)       (* d[k].append(t) *)
| USIf (c : ux) (th el : list ustmt)
| USReturn (t : ux)
| USFor (x : string) (iter : ux) (body : list ustmt)
| USForEnum (i x : string) (iter : ux) (body : list ustmt)
| USFor2 (k v : string) (iter : ux) (body : list ustmt).

Record ufun : Type := mkUFun { u_params : list string; u_body : list ustmt }.

(** ** the polymorphic list functions the helpers are claimed to compute *)
Section Poly.
  Context {X : Type}.

  Fixpoint remove_at (i : nat) (l : list X) : list X :=
    match l with
    | [] => []
    | x :: r => match i with O => r | S j => x :: remove_at j r end
    end.

  Fixpoint update_at (i : nat) (y : X) (l : list X) : list X :=
    match l with
    | [] => []
    | x :: r => match i with O => y :: r | S j => x :: update_at j y r end
    end.

  (* Python's reading of an index: None = out of range *)
  Definition py_index (i : Z) (l : list X) : option nat :=
    let n := Z.of_nat (List.length l) in
    if (Z.geb i n || Z.leb i (- (n + 1)))%bool then None
    else if Z.geb i 0 then Some (Z.to_nat i) else Some (Z.to_nat (n + i)).

  Definition py_without (i : Z) (l : list X) : list X :=
    match py_index i l with None => l | Some j => remove_at j l end.

  Definition py_updated (i : Z) (y : X) (l : list X) : list X :=
    match py_index i l with None => l | Some j => update_at j y l end.

  Fixpoint find_first_from (p : X -> bool) (i : nat) (l : list X) : option (nat * X) :=
    match l with
    | [] => None
    | x :: r => if p x then Some (i, x) else find_first_from p (S i) r
    end.

  Section Group.
    Context {K : Type} (keqb : K -> K -> bool).
    Fixpoint ginsert (k : K) (v : X) (g : list (K * list X)) : list (K * list X) :=
      match g with
      | [] => [(k, [v])]
      | (k', vs) :: r => if keqb k k' then (k', vs ++ [v]) :: r else (k', vs) :: ginsert k v r
      end.
    Definition groups (key : X -> K) (l : list X) : list (K * list X) :=
      fold_left (fun g v => ginsert (key v) v g) l [].
  End Group.
End Poly.

Section Interp.
  Variable A : Type.                         (* opaque items *)
  Variable C : Type.                         (* opaque callables *)

  Inductive uval : Type :=
  | UVZ (z : Z)
  | UVB (b : bool)
  | UVNone
  | UVAtom (a : A)
  | UVL (l : list uval)
  | UVTup (a b : uval)
  | UVD (d : list (uval * uval))
  | UVFun (c : C).

  Variable keq : uval -> uval -> bool.       (* == on dictionary keys: new key against stored key *)
  Variable apply1 : C -> uval -> option uval.
  Variable apply2 : C -> uval -> uval -> option uval.
  Variable isinst : uval -> C.               (* the closure  lambda e: isinstance(e, cls) *)
  Variable helper : string -> list uval -> option uval.   (* util.f: tied to its own body *)

  Definition uenv := list (string * uval).
  Fixpoint ulook (x : string) (r : uenv) : option uval :=
    match r with
    | [] => None
    | (y, w) :: r' => if String.eqb x y then Some w else ulook x r'
    end.
  (* assignment: an existing local is overwritten in place, a new one goes to the front *)
  Fixpoint uset (x : string) (w : uval) (r : uenv) : uenv :=
    match r with
    | [] => [(x, w)]
    | (y, u) :: r' => if String.eqb x y then (y, w) :: r' else (y, u) :: uset x w r'
    end.

  Fixpoint dhas (k : uval) (d : list (uval * uval)) : bool :=
    match d with
    | [] => false
    | (k', _) :: r => if keq k k' then true else dhas k r
    end.
  (* d[k] = w: an existing key keeps its place (and its stored key), a new key goes to the end *)
  Fixpoint dput (k w : uval) (d : list (uval * uval)) : list (uval * uval) :=
    match d with
    | [] => [(k, w)]
    | (k', u) :: r => if keq k k' then (k', w) :: r else (k', u) :: dput k w r
    end.
  (* d[k].append(w): None when the key is absent (KeyError) or the entry is not a list *)
  Fixpoint dappend (k w : uval) (d : list (uval * uval)) : option (list (uval * uval)) :=
    match d with
    | [] => None
    | (k', u) :: r =>
        if keq k k' then match u with UVL l => Some ((k', UVL (l ++ [w])) :: r) | _ => None end
        else match dappend k w r with Some r' => Some ((k', u) :: r') | None => None end
    end.

  Definition nat_of_z (z : Z) : option nat := if Z.leb 0 z then Some (Z.to_nat z) else None.

  Fixpoint uev (r : uenv) (t : ux) {struct t} : option uval :=
    let uevlist :=
      fix uevlist (l : list ux) : option (list uval) :=
        match l with
        | [] => Some []
        | a :: rest =>
            match uev r a, uevlist rest with
            | Some v, Some vs => Some (v :: vs)
            | _, _ => None
            end
        end in
    let bound (o : option ux) (dflt : nat) : option nat :=
      match o with
      | None => Some dflt
      | Some b => match uev r b with Some (UVZ z) => nat_of_z z | _ => None end
      end in
    match t with
    | UName x => ulook x r
    | UInt z => Some (UVZ z)
    | UNoneLit => Some UVNone
    | ULen a => match uev r a with Some (UVL l) => Some (UVZ (Z.of_nat (List.length l))) | _ => None end
    | UNeg a => match uev r a with Some (UVZ z) => Some (UVZ (- z)) | _ => None end
    | UAdd a b =>
        match uev r a, uev r b with
        | Some (UVZ x), Some (UVZ y) => Some (UVZ (x + y))
        | Some (UVL x), Some (UVL y) => Some (UVL (x ++ y))
        | _, _ => None
        end
    | UGe a b =>
        match uev r a, uev r b with
        | Some (UVZ x), Some (UVZ y) => Some (UVB (Z.geb x y))
        | _, _ => None
        end
    | ULe a b =>
        match uev r a, uev r b with
        | Some (UVZ x), Some (UVZ y) => Some (UVB (Z.leb x y))
        | _, _ => None
        end
    | UOr a b =>
        match uev r a with
        | Some (UVB true) => Some (UVB true)
        | Some (UVB false) => match uev r b with Some (UVB y) => Some (UVB y) | _ => None end
        | _ => None
        end
    | USlice a lo hi =>
        match uev r a with
        | Some (UVL l) =>
            match bound lo O, bound hi (List.length l) with
            | Some i, Some j => Some (UVL (skipn i (firstn j l)))
            | _, _ => None
            end
        | _ => None
        end
    | UList items => match uevlist items with Some vs => Some (UVL vs) | None => None end
    | UDictNew => Some (UVD [])
    | UTuple a b =>
        match uev r a, uev r b with
        | Some x, Some y => Some (UVTup x y)
        | _, _ => None
        end
    | UApply1 f a =>
        match ulook f r, uev r a with
        | Some (UVFun c), Some x => apply1 c x
        | _, _ => None
        end
    | UApply2 f a b =>
        match ulook f r, uev r a, uev r b with
        | Some (UVFun c), Some x, Some y => apply2 c x y
        | _, _, _ => None
        end
    | UNotIn k d =>
        match uev r k, uev r d with
        | Some kk, Some (UVD dd) => Some (UVB (negb (dhas kk dd)))
        | _, _ => None
        end
    | UItems d =>
        match uev r d with
        | Some (UVD dd) => Some (UVL (map (fun kv => UVTup (fst kv) (snd kv)) dd))
        | _ => None
        end
    | ULambdaIsInst cls => match ulook cls r with Some c => Some (UVFun (isinst c)) | None => None end
    | UHelper f args => match uevlist args with Some vs => helper f vs | None => None end
    end.

  (** blocks: [inl r'] fell through with environment r'; [inr v] returned v *)
  Definition uflow := (uenv + uval)%type.

  Section Loops.
    Variable body : uenv -> uval -> option uflow.
    Fixpoint ufor_loop (r : uenv) (l : list uval) : option uflow :=
      match l with
      | [] => Some (inl r)
      | it :: rest =>
          match body r it with
          | Some (inl r') => ufor_loop r' rest
          | Some (inr v) => Some (inr v)
          | None => None
          end
      end.
  End Loops.
  Section EnumLoop.
    Variable body : uenv -> nat -> uval -> option uflow.
    Fixpoint uenum_loop (r : uenv) (i : nat) (l : list uval) : option uflow :=
      match l with
      | [] => Some (inl r)
      | it :: rest =>
          match body r i it with
          | Some (inl r') => uenum_loop r' (S i) rest
          | Some (inr v) => Some (inr v)
          | None => None
          end
      end.
  End EnumLoop.

  Fixpoint uexec (r : uenv) (s : ustmt) {struct s} : option uflow :=
    let block :=
      fix block (r : uenv) (l : list ustmt) {struct l} : option uflow :=
        match l with
        | [] => Some (inl r)
        | s :: rest =>
            match uexec r s with
            | Some (inl r') => block r' rest
            | Some (inr v) => Some (inr v)
            | None => None
            end
        end in
    match s with
    | USAssign x t => match uev r t with Some w => Some (inl (uset x w r)) | None => None end
    | USSetItem d k t =>
        match ulook d r, uev r k, uev r t with
        | Some (UVD dd), Some kk, Some w => Some (inl (uset d (UVD (dput kk w dd)) r))
        | _, _, _ => None
        end
    | USAppend x t =>
        match ulook x r, uev r t with
        | Some (UVL l), Some w => Some (inl (uset x (UVL (l ++ [w])) r))
        | _, _ => None
        end
    | USAppendAt d k t =>
        match ulook d r, uev r k, uev r t with
        | Some (UVD dd), Some kk, Some w =>
            match dappend kk w dd with Some dd' => Some (inl (uset d (UVD dd') r)) | None => None end
        | _, _, _ => None
        end
    | USIf c th el =>
        match uev r c with
        | Some (UVB true) => block r th
        | Some (UVB false) => block r el
        | _ => None
        end
    | USReturn t => match uev r t with Some w => Some (inr w) | None => None end
    | USFor x iter body =>
        match uev r iter with
        | Some (UVL l) => ufor_loop (fun r' it => block (uset x it r') body) r l
        | _ => None
        end
    | USForEnum i x iter body =>
        match uev r iter with
        | Some (UVL l) =>
            uenum_loop (fun r' n it => block (uset x it (uset i (UVZ (Z.of_nat n)) r')) body) r O l
        | _ => None
        end
    | USFor2 k v iter body =>
        match uev r iter with
        | Some (UVL l) =>
            ufor_loop (fun r' it => match it with
                                    | UVTup kk vv => block (uset v vv (uset k kk r')) body
                                    | _ => None
                                    end) r l
        | _ => None
        end
    end.

  Fixpoint ublock (r : uenv) (l : list ustmt) : option uflow :=
    match l with
    | [] => Some (inl r)
    | s :: rest =>
        match uexec r s with
        | Some (inl r') => ublock r' rest
        | Some (inr v) => Some (inr v)
        | None => None
        end
    end.

  (* falling off the end returns None (the Python value) *)
  Definition ucall (f : ufun) (args : list uval) : option uval :=
    if Nat.eqb (List.length (u_params f)) (List.length args) then
      match ublock (combine (u_params f) args) (u_body f) with
      | Some (inr w) => Some w
      | Some (inl _) => Some UVNone
      | None => None
      end
    else None.
End Interp.

Arguments UVZ {A C}. Arguments UVB {A C}. Arguments UVNone {A C}. Arguments UVAtom {A C}.
Arguments UVL {A C}. Arguments UVTup {A C}. Arguments UVD {A C}. Arguments UVFun {A C}.
