(** * TieCtor: the __init__ methods of every expression class, the operators of Expression and the
    number helpers of utilities.py of the CURRENT source (GeneratedCtor.v, regenerated on every run),
    interpreted by CtorAst, compute exactly the constructor model of Objects.v ([mk_*], [op_*],
    [checked_n]) — for every number interface and EVERY argument (expressions, numbers, strings,
    anything else). *)
From Coq Require Import ZArith List Bool String Lia.
From SM Require Import Num Syntax Outcome Eval Objects CtorAst GeneratedCtor.
Import ListNotations.
Open Scope string_scope.
Open Scope list_scope.

Section Tie.
  Context {T : Type} (N : NumOps T).
  Notation E := (expr T).
  Notation arg := (pyarg (T:=T)).
  Variable is_int : T -> bool.
  Variable is_float : T -> bool.
  Variable float_is_integer : T -> bool.
  Variable round_to_int : T -> Z.
  (* what utilities.integer_from_integral_float means in terms of Python's own number tests *)
  Hypothesis Hnint : forall x, nint N x =
    if is_int x || (is_float x && float_is_integer x) then Some (round_to_int x) else None.

  Notation cval := (cval (T:=T)).
  Definition init (owner : string) (f : cfun) (args : list cval) :=
    cinit N is_int is_float float_is_integer round_to_int owner f args.
  Definition callf (f : cfun) (self : option cval) (args : list cval) :=
    ccall N is_int is_float float_is_integer round_to_int "" f self args.

  Ltac opq := cbn -[nint nleb neqb nofZ n_e Z.leb Z.eqb Z.to_pos Z.modulo].

  (** decoding the fields a constructor assigned into the object they describe *)
  Fixpoint all_args (l : list arg) : option (list E) :=
    match l with
    | [] => Some []
    | AExpr e :: r => match all_args r with Some es => Some (e :: es) | None => None end
    | _ => None
    end.

  Definition decode (cls : string) (fs : cfields (T:=T)) : option E :=
    let inner := match clook "_inner" fs with Some (CVArg (AExpr e)) => Some e | _ => None end in
    let posn := match clook "_parameter" fs with
                | Some (CVInt z) => if Z.ltb 0 z then Some (Z.to_pos z) else None
                | _ => None
                end in
    let base := match clook "_parameter" fs with Some (CVArg (ANum b)) => Some b | _ => None end in
    let two (mk : E -> E -> E) :=
      match clook "_left" fs, clook "_right" fs with
      | Some (CVArg (AExpr a)), Some (CVArg (AExpr b)) => Some (mk a b)
      | _, _ => None
      end in
    let many (mk : list E -> E) :=
      match clook "_inners" fs with
      | Some (CVArgs l) => match all_args l with Some es => Some (mk es) | None => None end
      | _ => None
      end in
    if String.eqb cls "Constant" then
      match clook "value" fs with Some (CVArg (ANum x)) => Some (Const x) | _ => None end
    else if String.eqb cls "Variable" then
      match clook "name" fs with Some (CVArg (AStr true x)) => Some (Var x) | _ => None end
    else if String.eqb cls "Negation" then option_map Neg inner
    else if String.eqb cls "Reciprocal" then option_map Recip inner
    else if String.eqb cls "Sine" then option_map Sin inner
    else if String.eqb cls "Cosine" then option_map Cos inner
    else if String.eqb cls "NthPower" then
      match inner, posn with Some e, Some n => Some (NthPow e n) | _, _ => None end
    else if String.eqb cls "NthRoot" then
      match inner, posn with Some e, Some n => Some (NthRoot e n) | _, _ => None end
    else if String.eqb cls "Exponential" then
      match inner, base with Some e, Some b => Some (Exp e b) | _, _ => None end
    else if String.eqb cls "Logarithm" then
      match inner, base with Some e, Some b => Some (Log e b) | _, _ => None end
    else if String.eqb cls "Minus" then two Minus
    else if String.eqb cls "Divide" then two Divide
    else if String.eqb cls "Power" then two Power
    else if String.eqb cls "Add" then many Add
    else if String.eqb cls "Multiply" then many Mul
    else None.

  Definition built (cls : string) (r : cres (cfields (T:=T))) : cres E :=
    match r with
    | COk fs => match decode cls fs with Some e => COk e | None => CStuck end
    | CRaises => CRaises
    | CStuck => CStuck
    end.

  Definition model (r : result E) : cres E := match r with Ok e => COk e | Raises => CRaises end.

  (** ** the base classes *)
  Lemma Unary_init_spec : forall (a : arg),
    init "UnaryExpression" gen_ctor_UnaryExpression_init [CVArg a]
    = match a with AExpr e => COk [("_inner", CVArg (AExpr e))] | _ => CRaises end.
  Proof. intros a. destruct a; reflexivity. Qed.

  Lemma Unary_init_tied : forall (a : arg),
    built "Negation" (init "UnaryExpression" gen_ctor_UnaryExpression_init [CVArg a]) = model (mk_unary Neg a) /\
    built "Reciprocal" (init "UnaryExpression" gen_ctor_UnaryExpression_init [CVArg a]) = model (mk_unary Recip a) /\
    built "Sine" (init "UnaryExpression" gen_ctor_UnaryExpression_init [CVArg a]) = model (mk_unary Sin a) /\
    built "Cosine" (init "UnaryExpression" gen_ctor_UnaryExpression_init [CVArg a]) = model (mk_unary Cos a).
  Proof. intros a. rewrite Unary_init_spec. destruct a; repeat split; reflexivity. Qed.

  Lemma Binary_init_tied : forall (a b : arg),
    built "Minus" (init "BinaryExpression" gen_ctor_BinaryExpression_init [CVArg a; CVArg b]) = model (mk_binary Minus a b) /\
    built "Divide" (init "BinaryExpression" gen_ctor_BinaryExpression_init [CVArg a; CVArg b]) = model (mk_binary Divide a b) /\
    built "Power" (init "BinaryExpression" gen_ctor_BinaryExpression_init [CVArg a; CVArg b]) = model (mk_binary Power a b).
  Proof. intros a b. destruct a; destruct b; repeat split; reflexivity. Qed.
  (** n-ary: the loop over *args raises at the first non-expression *)
  Lemma NAry_loop : forall (body : cstate (T:=T) -> arg -> cres cflow),
    (forall st it, body st it = match it with
                                | AExpr _ => COk (inl (("inner", CVArg it) :: fst st, snd st))
                                | _ => CRaises
                                end) ->
    forall (l : list arg) (r : cenv (T:=T)) (fs : cfields),
    cfor_loop body (r, fs) l
    = match all_args l with
      | Some _ => COk (inl (map (fun a => ("inner", CVArg a)) (rev l) ++ r, fs))
      | None => CRaises
      end.
  Proof.
    intros body Hb. induction l as [|a l IH]; intros r fs; [reflexivity|].
    cbn [cfor_loop all_args]. rewrite Hb. destruct a; cbn [cbind fst snd]; try reflexivity.
    rewrite IH. destruct (all_args l); [|reflexivity].
    cbn [rev]. rewrite map_app, <- app_assoc. reflexivity.
  Qed.

  Lemma all_args_exprs : forall l : list arg,
    all_exprs l = match all_args l with Some es => Ok es | None => Raises end.
  Proof.
    induction l as [|a l IH]; [reflexivity|]. cbn [all_exprs all_args as_expr].
    destruct a; try reflexivity. rewrite IH. destruct (all_args l); reflexivity.
  Qed.

  Lemma NAry_init_spec : forall (cls : string) (l : list arg),
    init "NAryExpression" gen_ctor_NAryExpression_init [CVArgs l]
    = match all_args l with
      | Some _ => COk [("_inners", CVArgs l)]
      | None => CRaises
      end.
  Proof.
    intros cls l. unfold init, cinit. opq.
    erewrite NAry_loop; [| intros st it; destruct it; reflexivity].
    destruct (all_args l) eqn:Ha; opq; [|reflexivity].
    assert (Hl : clook "args" (map (fun a : arg => ("inner", CVArg a)) (rev l) ++ [("args", CVArgs l)]) = Some (CVArgs l)).
    { induction (rev l) as [|x xs IHx]; [reflexivity|]. cbn [map app clook]. exact IHx. }
    rewrite Hl. reflexivity.
  Qed.

  Lemma NAry_init_tied : forall (l : list arg),
    built "Add" (init "NAryExpression" gen_ctor_NAryExpression_init [CVArgs l]) = model (mk_nary Add l) /\
    built "Multiply" (init "NAryExpression" gen_ctor_NAryExpression_init [CVArgs l]) = model (mk_nary Mul l).
  Proof.
    intros l. rewrite (NAry_init_spec "" l). unfold mk_nary. rewrite all_args_exprs.
    destruct (all_args l) eqn:Ha; [|split; reflexivity].
    split; cbn [built decode String.eqb Ascii.eqb Bool.eqb clook]; rewrite Ha; reflexivity.
  Qed.

  (** the parameterised classes *)
  Lemma Param_init_spec : forall (a : arg) (w : cval),
    init "ParameterizedUnaryExpression" gen_ctor_ParameterizedUnaryExpression_init [CVArg a; w]
    = super_init "NthPower" [CVArg a; w] [].
  Proof. intros a w. destruct a; reflexivity. Qed.

  Lemma NthPower_init_tied : forall (a n : arg),
    built "NthPower" (init "NthPower" gen_ctor_NthPower_init [CVArg a; CVArg n]) = model (mk_nth_power N a n).
  Proof.
    intros a n. unfold init, cinit, mk_nth_power, checked_n. opq.
    destruct n as [e'|x|lg nm|]; opq; try reflexivity.
    destruct (nint N x) as [z|]; opq; [|reflexivity].
    destruct (Z.leb z 0) eqn:Hz; opq; [reflexivity|].
    destruct a; opq; try reflexivity.
    apply Z.leb_gt in Hz. apply Z.ltb_lt in Hz. rewrite Hz. reflexivity.
  Qed.

  Lemma NthRoot_init_tied : forall (a n : arg),
    built "NthRoot" (init "NthRoot" gen_ctor_NthRoot_init [CVArg a; CVArg n]) = model (mk_nth_root N a n).
  Proof.
    intros a n. unfold init, cinit, mk_nth_root, checked_n. opq.
    destruct n as [e'|x|lg nm|]; opq; try reflexivity.
    destruct (nint N x) as [z|]; opq; [|reflexivity].
    destruct (Z.leb z 0) eqn:Hz; opq; [reflexivity|].
    destruct a; opq; try reflexivity.
    apply Z.leb_gt in Hz. apply Z.ltb_lt in Hz. rewrite Hz. reflexivity.
  Qed.

  Lemma Exponential_init_tied : forall (a b : arg),
    built "Exponential" (init "Exponential" gen_ctor_Exponential_init [CVArg a; CVArg b]) = model (mk_exponential N a b).
  Proof.
    intros a b. unfold init, cinit, mk_exponential. opq.
    destruct a; opq; try reflexivity; destruct b as [e'|x|lg nm|]; opq; try reflexivity.
    unfold n0. destruct (nleb N x (nofZ N 0)); reflexivity.
  Qed.

  Lemma Logarithm_init_tied : forall (a b : arg),
    built "Logarithm" (init "Logarithm" gen_ctor_Logarithm_init [CVArg a; CVArg b]) = model (mk_logarithm N a b).
  Proof.
    intros a b. unfold init, cinit, mk_logarithm. opq.
    destruct a; opq; try reflexivity; destruct b as [e'|x|lg nm|]; opq; try reflexivity.
    unfold n0, n1. destruct (nleb N x (nofZ N 0)); opq; [reflexivity|].
    destruct (neqb N x (nofZ N 1)); reflexivity.
  Qed.

  (** leaves *)
  Lemma Variable_init_tied : forall (a : arg),
    built "Variable" (init "Variable" gen_ctor_Variable_init [CVArg a]) = model (mk_variable a).
  Proof. intros a. destruct a as [e|x|lg nm|]; try reflexivity. destruct lg; reflexivity. Qed.

  (* Constant does not validate: for a number it stores it (anything else is outside the model) *)
  Lemma Constant_init_tied : forall x : T,
    built "Constant" (init "Constant" gen_ctor_Constant_init [CVArg (ANum x)]) = model (mk_constant (ANum x)).
  Proof. reflexivity. Qed.

  (** ** operators *)
  Definition argres (r : result E) : cres cval :=
    match r with Ok e => COk (CVArg (AExpr e)) | Raises => CRaises end.

  Lemma op_neg_tied : forall a : E, callf gen_ctor_op_neg (Some (CVArg (AExpr a))) [] = argres (op_neg a).
  Proof. reflexivity. Qed.
  Lemma op_add_tied : forall (a : E) (b : arg),
    callf gen_ctor_op_add (Some (CVArg (AExpr a))) [CVArg b] = argres (op_add a b).
  Proof. intros a b. destruct b; reflexivity. Qed.
  Lemma op_sub_tied : forall (a : E) (b : arg),
    callf gen_ctor_op_sub (Some (CVArg (AExpr a))) [CVArg b] = argres (op_sub a b).
  Proof. intros a b. destruct b; reflexivity. Qed.
  Lemma op_mul_tied : forall (a : E) (b : arg),
    callf gen_ctor_op_mul (Some (CVArg (AExpr a))) [CVArg b] = argres (op_mul a b).
  Proof. intros a b. destruct b; reflexivity. Qed.
  Lemma op_truediv_tied : forall (a : E) (b : arg),
    callf gen_ctor_op_truediv (Some (CVArg (AExpr a))) [CVArg b] = argres (op_truediv a b).
  Proof. intros a b. destruct b; reflexivity. Qed.

  Lemma op_pow_tied : forall (a : E) (x : arg),
    callf gen_ctor_op_pow (Some (CVArg (AExpr a))) [CVArg x] = argres (op_pow N a x).
  Proof.
    intros a x. unfold callf, ccall, op_pow, mk_nth_power, checked_n. opq.
    destruct x as [e'|y|lg nm|]; opq; try reflexivity.
    destruct (nint N y) as [z|]; opq; [|reflexivity].
    destruct (Z.leb z 0); reflexivity.
  Qed.

  (** ** utilities.py and variable.get_variable_name *)
  Lemma is_integer_tied : forall x : T,
    callf gen_ctor_fn_is_integer None [CVArg (ANum x)]
    = COk (CVB (is_int x || (is_float x && float_is_integer x))).
  Proof.
    intros x. unfold callf, ccall. opq. destruct (is_int x); opq; [reflexivity|].
    destruct (is_float x); opq; [|reflexivity]. destruct (float_is_integer x); reflexivity.
  Qed.

  Lemma integer_from_integral_float_tied : forall x : T,
    callf gen_ctor_fn_integer_from_integral_float None [CVArg (ANum x)]
    = COk (match nint N x with Some z => CVInt z | None => CVNone end).
  Proof.
    intros x. unfold callf, ccall. opq. rewrite Hnint.
    destruct (is_int x || (is_float x && float_is_integer x)); reflexivity.
  Qed.

  Lemma mod2_even : forall z : Z, Z.eqb (z mod 2) 0 = Z.even z.
  Proof.
    intros z. destruct (Z.even z) eqn:He.
    - apply Z.even_spec in He. destruct He as [k ->]. apply Z.eqb_eq.
      rewrite Z.mul_comm. apply Z.mod_mul. lia.
    - apply Z.eqb_neq. intros Hm. assert (Ho : Z.odd z = true) by (rewrite <- Z.negb_even, He; reflexivity).
      apply Z.odd_spec in Ho. destruct Ho as [k ->].
      rewrite Z.add_comm, Z.mul_comm, Z.mod_add in Hm by lia. discriminate Hm.
  Qed.
  Lemma mod2_odd : forall z : Z, Z.eqb (z mod 2) 1 = Z.odd z.
  Proof.
    intros z. destruct (Z.odd z) eqn:Ho.
    - apply Z.odd_spec in Ho. destruct Ho as [k ->]. apply Z.eqb_eq.
      rewrite Z.add_comm, Z.mul_comm, Z.mod_add by lia. reflexivity.
    - apply Z.eqb_neq. intros Hm. assert (He : Z.even z = true) by (rewrite <- Z.negb_odd, Ho; reflexivity).
      apply Z.even_spec in He. destruct He as [k ->].
      rewrite Z.mul_comm, Z.mod_mul in Hm by lia. discriminate Hm.
  Qed.

  Lemma is_even_tied : forall z : Z, callf gen_ctor_fn_is_even None [CVInt z] = COk (CVB (Z.even z)).
  Proof. intros z. unfold callf, ccall. opq. rewrite mod2_even. reflexivity. Qed.
  Lemma is_odd_tied : forall z : Z, callf gen_ctor_fn_is_odd None [CVInt z] = COk (CVB (Z.odd z)).
  Proof. intros z. unfold callf, ccall. opq. rewrite mod2_odd. reflexivity. Qed.

  Lemma get_variable_name_tied : forall (a : arg),
    callf gen_ctor_fn_get_variable_name None [CVArg a]
    = match a with
      | AStr lg x => COk (CVArg (AStr lg x))
      | AExpr (Var x) => COk (CVArg (AStr true x))
      | _ => CRaises
      end.
  Proof. intros a. destruct a as [e|x|lg nm|]; try reflexivity. destruct e; reflexivity. Qed.

  Lemma ctor_defaults_tied :
    gen_ctor_defaults =
    [("NthPower", []); ("NthRoot", []); ("Exponential", ["math.e"]); ("Logarithm", ["math.e"]); ("Constant", []);
     ("Variable", []); ("UnaryExpression", []); ("BinaryExpression", []); ("NAryExpression", []);
     ("ParameterizedUnaryExpression", [])].
  Proof. reflexivity. Qed.

  (** the two constructors that only store what they are handed: a fresh expression carries its
      variable-name set and both memo flags False (what Stateful.v starts from); a point IS its keyword
      dictionary, unfiltered (what Eval.lookup / point_eqb are stated about) *)
  Lemma plain_inits_tied :
    gen_plain_inits =
    [("Expression", (["self"; "variable_names"],
                     [("_variable_names", "variable_names"); ("_is_fully_reduced", "False"); ("_evaluation_failed", "False")]));
     ("Point", (["self"; "**kwargs"], [("_coordinates", "kwargs")]))].
  Proof. reflexivity. Qed.
End Tie.
