(** * Syntax: expression trees of smoothmath (the 15 public constructors). *)
From Coq Require Import ZArith List Bool.
From SM Require Import Num.
Import ListNotations.

Section Syntax.
  Context {T : Type}.

  Inductive expr : Type :=
  | Const (c : T)
  | Var (x : name)
  | Add (l : list expr)
  | Mul (l : list expr)
  | Minus (a b : expr)
  | Divide (a b : expr)
  | Power (a b : expr)
  | Neg (a : expr)
  | Recip (a : expr)
  | Sin (a : expr)
  | Cos (a : expr)
  | NthPow (a : expr) (n : positive)
  | NthRoot (a : expr) (n : positive)
  | Exp (a : expr) (base : T)
  | Log (a : expr) (base : T).

  (** Induction principle that goes through the nested lists. *)
  Section Ind.
    Variable P : expr -> Prop.
    Hypothesis HConst : forall c, P (Const c).
    Hypothesis HVar : forall x, P (Var x).
    Hypothesis HAdd : forall l, Forall P l -> P (Add l).
    Hypothesis HMul : forall l, Forall P l -> P (Mul l).
    Hypothesis HMinus : forall a b, P a -> P b -> P (Minus a b).
    Hypothesis HDivide : forall a b, P a -> P b -> P (Divide a b).
    Hypothesis HPower : forall a b, P a -> P b -> P (Power a b).
    Hypothesis HNeg : forall a, P a -> P (Neg a).
    Hypothesis HRecip : forall a, P a -> P (Recip a).
    Hypothesis HSin : forall a, P a -> P (Sin a).
    Hypothesis HCos : forall a, P a -> P (Cos a).
    Hypothesis HNthPow : forall a n, P a -> P (NthPow a n).
    Hypothesis HNthRoot : forall a n, P a -> P (NthRoot a n).
    Hypothesis HExp : forall a b, P a -> P (Exp a b).
    Hypothesis HLog : forall a b, P a -> P (Log a b).

    Fixpoint expr_ind' (e : expr) : P e :=
      let fix go (l : list expr) : Forall P l :=
        match l return Forall P l with
        | [] => Forall_nil P
        | x :: r => Forall_cons x (expr_ind' x) (go r)
        end in
      match e return P e with
      | Const c => HConst c
      | Var x => HVar x
      | Add l => HAdd l (go l)
      | Mul l => HMul l (go l)
      | Minus a b => HMinus a b (expr_ind' a) (expr_ind' b)
      | Divide a b => HDivide a b (expr_ind' a) (expr_ind' b)
      | Power a b => HPower a b (expr_ind' a) (expr_ind' b)
      | Neg a => HNeg a (expr_ind' a)
      | Recip a => HRecip a (expr_ind' a)
      | Sin a => HSin a (expr_ind' a)
      | Cos a => HCos a (expr_ind' a)
      | NthPow a n => HNthPow a n (expr_ind' a)
      | NthRoot a n => HNthRoot a n (expr_ind' a)
      | Exp a b => HExp a b (expr_ind' a)
      | Log a b => HLog a b (expr_ind' a)
      end.
  End Ind.

  (** Number of nodes. *)
  Fixpoint size (e : expr) : nat :=
    match e with
    | Const _ | Var _ => 1
    | Add l | Mul l => S (fold_right (fun x acc => size x + acc) 0 l)
    | Minus a b | Divide a b | Power a b => S (size a + size b)
    | Neg a | Recip a | Sin a | Cos a | NthPow a _ | NthRoot a _ | Exp a _ | Log a _ => S (size a)
    end.

  (** The variable leaves, left to right, with repetitions. *)
  Fixpoint vars (e : expr) : list name :=
    match e with
    | Const _ => []
    | Var x => [x]
    | Add l | Mul l => flat_map vars l
    | Minus a b | Divide a b | Power a b => vars a ++ vars b
    | Neg a | Recip a | Sin a | Cos a | NthPow a _ | NthRoot a _ | Exp a _ | Log a _ => vars a
    end.

  (** [not self._variable_names] *)
  Fixpoint var_free (e : expr) : bool :=
    match e with
    | Const _ => true
    | Var _ => false
    | Add l | Mul l => forallb var_free l
    | Minus a b | Divide a b | Power a b => var_free a && var_free b
    | Neg a | Recip a | Sin a | Cos a | NthPow a _ | NthRoot a _ | Exp a _ | Log a _ => var_free a
    end.

  (** The set stored in [_variable_names], as a duplicate-free list in first-occurrence order. *)
  Definition var_names (e : expr) : list name := nodup Pos.eq_dec (vars e).

  Definition is_Const (e : expr) : bool := match e with Const _ => true | _ => false end.
  Definition is_Add (e : expr) : bool := match e with Add _ => true | _ => false end.
  Definition is_Mul (e : expr) : bool := match e with Mul _ => true | _ => false end.
  Definition is_Neg (e : expr) : bool := match e with Neg _ => true | _ => false end.
  Definition is_Recip (e : expr) : bool := match e with Recip _ => true | _ => false end.
  Definition is_NthPow (e : expr) : bool := match e with NthPow _ _ => true | _ => false end.
  Definition is_NthRoot (e : expr) : bool := match e with NthRoot _ _ => true | _ => false end.
  Definition is_Exp (e : expr) : bool := match e with Exp _ _ => true | _ => false end.
  Definition is_Log (e : expr) : bool := match e with Log _ _ => true | _ => false end.

  (** The single child of a unary node ([e._inner]); the node itself otherwise (never used). *)
  Definition inner_of (e : expr) : expr :=
    match e with
    | Neg a | Recip a | Sin a | Cos a | NthPow a _ | NthRoot a _ | Exp a _ | Log a _ => a
    | _ => e
    end.
End Syntax.

Arguments expr T : clear implicits.

(** Well-formedness: what the constructors enforce on parameters
    (n >= 1 is built into [positive]; base > 0; logarithm base <> 1). *)
Section WF.
  Context {T : Type} (N : NumOps T).
  Fixpoint wf (e : expr T) : Prop :=
    match e with
    | Const _ | Var _ => True
    | Add l | Mul l => fold_right (fun x acc => wf x /\ acc) True l
    | Minus a b | Divide a b | Power a b => wf a /\ wf b
    | Neg a | Recip a | Sin a | Cos a | NthPow a _ | NthRoot a _ => wf a
    | Exp a b => nltb N (n0 N) b = true /\ wf a
    | Log a b => nltb N (n0 N) b = true /\ neqb N b (n1 N) = false /\ wf a
    end.

  Fixpoint wfb (e : expr T) : bool :=
    match e with
    | Const _ | Var _ => true
    | Add l | Mul l => forallb wfb l
    | Minus a b | Divide a b | Power a b => wfb a && wfb b
    | Neg a | Recip a | Sin a | Cos a | NthPow a _ | NthRoot a _ => wfb a
    | Exp a b => nltb N (n0 N) b && wfb a
    | Log a b => nltb N (n0 N) b && negb (neqb N b (n1 N)) && wfb a
    end.
End WF.
