(** * Forward: model of _numeric_partial (forward mode) and of the per-class partial formulas
    shared by forward and reverse mode.

    The model follows the repaired code ("fix:" commit for F1): Power evaluates itself before the
    base-one shortcut.  [fwd_power_old_shortcut] keeps the unrepaired body for the regression
    example only. *)
From Coq Require Import ZArith List Bool.
From SM Require Import Num Syntax Outcome MathFun Eval.
Import ListNotations.

Section Forward.
  Context {T : Type} (N : NumOps T).
  Notation "0" := (n0 N).
  Notation "1" := (n1 N).

  (* utilities.list_without_entry_at for 0 <= i *)
  Fixpoint remove_nth {A} (i : nat) (l : list A) : list A :=
    match l with
    | [] => []
    | x :: r => match i with O => r | S j => x :: remove_nth j r end
    end.

  Fixpoint mapi_from {A B} (i : nat) (f : nat -> A -> B) (l : list A) : list B :=
    match l with
    | [] => []
    | x :: r => f i x :: mapi_from (S i) f r
    end.
  Definition mapi {A B} (f : nat -> A -> B) (l : list A) : list B := mapi_from 0 f l.

  (** _numeric_partial_formula of the unary classes; [e] is the node itself, [m] the inner
      partial (forward mode) or the incoming multiplier (reverse mode). *)
  Definition unary_formula (p : point T) (e : expr T) (m : T) : outcome T :=
    match e with
    | Neg a => Val (mf_negation N m)
    | Recip a =>
        iv <- eval N p a ;;
        sq <- mf_nth_power N iv 2 ;;
        q <- mf_divide N m sq ;;
        Val (mf_negation N q)
    | Sin a =>
        iv <- eval N p a ;;
        c <- mf_cosine N iv ;;
        Val (mf_multiply N [c; m])
    | Cos a =>
        iv <- eval N p a ;;
        s <- mf_sine N iv ;;
        Val (mf_multiply N [mf_negation N s; m])
    | NthPow a n =>
        match n with
        | 1%positive => Val m
        | _ =>
            iv <- eval N p a ;;
            w <- mf_nth_power N iv (Pos.pred n) ;;
            Val (mf_multiply N [nofZ N (Zpos n); w; m])
        end
    | NthRoot a n =>
        match n with
        | 1%positive => Val m
        | _ =>
            sv <- eval N p e ;;
            w <- mf_nth_power N sv (Pos.pred n) ;;
            mf_divide N m (mf_multiply N [nofZ N (Zpos n); w])
        end
    | Exp a base =>
        if neqb N base 1 then Val 0
        else
          sv <- eval N p e ;;
          if neqb N base (n_e N) then Val (mf_multiply N [sv; m])
          else
            lb <- mf_logarithm N base (n_e N) ;;
            Val (mf_multiply N [lb; sv; m])
    | Log a base =>
        iv <- eval N p a ;;
        if neqb N base (n_e N) then mf_divide N m iv
        else
          lb <- mf_logarithm N base (n_e N) ;;
          mf_divide N m (mf_multiply N [lb; iv])
    | _ => Val m (* not a unary node; never used *)
    end.

  (** _verify_domain_constraints of a unary node on its inner value *)
  Definition unary_verify (e : expr T) (iv : T) : outcome unit :=
    match e with
    | Recip _ => verify_reciprocal N iv
    | NthRoot _ n => verify_nth_root N iv n
    | Log _ _ => verify_logarithm N iv
    | _ => Val tt
    end.

  (* Divide._numeric_partial_formula_left / _right *)
  Definition divide_formula_left (p : point T) (a b : expr T) (m : T) : outcome T :=
    rv <- eval N p b ;; mf_divide N m rv.
  Definition divide_formula_right (p : point T) (a b : expr T) (m : T) : outcome T :=
    lv <- eval N p a ;;
    rv <- eval N p b ;;
    sq <- mf_nth_power N rv 2 ;;
    q <- mf_divide N lv sq ;;
    Val (mf_multiply N [mf_negation N q; m]).

  (* Power._numeric_partial_formula_left / _right *)
  Definition power_formula_left (p : point T) (a b : expr T) (m : T) : outcome T :=
    lv <- eval N p a ;;
    rv <- eval N p b ;;
    w <- mf_power N lv (mf_minus N rv 1) ;;
    Val (mf_multiply N [rv; w; m]).
  Definition power_formula_right (p : point T) (a b : expr T) (m : T) : outcome T :=
    lv <- eval N p a ;;
    sv <- eval N p (Power a b) ;;
    lg <- mf_logarithm N lv (n_e N) ;;
    Val (mf_multiply N [lg; sv; m]).

  (* (not self._left._variable_names) and self._left._evaluate(point) == 1 *)
  Definition power_shortcut (p : point T) (a : expr T) : outcome bool :=
    if var_free a then (lv <- eval N p a ;; Val (neqb N lv 1)) else Val false.

  Fixpoint fwd (v : name) (p : point T) (e : expr T) : outcome T :=
    match e with
    | Const _ => Val 0
    | Var x => if name_eqb x v then Val 1 else Val 0
    | Add l => ds <- sequence (map (fwd v p) l) ;; Val (mf_add N ds)
    | Minus a b => da <- fwd v p a ;; db <- fwd v p b ;; Val (mf_minus N da db)
    | Mul l =>
        vs <- eval_list N p l ;;
        ds <- sequence (map (fwd v p) l) ;;
        Val (mf_add N (mapi (fun i d => mf_multiply N (d :: remove_nth i vs)) ds))
    | Divide a b =>
        lv <- eval N p a ;;
        rv <- eval N p b ;;
        _ <- verify_divide N lv rv ;;
        da <- fwd v p a ;;
        db <- fwd v p b ;;
        x <- divide_formula_left p a b da ;;
        y <- divide_formula_right p a b db ;;
        Val (mf_add N [x; y])
    | Power a b =>
        _ <- eval N p e ;;                       (* the F1 repair *)
        sc <- power_shortcut p a ;;
        if sc then Val 0
        else
          lv <- eval N p a ;;
          rv <- eval N p b ;;
          _ <- verify_power N lv rv ;;
          da <- fwd v p a ;;
          db <- fwd v p b ;;
          x <- power_formula_left p a b da ;;
          y <- power_formula_right p a b db ;;
          Val (nadd N x y)
    | Neg a | Recip a | Sin a | Cos a | NthPow a _ | NthRoot a _ | Exp a _ | Log a _ =>
        iv <- eval N p a ;;
        _ <- unary_verify e iv ;;
        d <- fwd v p a ;;
        unary_formula p e d
    end.
End Forward.
