(** * Eval: model of Expression.at / _evaluate / _verify_domain_constraints / _value_formula.

    Pure (cache-free) model: every child is evaluated, left to right, before the node's own
    domain check; then the value formula of math_functions is applied. *)
From Coq Require Import ZArith List Bool.
From SM Require Import Num Syntax Outcome MathFun.
Import ListNotations.

(** A Point: coordinates in keyword order (names are distinct by Python's call syntax). *)
Definition point (T : Type) := list (name * T).

Fixpoint lookup {T} (x : name) (p : point T) : option T :=
  match p with
  | [] => None
  | (y, v) :: r => if name_eqb x y then Some v else lookup x r
  end.

(* Point.coordinate *)
Definition coordinate {T} (p : point T) (x : name) : outcome T :=
  match lookup x p with Some v => Val v | None => CoordMissing end.

Section Eval.
  Context {T : Type} (N : NumOps T).
  Notation "0" := (n0 N).
  Notation "1" := (n1 N).

  (** _verify_domain_constraints of each class (unit on success) *)
  Definition verify_divide (l r : T) : outcome unit :=
    if neqb N r 0 then DomErr else Val tt.

  Definition verify_power (l r : T) : outcome unit :=
    if neqb N l 0 then DomErr
    else if nltb N l 0 then DomErr
    else Val tt.

  Definition verify_reciprocal (x : T) : outcome unit :=
    if neqb N x 0 then DomErr else Val tt.

  Definition verify_nth_root (x : T) (n : positive) : outcome unit :=
    if Pos.leb 2 n && neqb N x 0 then DomErr
    else if Z.even (Zpos n) && nltb N x 0 then DomErr
    else Val tt.

  Definition verify_logarithm (x : T) : outcome unit :=
    if neqb N x 0 then DomErr
    else if nltb N x 0 then DomErr
    else Val tt.

  Fixpoint eval (p : point T) (e : expr T) : outcome T :=
    match e with
    | Const c => Val c
    | Var x => coordinate p x
    | Add l => vs <- sequence (map (eval p) l) ;; Val (mf_add N vs)
    | Mul l => vs <- sequence (map (eval p) l) ;; Val (mf_multiply N vs)
    | Minus a b => x <- eval p a ;; y <- eval p b ;; Val (mf_minus N x y)
    | Divide a b => x <- eval p a ;; y <- eval p b ;; _ <- verify_divide x y ;; mf_divide N x y
    | Power a b => x <- eval p a ;; y <- eval p b ;; _ <- verify_power x y ;; mf_power N x y
    | Neg a => x <- eval p a ;; Val (mf_negation N x)
    | Recip a => x <- eval p a ;; _ <- verify_reciprocal x ;; mf_reciprocal N x
    | Sin a => x <- eval p a ;; mf_sine N x
    | Cos a => x <- eval p a ;; mf_cosine N x
    | NthPow a n => x <- eval p a ;; mf_nth_power N x n
    | NthRoot a n => x <- eval p a ;; _ <- verify_nth_root x n ;; mf_nth_root N x n
    | Exp a base => x <- eval p a ;; mf_exponential N x base
    | Log a base => x <- eval p a ;; _ <- verify_logarithm x ;; mf_logarithm N x base
    end.

  Definition eval_list (p : point T) (l : list (expr T)) : outcome (list T) :=
    sequence (map (eval p) l).

  (** get_the_single_variable_name: Some name, or None when the call is rejected *)
  Definition the_single_variable_name (e : expr T) : option name :=
    match var_names e with
    | [] => Some whatever
    | [x] => Some x
    | _ => None
    end.

  (** Expression.at(number): None = rejected with an exception *)
  Definition at_number (e : expr T) (x : T) : option (outcome T) :=
    match the_single_variable_name e with
    | Some v => Some (eval [(v, x)] e)
    | None => None
    end.
End Eval.
