(** * TieRebuild: the CURRENT source of the [_rebuild] methods and of the [n] / [base] properties
    (GeneratedRebuild.v) computes the primitives the other embeddings assume: StepAst.trebuild (same
    class and parameter, new children) and the parameter read-out. *)
From Coq Require Import ZArith List Bool String Ascii.
From SM Require Import Num Syntax RebuildAst GeneratedRebuild StepAst.
Import ListNotations.
Open Scope string_scope.
Open Scope list_scope.

Section Tie.
  Context {T : Type}.
  Notation E := (expr T).

  (** method resolution: which [_rebuild] a node of each class runs (TieClasses.v ties the class
      hierarchy; no concrete class overrides it) *)
  Definition gen_rebuild_of (self : E) : pfun :=
    match self with
    | Const _ => gen_rebuild_Constant
    | Var _ => gen_rebuild_Variable
    | Add _ | Mul _ => gen_rebuild_NAryExpression
    | Minus _ _ | Divide _ _ | Power _ _ => gen_rebuild_BinaryExpression
    | Neg _ | Recip _ | Sin _ | Cos _ => gen_rebuild_UnaryExpression
    | NthPow _ _ | NthRoot _ _ | Exp _ _ | Log _ _ => gen_rebuild_ParameterizedUnaryExpression
    end.

  Lemma no_overrides : gen_rebuild_overrides = [].
  Proof. reflexivity. Qed.

  Lemma collect_map : forall l : list E,
    fold_right (fun a acc => match a with PVE e => e :: acc | _ => acc end) [] (map (@PVE T) l) = l.
  Proof. induction l as [|x l IH]; cbn; [reflexivity | rewrite IH; reflexivity]. Qed.

  Lemma splice_map : forall l : list E,
    fold_right (fun a acc => match a, acc with PVE e, Some es => Some (e :: es) | _, _ => None end)
               (Some []) (map (@PVE T) l ++ []) = Some l.
  Proof. induction l as [|x l IH]; cbn; [reflexivity | rewrite IH; reflexivity]. Qed.

  Theorem rebuild_tied : forall (self : E) (args : list E),
    match self with Const _ | Var _ => False | _ => True end ->
    pcall (gen_rebuild_of self) self (map (@PVE T) args) = option_map (@PVE T) (trebuild self args).
  Proof.
    intros self args Hc.
    destruct self; try destruct Hc; unfold pcall, gen_rebuild_of;
      cbn [gen_rebuild_NAryExpression gen_rebuild_BinaryExpression gen_rebuild_UnaryExpression
           gen_rebuild_ParameterizedUnaryExpression p_star p_params p_ret].
    1-2: cbn [pev plook String.eqb Ascii.eqb Bool.eqb]; rewrite collect_map;
         cbn [pev plook String.eqb Ascii.eqb Bool.eqb pnew_same option_map trebuild];
         rewrite splice_map; reflexivity.
    all: destruct args as [|a [|b [|c rest]]]; cbn; reflexivity.
  Qed.

  Lemma rebuild_Constant_tied : forall c : T, pcall gen_rebuild_Constant (Const c) [] = Some (PVE (Const c)).
  Proof. reflexivity. Qed.
  Lemma rebuild_Variable_tied : forall x : name, pcall gen_rebuild_Variable (@Var T x) [] = Some (PVE (Var x)).
  Proof. reflexivity. Qed.

  (** the properties read the stored parameter *)
  Lemma property_NthPower_n_tied : forall (a : E) n, pcall gen_property_NthPower_n (NthPow a n) [] = pproperty (NthPow a n) "n".
  Proof. reflexivity. Qed.
  Lemma property_NthRoot_n_tied : forall (a : E) n, pcall gen_property_NthRoot_n (NthRoot a n) [] = pproperty (NthRoot a n) "n".
  Proof. reflexivity. Qed.
  Lemma property_Exponential_base_tied : forall (a : E) b, pcall gen_property_Exponential_base (Exp a b) [] = pproperty (Exp a b) "base".
  Proof. reflexivity. Qed.
  Lemma property_Logarithm_base_tied : forall (a : E) b, pcall gen_property_Logarithm_base (Log a b) [] = pproperty (Log a b) "base".
  Proof. reflexivity. Qed.
End Tie.
