(** * TieCacheBody: the _evaluate and _reset_evaluation_cache methods of the CURRENT source
    (GeneratedCache.v, regenerated on every run), interpreted by CacheAst, compute exactly one
    unfolding of the stateful model's [eval_s] and [reset_s] (Stateful.v) — for every number
    interface, point, store (whatever earlier calls left in the [_value] fields) and node object.
    Together with [History.eval_s_refines] / [reset_clean] (C09) this says that the memoised
    evaluator of the source, started after a reset, returns what the pure [eval] returns. *)
From Coq Require Import ZArith List Bool String Lia.
From SM Require Import Num Syntax Outcome MathFun Eval Forward Stateful CacheAst GeneratedCache.
Import ListNotations.
Open Scope string_scope.
Open Scope list_scope.

Section Tie.
  Context {T : Type} (N : NumOps T).
  Variable p : point T.
  Notation S := (sexpr (T:=T)).

  Lemma node_value_split : forall (e : S) (vs : list T),
    node_value N e vs = (_ <- node_verify N e vs ;; node_formula N e vs).
  Proof.
    intros e vs. destruct e; cbn [node_value node_verify node_formula];
      try reflexivity;
      try (destruct vs as [|x [|y [|z r]]]; cbn [bind]; reflexivity).
  Qed.

  Ltac opq1 := cbn -[eval_s reset_s node_value node_verify node_formula sget sset sclear coordinate].
  Ltac opq := repeat (opq1; unfold kbind, kret, kstuck); opq1.

  Lemma sget_sset_same : forall (s : store (T:=T)) i v, sget (sset s i v) i = Some v.
  Proof. intros. unfold sset. cbn [sget]. rewrite Pos.eqb_refl. reflexivity. Qed.

  (** ** leaves *)
  Lemma eval_Constant_tied : forall s c, kcall_eval N p gen_cache_Constant_eval s (SConst c) = eval_s N s p (SConst c).
  Proof. reflexivity. Qed.
  Lemma eval_Variable_tied : forall s x, kcall_eval N p gen_cache_Variable_eval s (SVar x) = eval_s N s p (SVar x).
  Proof. intros. unfold kcall_eval. opq. cbn [eval_s]. destruct (coordinate p x); reflexivity. Qed.
  Lemma reset_Constant_tied : forall s c, kcall_reset N p gen_cache_Constant_reset s (SConst c) = Some (reset_s s (SConst c)).
  Proof. reflexivity. Qed.
  Lemma reset_Variable_tied : forall s x, kcall_reset N p gen_cache_Variable_reset s (SVar x) = Some (reset_s s (SVar x)).
  Proof. reflexivity. Qed.

  (** ** unary nodes *)
  Definition is_unary (e : S) : option (oid * S) :=
    match e with
    | SNeg i a | SRecip i a | SSin i a | SCos i a | SNthPow i a _ | SNthRoot i a _ | SExp i a _ | SLog i a _ => Some (i, a)
    | _ => None
    end.

  Lemma eval_Unary_tied : forall s e,
    match is_unary e with
    | Some _ => kcall_eval N p gen_cache_UnaryExpression_eval s e = eval_s N s p e
    | None => True
    end.
  Proof.
    intros s e. destruct e; cbn [is_unary]; try exact I;
      (unfold kcall_eval; cbn [eval_s]; opq;
       destruct (sget s i) as [v|] eqn:Hg; opq; [reflexivity|];
       destruct (eval_s N s p e) as [s1 [x| | |k]] eqn:He; opq; try reflexivity;
       rewrite node_value_split;
       destruct (node_verify N _ [x]); opq; try reflexivity;
       destruct (node_formula N _ [x]) as [y| | |k]; opq; try reflexivity;
       rewrite sget_sset_same; reflexivity).
  Qed.

  Lemma reset_Unary_tied : forall s e,
    match is_unary e with
    | Some _ => kcall_reset N p gen_cache_UnaryExpression_reset s e = Some (reset_s s e)
    | None => True
    end.
  Proof. intros s e. destruct e; cbn [is_unary]; try exact I; reflexivity. Qed.
  (** ** binary nodes *)
  Definition is_binary (e : S) : bool :=
    match e with SMinus _ _ _ | SDivide _ _ _ | SPower _ _ _ => true | _ => false end.

  Lemma eval_Binary_tied : forall s e,
    if is_binary e then kcall_eval N p gen_cache_BinaryExpression_eval s e = eval_s N s p e else True.
  Proof.
    intros s e. destruct e; cbn [is_binary]; try exact I;
      (unfold kcall_eval; cbn [eval_s]; opq;
       destruct (sget s i) as [v|] eqn:Hg; opq; [reflexivity|];
       destruct (eval_s N s p e1) as [s1 [x| | |k]] eqn:He1; opq; try reflexivity;
       destruct (eval_s N s1 p e2) as [s2 [y| | |k]] eqn:He2; opq; try reflexivity;
       rewrite node_value_split;
       destruct (node_verify N _ [x; y]); opq; try reflexivity;
       destruct (node_formula N _ [x; y]) as [z| | |k]; opq; try reflexivity;
       rewrite sget_sset_same; reflexivity).
  Qed.

  Lemma reset_Binary_tied : forall s e,
    if is_binary e then kcall_reset N p gen_cache_BinaryExpression_reset s e = Some (reset_s s e) else True.
  Proof. intros s e. destruct e; cbn [is_binary]; try exact I; reflexivity. Qed.

  (** ** n-ary nodes *)
  Definition model_eval_list :=
    fix eval_list (s : store (T:=T)) (l : list S) : store * outcome (list T) :=
      match l with
      | [] => (s, Val [])
      | x :: r =>
          match eval_s N s p x with
          | (s1, Val v) =>
              match eval_list s1 r with
              | (s2, Val vs) => (s2, Val (v :: vs))
              | (s2, DomErr) => (s2, DomErr)
              | (s2, CoordMissing) => (s2, CoordMissing)
              | (s2, PyErr k) => (s2, PyErr k)
              end
          | (s1, DomErr) => (s1, DomErr)
          | (s1, CoordMissing) => (s1, CoordMissing)
          | (s1, PyErr k) => (s1, PyErr k)
          end
      end.

  Definition lift1 (so : store (T:=T) * outcome T) : kres (kval (T:=T)) :=
    match so with
    | (s, Val a) => (s, Val (KVN a))
    | (s, DomErr) => (s, DomErr)
    | (s, CoordMissing) => (s, CoordMissing)
    | (s, PyErr k) => (s, PyErr k)
    end.
  Definition liftl (so : store (T:=T) * outcome (list T)) : kres (list (kval (T:=T))) :=
    match so with
    | (s, Val vs) => (s, Val (map KVN vs))
    | (s, DomErr) => (s, DomErr)
    | (s, CoordMissing) => (s, CoordMissing)
    | (s, PyErr k) => (s, PyErr k)
    end.

  Lemma kcomp_eval_list : forall (f : store (T:=T) -> kval -> kres kval) (l : list S) (s : store),
    (forall s e, f s (KVE e) = lift1 (eval_s N s p e)) ->
    kcomp_loop f s (map KVE l) = liftl (model_eval_list s l).
  Proof.
    intros f l. induction l as [|a l IH]; intros s Hf; cbn [map kcomp_loop model_eval_list]; [reflexivity|].
    rewrite Hf. destruct (eval_s N s p a) as [s1 [x| | |k]]; cbn [lift1 kbind]; try reflexivity.
    rewrite (IH s1 Hf).
    destruct (model_eval_list s1 l) as [s2 [vs| | |k]]; reflexivity.
  Qed.

  Lemma knums_KVN : forall l : list T, knums (map KVN l) = Some l.
  Proof. induction l as [|a l IH]; cbn [map knums]; [reflexivity|]. rewrite IH. reflexivity. Qed.
  Definition is_nary (e : S) : bool := match e with SAdd _ _ | SMul _ _ => true | _ => false end.

  Lemma eval_NAry_tied : forall s e,
    if is_nary e then kcall_eval N p gen_cache_NAryExpression_eval s e = eval_s N s p e else True.
  Proof.
    intros s e. destruct e; cbn [is_nary]; try exact I;
      (unfold kcall_eval; cbn [eval_s]; fold model_eval_list; opq;
       destruct (sget s i) as [v|] eqn:Hg; opq; [reflexivity|];
       rewrite (kcomp_eval_list _ l s)
         by (intros s0 e0; opq; destruct (eval_s N s0 p e0) as [s2 [x| | |k]]; reflexivity);
       destruct (model_eval_list s l) as [s1 [vs| | |k]]; cbn [liftl]; opq; try reflexivity;
       rewrite app_nil_r, knums_KVN; opq;
       rewrite node_value_split;
       destruct (node_verify N _ vs); opq; try reflexivity;
       rewrite app_nil_r, knums_KVN; opq;
       destruct (node_formula N _ vs) as [z| | |k]; opq; try reflexivity;
       rewrite sget_sset_same; reflexivity).
  Qed.
  Definition model_reset_list :=
    fix reset_list (s : store (T:=T)) (l : list S) : store :=
      match l with [] => s | x :: r => reset_list (reset_s s x) r end.

  Lemma kfor_reset : forall (body : kenv (T:=T) -> store -> kval -> kres kflow),
    (forall r s e, exists r', body r s (KVE e) = (reset_s s e, Val (inl r'))) ->
    forall (l : list S) r s, exists r', kfor_loop body r s (map KVE l) = (model_reset_list s l, Val (inl r')).
  Proof.
    intros body Hb l. induction l as [|a l IH]; intros r s; cbn [map kfor_loop model_reset_list].
    - exists r. reflexivity.
    - destruct (Hb r s a) as [r1 H1]. rewrite H1. cbn [kbind]. apply IH.
  Qed.

  Lemma reset_NAry_tied : forall s e,
    if is_nary e then kcall_reset N p gen_cache_NAryExpression_reset s e = Some (reset_s s e) else True.
  Proof.
    intros s e. destruct e; cbn [is_nary]; try exact I;
      (unfold kcall_reset; cbn [reset_s]; fold model_reset_list; opq;
       match goal with |- context [kfor_loop ?body ?r ?s0 (map KVE ?l0)] =>
         destruct (kfor_reset body (fun r1 s1 e1 => ex_intro _ (("inner", KVE e1) :: r1) eq_refl) l0 r s0) as [r' Hr];
         rewrite Hr
       end; reflexivity).
  Qed.

  (** ** the evaluator and the reset as wholes: method resolution per class, then the tied body *)
  Definition gen_eval (s : store (T:=T)) (e : S) : store * outcome T :=
    match e with
    | SConst _ => kcall_eval N p gen_cache_Constant_eval s e
    | SVar _ => kcall_eval N p gen_cache_Variable_eval s e
    | SAdd _ _ | SMul _ _ => kcall_eval N p gen_cache_NAryExpression_eval s e
    | SMinus _ _ _ | SDivide _ _ _ | SPower _ _ _ => kcall_eval N p gen_cache_BinaryExpression_eval s e
    | _ => kcall_eval N p gen_cache_UnaryExpression_eval s e
    end.

  Definition gen_reset (s : store (T:=T)) (e : S) : option store :=
    match e with
    | SConst _ => kcall_reset N p gen_cache_Constant_reset s e
    | SVar _ => kcall_reset N p gen_cache_Variable_reset s e
    | SAdd _ _ | SMul _ _ => kcall_reset N p gen_cache_NAryExpression_reset s e
    | SMinus _ _ _ | SDivide _ _ _ | SPower _ _ _ => kcall_reset N p gen_cache_BinaryExpression_reset s e
    | _ => kcall_reset N p gen_cache_UnaryExpression_reset s e
    end.

  Theorem eval_s_tied : forall s e, gen_eval s e = eval_s N s p e.
  Proof.
    intros s e. destruct e; unfold gen_eval.
    - apply eval_Constant_tied. - apply eval_Variable_tied.
    - apply (eval_NAry_tied s (SAdd i l)). - apply (eval_NAry_tied s (SMul i l)).
    - apply (eval_Binary_tied s (SMinus i e1 e2)). - apply (eval_Binary_tied s (SDivide i e1 e2)).
    - apply (eval_Binary_tied s (SPower i e1 e2)).
    - apply (eval_Unary_tied s (SNeg i e)). - apply (eval_Unary_tied s (SRecip i e)).
    - apply (eval_Unary_tied s (SSin i e)). - apply (eval_Unary_tied s (SCos i e)).
    - apply (eval_Unary_tied s (SNthPow i e n)). - apply (eval_Unary_tied s (SNthRoot i e n)).
    - apply (eval_Unary_tied s (SExp i e base)). - apply (eval_Unary_tied s (SLog i e base)).
  Qed.

  Theorem reset_s_tied : forall s e, gen_reset s e = Some (reset_s s e).
  Proof.
    intros s e. destruct e; unfold gen_reset.
    - apply reset_Constant_tied. - apply reset_Variable_tied.
    - apply (reset_NAry_tied s (SAdd i l)). - apply (reset_NAry_tied s (SMul i l)).
    - apply (reset_Binary_tied s (SMinus i e1 e2)). - apply (reset_Binary_tied s (SDivide i e1 e2)).
    - apply (reset_Binary_tied s (SPower i e1 e2)).
    - apply (reset_Unary_tied s (SNeg i e)). - apply (reset_Unary_tied s (SRecip i e)).
    - apply (reset_Unary_tied s (SSin i e)). - apply (reset_Unary_tied s (SCos i e)).
    - apply (reset_Unary_tied s (SNthPow i e n)). - apply (reset_Unary_tied s (SNthRoot i e n)).
    - apply (reset_Unary_tied s (SExp i e base)). - apply (reset_Unary_tied s (SLog i e base)).
  Qed.
End Tie.
