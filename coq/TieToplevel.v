(** * TieToplevel: everything in the library's modules and class bodies that is NOT an import, a
    class, a function or a docstring — the name pattern of Variable, the step bound, __all__, the
    type variables, the `if TYPE_CHECKING:` import blocks — is, verbatim, what it was when the model
    was written.  Code that runs at import time (a patched method, a changed constant, a class
    attribute shadowing a method) cannot slip past the body-by-body ties. *)
From Coq Require Import List String.
From SM Require Import Generated.
Import ListNotations.
Open Scope string_scope.

Definition model_toplevel : list (string * string) := [("__init__.py", "__all__ = ['DomainError', 'CoordinateMissing', 'Point', 'Expression', 'Derivative', 'Differential', 'Partial', 'LocatedDifferential']"); ("_private/accumulators.py", "if TYPE_CHECKING:
    from smoothmath import Expression
    from smoothmath.expression import Variable"); ("_private/base_expression/__init__.py", "__all__ = ['Expression', 'UnaryExpression', 'ParameterizedUnaryExpression', 'BinaryExpression', 'NAryExpression']"); ("_private/base_expression/binary_expression.py", "if TYPE_CHECKING:
    from smoothmath import Point, Expression"); ("_private/base_expression/expression.py", "REDUCTION_STEPS_BOUND = 1000"); ("_private/base_expression/expression.py", "if TYPE_CHECKING:
    from smoothmath import Point
    from smoothmath.expression import Add, Minus, Negation, Multiply, Divide, Power, NthPower
    from smoothmath._private.accumulators import NumericPartialsAccumulator, SyntheticPartialsAccumulator"); ("_private/base_expression/n_ary_expression.py", "if TYPE_CHECKING:
    from smoothmath import Point, Expression"); ("_private/base_expression/parameterized_unary_expression.py", "if TYPE_CHECKING:
    from smoothmath import Expression"); ("_private/base_expression/unary_expression.py", "if TYPE_CHECKING:
    from smoothmath import Point, Expression
    from smoothmath._private.accumulators import NumericPartialsAccumulator, SyntheticPartialsAccumulator"); ("_private/derivative.py", "if TYPE_CHECKING:
    from smoothmath import Point, Expression, Partial"); ("_private/differential.py", "if TYPE_CHECKING:
    from smoothmath import Point, Expression, Partial, LocatedDifferential
    from smoothmath.expression import Variable"); ("_private/expression/__init__.py", "__all__ = ['Variable', 'Constant', 'Add', 'Minus', 'Negation', 'Multiply', 'Divide', 'Reciprocal', 'Power', 'NthPower', 'NthRoot', 'Exponential', 'Logarithm', 'Cosine', 'Sine']"); ("_private/expression/add.py", "if TYPE_CHECKING:
    from smoothmath import Point, Expression
    from smoothmath.expression import Constant, Negation, Logarithm
    from smoothmath._private.accumulators import NumericPartialsAccumulator, SyntheticPartialsAccumulator"); ("_private/expression/constant.py", "if TYPE_CHECKING:
    from smoothmath import Point, Expression
    from smoothmath._private.accumulators import NumericPartialsAccumulator, SyntheticPartialsAccumulator"); ("_private/expression/cosine.py", "if TYPE_CHECKING:
    from smoothmath import Point, Expression"); ("_private/expression/divide.py", "if TYPE_CHECKING:
    from smoothmath import Point, Expression
    from smoothmath._private.accumulators import NumericPartialsAccumulator, SyntheticPartialsAccumulator"); ("_private/expression/exponential.py", "if TYPE_CHECKING:
    from smoothmath import Point, Expression"); ("_private/expression/logarithm.py", "if TYPE_CHECKING:
    from smoothmath import Point, Expression"); ("_private/expression/minus.py", "if TYPE_CHECKING:
    from smoothmath import Point, Expression
    from smoothmath._private.accumulators import NumericPartialsAccumulator, SyntheticPartialsAccumulator"); ("_private/expression/multiply.py", "if TYPE_CHECKING:
    from smoothmath import Point, Expression
    from smoothmath.expression import Constant, Negation, Reciprocal, NthPower, NthRoot, Exponential
    from smoothmath._private.accumulators import NumericPartialsAccumulator, SyntheticPartialsAccumulator"); ("_private/expression/negation.py", "if TYPE_CHECKING:
    from smoothmath import Point, Expression"); ("_private/expression/nth_power.py", "if TYPE_CHECKING:
    from smoothmath import Point, Expression"); ("_private/expression/nth_root.py", "if TYPE_CHECKING:
    from smoothmath import Point, Expression"); ("_private/expression/power.py", "if TYPE_CHECKING:
    from smoothmath import Point, Expression
    from smoothmath._private.accumulators import NumericPartialsAccumulator, SyntheticPartialsAccumulator"); ("_private/expression/reciprocal.py", "if TYPE_CHECKING:
    from smoothmath import Point, Expression"); ("_private/expression/sine.py", "if TYPE_CHECKING:
    from smoothmath import Point, Expression"); ("_private/expression/variable.py", "ALPHANUMERIC_PATTERN = re.compile('\\A\\w*\\Z')"); ("_private/expression/variable.py", "if TYPE_CHECKING:
    from smoothmath import Point, Expression
    from smoothmath._private.accumulators import NumericPartialsAccumulator, SyntheticPartialsAccumulator"); ("_private/located_differential.py", "if TYPE_CHECKING:
    from smoothmath import Point, Expression
    from smoothmath.expression import Variable"); ("_private/partial.py", "if TYPE_CHECKING:
    from smoothmath import Point, Expression
    from smoothmath.expression import Variable"); ("_private/point.py", "if TYPE_CHECKING:
    from smoothmath.expression import Variable"); ("_private/utilities.py", "U = TypeVar('U')"); ("_private/utilities.py", "V = TypeVar('V')"); ("_private/utilities.py", "W = TypeVar('W')"); ("expression/__init__.py", "__all__ = ['Variable', 'Constant', 'Add', 'Minus', 'Negation', 'Multiply', 'Divide', 'Reciprocal', 'Power', 'NthPower', 'NthRoot', 'Exponential', 'Logarithm', 'Cosine', 'Sine']")].

Lemma toplevel_tied : gen_toplevel = model_toplevel.
Proof. reflexivity. Qed.

(** the two constants among them that the model depends on *)
Lemma name_pattern_tied :
  In ("_private/expression/variable.py", "ALPHANUMERIC_PATTERN = re.compile('\\A\\w*\\Z')") gen_toplevel.
Proof. rewrite toplevel_tied. unfold model_toplevel. cbn. tauto. Qed.
