(** * TieFormulas: the _numeric_partial_formula methods of the unary classes and the
    _numeric_partial_formula_left/_right methods of Divide and Power, translated from the CURRENT
    source (GeneratedMath.v), compute exactly the model's formulas (Forward.v) — for every number
    interface N, every point and all values of the sub-expressions.  The translated bodies call
    math_functions through [mf_dispatch], i.e. the model's mf_* functions, which TieMath.v ties to
    their own source. *)
From Coq Require Import ZArith List Bool String.
From SM Require Import Num Syntax Outcome MathFun Eval Forward PyAst GeneratedMath TieMath.
Import ListNotations.
Open Scope string_scope.

Section Tie.
  Context {T : Type} (N : NumOps T).

  Ltac run := intros; unfold call, ret; cbn -[nofZ nfloat n_e nsum nadd nsub nmul ndiv nneg npow npowi
      nsqrt ncbrt nln nsin ncos neqb nltb nint nfinite mf_add mf_minus mf_negation mf_multiply mf_divide
      mf_reciprocal mf_power mf_nth_power mf_nth_root mf_exponential mf_logarithm mf_cosine mf_sine eval
      Z.sub Z.ltb Z.to_pos Pos.pred].
  Ltac go :=
    repeat match goal with
           | H : eval N ?p ?e = Val _ |- context [eval N ?p ?e] => rewrite H
           end;
    repeat (cbn -[nofZ nfloat n_e nsum nadd nsub nmul ndiv nneg npow npowi nsqrt ncbrt nln nsin ncos neqb nltb
                  nint nfinite mf_add mf_minus mf_negation mf_multiply mf_divide mf_reciprocal mf_power
                  mf_nth_power mf_nth_root mf_exponential mf_logarithm mf_cosine mf_sine eval];
            match goal with
            | |- context [match ?b with true => _ | false => _ end] =>
                lazymatch b with
                | context [match _ with true => _ | false => _ end] => fail
                | _ => destruct b eqn:?
                end
            | |- context [bind ?o _] =>
                lazymatch o with
                | mf_divide _ _ _ => destruct o
                | mf_reciprocal _ _ => destruct o
                | mf_power _ _ _ => destruct o
                | mf_nth_power _ _ _ => destruct o
                | mf_nth_root _ _ _ => destruct o
                | mf_exponential _ _ _ => destruct o
                | mf_logarithm _ _ _ => destruct o
                | mf_cosine _ _ => destruct o
                | mf_sine _ _ => destruct o
                end
            end);
    try reflexivity; try congruence.

  Lemma formula_Negation_tied : forall p a m,
    call N gen_formula_Negation [VT m] = ret (unary_formula N p (Neg a) m).
  Proof. run. go. Qed.

  Lemma formula_Reciprocal_tied : forall p a m iv, eval N p a = Val iv ->
    call N gen_formula_Reciprocal [VT m; VT iv] = ret (unary_formula N p (Recip a) m).
  Proof. run. go. Qed.

  Lemma formula_Sine_tied : forall p a m iv, eval N p a = Val iv ->
    call N gen_formula_Sine [VT m; VT iv] = ret (unary_formula N p (Sin a) m).
  Proof. run. go. Qed.

  Lemma formula_Cosine_tied : forall p a m iv, eval N p a = Val iv ->
    call N gen_formula_Cosine [VT m; VT iv] = ret (unary_formula N p (Cos a) m).
  Proof. run. go. Qed.

  Lemma formula_NthPower_tied : forall p a n m iv, eval N p a = Val iv ->
    call N gen_formula_NthPower [VT m; VZ (Zpos n); VT iv] = ret (unary_formula N p (NthPow a n) m).
  Proof. intros p a n m iv H. destruct n as [q|q|]; run; go. Qed.

  Lemma formula_NthRoot_tied : forall p a n m sv, eval N p (NthRoot a n) = Val sv ->
    call N gen_formula_NthRoot [VT m; VZ (Zpos n); VT sv] = ret (unary_formula N p (NthRoot a n) m).
  Proof.
    intros p a n m sv H. unfold unary_formula. rewrite H.
    destruct n as [q|q|]; run; go.
  Qed.

  Lemma formula_Exponential_tied : forall p a b m sv, eval N p (Exp a b) = Val sv ->
    call N gen_formula_Exponential [VT m; VT b; VT sv] = ret (unary_formula N p (Exp a b) m).
  Proof. intros p a b m sv H. unfold unary_formula. rewrite H. unfold n1. run. go. Qed.

  Lemma formula_Logarithm_tied : forall p a b m iv, eval N p a = Val iv ->
    call N gen_formula_Logarithm [VT m; VT iv; VT b] = ret (unary_formula N p (Log a b) m).
  Proof. run. go. Qed.

  Lemma formula_left_Divide_tied : forall p a b m rv, eval N p b = Val rv ->
    call N gen_formula_left_Divide [VT m; VT rv] = ret (divide_formula_left N p a b m).
  Proof. intros. unfold divide_formula_left. run. go. Qed.

  Lemma formula_right_Divide_tied : forall p a b m lv rv, eval N p a = Val lv -> eval N p b = Val rv ->
    call N gen_formula_right_Divide [VT m; VT lv; VT rv] = ret (divide_formula_right N p a b m).
  Proof. intros. unfold divide_formula_right. run. go. Qed.

  Lemma formula_left_Power_tied : forall p a b m lv rv, eval N p a = Val lv -> eval N p b = Val rv ->
    call N gen_formula_left_Power [VT m; VT lv; VT rv] = ret (power_formula_left N p a b m).
  Proof. intros. unfold power_formula_left, n1. run. go. Qed.

  Lemma formula_right_Power_tied : forall p a b m lv sv,
    eval N p a = Val lv -> eval N p (Power a b) = Val sv ->
    call N gen_formula_right_Power [VT m; VT lv; VT sv] = ret (power_formula_right N p a b m).
  Proof. intros. unfold power_formula_right. run. go. Qed.

  (** ** _value_formula: which math function, with which arguments in which order *)
  Lemma value_Minus_tied : forall x y, call N gen_value_Minus [VT x; VT y] = ret (Val (mf_minus N x y)).
  Proof. reflexivity. Qed.
  Lemma value_Negation_tied : forall x, call N gen_value_Negation [VT x] = ret (Val (mf_negation N x)).
  Proof. reflexivity. Qed.
  Lemma value_Divide_tied : forall x y, call N gen_value_Divide [VT x; VT y] = ret (mf_divide N x y).
  Proof. intros. unfold call, ret. cbn -[mf_divide]. destruct (mf_divide N x y); reflexivity. Qed.
  Lemma value_Reciprocal_tied : forall x, call N gen_value_Reciprocal [VT x] = ret (mf_reciprocal N x).
  Proof. intros. unfold call, ret. cbn -[mf_reciprocal]. destruct (mf_reciprocal N x); reflexivity. Qed.
  Lemma value_Power_tied : forall x y, call N gen_value_Power [VT x; VT y] = ret (mf_power N x y).
  Proof. intros. unfold call, ret. cbn -[mf_power]. destruct (mf_power N x y); reflexivity. Qed.
  Lemma value_NthPower_tied : forall x n, call N gen_value_NthPower [VT x; VZ (Zpos n)] = ret (mf_nth_power N x n).
  Proof. intros. unfold call, ret. cbn -[mf_nth_power]. destruct (mf_nth_power N x n); reflexivity. Qed.
  Lemma value_NthRoot_tied : forall x n, call N gen_value_NthRoot [VT x; VZ (Zpos n)] = ret (mf_nth_root N x n).
  Proof. intros. unfold call, ret. cbn -[mf_nth_root]. destruct (mf_nth_root N x n); reflexivity. Qed.
  Lemma value_Exponential_tied : forall x b, call N gen_value_Exponential [VT x; VT b] = ret (mf_exponential N x b).
  Proof. intros. unfold call, ret. cbn -[mf_exponential]. destruct (mf_exponential N x b); reflexivity. Qed.
  Lemma value_Logarithm_tied : forall x b, call N gen_value_Logarithm [VT x; VT b] = ret (mf_logarithm N x b).
  Proof. intros. unfold call, ret. cbn -[mf_logarithm]. destruct (mf_logarithm N x b); reflexivity. Qed.
  Lemma value_Cosine_tied : forall x, call N gen_value_Cosine [VT x] = ret (mf_cosine N x).
  Proof. intros. unfold call, ret. cbn -[mf_cosine]. destruct (mf_cosine N x); reflexivity. Qed.
  Lemma value_Sine_tied : forall x, call N gen_value_Sine [VT x] = ret (mf_sine N x).
  Proof. intros. unfold call, ret. cbn -[mf_sine]. destruct (mf_sine N x); reflexivity. Qed.
  Lemma value_star_tied : gen_value_star = [("Add", "add"); ("Multiply", "multiply")].
  Proof. reflexivity. Qed.
End Tie.
