(** * Objects: the Python object protocol of the library, as far as the properties need it:
    __eq__ / __hash__ (C12), __repr__ / __str__ and reading a printed form back (C13),
    operator overloads (C15), constructor validation (C16). *)
From Coq Require Import ZArith List Bool String.
From SM Require Import Num Syntax Outcome Eval.
Import ListNotations.
Open Scope string_scope.
Open Scope list_scope.

(** ** Equality *)
Section Eq.
  Context {T : Type} (N : NumOps T).
  Notation E := (expr T).

  (* the __eq__ methods of Constant, Variable, UnaryExpression, ParameterizedUnaryExpression,
     BinaryExpression, NAryExpression *)
  Fixpoint eqb (a b : E) {struct a} : bool :=
    match a, b with
    | Const c, Const c' => neqb N c' c
    | Var x, Var y => name_eqb y x
    | Add l, Add l' =>
        (fix go (l l' : list E) {struct l} : bool :=
           match l, l' with
           | [], [] => true
           | x :: r, y :: r' => eqb x y && go r r'
           | _, _ => false
           end) l l'
    | Mul l, Mul l' =>
        (fix go (l l' : list E) {struct l} : bool :=
           match l, l' with
           | [], [] => true
           | x :: r, y :: r' => eqb x y && go r r'
           | _, _ => false
           end) l l'
    | Minus a1 a2, Minus b1 b2 => eqb a1 b1 && eqb a2 b2
    | Divide a1 a2, Divide b1 b2 => eqb a1 b1 && eqb a2 b2
    | Power a1 a2, Power b1 b2 => eqb a1 b1 && eqb a2 b2
    | Neg a1, Neg b1 => eqb a1 b1
    | Recip a1, Recip b1 => eqb a1 b1
    | Sin a1, Sin b1 => eqb a1 b1
    | Cos a1, Cos b1 => eqb a1 b1
    | NthPow a1 n, NthPow b1 m => eqb a1 b1 && Pos.eqb m n
    | NthRoot a1 n, NthRoot b1 m => eqb a1 b1 && Pos.eqb m n
    | Exp a1 c, Exp b1 c' => eqb a1 b1 && neqb N c' c
    | Log a1 c, Log b1 c' => eqb a1 b1 && neqb N c' c
    | _, _ => false
    end.

  (* dict equality of two coordinate dicts with distinct keys *)
  Definition point_eqb (p q : point T) : bool :=
    Nat.eqb (List.length p) (List.length q) &&
    forallb (fun kv : name * T =>
               match lookup (fst kv) q with
               | Some w => neqb N (snd kv) w
               | None => false
               end) p.

  (** every object the properties talk about; [OForeign k] is anything else (None, numbers,
      strings, tuples ...), two foreign objects being "the same" iff they carry the same tag *)
  Inductive pyobj : Type :=
  | OExpr (e : E)
  | OPoint (p : point T)
  | OPartial (e : E) (v : name)
  | ODerivative (e : E)
  | ODifferential (e : E)
  | OLocated (e : E) (p : point T)
  | OForeign (k : nat).

  (* a == b for a one of the library's objects: class test first, then the fields *)
  Definition py_eq (a b : pyobj) : bool :=
    match a, b with
    | OExpr e, OExpr e' => eqb e e'
    | OPoint p, OPoint q => point_eqb q p
    | OPartial e v, OPartial e' v' => eqb e e' && name_eqb v v'
    | ODerivative e, ODerivative e' => eqb e e'
    | ODifferential e, ODifferential e' => eqb e e'
    | OLocated e p, OLocated e' p' => eqb e e' && point_eqb p p'
    | OForeign k, OForeign k' => Nat.eqb k k'
    | _, _ => false
    end.
End Eq.

(** ** Hashing.  Python's hash of strings, numbers and tuples is abstract; the only fact used
    is that numerically equal numbers hash alike (hash(2) == hash(2.0)). *)
Section Hash.
  Context {T : Type} (N : NumOps T).
  Context {H : Type}.
  Variable h_str : string -> H.
  Variable h_name : name -> H.
  Variable h_num : T -> H.
  Variable h_pos : positive -> H.
  Variable h_nat : nat -> H.
  Variable h_tuple : list H -> H.
  Notation E := (expr T).

  Fixpoint hash_expr (e : E) : H :=
    match e with
    | Const c => h_tuple [h_str "Constant"; h_num c]
    | Var x => h_tuple [h_str "Variable"; h_name x]
    | Add l => h_tuple [h_str "Add"; h_nat (List.length l); h_tuple (map hash_expr l)]
    | Mul l => h_tuple [h_str "Multiply"; h_nat (List.length l); h_tuple (map hash_expr l)]
    | Minus a b => h_tuple [h_str "Minus"; hash_expr a; hash_expr b]
    | Divide a b => h_tuple [h_str "Divide"; hash_expr a; hash_expr b]
    | Power a b => h_tuple [h_str "Power"; hash_expr a; hash_expr b]
    | Neg a => h_tuple [h_str "Negation"; hash_expr a]
    | Recip a => h_tuple [h_str "Reciprocal"; hash_expr a]
    | Sin a => h_tuple [h_str "Sine"; hash_expr a]
    | Cos a => h_tuple [h_str "Cosine"; hash_expr a]
    | NthPow a n => h_tuple [h_str "NthPower"; hash_expr a; h_pos n]
    | NthRoot a n => h_tuple [h_str "NthRoot"; hash_expr a; h_pos n]
    | Exp a b => h_tuple [h_str "Exponential"; hash_expr a; h_num b]
    | Log a b => h_tuple [h_str "Logarithm"; hash_expr a; h_num b]
    end.

  (* sorted(self._coordinates.items()): insertion sort on the (distinct) names *)
  Fixpoint insert_coord (kv : name * T) (l : point T) : point T :=
    match l with
    | [] => [kv]
    | kw :: r => if Pos.leb (fst kv) (fst kw) then kv :: kw :: r else kw :: insert_coord kv r
    end.
  Definition sort_coords (p : point T) : point T := fold_right insert_coord [] p.

  Definition hash_point (p : point T) : H :=
    h_tuple [h_str "Point";
             h_tuple (map (fun kv : name * T => h_tuple [h_name (fst kv); h_num (snd kv)])
                          (sort_coords p))].

  Definition py_hash (o : pyobj (T:=T)) : option H :=
    match o with
    | OExpr e => Some (hash_expr e)
    | OPoint p => Some (hash_point p)
    | OPartial e _ => Some (h_tuple [h_str "Partial"; hash_expr e])
    | ODerivative e => Some (h_tuple [h_str "Derivative"; hash_expr e])
    | ODifferential e => Some (h_tuple [h_str "Differential"; hash_expr e])
    | OLocated e p => Some (h_tuple [h_str "LocatedDifferential"; hash_expr e; hash_point p])
    | OForeign _ => None
    end.
End Hash.

(** ** Printing and reading back *)
Inductive token (T : Type) : Type :=
| TName (s : string)      (* an identifier: constructor name or keyword *)
| TLP | TRP | TComma | TEq
| TStr (x : name)         (* a quoted variable name  "x"  *)
| TNum (c : T)            (* a number literal; its characters are Python's float/int repr *)
| TPos (n : positive).    (* the integer literal of n=...  *)
Arguments TName {T} s.
Arguments TLP {T}.
Arguments TRP {T}.
Arguments TComma {T}.
Arguments TEq {T}.
Arguments TStr {T} x.
Arguments TNum {T} c.
Arguments TPos {T} n.

Section Show.
  Context {T : Type}.
  Notation E := (expr T).
  Notation tok := (token T).

  (* ", ".join(...) *)
  Fixpoint join_comma (ls : list (list tok)) : list tok :=
    match ls with
    | [] => []
    | [x] => x
    | x :: r => x ++ TComma :: join_comma r
    end.

  (* __repr__ = __str__ of every expression class (NthRoot as repaired: prints "NthRoot") *)
  Fixpoint show (e : E) : list tok :=
    match e with
    | Const c => [TName "Constant"; TLP; TNum c; TRP]
    | Var x => [TName "Variable"; TLP; TStr x; TRP]
    | Add l => TName "Add" :: TLP :: join_comma (map show l) ++ [TRP]
    | Mul l => TName "Multiply" :: TLP :: join_comma (map show l) ++ [TRP]
    | Minus a b => TName "Minus" :: TLP :: show a ++ TComma :: show b ++ [TRP]
    | Divide a b => TName "Divide" :: TLP :: show a ++ TComma :: show b ++ [TRP]
    | Power a b => TName "Power" :: TLP :: show a ++ TComma :: show b ++ [TRP]
    | Neg a => TName "Negation" :: TLP :: show a ++ [TRP]
    | Recip a => TName "Reciprocal" :: TLP :: show a ++ [TRP]
    | Sin a => TName "Sine" :: TLP :: show a ++ [TRP]
    | Cos a => TName "Cosine" :: TLP :: show a ++ [TRP]
    | NthPow a n => TName "NthPower" :: TLP :: show a ++ [TComma; TName "n"; TEq; TPos n; TRP]
    | NthRoot a n => TName "NthRoot" :: TLP :: show a ++ [TComma; TName "n"; TEq; TPos n; TRP]
    | Exp a b => TName "Exponential" :: TLP :: show a ++ [TComma; TName "base"; TEq; TNum b; TRP]
    | Log a b => TName "Logarithm" :: TLP :: show a ++ [TComma; TName "base"; TEq; TNum b; TRP]
    end.

  (* the unrepaired NthRoot._to_string printed "NthPower": kept for the regression example *)
  Definition show_old_nth_root (a : E) (n : positive) : list tok :=
    TName "NthPower" :: TLP :: show a ++ [TComma; TName "n"; TEq; TPos n; TRP].

  (* Point._to_string: Point(x=3, y=4.5); the coordinate name is printed bare *)
  Definition show_point (p : point T) : list tok :=
    TName "Point" :: TLP ::
      join_comma (map (fun kv : name * T => [TStr (fst kv); TEq; TNum (snd kv)]) p) ++ [TRP].

  Definition show_partial (e : E) (v : name) : list tok :=
    TName "Partial" :: TLP :: show e ++ [TComma; TName "Variable"; TLP; TStr v; TRP; TRP].
  Definition show_derivative (e : E) : list tok := TName "Derivative" :: TLP :: show e ++ [TRP].
  Definition show_differential (e : E) : list tok := TName "Differential" :: TLP :: show e ++ [TRP].
  Definition show_located (e : E) (p : point T) : list tok :=
    TName "LocatedDifferential" :: TLP :: show e ++ TComma :: show_point p ++ [TRP].

  (** Reading a printed form back: what Python's eval does on this grammar with the public
      names in scope.  [read_num] is reading a number literal (float(repr(x))). *)
  Variable read_num : T -> T.

  Inductive head : Type :=
  | HLeafC | HLeafV | HNary (add : bool) | HBin (k : nat) | HUn (k : nat) | HPos (pow : bool)
  | HBase (exp : bool).

  Definition head_of (s : string) : option head :=
    if String.eqb s "Constant" then Some HLeafC
    else if String.eqb s "Variable" then Some HLeafV
    else if String.eqb s "Add" then Some (HNary true)
    else if String.eqb s "Multiply" then Some (HNary false)
    else if String.eqb s "Minus" then Some (HBin 0)
    else if String.eqb s "Divide" then Some (HBin 1)
    else if String.eqb s "Power" then Some (HBin 2)
    else if String.eqb s "Negation" then Some (HUn 0)
    else if String.eqb s "Reciprocal" then Some (HUn 1)
    else if String.eqb s "Sine" then Some (HUn 2)
    else if String.eqb s "Cosine" then Some (HUn 3)
    else if String.eqb s "NthPower" then Some (HPos true)
    else if String.eqb s "NthRoot" then Some (HPos false)
    else if String.eqb s "Exponential" then Some (HBase true)
    else if String.eqb s "Logarithm" then Some (HBase false)
    else None.

  Definition mk_bin (k : nat) (a b : E) : E :=
    match k with O => Minus a b | S O => Divide a b | _ => Power a b end.
  Definition mk_un (k : nat) (a : E) : E :=
    match k with O => Neg a | S O => Recip a | S (S O) => Sin a | _ => Cos a end.

  (* recursive descent; [fuel] bounds the nesting depth + argument count *)
  Fixpoint parse (fuel : nat) (ts : list tok) {struct fuel} : option (E * list tok) :=
    match fuel with
    | O => None
    | S f =>
        let parse_args :=
          (* arguments after the first, up to the closing parenthesis: (, e)* ) *)
          fix parse_args (g : nat) (ts : list tok) {struct g} : option (list E * list tok) :=
            match g with
            | O => None
            | S g' =>
                match ts with
                | TRP :: r => Some ([], r)
                | TComma :: r =>
                    match parse f r with
                    | Some (e, r') =>
                        match parse_args g' r' with
                        | Some (es, r'') => Some (e :: es, r'')
                        | None => None
                        end
                    | None => None
                    end
                | _ => None
                end
            end in
        match ts with
        | TName s :: TLP :: r =>
            match head_of s with
            | Some HLeafC =>
                match r with TNum c :: TRP :: r' => Some (Const (read_num c), r') | _ => None end
            | Some HLeafV =>
                match r with TStr x :: TRP :: r' => Some (Var x, r') | _ => None end
            | Some (HNary add) =>
                match r with
                | TRP :: r' => Some ((if add then Add [] else Mul []), r')
                | _ =>
                    match parse f r with
                    | Some (e, r') =>
                        match parse_args f r' with
                        | Some (es, r'') => Some ((if add then Add (e :: es) else Mul (e :: es)), r'')
                        | None => None
                        end
                    | None => None
                    end
                end
            | Some (HBin k) =>
                match parse f r with
                | Some (a, TComma :: r') =>
                    match parse f r' with
                    | Some (b, TRP :: r'') => Some (mk_bin k a b, r'')
                    | _ => None
                    end
                | _ => None
                end
            | Some (HUn k) =>
                match parse f r with
                | Some (a, TRP :: r') => Some (mk_un k a, r')
                | _ => None
                end
            | Some (HPos pow) =>
                match parse f r with
                | Some (a, TComma :: TName kw :: TEq :: TPos n :: TRP :: r') =>
                    if String.eqb kw "n"
                    then Some ((if pow then NthPow a n else NthRoot a n), r')
                    else None
                | _ => None
                end
            | Some (HBase ex) =>
                match parse f r with
                | Some (a, TComma :: TName kw :: TEq :: TNum c :: TRP :: r') =>
                    if String.eqb kw "base"
                    then Some ((if ex then Exp a (read_num c) else Log a (read_num c)), r')
                    else None
                | _ => None
                end
            | None => None
            end
        | _ => None
        end
    end.

  (* enough fuel for [show e] *)
  Definition parse_fuel (e : E) : nat := S (size e).
End Show.

(** ** Constructor validation (C16) and operators (C15) *)
Section Ctor.
  Context {T : Type} (N : NumOps T).
  Notation E := (expr T).

  (** what a caller can pass *)
  Inductive pyarg : Type :=
  | AExpr (e : E)                     (* an Expression *)
  | ANum (x : T)                      (* an int, bool or float *)
  | AStr (legal : bool) (x : name)    (* a str; [legal] = non-empty and all word characters *)
  | AOther.                           (* None, tuple, list, ... *)

  Inductive result (A : Type) : Type := Ok (a : A) | Raises.
  Arguments Ok {A} a.
  Arguments Raises {A}.

  Definition as_expr (a : pyarg) : result E :=
    match a with AExpr e => Ok e | _ => Raises end.

  Definition mk_constant (a : pyarg) : result E :=   (* Constant does not validate *)
    match a with ANum x => Ok (Const x) | _ => Raises end.

  Definition mk_variable (a : pyarg) : result E :=
    match a with AStr true x => Ok (Var x) | _ => Raises end.

  Definition mk_unary (f : E -> E) (a : pyarg) : result E :=
    match as_expr a with Ok e => Ok (f e) | Raises => Raises end.

  Definition mk_binary (f : E -> E -> E) (a b : pyarg) : result E :=
    match as_expr a, as_expr b with Ok x, Ok y => Ok (f x y) | _, _ => Raises end.

  Fixpoint all_exprs (l : list pyarg) : result (list E) :=
    match l with
    | [] => Ok []
    | a :: r => match as_expr a, all_exprs r with
                | Ok e, Ok es => Ok (e :: es)
                | _, _ => Raises
                end
    end.
  Definition mk_nary (f : list E -> E) (l : list pyarg) : result E :=
    match all_exprs l with Ok es => Ok (f es) | Raises => Raises end.

  (* i = integer_from_integral_float(n); None or <= 0 -> DomainError; then the inner check *)
  Definition checked_n (n : pyarg) : result positive :=
    match n with
    | ANum x => match nint N x with
                | Some z => if Z.leb z 0 then Raises else Ok (Z.to_pos z)
                | None => Raises
                end
    | _ => Raises
    end.

  Definition mk_nth_power (a n : pyarg) : result E :=
    match checked_n n, as_expr a with
    | Ok i, Ok e => Ok (NthPow e i)
    | _, _ => Raises
    end.
  Definition mk_nth_root (a n : pyarg) : result E :=
    match checked_n n, as_expr a with
    | Ok i, Ok e => Ok (NthRoot e i)
    | _, _ => Raises
    end.

  (* super().__init__(inner, base); if base <= 0: raise *)
  Definition mk_exponential (a base : pyarg) : result E :=
    match as_expr a, base with
    | Ok e, ANum b => if nleb N b (n0 N) then Raises else Ok (Exp e b)
    | _, _ => Raises
    end.
  Definition mk_logarithm (a base : pyarg) : result E :=
    match as_expr a, base with
    | Ok e, ANum b =>
        if nleb N b (n0 N) then Raises
        else if neqb N b (n1 N) then Raises
        else Ok (Log e b)
    | _, _ => Raises
    end.

  (** operators: self is an expression, the other operand is anything *)
  Definition op_neg (a : E) : result E := Ok (Neg a).
  Definition op_add (a : E) (b : pyarg) : result E := mk_nary Add [AExpr a; b].
  Definition op_sub (a : E) (b : pyarg) : result E := mk_binary Minus (AExpr a) b.
  Definition op_mul (a : E) (b : pyarg) : result E := mk_nary Mul [AExpr a; b].
  Definition op_truediv (a : E) (b : pyarg) : result E := mk_binary Divide (AExpr a) b.
  (* __pow__: an Expression exponent gives Power; otherwise n = integer_from_integral_float(x),
     isinstance(n, int) -> NthPower(self, n) (which validates n >= 1); else raise *)
  Definition op_pow (a : E) (x : pyarg) : result E :=
    match x with
    | AExpr b => Ok (Power a b)
    | ANum y => match nint N y with
                | Some _ => mk_nth_power (AExpr a) x
                | None => Raises
                end
    | _ => Raises
    end.
End Ctor.
Arguments Ok {A} a.
Arguments Raises {A}.
