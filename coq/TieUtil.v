(** * TieUtil: the CURRENT bodies of the list / dictionary helpers (GeneratedUtil.v) compute the
    polymorphic list functions of UtilAst.v, for every list, index, callable; and those functions
    are the ones that give the helper primitives of SymAst / OrchAst / StepAst / Rules / Forward
    their meaning. *)
From Coq Require Import ZArith List Bool String Ascii Lia.
From SM Require Import UtilAst GeneratedUtil.
Import ListNotations.
Open Scope string_scope.
Open Scope list_scope.

(** ** facts about the polymorphic functions *)
Section PolyFacts.
  Context {X : Type}.

  Lemma firstn_skipn_remove : forall (l : list X) j, firstn j l ++ skipn (S j) l = remove_at j l.
  Proof.
    induction l as [|x l IH]; intros [|j]; cbn [firstn skipn remove_at app]; try reflexivity.
    f_equal. apply IH.
  Qed.

  Lemma firstn_skipn_update : forall (l : list X) j y, j < List.length l ->
    (firstn j l ++ [y]) ++ skipn (S j) l = update_at j y l.
  Proof.
    induction l as [|x l IH]; intros [|j] y Hlt; cbn [firstn skipn update_at app List.length] in *; try lia; try reflexivity.
    f_equal. apply IH. lia.
  Qed.

  Lemma remove_at_ge : forall (l : list X) j, List.length l <= j -> remove_at j l = l.
  Proof.
    induction l as [|x l IH]; intros [|j] H; cbn [remove_at List.length] in *; try reflexivity; try lia.
    f_equal. apply IH. lia.
  Qed.

  Lemma update_at_ge : forall (l : list X) j y, List.length l <= j -> update_at j y l = l.
  Proof.
    induction l as [|x l IH]; intros [|j] y H; cbn [update_at List.length] in *; try reflexivity; try lia.
    f_equal. apply IH. lia.
  Qed.

  (** a non-negative index, as the other embeddings use the helper *)
  Lemma py_without_nat : forall (l : list X) k, py_without (Z.of_nat k) l = remove_at k l.
  Proof.
    intros l k. unfold py_without, py_index.
    destruct (Z.geb (Z.of_nat k) (Z.of_nat (List.length l))) eqn:Hge; cbn [orb].
    - symmetry. apply remove_at_ge. rewrite Z.geb_leb in Hge. apply Z.leb_le in Hge. lia.
    - destruct (Z.leb (Z.of_nat k) (- (Z.of_nat (List.length l) + 1))) eqn:Hle.
      + apply Z.leb_le in Hle. lia.
      + destruct (Z.geb (Z.of_nat k) 0) eqn:H0.
        * rewrite Nat2Z.id. reflexivity.
        * rewrite Z.geb_leb in H0. apply Z.leb_gt in H0. lia.
  Qed.

  Lemma py_updated_nat : forall (l : list X) k y, py_updated (Z.of_nat k) y l = update_at k y l.
  Proof.
    intros l k y. unfold py_updated, py_index.
    destruct (Z.geb (Z.of_nat k) (Z.of_nat (List.length l))) eqn:Hge; cbn [orb].
    - symmetry. apply update_at_ge. rewrite Z.geb_leb in Hge. apply Z.leb_le in Hge. lia.
    - destruct (Z.leb (Z.of_nat k) (- (Z.of_nat (List.length l) + 1))) eqn:Hle.
      + apply Z.leb_le in Hle. lia.
      + destruct (Z.geb (Z.of_nat k) 0) eqn:H0.
        * rewrite Nat2Z.id. reflexivity.
        * rewrite Z.geb_leb in H0. apply Z.leb_gt in H0. lia.
  Qed.
End PolyFacts.

Section Tie.
  Variable A : Type.
  Variable C : Type.
  Notation uval := (uval A C).
  Variable keq : uval -> uval -> bool.
  Variable apply1 : C -> uval -> option uval.
  Variable apply2 : C -> uval -> uval -> option uval.
  Variable isinst : uval -> C.
  Variable helper : string -> list uval -> option uval.

  Notation run f args := (ucall A C keq apply1 apply2 isinst helper f args).

  (** *** list_without_entry_at / list_with_updated_entry_at: every list, every (also negative) index *)
  Lemma without_tied : forall (l : list uval) (i : Z),
    run gen_util_list_without_entry_at [UVL l; UVZ i] = Some (UVL (py_without i l)).
  Proof.
    intros l i. unfold ucall, gen_util_list_without_entry_at, py_without, py_index.
    cbn -[Z.geb Z.leb Z.add Z.opp Z.of_nat Z.to_nat skipn firstn].
    destruct (Z.geb i (Z.of_nat (List.length l))) eqn:Hge; cbn -[Z.geb Z.leb Z.add Z.opp Z.of_nat Z.to_nat skipn firstn].
    - rewrite firstn_all. reflexivity.
    - destruct (Z.leb i (- (Z.of_nat (List.length l) + 1))) eqn:Hle; cbn -[Z.geb Z.leb Z.add Z.opp Z.of_nat Z.to_nat skipn firstn].
      + rewrite firstn_all. reflexivity.
      + rewrite Z.geb_leb in Hge. apply Z.leb_gt in Hge. apply Z.leb_gt in Hle.
        destruct (Z.geb i 0) eqn:H0; cbn -[Z.geb Z.leb Z.add Z.opp Z.of_nat Z.to_nat skipn firstn];
          unfold nat_of_z.
        * rewrite Z.geb_leb in H0. rewrite H0.
          replace (Z.leb 0 (i + 1)) with true by (symmetry; apply Z.leb_le; apply Z.leb_le in H0; lia).
          apply Z.leb_le in H0. rewrite firstn_all.
          replace (Z.to_nat (i + 1)) with (S (Z.to_nat i)) by lia.
          change (Z.leb 0 0) with true. change (Z.to_nat 0) with O. cbv beta match. rewrite skipn_O. cbv beta match. rewrite firstn_skipn_remove. reflexivity.
        * rewrite Z.geb_leb in H0. apply Z.leb_gt in H0.
          replace (Z.leb 0 (Z.of_nat (List.length l) + i)) with true by (symmetry; apply Z.leb_le; lia).
          replace (Z.leb 0 (Z.of_nat (List.length l) + i + 1)) with true by (symmetry; apply Z.leb_le; lia).
          rewrite firstn_all.
          replace (Z.to_nat (Z.of_nat (List.length l) + i + 1)) with (S (Z.to_nat (Z.of_nat (List.length l) + i))) by lia.
          change (Z.leb 0 0) with true. change (Z.to_nat 0) with O. cbv beta match. rewrite skipn_O. cbv beta match. rewrite firstn_skipn_remove. reflexivity.
  Qed.

  Lemma updated_tied : forall (l : list uval) (i : Z) (y : uval),
    run gen_util_list_with_updated_entry_at [UVL l; UVZ i; y] = Some (UVL (py_updated i y l)).
  Proof.
    intros l i y. unfold ucall, gen_util_list_with_updated_entry_at, py_updated, py_index.
    cbn -[Z.geb Z.leb Z.add Z.opp Z.of_nat Z.to_nat skipn firstn].
    destruct (Z.geb i (Z.of_nat (List.length l))) eqn:Hge; cbn -[Z.geb Z.leb Z.add Z.opp Z.of_nat Z.to_nat skipn firstn].
    - rewrite firstn_all. reflexivity.
    - destruct (Z.leb i (- (Z.of_nat (List.length l) + 1))) eqn:Hle; cbn -[Z.geb Z.leb Z.add Z.opp Z.of_nat Z.to_nat skipn firstn].
      + rewrite firstn_all. reflexivity.
      + rewrite Z.geb_leb in Hge. apply Z.leb_gt in Hge. apply Z.leb_gt in Hle.
        destruct (Z.geb i 0) eqn:H0; cbn -[Z.geb Z.leb Z.add Z.opp Z.of_nat Z.to_nat skipn firstn];
          unfold nat_of_z.
        * rewrite Z.geb_leb in H0. rewrite H0.
          replace (Z.leb 0 (i + 1)) with true by (symmetry; apply Z.leb_le; apply Z.leb_le in H0; lia).
          apply Z.leb_le in H0. rewrite firstn_all.
          replace (Z.to_nat (i + 1)) with (S (Z.to_nat i)) by lia.
          change (Z.leb 0 0) with true. change (Z.to_nat 0) with O. cbv beta match. rewrite skipn_O. cbv beta match. rewrite firstn_skipn_update by lia. reflexivity.
        * rewrite Z.geb_leb in H0. apply Z.leb_gt in H0.
          replace (Z.leb 0 (Z.of_nat (List.length l) + i)) with true by (symmetry; apply Z.leb_le; lia).
          replace (Z.leb 0 (Z.of_nat (List.length l) + i + 1)) with true by (symmetry; apply Z.leb_le; lia).
          rewrite firstn_all.
          replace (Z.to_nat (Z.of_nat (List.length l) + i + 1)) with (S (Z.to_nat (Z.of_nat (List.length l) + i))) by lia.
          change (Z.leb 0 0) with true. change (Z.to_nat 0) with O. cbv beta match. rewrite skipn_O. cbv beta match. rewrite firstn_skipn_update by lia. reflexivity.
  Qed.

  (** *** first_match_by_predicate *)
  Section FirstMatch.
    Variable c : C.
    Variable p : uval -> bool.
    Variable l0 : list uval.

    Definition fm_env0 : uenv A C := [("entries", UVL l0); ("predicate", UVFun c)].
    Definition fm_env (z : Z) (it : uval) : uenv A C :=
      [("entries", UVL l0); ("predicate", UVFun c); ("i", UVZ z); ("entry", it)].
    Definition fm_shape (r : uenv A C) : Prop := r = fm_env0 \/ exists z it, r = fm_env z it.

    Lemma first_match_loop : forall (l : list uval) (r : uenv A C) (n : nat) body,
      fm_shape r ->
      (forall x, In x l -> apply1 c x = Some (UVB (p x))) ->
      (forall r' k it, fm_shape r' ->
         body r' k it = match apply1 c it with
                        | Some (UVB true) => Some (inr (UVTup (UVZ (Z.of_nat k)) it))
                        | Some (UVB false) => Some (inl (fm_env (Z.of_nat k) it))
                        | _ => None
                        end) ->
      match find_first_from p n l with
      | Some (i, x) => uenum_loop A C body r n l = Some (inr (UVTup (UVZ (Z.of_nat i)) x))
      | None => exists r', fm_shape r' /\ uenum_loop A C body r n l = Some (inl r')
      end.
    Proof.
      induction l as [|x l IH]; intros r n body Hs Hp Hb; cbn [find_first_from uenum_loop].
      - exists r. split; [exact Hs | reflexivity].
      - rewrite (Hb r n x Hs), (Hp x (or_introl eq_refl)).
        destruct (p x) eqn:Hpx.
        + reflexivity.
        + apply IH.
          * right. eexists. eexists. reflexivity.
          * intros y Hy. apply Hp. right. exact Hy.
          * exact Hb.
    Qed.
  End FirstMatch.

  Lemma first_match_tied : forall (l : list uval) (c : C) (p : uval -> bool),
    (forall x, In x l -> apply1 c x = Some (UVB (p x))) ->
    run gen_util_first_match_by_predicate [UVL l; UVFun c]
    = Some (match find_first_from p O l with
            | Some (i, x) => UVTup (UVZ (Z.of_nat i)) x
            | None => UVNone
            end).
  Proof.
    intros l c p Hp. unfold ucall, gen_util_first_match_by_predicate.
    cbn -[uenum_loop Z.of_nat].
    match goal with
    | |- context [uenum_loop A C ?b ?r0 O l] =>
        pose proof (first_match_loop c p l l r0 O b) as H
    end.
    cbv zeta in H.
    destruct (find_first_from p O l) as [[i x]|].
    - rewrite H; [reflexivity | left; reflexivity | exact Hp |].
      intros r' k it [->|(z & it0 & ->)]; cbn -[Z.of_nat];
        destruct (apply1 c it) as [[ | [|] | | | | | | ]|]; reflexivity.
    - destruct H as (r' & Hs & Hl); [left; reflexivity | exact Hp | |].
      + intros r0' k it [->|(z & it0 & ->)]; cbn -[Z.of_nat];
          destruct (apply1 c it) as [[ | [|] | | | | | | ]|]; reflexivity.
      + rewrite Hl. reflexivity.
  Qed.

  (** *** partition_by_predicate *)
  Section Partition.
    Variable c : C.
    Variable p : uval -> bool.
    Variable l0 : list uval.

    Definition pt_env0 (h m : list uval) : uenv A C :=
      [("entries", UVL l0); ("predicate", UVFun c); ("hits", UVL h); ("misses", UVL m)].
    Definition pt_env (h m : list uval) (it : uval) : uenv A C :=
      [("entries", UVL l0); ("predicate", UVFun c); ("hits", UVL h); ("misses", UVL m); ("item", it)].
    Definition pt_shape (h m : list uval) (r : uenv A C) : Prop :=
      r = pt_env0 h m \/ exists it, r = pt_env h m it.

    Lemma partition_loop : forall (l : list uval) (r : uenv A C) (h m : list uval) body,
      pt_shape h m r ->
      (forall x, In x l -> apply1 c x = Some (UVB (p x))) ->
      (forall r' h' m' it, pt_shape h' m' r' ->
         body r' it = match apply1 c it with
                      | Some (UVB true) => Some (inl (pt_env (h' ++ [it]) m' it))
                      | Some (UVB false) => Some (inl (pt_env h' (m' ++ [it]) it))
                      | _ => None
                      end) ->
      exists r', pt_shape (h ++ filter p l) (m ++ filter (fun x => negb (p x)) l) r' /\
                 ufor_loop A C body r l = Some (inl r').
    Proof.
      induction l as [|x l IH]; intros r h m body Hs Hp Hb; cbn [filter ufor_loop].
      - exists r. rewrite !app_nil_r. split; [exact Hs | reflexivity].
      - rewrite (Hb r h m x Hs), (Hp x (or_introl eq_refl)).
        destruct (p x) eqn:Hpx; cbn [negb].
        + destruct (IH (pt_env (h ++ [x]) m x) (h ++ [x]) m body) as (r' & Hs' & Hl).
          * right. eexists. reflexivity.
          * intros y Hy. apply Hp. right. exact Hy.
          * exact Hb.
          * exists r'. rewrite <- app_assoc in Hs'. split; [exact Hs' | exact Hl].
        + destruct (IH (pt_env h (m ++ [x]) x) h (m ++ [x]) body) as (r' & Hs' & Hl).
          * right. eexists. reflexivity.
          * intros y Hy. apply Hp. right. exact Hy.
          * exact Hb.
          * exists r'. rewrite <- app_assoc in Hs'. split; [exact Hs' | exact Hl].
    Qed.
  End Partition.

  Lemma partition_tied : forall (l : list uval) (c : C) (p : uval -> bool),
    (forall x, In x l -> apply1 c x = Some (UVB (p x))) ->
    run gen_util_partition_by_predicate [UVL l; UVFun c]
    = Some (UVTup (UVL (filter p l)) (UVL (filter (fun x => negb (p x)) l))).
  Proof.
    intros l c p Hp. unfold ucall, gen_util_partition_by_predicate.
    cbn -[ufor_loop].
    match goal with
    | |- context [ufor_loop A C ?b ?r0 l] =>
        destruct (partition_loop c p l l r0 [] [] b) as (r' & Hs & Hl)
    end.
    - left. reflexivity.
    - exact Hp.
    - intros r' h' m' it [->|(it0 & ->)]; cbn;
        destruct (apply1 c it) as [[ | [|] | | | | | | ]|]; reflexivity.
    - rewrite Hl. cbn [app] in Hs. destruct Hs as [->|(it & ->)]; reflexivity.
  Qed.

  (** *** group_by_key *)
  Definition embed_groups (g : list (uval * list uval)) : list (uval * uval) :=
    map (fun kv => (fst kv, UVL (snd kv))) g.

  Lemma dhas_embed_false : forall g k v, keq k k = true ->
    dhas A C keq k (embed_groups g) = false ->
    dappend A C keq k v (dput A C keq k (UVL []) (embed_groups g)) = Some (embed_groups (ginsert keq k v g)).
  Proof.
    induction g as [|[k' vs] g IH]; intros k v Hr Hh; cbn [embed_groups map dhas dput dappend ginsert fst snd] in *.
    - rewrite Hr. reflexivity.
    - destruct (keq k k') eqn:Hk; [discriminate|].
      cbn [dappend]. rewrite Hk. fold (embed_groups g). rewrite (IH k v Hr Hh). reflexivity.
  Qed.

  Lemma dhas_embed_true : forall g k v,
    dhas A C keq k (embed_groups g) = true ->
    dappend A C keq k v (embed_groups g) = Some (embed_groups (ginsert keq k v g)).
  Proof.
    induction g as [|[k' vs] g IH]; intros k v Hh; cbn [embed_groups map dhas dappend ginsert fst snd] in *.
    - discriminate.
    - destruct (keq k k') eqn:Hk.
      + reflexivity.
      + fold (embed_groups g). rewrite (IH k v Hh). reflexivity.
  Qed.

  Section GroupBy.
    Variable c : C.
    Variable kf : uval -> uval.
    Variable l0 : list uval.

    Definition gb_env0 (g : list (uval * list uval)) : uenv A C :=
      [("values", UVL l0); ("key_from_value", UVFun c); ("values_by_key", UVD (embed_groups g))].
    Definition gb_env (g : list (uval * list uval)) (it k : uval) : uenv A C :=
      [("values", UVL l0); ("key_from_value", UVFun c); ("values_by_key", UVD (embed_groups g));
       ("value", it); ("key", k)].
    Definition gb_shape (g : list (uval * list uval)) (r : uenv A C) : Prop :=
      r = gb_env0 g \/ exists it k, r = gb_env g it k.

    Lemma group_loop : forall (l : list uval) (r : uenv A C) (g : list (uval * list uval)) body,
      gb_shape g r ->
      (forall r' g' it, gb_shape g' r' ->
         In it l -> body r' it = Some (inl (gb_env (ginsert keq (kf it) it g') it (kf it)))) ->
      exists r', gb_shape (fold_left (fun g v => ginsert keq (kf v) v g) l g) r' /\
                 ufor_loop A C body r l = Some (inl r').
    Proof.
      induction l as [|x l IH]; intros r g body Hs Hb; cbn [fold_left ufor_loop].
      - exists r. split; [exact Hs | reflexivity].
      - rewrite (Hb r g x Hs (or_introl eq_refl)).
        apply IH.
        + right. eexists. eexists. reflexivity.
        + intros r' g' it Hs' Hin. apply Hb; [exact Hs' | right; exact Hin].
    Qed.
  End GroupBy.

  Lemma group_by_key_tied : forall (l : list uval) (c : C) (kf : uval -> uval),
    (forall x, In x l -> apply1 c x = Some (kf x)) ->
    (forall x, In x l -> keq (kf x) (kf x) = true) ->
    run gen_util_group_by_key [UVL l; UVFun c] = Some (UVD (embed_groups (groups keq kf l))).
  Proof.
    intros l c kf Hk Hrefl. unfold ucall, gen_util_group_by_key, groups.
    cbn -[ufor_loop].
    match goal with
    | |- context [ufor_loop A C ?b ?r0 l] =>
        destruct (group_loop c kf l l r0 [] b) as (r' & Hs & Hl)
    end.
    - left. reflexivity.
    - intros r' g' it Hs Hin.
      assert (Hgoal : forall r0, (r0 = gb_env0 c l g' \/ exists it0 k0, r0 = gb_env c l g' it0 k0) ->
                ulook A C "key_from_value" (uset A C "value" it r0) = Some (UVFun c)).
      { intros r0 [->|(it0 & k0 & ->)]; reflexivity. }
      destruct Hs as [->|(it0 & k0 & ->)]; cbn -[dhas dput dappend embed_groups];
        rewrite (Hk it Hin); cbn -[dhas dput dappend embed_groups];
        destruct (dhas A C keq (kf it) (embed_groups g')) eqn:Hh; cbn -[dhas dput dappend embed_groups];
        try (rewrite (dhas_embed_true g' (kf it) it Hh); reflexivity);
        try (rewrite (dhas_embed_false g' (kf it) it (Hrefl it Hin) Hh); reflexivity).
    - rewrite Hl. destruct Hs as [->|(it & k & ->)]; reflexivity.
  Qed.

  (** *** map_dictionary_values *)
  Fixpoint nodupk (d : list (uval * uval)) : bool :=
    match d with
    | [] => true
    | (k, _) :: r => forallb (fun kv => negb (keq (fst kv) k)) r && nodupk r
    end.

  Lemma dput_fresh : forall (res : list (uval * uval)) k w,
    forallb (fun kv => negb (keq k (fst kv))) res = true -> dput A C keq k w res = res ++ [(k, w)].
  Proof.
    induction res as [|[k' u] res IH]; intros k w Hf; cbn [dput forallb app fst] in *.
    - reflexivity.
    - apply andb_true_iff in Hf. destruct Hf as [Hk Hf]. apply negb_true_iff in Hk. rewrite Hk.
      rewrite (IH k w Hf). reflexivity.
  Qed.

  Section MapValues.
    Variable c : C.
    Variable g : uval -> uval -> uval.
    Variable d0 : list (uval * uval).

    Definition mv_env0 (res : list (uval * uval)) : uenv A C :=
      [("dictionary", UVD d0); ("update_value", UVFun c); ("result", UVD res)].
    Definition mv_env (res : list (uval * uval)) (k v : uval) : uenv A C :=
      [("dictionary", UVD d0); ("update_value", UVFun c); ("result", UVD res); ("key", k); ("value", v)].
    Definition mv_shape (res : list (uval * uval)) (r : uenv A C) : Prop :=
      r = mv_env0 res \/ exists k v, r = mv_env res k v.

    Definition mapped (d : list (uval * uval)) : list (uval * uval) :=
      map (fun kv => (fst kv, g (fst kv) (snd kv))) d.

    Lemma map_loop : forall (d : list (uval * uval)) (r : uenv A C) (res : list (uval * uval)) body,
      mv_shape res r ->
      nodupk d = true ->
      (forall kv, In kv d -> forallb (fun kv' => negb (keq (fst kv) (fst kv'))) res = true) ->
      (forall r' res' k v, mv_shape res' r' -> In (k, v) d ->
         body r' (UVTup k v) = Some (inl (mv_env (dput A C keq k (g k v) res') k v))) ->
      exists r', mv_shape (res ++ mapped d) r' /\
                 ufor_loop A C body r (map (fun kv => UVTup (fst kv) (snd kv)) d) = Some (inl r').
    Proof.
      induction d as [|[k v] d IH]; intros r res body Hs Hnd Hfresh Hb; cbn [map mapped ufor_loop fst snd].
      - exists r. rewrite app_nil_r. split; [exact Hs | reflexivity].
      - rewrite (Hb r res k v Hs (or_introl eq_refl)).
        rewrite (dput_fresh res k (g k v) (Hfresh (k, v) (or_introl eq_refl))).
        cbn [nodupk] in Hnd. apply andb_true_iff in Hnd. destruct Hnd as [Hk Hnd].
        destruct (IH (mv_env (res ++ [(k, g k v)]) k v) (res ++ [(k, g k v)]) body) as (r' & Hs' & Hl).
        + right. eexists. eexists. reflexivity.
        + exact Hnd.
        + intros kv Hin. rewrite forallb_app. rewrite (Hfresh kv (or_intror Hin)). cbn [forallb fst andb].
          rewrite forallb_forall in Hk. rewrite (Hk kv Hin). reflexivity.
        + intros r' res' k' v' Hs' Hin. apply Hb; [exact Hs' | right; exact Hin].
        + exists r'. rewrite <- app_assoc in Hs'. split; [exact Hs' | exact Hl].
    Qed.
  End MapValues.

  Lemma map_dictionary_values_tied : forall (d : list (uval * uval)) (c : C) (g : uval -> uval -> uval),
    nodupk d = true ->
    (forall k v, In (k, v) d -> apply2 c k v = Some (g k v)) ->
    run gen_util_map_dictionary_values [UVD d; UVFun c] = Some (UVD (mapped g d)).
  Proof.
    intros d c g Hnd Hg. unfold ucall, gen_util_map_dictionary_values.
    cbn -[ufor_loop].
    match goal with
    | |- context [ufor_loop A C ?b ?r0 _] =>
        destruct (map_loop c g d d r0 [] b) as (r' & Hs & Hl)
    end.
    - left. reflexivity.
    - exact Hnd.
    - intros kv Hin. reflexivity.
    - intros r' res' k v Hs Hin.
      destruct Hs as [->|(k0 & v0 & ->)]; cbn -[dput]; rewrite (Hg k v Hin); reflexivity.
    - rewrite Hl. cbn [app] in Hs. destruct Hs as [->|(k & v & ->)]; reflexivity.
  Qed.

  (** *** the type-directed wrappers hand the closure [lambda e: isinstance(e, cls)] to the helper *)
  Lemma first_of_given_type_tied : forall (l cls : uval),
    run gen_util_first_of_given_type [l; cls] = helper "first_match_by_predicate" [l; UVFun (isinst cls)].
  Proof. intros l cls. unfold ucall, gen_util_first_of_given_type. cbn. destruct (helper _ _); reflexivity. Qed.

  Lemma partition_by_given_type_tied : forall (l cls : uval),
    run gen_util_partition_by_given_type [l; cls] = helper "partition_by_predicate" [l; UVFun (isinst cls)].
  Proof. intros l cls. unfold ucall, gen_util_partition_by_given_type. cbn. destruct (helper _ _); reflexivity. Qed.
End Tie.

(** ** with the helper oracle instantiated by the helpers' own (tied) bodies, the wrappers compute
    "first item of the class, with its index" and "(items of the class, the others)" *)
Section Wrappers.
  Variable A : Type.
  Variable C : Type.
  Notation uval := (uval A C).
  Variable keq : uval -> uval -> bool.
  Variable apply1 : C -> uval -> option uval.
  Variable apply2 : C -> uval -> uval -> option uval.
  Variable isinst : uval -> C.

  Definition no_helper : string -> list uval -> option uval := fun _ _ => None.
  Definition util_helper (f : string) (args : list uval) : option uval :=
    if String.eqb f "first_match_by_predicate"
    then ucall A C keq apply1 apply2 isinst no_helper gen_util_first_match_by_predicate args
    else if String.eqb f "partition_by_predicate"
    then ucall A C keq apply1 apply2 isinst no_helper gen_util_partition_by_predicate args
    else None.

  Theorem first_of_given_type_model : forall (l : list uval) (cls : uval) (is_cls : uval -> bool),
    (forall x, In x l -> apply1 (isinst cls) x = Some (UVB (is_cls x))) ->
    ucall A C keq apply1 apply2 isinst util_helper gen_util_first_of_given_type [UVL l; cls]
    = Some (match find_first_from is_cls O l with
            | Some (i, x) => UVTup (UVZ (Z.of_nat i)) x
            | None => UVNone
            end).
  Proof.
    intros l cls is_cls H. rewrite first_of_given_type_tied. unfold util_helper. cbn [String.eqb Ascii.eqb Bool.eqb].
    apply first_match_tied. exact H.
  Qed.

  Theorem partition_by_given_type_model : forall (l : list uval) (cls : uval) (is_cls : uval -> bool),
    (forall x, In x l -> apply1 (isinst cls) x = Some (UVB (is_cls x))) ->
    ucall A C keq apply1 apply2 isinst util_helper gen_util_partition_by_given_type [UVL l; cls]
    = Some (UVTup (UVL (filter is_cls l)) (UVL (filter (fun x => negb (is_cls x)) l))).
  Proof.
    intros l cls is_cls H. rewrite partition_by_given_type_tied. unfold util_helper.
    cbn [String.eqb Ascii.eqb Bool.eqb].
    apply partition_tied. exact H.
  Qed.
End Wrappers.

(** ** the primitives of the other embeddings and of the model ARE these polymorphic functions *)
From SM Require Num Syntax Forward Rules SymAst OrchAst StepAst.

Lemma forward_remove_nth_is : forall (X : Type) (i : nat) (l : list X), Forward.remove_nth i l = remove_at i l.
Proof. intros X i l. revert i. induction l as [|x l IH]; intros [|i]; cbn; try reflexivity; try (f_equal; apply IH). Qed.

Lemma rules_group_by_key_is : forall (K V : Type) (keqb : K -> K -> bool) (key : V -> K) (l : list V),
  Rules.group_by_key keqb key l = groups keqb key l.
Proof.
  intros K V keqb key l. unfold Rules.group_by_key, groups.
  assert (H : forall (k : K) (v : V) g, Rules.group_insert keqb k v g = ginsert keqb k v g).
  { intros k v g. induction g as [|[k' vs] g IH]; cbn; [reflexivity|]. rewrite IH. reflexivity. }
  generalize (@nil (K * list V)). induction l as [|x l IH]; intros g; cbn [fold_left]; [reflexivity|].
  rewrite H. apply IH.
Qed.

Lemma symast_without_is : forall (T : Type) (i : nat) (l : list (SymAst.val (T:=T))), SymAst.without i l = remove_at i l.
Proof. intros T i l. revert i. induction l as [|x l IH]; intros [|i]; cbn; try reflexivity; try (f_equal; apply IH). Qed.

Lemma symast_find_first_is : forall (T : Type) (f : SymAst.val (T:=T) -> bool) (i : nat) l,
  SymAst.find_first f i l = find_first_from f i l.
Proof. intros T f i l. revert i. induction l as [|x l IH]; intros i; cbn [SymAst.find_first find_first_from]; [reflexivity|]. destruct (f x); [reflexivity | apply IH]. Qed.

Lemma orchast_owithout_is : forall (T : Type) (i : nat) (l : list (OrchAst.oval (T:=T))), OrchAst.owithout i l = remove_at i l.
Proof. intros T i l. revert i. induction l as [|x l IH]; intros [|i]; cbn; try reflexivity; try (f_equal; apply IH). Qed.

Lemma stepast_updated_at_is : forall (X : Type) (l : list X) (i : nat) (y : X), StepAst.updated_at l i y = update_at i y l.
Proof. intros X l. induction l as [|x l IH]; intros [|i] y; cbn; try reflexivity; try (f_equal; apply IH). Qed.
