(** * StepAst: a deep embedding of the Python subset in which the rewriting driver is written
    (_take_reduction_step of the three base classes and the two leaves,
    _consolidate_expression_lacking_variables, _fully_reduce), with an interpreter over the flag
    model of Stateful.v (part B: the memo bits _is_fully_reduced / _evaluation_failed as tables).

    harness/tie_extract.py translates the CURRENT source of those methods (GeneratedStep.v);
    TieStep.v proves that each computes the model's [take_step_f], [consolidate_f],
    [fully_reduce_f]: children before the node's own rules, the first unflagged child, marking steps,
    constant folding guarded by the failure memo, the step budget.

    The loop [for reducer in self._reducers: reduced = reducer(); if reduced is not None: return
    reduced] is one primitive of the embedded language (the translator accepts exactly this shape);
    its meaning is [apply_reducers], which TieRules.reducer_pass_tied ties to the 46 rule bodies. *)
From Coq Require Import ZArith List Bool String Ascii.
From SM Require Import Num Syntax Outcome MathFun Eval Rules Driver Stateful.
Import ListNotations.
Open Scope string_scope.
Open Scope list_scope.

Inductive tx : Type :=
| TSelf
| TName (x : string)
| TNone
| TAttr (t : tx) (f : string)             (* _inner _left _right _inners *)
| TReduced (t : tx)                       (* t._is_fully_reduced *)
| TFailed (t : tx)                        (* t._evaluation_failed *)
| THasVars (t : tx)                       (* t._variable_names, used as a truth value *)
| TIsConst (t : tx)                       (* isinstance(t, ex.Constant) *)
| TNot (t : tx)
| TIsNone (t : tx)
| TConsolidate (t : tx)                   (* t._consolidate_expression_lacking_variables() *)
| TStep (t : tx)                          (* t._take_reduction_step() *)
| TRebuild (args : list (string * tx))    (* self._rebuild(args) *)
| TUpdatedAt (l i x : tx)                 (* util.list_with_updated_entry_at(l, i, x) *)
| TAtEmptyPoint (t : tx)                  (* t.at(pt.Point()) *)
| TMkConst (t : tx).                      (* ex.Constant(t) *)

Inductive tstmt : Type :=
| TSReturn (t : tx)
| TSIf (c : tx) (th el : list tstmt)
| TSAssign (x : string) (t : tx)
| TSSetReduced (t : tx)                   (* t._is_fully_reduced = True *)
| TSSetFailed (t : tx)                    (* t._evaluation_failed = True *)
| TSReducers                              (* the reducer loop; returns when a reducer applies *)
| TSForEnum (i x : string) (iter : tx) (body : list tstmt)
| TSForBudget (body : list tstmt)         (* for _ in range(0, REDUCTION_STEPS_BOUND): body *)
| TSTryDomain (body handler : list tstmt) (* try: body  except er.DomainError: handler *)
| TSWarn.                                 (* logging.warning(...) *)

Record tfun : Type := mkTFun { t_params : list string; t_body : list tstmt }.

Section Interp.
  Context {T : Type} (N : NumOps T).
  Notation E := (expr T).
  Variable E_eqb : E -> E -> bool.
  Variable budget : nat.                    (* REDUCTION_STEPS_BOUND *)
  Notation flags := (flags (T:=T)).

  Inductive tval : Type :=
  | TVE (e : E)
  | TVNone
  | TVB (b : bool)
  | TVN (x : T)
  | TVNat (n : nat)
  | TVL (l : list E).

  Definition tenv := list (string * tval).
  Fixpoint tlook (x : string) (r : tenv) : option tval :=
    match r with
    | [] => None
    | (y, w) :: r' => if String.eqb x y then Some w else tlook x r'
    end.

  (** results: the flag table is threaded; DomainError can be caught, other errors propagate *)
  Definition tres (A : Type) := outcome (flags * A).
  Definition tstuck {A} : tres A := PyErr TypeError.

  Definition tattr (w : tval) (f : string) : option tval :=
    match w with
    | TVE e =>
        if String.eqb f "_inner" then
          match e with
          | Neg a | Recip a | Sin a | Cos a | NthPow a _ | NthRoot a _ | Exp a _ | Log a _ => Some (TVE a)
          | _ => None
          end
        else if String.eqb f "_left" then
          match e with Minus a _ | Divide a _ | Power a _ => Some (TVE a) | _ => None end
        else if String.eqb f "_right" then
          match e with Minus _ b | Divide _ b | Power _ b => Some (TVE b) | _ => None end
        else if String.eqb f "_inners" then
          match e with Add l | Mul l => Some (TVL l) | _ => None end
        else None
    | _ => None
    end.

  (** self._rebuild(args): same class and parameter, new children *)
  Definition trebuild (self : E) (args : list E) : option E :=
    match self, args with
    | Add _, l => Some (Add l)
    | Mul _, l => Some (Mul l)
    | Minus _ _, [a; b] => Some (Minus a b)
    | Divide _ _, [a; b] => Some (Divide a b)
    | Power _ _, [a; b] => Some (Power a b)
    | Neg _, [a] => Some (Neg a)
    | Recip _, [a] => Some (Recip a)
    | Sin _, [a] => Some (Sin a)
    | Cos _, [a] => Some (Cos a)
    | NthPow _ n, [a] => Some (NthPow a n)
    | NthRoot _ n, [a] => Some (NthRoot a n)
    | Exp _ b, [a] => Some (Exp a b)
    | Log _ b, [a] => Some (Log a b)
    | _, _ => None
    end.

  Fixpoint updated_at {A} (l : list A) (i : nat) (x : A) : list A :=
    match l with
    | [] => []
    | y :: r => match i with O => x :: r | S j => y :: updated_at r j x end
    end.

  Fixpoint tev (r : tenv) (f : flags) (t : tx) {struct t} : tres tval :=
    let targs :=
      fix targs (f : flags) (l : list (string * tx)) : tres (list E) :=
        match l with
        | [] => Val (f, [])
        | (k, a) :: rest =>
            o <- tev r f a ;;
            let (f1, w) := o in
            q <- targs f1 rest ;;
            let (f2, ws) := q in
            match w with
            | TVE e => if String.eqb k "*" then tstuck else Val (f2, e :: ws)
            | TVL l => if String.eqb k "*" then Val (f2, l ++ ws) else tstuck
            | _ => tstuck
            end
        end in
    match t with
    | TSelf => match tlook "self" r with Some w => Val (f, w) | None => tstuck end
    | TName x => match tlook x r with Some w => Val (f, w) | None => tstuck end
    | TNone => Val (f, TVNone)
    | TAttr a fld =>
        o <- tev r f a ;;
        let (f1, w) := o in match tattr w fld with Some u => Val (f1, u) | None => tstuck end
    | TReduced a =>
        o <- tev r f a ;;
        let (f1, w) := o in match w with TVE e => Val (f1, TVB (reduced f1 e)) | _ => tstuck end
    | TFailed a =>
        o <- tev r f a ;;
        let (f1, w) := o in match w with TVE e => Val (f1, TVB (failed f1 e)) | _ => tstuck end
    | THasVars a =>
        o <- tev r f a ;;
        let (f1, w) := o in match w with TVE e => Val (f1, TVB (negb (var_free e))) | _ => tstuck end
    | TIsConst a =>
        o <- tev r f a ;;
        let (f1, w) := o in
        match w with TVE e => Val (f1, TVB (match e with Const _ => true | _ => false end)) | _ => tstuck end
    | TNot a =>
        o <- tev r f a ;;
        let (f1, w) := o in match w with TVB b => Val (f1, TVB (negb b)) | _ => tstuck end
    | TIsNone a =>
        o <- tev r f a ;;
        let (f1, w) := o in Val (f1, TVB (match w with TVNone => true | _ => false end))
    | TConsolidate a =>
        o <- tev r f a ;;
        let (f1, w) := o in
        match w with
        | TVE e => let (f2, c) := consolidate_f N E_eqb f1 e in
                   Val (f2, match c with Some c' => TVE c' | None => TVNone end)
        | _ => tstuck
        end
    | TStep a =>
        o <- tev r f a ;;
        let (f1, w) := o in
        match w with
        | TVE e => let (f2, e') := take_step_f N E_eqb f1 e in Val (f2, TVE e')
        | _ => tstuck
        end
    | TRebuild args =>
        q <- targs f args ;;
        let (f1, es) := q in
        match tlook "self" r with
        | Some (TVE self) => match trebuild self es with Some e' => Val (f1, TVE e') | None => tstuck end
        | _ => tstuck
        end
    | TUpdatedAt l i x =>
        o <- tev r f l ;; let (f1, wl) := o in
        q <- tev r f1 i ;; let (f2, wi) := q in
        z <- tev r f2 x ;; let (f3, wx) := z in
        match wl, wi, wx with
        | TVL es, TVNat n, TVE e => Val (f3, TVL (updated_at es n e))
        | _, _, _ => tstuck
        end
    | TAtEmptyPoint a =>
        o <- tev r f a ;;
        let (f1, w) := o in
        match w with
        | TVE e => x <- eval N [] e ;; Val (f1, TVN x)
        | _ => tstuck
        end
    | TMkConst a =>
        o <- tev r f a ;;
        let (f1, w) := o in match w with TVN x => Val (f1, TVE (Const x)) | _ => tstuck end
    end.

  Definition tflow := (tenv + tval)%type.

  Section StmtLoops.
    Fixpoint tenum_loop (run_body : tenv -> flags -> nat -> E -> tres tflow) (n : nat) (r : tenv) (f : flags)
             (items : list E) : tres tflow :=
      match items with
      | [] => Val (f, inl r)
      | it :: rest =>
          o <- run_body r f n it ;;
          let (f1, fl) := o in
          match fl with
          | inl r' => tenum_loop run_body (S n) r' f1 rest
          | inr w => Val (f1, inr w)
          end
      end.

    Fixpoint tbudget_loop (run_body : tenv -> flags -> tres tflow) (b : nat) (r : tenv) (f : flags) : tres tflow :=
      match b with
      | O => Val (f, inl r)
      | S b' =>
          o <- run_body r f ;;
          let (f1, fl) := o in
          match fl with
          | inl r' => tbudget_loop run_body b' r' f1
          | inr w => Val (f1, inr w)
          end
      end.
  End StmtLoops.

  Fixpoint texec (r : tenv) (f : flags) (st : tstmt) {struct st} : tres tflow :=
    let block :=
      fix block (r : tenv) (f : flags) (l : list tstmt) {struct l} : tres tflow :=
        match l with
        | [] => Val (f, inl r)
        | st :: rest =>
            o <- texec r f st ;;
            let (f1, fl) := o in
            match fl with
            | inl r' => block r' f1 rest
            | inr w => Val (f1, inr w)
            end
        end in
    match st with
    | TSReturn t => o <- tev r f t ;; let (f1, w) := o in Val (f1, inr w)
    | TSIf c th el =>
        o <- tev r f c ;;
        let (f1, w) := o in
        match w with
        | TVB true => block r f1 th
        | TVB false => block r f1 el
        | _ => tstuck
        end
    | TSAssign x t => o <- tev r f t ;; let (f1, w) := o in Val (f1, inl ((x, w) :: r))
    | TSSetReduced t =>
        o <- tev r f t ;;
        let (f1, w) := o in
        match w with TVE e => Val (mark_reduced E_eqb f1 e, inl r) | _ => tstuck end
    | TSSetFailed t =>
        o <- tev r f t ;;
        let (f1, w) := o in
        match w with TVE e => Val (mark_failed E_eqb f1 e, inl r) | _ => tstuck end
    | TSReducers =>
        match tlook "self" r with
        | Some (TVE self) =>
            match apply_reducers N self with
            | Some (_, e') => Val (f, inr (TVE e'))
            | None => Val (f, inl r)
            end
        | _ => tstuck
        end
    | TSForEnum i x iter body =>
        o <- tev r f iter ;;
        let (f1, w) := o in
        match w with
        | TVL items =>
            tenum_loop (fun r' f' n it => block ((x, TVE it) :: (i, TVNat n) :: r') f' body) O r f1 items
        | _ => tstuck
        end
    | TSForBudget body => tbudget_loop (fun r' f' => block r' f' body) budget r f
    | TSTryDomain body handler =>
        match block r f body with
        | DomErr => block r f handler
        | other => other
        end
    | TSWarn => Val (f, inl r)
    end.

  Fixpoint texec_block (r : tenv) (f : flags) (l : list tstmt) : tres tflow :=
    match l with
    | [] => Val (f, inl r)
    | st :: rest =>
        o <- texec r f st ;;
        let (f1, fl) := o in
        match fl with
        | inl r' => texec_block r' f1 rest
        | inr w => Val (f1, inr w)
        end
    end.

  (** a method call on [self]: the flag table afterwards and the returned value *)
  Definition tcall (fn : tfun) (f : flags) (self : E) : tres tval :=
    o <- texec_block [("self", TVE self)] f (t_body fn) ;;
    let (f1, fl) := o in
    match fl with
    | inr w => Val (f1, w)
    | inl _ => Val (f1, TVNone)
    end.
End Interp.

Arguments TVE {T} e.
Arguments TVNone {T}.
Arguments TVB {T} b.
Arguments TVN {T} x.
Arguments TVNat {T} n.
Arguments TVL {T} l.
