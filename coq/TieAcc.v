(** * TieAcc: add_to and *_partials_for of the two accumulator classes of the CURRENT source
    (GeneratedAcc.v), interpreted by AccAst, compute exactly the model's accumulator operations
    ([acc_add], [numeric_partials_for] of Reverse.v; [sacc_add], [synthetic_partials_for] of Synth.v):
    a variable met several times receives the SUM of its contributions, one never met reads as 0. *)
From Coq Require Import ZArith List Bool String Lia.
From SM Require Import Num Syntax Outcome MathFun Eval Forward Reverse Synth AccAst GeneratedAcc.
Import ListNotations.
Open Scope string_scope.
Open Scope list_scope.

Section Tie.
  Context {T : Type} (N : NumOps T).
  Notation E := (expr T).
  Notation aval := (aval (T:=T)).

  Definition dictN (a : accum (T:=T)) : list (name * aval) := map (fun kv => (fst kv, AVN (snd kv))) a.
  Definition dictE (a : saccum (T:=T)) : list (name * aval) := map (fun kv => (fst kv, AVE (snd kv))) a.

  Lemma dget_N : forall v (a : accum), dget v (dictN a) = match lookup v a with Some w => Some (AVN w) | None => None end.
  Proof.
    intros v a. induction a as [|[x w] a IH]; [reflexivity|]. cbn [dictN map fst snd dget lookup].
    destruct (name_eqb v x); [reflexivity | exact IH].
  Qed.

  Lemma dset_N : forall (a : accum) v w, dset (dictN a) v (AVN w) = dictN (acc_set a v w).
  Proof.
    induction a as [|[x u] a IH]; intros v w; [reflexivity|]. cbn [dictN map fst snd dset acc_set].
    destruct (name_eqb v x); [reflexivity|]. cbn [map fst snd]. f_equal. apply IH.
  Qed.

  Lemma dget_E : forall v (a : saccum), dget v (dictE a) = match slookup v a with Some w => Some (AVE w) | None => None end.
  Proof.
    intros v a. induction a as [|[x w] a IH]; [reflexivity|]. cbn [dictE map fst snd dget slookup].
    destruct (name_eqb v x); [reflexivity | exact IH].
  Qed.

  Lemma dset_E : forall (a : saccum) v w, dset (dictE a) v (AVE w) = dictE (sacc_set a v w).
  Proof.
    induction a as [|[x u] a IH]; intros v w; [reflexivity|]. cbn [dictE map fst snd dset sacc_set].
    destruct (name_eqb v x); [reflexivity|]. cbn [map fst snd]. f_equal. apply IH.
  Qed.

  Ltac opq := cbn -[dget dset dictN dictE nadd nofZ].

  (** ** NumericPartialsAccumulator *)
  Lemma numeric_add_to_tied : forall (a : accum) (x : name) (c : T),
    acall N gen_acc_NumericPartialsAccumulator_add_to [("_numeric_partials", AVDict (dictN a))] [AVE (Var x); AVN c]
    = Some (AVNone, [("_numeric_partials", AVDict (dictN (acc_add N a x c)))]).
  Proof.
    intros a x c. unfold acall, acc_add, acc_get. opq. rewrite dget_N.
    destruct (lookup x a); opq; rewrite dset_N; reflexivity.
  Qed.

  Lemma dset_fresh : forall (d : list (name * aval)) v w, dget v d = None -> dset d v w = d ++ [(v, w)].
  Proof.
    induction d as [|[x u] d IH]; intros v w H; [reflexivity|]. cbn [dget dset app] in *.
    destruct (name_eqb v x); [discriminate|]. f_equal. apply IH. exact H.
  Qed.

  Lemma dget_app_None : forall (d d' : list (name * aval)) v, dget v d = None -> dget v d' = None -> dget v (d ++ d') = None.
  Proof.
    induction d as [|[x u] d IH]; intros d' v H1 H2; [exact H2|]. cbn [dget app] in *.
    destruct (name_eqb v x); [discriminate|]. apply IH; assumption.
  Qed.

  (* the environment of the *_partials_for loops: two locals before the first iteration, three after *)
  Definition env2 (enum0 : list name) (d : list (name * aval)) : aenv (T:=T) :=
    [("variable_names", AVNames enum0); ("results", AVDict d)].
  Definition env3 (enum0 : list name) (d : list (name * aval)) (it : name) : aenv (T:=T) :=
    [("variable_names", AVNames enum0); ("results", AVDict d); ("variable_name", AVName it)].

  Section ForLoop.
    Variable fs : aenv (T:=T).
    Variable body : astate (T:=T) -> name -> option (aflow (T:=T)).
    Variable g : name -> aval.
    (* the shape of the locals before the first iteration and after an iteration *)
    Variable E2 : list (name * aval) -> aenv (T:=T).
    Variable E3 : list (name * aval) -> name -> aenv (T:=T).
    Hypothesis res2 : forall d, alook "results" (E2 d) = Some (AVDict d).
    Hypothesis res3 : forall d it, alook "results" (E3 d it) = Some (AVDict d).
    Hypothesis body2 : forall d it, dget it d = None ->
      body (E2 d, fs) it = Some (inl (E3 (d ++ [(it, g it)]) it, fs)).
    Hypothesis body3 : forall d it0 it, dget it d = None ->
      body (E3 d it0, fs) it = Some (inl (E3 (d ++ [(it, g it)]) it, fs)).

    Lemma loop3 : forall (suf : list name) d it0,
      NoDup suf -> (forall x, In x suf -> dget x d = None) ->
      exists it1, afor_loop body (E3 d it0, fs) suf
                  = Some (inl (E3 (d ++ map (fun x => (x, g x)) suf) it1, fs)).
    Proof.
      induction suf as [|x suf IH]; intros d it0 Hnd Hfresh; cbn [afor_loop map].
      - exists it0. rewrite app_nil_r. reflexivity.
      - rewrite body3 by (apply Hfresh; left; reflexivity).
        inversion Hnd as [|? ? Hnotin Hnd']; subst.
        destruct (IH (d ++ [(x, g x)]) x Hnd') as [it1 Heq].
        + intros y Hy. apply dget_app_None; [apply Hfresh; right; exact Hy|].
          cbn [dget]. destruct (name_eqb y x) eqn:Hyx; [|reflexivity].
          apply Pos.eqb_eq in Hyx. subst. contradiction.
        + exists it1. rewrite Heq, <- app_assoc. reflexivity.
    Qed.

    Lemma loop2 : forall (suf : list name), NoDup suf ->
      exists r', afor_loop body (E2 [], fs) suf = Some (inl (r', fs)) /\
                 alook "results" r' = Some (AVDict (map (fun x => (x, g x)) suf)).
    Proof.
      intros suf Hnd. destruct suf as [|x suf].
      - exists (E2 []). split; [reflexivity | apply res2].
      - cbn [afor_loop]. rewrite body2 by reflexivity.
        inversion Hnd as [|? ? Hnotin Hnd']; subst.
        destruct (loop3 suf ([] ++ [(x, g x)]) x Hnd') as [it1 Heq].
        + intros y Hy. cbn [app dget]. destruct (name_eqb y x) eqn:Hyx; [|reflexivity].
          apply Pos.eqb_eq in Hyx. subst. contradiction.
        + exists (E3 (([] ++ [(x, g x)]) ++ map (fun x0 => (x0, g x0)) suf) it1). split; [exact Heq | apply res3].
    Qed.
  End ForLoop.

  Lemma numeric_partials_for_tied : forall (a : accum) (enum : list name), NoDup enum ->
    acall N gen_acc_NumericPartialsAccumulator_numeric_partials_for [("_numeric_partials", AVDict (dictN a))] [AVNames enum]
    = Some (AVDict (map (fun x => (x, match lookup x a with Some w => AVN w | None => AVZ 0 end)) enum),
            [("_numeric_partials", AVDict (dictN a))]).
  Proof.
    intros a enum Hnd. unfold acall. opq.
    match goal with |- context [afor_loop ?body ?st enum] =>
      destruct (loop2 [("_numeric_partials", AVDict (dictN a))] body
                  (fun x => match lookup x a with Some w => AVN w | None => AVZ 0 end)
                  (env2 enum) (env3 enum)) with (suf := enum) as (r' & Hl & Hr)
    end.
    - reflexivity.
    - reflexivity.
    - intros d it Hd. unfold env2, env3. opq. rewrite dget_N. rewrite (dset_fresh d it _ Hd).
      destruct (lookup it a); reflexivity.
    - intros d it0 it Hd. unfold env3. opq. rewrite dget_N. rewrite (dset_fresh d it _ Hd).
      destruct (lookup it a); reflexivity.
    - exact Hnd.
    - unfold env2 in Hl. rewrite Hl. opq. rewrite Hr. reflexivity.
  Qed.

  (* read back as numbers: the int 0 default is the model's [acc_get] *)
  Lemma numeric_partials_for_model : forall (a : accum) (enum : list name),
    map (fun x => (x, match lookup x a with Some w => w | None => n0 N end)) enum = numeric_partials_for N a enum.
  Proof. reflexivity. Qed.

  (** ** SyntheticPartialsAccumulator *)
  Lemma synthetic_add_to_tied : forall (a : saccum) (x : name) (c : E),
    acall N gen_acc_SyntheticPartialsAccumulator_add_to [("_synthetic_partials", AVDict (dictE a))] [AVE (Var x); AVE c]
    = Some (AVNone, [("_synthetic_partials", AVDict (dictE (sacc_add a x c)))]).
  Proof.
    intros a x c. unfold acall, sacc_add. opq. rewrite dget_E.
    destruct (slookup x a); opq; rewrite dset_E; reflexivity.
  Qed.

  Lemma synthetic_partials_for_tied : forall (a : saccum) (enum : list name), NoDup enum ->
    acall N gen_acc_SyntheticPartialsAccumulator_synthetic_partials_for [("_synthetic_partials", AVDict (dictE a))] [AVNames enum]
    = Some (AVDict (dictE (synthetic_partials_for N a enum)), [("_synthetic_partials", AVDict (dictE a))]).
  Proof.
    intros a enum Hnd. unfold acall. opq.
    match goal with |- context [afor_loop ?body ?st enum] =>
      destruct (loop2 [("_synthetic_partials", AVDict (dictE a))] body
                  (fun x => AVE (match slookup x a with Some w => w | None => Const (nofZ N 0) end))
                  (env2 enum)
                  (fun d it => env3 enum d it ++
                               [("optional", match slookup it a with Some w => AVE w | None => AVNone end)]))
        with (suf := enum) as (r' & Hl & Hr)
    end.
    - reflexivity.
    - reflexivity.
    - intros d it Hd. unfold env2, env3. opq. rewrite dget_E.
      destruct (slookup it a); opq; rewrite (dset_fresh d it _ Hd); reflexivity.
    - intros d it0 it Hd. unfold env3. opq. rewrite dget_E.
      destruct (slookup it a); opq; rewrite (dset_fresh d it _ Hd); reflexivity.
    - exact Hnd.
    - unfold env2 in Hl. rewrite Hl. opq. rewrite Hr. unfold dictE, synthetic_partials_for, n0.
      rewrite map_map. reflexivity.
  Qed.

  Lemma acc_inits_tied :
    gen_acc_inits = [("NumericPartialsAccumulator", "_numeric_partials"); ("SyntheticPartialsAccumulator", "_synthetic_partials")].
  Proof. reflexivity. Qed.
End Tie.
