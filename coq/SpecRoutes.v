(** * SpecRoutes: the statement of the last sentence of C06 — "Differential(e).component(v) equals
    Partial(e, v) and Differential(e).at(p) equals LocatedDifferential(e, p)" — about the object
    model of RouteAst.v and the equality of Objects.v, at exact real arithmetic, for every
    simplifier [norm] and every iteration order [enum] of the variable-name sets. *)
From Coq Require Import Reals List Bool.
From SM Require Import Num Syntax Outcome Eval RInst Objects RouteAst Spec.
Import ListNotations.

(** what [==] and [hash] see of a derivative object (TieObj.v: the [__eq__] / [__hash__] bodies read
    the original expression, the variable name and the point, nothing else) *)
Definition partial_pyobj {T} (o : partial_obj (T:=T)) : pyobj := OPartial (pe o) (pv o).
Definition located_pyobj {T} (o : located_obj (T:=T)) : pyobj := OLocated (le o) (lp o).

Definition C06_component_equals_partial : Prop :=
  forall (norm : expr R -> expr R) (enum : expr R -> list name) (e : expr R) (v : name) (early early' : bool),
    let c := diff_component RInst norm (mk_differential RInst norm enum e early) v in
    let q := mk_partial RInst norm e v early' None in
    py_eq RInst (partial_pyobj c) (partial_pyobj q) = true /\
    py_eq RInst (partial_pyobj q) (partial_pyobj c) = true.

Definition C06_at_equals_located : Prop :=
  forall (norm : expr R -> expr R) (enum : expr R -> list name) (e : expr R) (p : point R) (early : bool)
         (o o' : located_obj),
    NoDup (map fst p) ->
    diff_at RInst enum (mk_differential RInst norm enum e early) p = Val o ->
    mk_located RInst enum e p None = Val o' ->
    py_eq RInst (located_pyobj o) (located_pyobj o') = true /\
    py_eq RInst (located_pyobj o') (located_pyobj o) = true.

(** ... and the two constructions succeed or fail together: where the expression is well formed and
    the point supplies its variables, the late [Differential(e).at(p)] IS the outcome of
    [LocatedDifferential(e, p)] — the same stored partials, or DomainError from both *)
Definition C06_at_located_same_outcome : Prop :=
  forall (norm : expr R -> expr R) (enum : expr R -> list name) (e : expr R) (p : point R),
    wfR e -> supplies p e ->
    diff_at RInst enum (mk_differential RInst norm enum e false) p = mk_located RInst enum e p None.
