(** * TieMath: the translated CURRENT source of math_functions.py and of every
    _verify_domain_constraints method (GeneratedMath.v, regenerated on every run), interpreted by
    PyAst.call, computes exactly what the hand-written model computes — for every number interface
    N and all arguments. *)
From Coq Require Import ZArith List Bool String.
From SM Require Import Num Outcome MathFun Eval PyAst GeneratedMath.
Import ListNotations.
Open Scope string_scope.

Section Tie.
  Context {T : Type} (N : NumOps T).

  Definition ret (o : outcome T) : outcome (option T) := omap Some o.
  Definition none (o : outcome unit) : outcome (option T) := omap (fun _ => None) o.

  Ltac run := intros; unfold call, ret, none; cbn -[nofZ nfloat n_e nsum nadd nsub nmul ndiv nneg npow npowi
                                                    nsqrt ncbrt nln nsin ncos neqb nltb nint nfinite Z.eqb Z.ltb Z.leb Z.even].
  Ltac split_ifs :=
    repeat match goal with
           | |- context [if ?b then _ else _] =>
               lazymatch b with
               | context [if _ then _ else _] => fail
               | _ => destruct b eqn:?; cbn -[nofZ nfloat n_e nsum nadd nsub nmul ndiv nneg npow npowi
                                              nsqrt ncbrt nln nsin ncos neqb nltb nint nfinite]
               end
           end.

  Lemma mf_add_tied : forall args, call N gen_mf_add (map VT args) = ret (Val (mf_add N args)).
  Proof.
    run. unfold mf_add.
    assert (H : forall l : list T, flat_map (fun v => match v with VT x => [x] | VZ z => [nofZ N z] | VList _ => [] end) (map VT l) = l).
    { induction l as [|a l IH]; simpl; congruence. }
    rewrite H. reflexivity.
  Qed.

  Lemma mf_minus_tied : forall x y, call N gen_mf_minus [VT x; VT y] = ret (Val (mf_minus N x y)).
  Proof. run. reflexivity. Qed.

  Lemma mf_negation_tied : forall x, call N gen_mf_negation [VT x] = ret (Val (mf_negation N x)).
  Proof. run. reflexivity. Qed.

  Lemma flat_VT : forall l : list T,
    flat_map (fun v => match v with VT x => [x] | VZ z => [nofZ N z] | VList _ => [] end) (map VT l) = l.
  Proof. induction l as [|a l IH]; simpl; congruence. Qed.

  (* the body of the loop of multiply, as the translation produces it *)
  Definition mult_body : env (T:=T) -> outcome (flow (T:=T)) := fun r' =>
      f <- (b <- (x <- match lookup_env "arg" r' with Some v => Val v | None => PyErr KeyError end ;;
                  cmp N "==" x (VZ 0)) ;;
            (if b then Val (inr (VZ 0)) else Val (inl r'))) ;;
      match f with
      | inl r'0 =>
          f0 <- (a <- match lookup_env "product" r'0 with Some v => Val v | None => PyErr KeyError end ;;
                 v <- match lookup_env "arg" r'0 with Some v => Val v | None => PyErr KeyError end ;;
                 w <- bin N "*" a v ;; Val (inl (("product", w) :: r'0))) ;;
          match f0 with inl r'1 => Val (inl r'1) | inr v => Val (inr v) end
      | inr v => Val (inr v)
      end.

  Lemma multiply_loop : forall (items : list T) (r : env (T:=T)) (p : T),
    lookup_env "product" r = Some (VT p) ->
    (for_loop mult_body "arg" r items = Val (inr (VZ 0)) /\ mul_loop N p items = nofZ N 0) \/
    (exists r', for_loop mult_body "arg" r items = Val (inl r') /\
                lookup_env "product" r' = Some (VT (mul_loop N p items))).
  Proof.
    induction items as [|a items IH]; intros r p Hp.
    - right. exists r. split; [reflexivity | exact Hp].
    - assert (Hs : mult_body (("arg", VT a) :: r) =
                   if neqb N a (nofZ N 0) then Val (inr (VZ 0))
                   else Val (inl (("product", VT (nmul N p a)) :: ("arg", VT a) :: r))).
      { unfold mult_body. cbn -[nofZ neqb nmul].
        destruct (neqb N a (nofZ N 0)); cbn -[nofZ neqb nmul]; [reflexivity|].
        rewrite Hp. reflexivity. }
      cbn [for_loop mul_loop]. rewrite Hs. unfold n0.
      destruct (neqb N a (nofZ N 0)) eqn:E; cbn [bind].
      + left. split; reflexivity.
      + apply (IH (("product", VT (nmul N p a)) :: ("arg", VT a) :: r) (nmul N p a)).
        reflexivity.
  Qed.

  Lemma mf_multiply_tied : forall args,
    call N gen_mf_multiply (map VT args) = ret (Val (mf_multiply N args)).
  Proof.
    run. rewrite flat_VT. unfold mf_multiply, n1.
    match goal with
    | |- context [for_loop ?b "arg" ?r args] =>
        change b with mult_body;
        destruct (multiply_loop args r (nfloat N (nofZ N 1)) eq_refl) as [[H1 H2] | [r' [H1 H2]]];
        rewrite H1
    end.
    - cbn -[nofZ]. rewrite H2. reflexivity.
    - cbn -[nofZ]. rewrite H2. reflexivity.
  Qed.

  Ltac crunch :=
    repeat (cbn -[nofZ nfloat n_e nsum nadd nsub nmul ndiv nneg npow npowi nsqrt ncbrt nln nsin ncos
                  neqb nltb nint nfinite prim_pow prim_powi prim_log prim_sqrt prim_cos prim_sin];
            match goal with
            | |- context [match ?b with true => _ | false => _ end] =>
                lazymatch b with
                | context [match _ with true => _ | false => _ end] => fail
                | _ => destruct b eqn:?
                end
            | |- context [bind ?o _] =>
                lazymatch o with
                | prim_pow _ _ _ => destruct o
                | prim_powi _ _ _ => destruct o
                | prim_log _ _ _ => destruct o
                | prim_sqrt _ _ => destruct o
                | prim_cos _ _ => destruct o
                | prim_sin _ _ => destruct o
                end
            end);
    try reflexivity; try congruence.

  Lemma mf_divide_tied : forall x y, call N gen_mf_divide [VT x; VT y] = ret (mf_divide N x y).
  Proof. run. unfold mf_divide, prim_div, n0. crunch. Qed.

  Lemma mf_reciprocal_tied : forall x, call N gen_mf_reciprocal [VT x] = ret (mf_reciprocal N x).
  Proof. run. unfold mf_reciprocal, prim_div, n0, n1. crunch. Qed.

  Lemma mf_power_tied : forall x y, call N gen_mf_power [VT x; VT y] = ret (mf_power N x y).
  Proof. run. unfold mf_power, n0. crunch. Qed.

  Lemma mf_nth_power_tied : forall x n,
    call N gen_mf_nth_power [VT x; VZ (Zpos n)] = ret (mf_nth_power N x n).
  Proof. run. unfold mf_nth_power. crunch. Qed.

  Lemma mf_exponential_tied : forall x b,
    call N gen_mf_exponential [VT x; VT b] = ret (mf_exponential N x b).
  Proof. run. unfold mf_exponential, n0. crunch. Qed.

  Lemma mf_logarithm_tied : forall x b,
    call N gen_mf_logarithm [VT x; VT b] = ret (mf_logarithm N x b).
  Proof. run. unfold mf_logarithm, n0, n1. crunch. Qed.

  Lemma mf_cosine_tied : forall x, call N gen_mf_cosine [VT x] = ret (mf_cosine N x).
  Proof. run. unfold mf_cosine. crunch. Qed.

  Lemma mf_sine_tied : forall x, call N gen_mf_sine [VT x] = ret (mf_sine N x).
  Proof. run. unfold mf_sine. crunch. Qed.

  Lemma mf_nth_root_tied : forall x n,
    call N gen_mf_nth_root [VT x; VZ (Zpos n)] = ret (mf_nth_root N x n).
  Proof.
    intros x n. unfold mf_nth_root, one_over, n0, n1.
    destruct n as [[q|q|]|[q|q|]|]; run; crunch.
  Qed.

  (** _verify_domain_constraints of every class *)
  Lemma verify_Divide_tied : forall l r,
    call N gen_verify_Divide [VT l; VT r] = none (verify_divide N l r).
  Proof. run. unfold verify_divide, n0. crunch. Qed.

  Lemma verify_Reciprocal_tied : forall x,
    call N gen_verify_Reciprocal [VT x] = none (verify_reciprocal N x).
  Proof. run. unfold verify_reciprocal, n0. crunch. Qed.

  Lemma verify_Power_tied : forall l r,
    call N gen_verify_Power [VT l; VT r] = none (verify_power N l r).
  Proof. run. unfold verify_power, n0. crunch. Qed.

  Lemma verify_Logarithm_tied : forall x,
    call N gen_verify_Logarithm [VT x] = none (verify_logarithm N x).
  Proof. run. unfold verify_logarithm, n0. crunch. Qed.

  Lemma verify_NthRoot_tied : forall x n,
    call N gen_verify_NthRoot [VT x; VZ (Zpos n)] = none (verify_nth_root N x n).
  Proof.
    intros x n. unfold verify_nth_root, n0.
    replace (Pos.leb 2 n) with (Z.leb 2 (Zpos n)) by reflexivity.
    run. crunch.
  Qed.

  (* the classes without a domain condition: the body is `pass` *)
  Lemma verify_trivial_tied : forall x y (l : list T),
    call N gen_verify_Add (map VT l) = Val None /\
    call N gen_verify_Multiply (map VT l) = Val None /\
    call N gen_verify_Minus [VT x; VT y] = Val None /\
    call N gen_verify_Negation [VT x] = Val None /\
    call N gen_verify_NthPower [VT x] = Val None /\
    call N gen_verify_Exponential [VT x] = Val None /\
    call N gen_verify_Cosine [VT x] = Val None /\
    call N gen_verify_Sine [VT x] = Val None.
  Proof. intros. repeat split; reflexivity. Qed.
End Tie.
