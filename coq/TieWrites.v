(** Static tie / C10: the effects table. *)
From Coq Require Import List String Bool.
From SM Require Import Generated.
Import ListNotations.
Open Scope string_scope.

(** ** C10: the effects table.  Every write site of the sources is one of:
    - a memo field (cache, flags, memoised symbolic partials), on any receiver;
    - a field of the object under construction, inside __init__;
    - the private dict of an accumulator object, inside its own add_to;
    - a container created in the same function body. *)
Definition memo_fields : list string :=
  [ "_value"; "_is_fully_reduced"; "_evaluation_failed"; "_synthetic_partial" ].

Definition str_in (s : string) (l : list string) : bool := existsb (String.eqb s) l.

Definition write_allowed (w : string * string * string * string * string) : bool :=
  match w with
  | (owner, func, how, kind, field) =>
      (* memo field, plain assignment *)
      (String.eqb how "assign" && str_in field memo_fields)
      (* construction of self *)
      || (String.eqb func "__init__" && String.eqb how "assign" && String.eqb kind "self")
      (* accumulators *)
      || (str_in owner ["NumericPartialsAccumulator"; "SyntheticPartialsAccumulator"]
          && String.eqb func "add_to" && String.eqb kind "self.field")
      (* locally created containers *)
      || String.eqb kind "local_fresh"
  end.

Theorem writes_framed : forallb write_allowed gen_writes = true.
Proof. vm_compute. reflexivity. Qed.

(* every write site, one by one *)
Corollary writes_framed_forall : forall w, In w gen_writes -> write_allowed w = true.
Proof. apply forallb_forall. exact writes_framed. Qed.
