
val negb : bool -> bool

type nat =
| O
| S of nat

val fst : ('a1 * 'a2) -> 'a1

val snd : ('a1 * 'a2) -> 'a2

val length : 'a1 list -> nat

val app : 'a1 list -> 'a1 list -> 'a1 list

type comparison =
| Eq
| Lt
| Gt

val compOpp : comparison -> comparison

val add : nat -> nat -> nat

type positive =
| XI of positive
| XO of positive
| XH

type z =
| Z0
| Zpos of positive
| Zneg of positive

val eqb : bool -> bool -> bool

module Nat :
 sig
  val eqb : nat -> nat -> bool

  val leb : nat -> nat -> bool

  val even : nat -> bool
 end

module Pos :
 sig
  type mask =
  | IsNul
  | IsPos of positive
  | IsNeg
 end

module Coq_Pos :
 sig
  val succ : positive -> positive

  val add : positive -> positive -> positive

  val add_carry : positive -> positive -> positive

  val pred_double : positive -> positive

  val pred : positive -> positive

  type mask = Pos.mask =
  | IsNul
  | IsPos of positive
  | IsNeg

  val succ_double_mask : mask -> mask

  val double_mask : mask -> mask

  val double_pred_mask : positive -> mask

  val sub_mask : positive -> positive -> mask

  val sub_mask_carry : positive -> positive -> mask

  val sub : positive -> positive -> positive

  val mul : positive -> positive -> positive

  val iter : ('a1 -> 'a1) -> 'a1 -> positive -> 'a1

  val size_nat : positive -> nat

  val compare_cont : comparison -> positive -> positive -> comparison

  val compare : positive -> positive -> comparison

  val eqb : positive -> positive -> bool

  val leb : positive -> positive -> bool

  val gcdn : nat -> positive -> positive -> positive

  val gcd : positive -> positive -> positive

  val eq_dec : positive -> positive -> bool
 end

module Z :
 sig
  val double : z -> z

  val succ_double : z -> z

  val pred_double : z -> z

  val pos_sub : positive -> positive -> z

  val add : z -> z -> z

  val opp : z -> z

  val sub : z -> z -> z

  val mul : z -> z -> z

  val pow_pos : z -> positive -> z

  val pow : z -> z -> z

  val compare : z -> z -> comparison

  val leb : z -> z -> bool

  val ltb : z -> z -> bool

  val eqb : z -> z -> bool

  val to_pos : z -> positive

  val pos_div_eucl : positive -> z -> z * z

  val div_eucl : z -> z -> z * z

  val div : z -> z -> z

  val even : z -> bool

  val odd : z -> bool
 end

val in_dec : ('a1 -> 'a1 -> bool) -> 'a1 -> 'a1 list -> bool

val map : ('a1 -> 'a2) -> 'a1 list -> 'a2 list

val flat_map : ('a1 -> 'a2 list) -> 'a1 list -> 'a2 list

val fold_left : ('a1 -> 'a2 -> 'a1) -> 'a2 list -> 'a1 -> 'a1

val fold_right : ('a2 -> 'a1 -> 'a1) -> 'a1 -> 'a2 list -> 'a1

val existsb : ('a1 -> bool) -> 'a1 list -> bool

val forallb : ('a1 -> bool) -> 'a1 list -> bool

val filter : ('a1 -> bool) -> 'a1 list -> 'a1 list

val nodup : ('a1 -> 'a1 -> bool) -> 'a1 list -> 'a1 list

type ascii =
| Ascii of bool * bool * bool * bool * bool * bool * bool * bool

val eqb0 : ascii -> ascii -> bool

type string =
| EmptyString
| String of ascii * string

val eqb1 : string -> string -> bool

type 't numOps = { nofZ : (z -> 't); nfloat : ('t -> 't); n_e : 't;
                   nsum : ('t list -> 't); nadd : ('t -> 't -> 't);
                   nsub : ('t -> 't -> 't); nmul : ('t -> 't -> 't);
                   ndiv : ('t -> 't -> 't); nneg : ('t -> 't);
                   npow : ('t -> 't -> 't); npowi : ('t -> positive -> 't);
                   nsqrt : ('t -> 't); ncbrt : ('t -> 't); nln : ('t -> 't);
                   nsin : ('t -> 't); ncos : ('t -> 't);
                   neqb : ('t -> 't -> bool); nltb : ('t -> 't -> bool);
                   nint : ('t -> z option); nfinite : ('t -> bool) }

val n0 : 'a1 numOps -> 'a1

val n1 : 'a1 numOps -> 'a1

val nm1 : 'a1 numOps -> 'a1

val nleb : 'a1 numOps -> 'a1 -> 'a1 -> bool

type name = positive

val name_eqb : name -> name -> bool

val whatever : name

type 't expr =
| Const of 't
| Var of name
| Add of 't expr list
| Mul of 't expr list
| Minus of 't expr * 't expr
| Divide of 't expr * 't expr
| Power of 't expr * 't expr
| Neg of 't expr
| Recip of 't expr
| Sin of 't expr
| Cos of 't expr
| NthPow of 't expr * positive
| NthRoot of 't expr * positive
| Exp of 't expr * 't
| Log of 't expr * 't

val size : 'a1 expr -> nat

val vars : 'a1 expr -> name list

val var_free : 'a1 expr -> bool

val var_names : 'a1 expr -> name list

val is_Const : 'a1 expr -> bool

val is_Add : 'a1 expr -> bool

val is_Mul : 'a1 expr -> bool

val is_Neg : 'a1 expr -> bool

val is_Recip : 'a1 expr -> bool

val is_NthPow : 'a1 expr -> bool

val is_NthRoot : 'a1 expr -> bool

val is_Exp : 'a1 expr -> bool

val is_Log : 'a1 expr -> bool

val inner_of : 'a1 expr -> 'a1 expr

val wfb : 'a1 numOps -> 'a1 expr -> bool

type pyerr =
| ZeroDivision
| ValueError
| ComplexResult
| TypeError
| KeyError
| OverflowErr

type 'a outcome =
| Val of 'a
| DomErr
| CoordMissing
| PyErr of pyerr

val bind : 'a1 outcome -> ('a1 -> 'a2 outcome) -> 'a2 outcome

val sequence : 'a1 outcome list -> 'a1 list outcome

val prim_div : 'a1 numOps -> 'a1 -> 'a1 -> 'a1 outcome

val prim_pow : 'a1 numOps -> 'a1 -> 'a1 -> 'a1 outcome

val prim_powi : 'a1 numOps -> 'a1 -> positive -> 'a1 outcome

val prim_sqrt : 'a1 numOps -> 'a1 -> 'a1 outcome

val prim_log : 'a1 numOps -> 'a1 -> 'a1 -> 'a1 outcome

val prim_sin : 'a1 numOps -> 'a1 -> 'a1 outcome

val prim_cos : 'a1 numOps -> 'a1 -> 'a1 outcome

val mf_add : 'a1 numOps -> 'a1 list -> 'a1

val mf_minus : 'a1 numOps -> 'a1 -> 'a1 -> 'a1

val mf_negation : 'a1 numOps -> 'a1 -> 'a1

val mul_loop : 'a1 numOps -> 'a1 -> 'a1 list -> 'a1

val mf_multiply : 'a1 numOps -> 'a1 list -> 'a1

val mf_divide : 'a1 numOps -> 'a1 -> 'a1 -> 'a1 outcome

val mf_reciprocal : 'a1 numOps -> 'a1 -> 'a1 outcome

val mf_power : 'a1 numOps -> 'a1 -> 'a1 -> 'a1 outcome

val mf_nth_power : 'a1 numOps -> 'a1 -> positive -> 'a1 outcome

val one_over : 'a1 numOps -> positive -> 'a1

val mf_nth_root : 'a1 numOps -> 'a1 -> positive -> 'a1 outcome

val mf_exponential : 'a1 numOps -> 'a1 -> 'a1 -> 'a1 outcome

val mf_logarithm : 'a1 numOps -> 'a1 -> 'a1 -> 'a1 outcome

val mf_cosine : 'a1 numOps -> 'a1 -> 'a1 outcome

val mf_sine : 'a1 numOps -> 'a1 -> 'a1 outcome

type 't point = (name * 't) list

val lookup : name -> 'a1 point -> 'a1 option

val coordinate : 'a1 point -> name -> 'a1 outcome

val verify_divide : 'a1 numOps -> 'a1 -> 'a1 -> unit outcome

val verify_power : 'a1 numOps -> 'a1 -> 'a1 -> unit outcome

val verify_reciprocal : 'a1 numOps -> 'a1 -> unit outcome

val verify_nth_root : 'a1 numOps -> 'a1 -> positive -> unit outcome

val verify_logarithm : 'a1 numOps -> 'a1 -> unit outcome

val eval : 'a1 numOps -> 'a1 point -> 'a1 expr -> 'a1 outcome

val eval_list : 'a1 numOps -> 'a1 point -> 'a1 expr list -> 'a1 list outcome

val the_single_variable_name : 'a1 expr -> name option

val at_number : 'a1 numOps -> 'a1 expr -> 'a1 -> 'a1 outcome option

val remove_nth : nat -> 'a1 list -> 'a1 list

val mapi_from : nat -> (nat -> 'a1 -> 'a2) -> 'a1 list -> 'a2 list

val mapi : (nat -> 'a1 -> 'a2) -> 'a1 list -> 'a2 list

val unary_formula : 'a1 numOps -> 'a1 point -> 'a1 expr -> 'a1 -> 'a1 outcome

val unary_verify : 'a1 numOps -> 'a1 expr -> 'a1 -> unit outcome

val divide_formula_left :
  'a1 numOps -> 'a1 point -> 'a1 expr -> 'a1 expr -> 'a1 -> 'a1 outcome

val divide_formula_right :
  'a1 numOps -> 'a1 point -> 'a1 expr -> 'a1 expr -> 'a1 -> 'a1 outcome

val power_formula_left :
  'a1 numOps -> 'a1 point -> 'a1 expr -> 'a1 expr -> 'a1 -> 'a1 outcome

val power_formula_right :
  'a1 numOps -> 'a1 point -> 'a1 expr -> 'a1 expr -> 'a1 -> 'a1 outcome

val power_shortcut : 'a1 numOps -> 'a1 point -> 'a1 expr -> bool outcome

val fwd : 'a1 numOps -> name -> 'a1 point -> 'a1 expr -> 'a1 outcome

type 't accum = (name * 't) list

val acc_get : 'a1 numOps -> 'a1 accum -> name -> 'a1

val acc_set : 'a1 accum -> name -> 'a1 -> 'a1 accum

val acc_add : 'a1 numOps -> 'a1 accum -> name -> 'a1 -> 'a1 accum

val rev :
  'a1 numOps -> 'a1 point -> 'a1 expr -> 'a1 -> 'a1 accum -> 'a1 accum outcome

val numeric_partials_for :
  'a1 numOps -> 'a1 accum -> name list -> (name * 'a1) list

val numeric_partials :
  'a1 numOps -> 'a1 point -> 'a1 expr -> name list -> (name * 'a1) list
  outcome

val located_component : 'a1 numOps -> (name * 'a1) list -> name -> 'a1

val synth_unary_formula : 'a1 numOps -> 'a1 expr -> 'a1 expr -> 'a1 expr

val synth_divide_left : 'a1 expr -> 'a1 expr -> 'a1 expr -> 'a1 expr

val synth_divide_right : 'a1 expr -> 'a1 expr -> 'a1 expr -> 'a1 expr

val synth_power_left :
  'a1 numOps -> 'a1 expr -> 'a1 expr -> 'a1 expr -> 'a1 expr

val synth_power_right :
  'a1 numOps -> 'a1 expr -> 'a1 expr -> 'a1 expr -> 'a1 expr

val synth_fwd : 'a1 numOps -> name -> 'a1 expr -> 'a1 expr

type 't saccum = (name * 't expr) list

val slookup : name -> 'a1 saccum -> 'a1 expr option

val sacc_set : 'a1 saccum -> name -> 'a1 expr -> 'a1 saccum

val sacc_add : 'a1 saccum -> name -> 'a1 expr -> 'a1 saccum

val synth_rev : 'a1 numOps -> 'a1 expr -> 'a1 expr -> 'a1 saccum -> 'a1 saccum

val synthetic_partials_for :
  'a1 numOps -> 'a1 saccum -> name list -> (name * 'a1 expr) list

val synthetic_partials :
  'a1 numOps -> 'a1 expr -> name list -> (name * 'a1 expr) list

val partition_by :
  ('a1 expr -> bool) -> 'a1 expr list -> 'a1 expr list * 'a1 expr list

val split_first :
  ('a1 expr -> bool) -> 'a1 expr list -> (('a1 expr list * 'a1 expr) * 'a1
  expr list) option

val group_insert :
  ('a1 -> 'a1 -> bool) -> 'a1 -> 'a2 -> ('a1 * 'a2 list) list -> ('a1 * 'a2
  list) list

val group_by_key :
  ('a1 -> 'a1 -> bool) -> ('a2 -> 'a1) -> 'a2 list -> ('a1 * 'a2 list) list

val is_const_eq : 'a1 numOps -> 'a1 -> 'a1 expr -> bool

val const_values : 'a1 expr list -> 'a1 list

val all_singletons : ('a1 * 'a2 list) list -> bool

val pos_of_nth : 'a1 expr -> positive

val base_of : 'a1 numOps -> 'a1 expr -> 'a1

val reduce_by_flattening_nested_sums : 'a1 expr -> 'a1 expr option

val reduce_sum_by_eliminating_zeros :
  'a1 numOps -> 'a1 expr -> 'a1 expr option

val reduce_sum_by_consolidating_logarithms :
  'a1 numOps -> 'a1 expr -> 'a1 expr option

val reduce_sum_by_consolidating_constants :
  'a1 numOps -> 'a1 expr -> 'a1 expr option

val reduce_minus_to_sum_with_negation : 'a1 expr -> 'a1 expr option

val reduce_negation_of_negation : 'a1 expr -> 'a1 expr option

val reduce_negation_of_sum : 'a1 expr -> 'a1 expr option

val reduce_by_flattening_nested_products : 'a1 expr -> 'a1 expr option

val reduce_product_when_multiplying_by_zero :
  'a1 numOps -> 'a1 expr -> 'a1 expr option

val reduce_product_by_eliminating_ones :
  'a1 numOps -> 'a1 expr -> 'a1 expr option

val reduce_product_by_eliminating_negations :
  'a1 numOps -> 'a1 expr -> 'a1 expr option

val reduce_product_by_consolidating_nth_powers : 'a1 expr -> 'a1 expr option

val reduce_product_by_consolidating_nth_roots : 'a1 expr -> 'a1 expr option

val reduce_product_by_consolidating_exponentials :
  'a1 numOps -> 'a1 expr -> 'a1 expr option

val reduce_product_by_consolidating_constants :
  'a1 numOps -> 'a1 expr -> 'a1 expr option

val reduce_divide_to_multiplying_with_reciprocal : 'a1 expr -> 'a1 expr option

val reduce_reciprocal_of_reciprocal : 'a1 expr -> 'a1 expr option

val reduce_reciprocal_of_negation : 'a1 expr -> 'a1 expr option

val reduce_reciprocal_of_product : 'a1 expr -> 'a1 expr option

val reduce_u_to_the_one : 'a1 numOps -> 'a1 expr -> 'a1 expr option

val reduce_u_to_the_zero : 'a1 numOps -> 'a1 expr -> 'a1 expr option

val reduce_one_to_the_u : 'a1 numOps -> 'a1 expr -> 'a1 expr option

val reduce_u_to_the_n_at_least_two : 'a1 numOps -> 'a1 expr -> 'a1 expr option

val reduce_u_to_the_negative_one : 'a1 numOps -> 'a1 expr -> 'a1 expr option

val reduce_power_with_constant_base :
  'a1 numOps -> 'a1 expr -> 'a1 expr option

val reduce_power_of_power : 'a1 expr -> 'a1 expr option

val reduce_u_to_the_negation_of_v : 'a1 expr -> 'a1 expr option

val reduce_reciprocal_u__to_the_v : 'a1 expr -> 'a1 expr option

val reduce_nth_power_where_n_is_one : 'a1 expr -> 'a1 expr option

val reduce_nth_power_of_mth_root : 'a1 expr -> 'a1 expr option

val reduce_nth_power_of_mth_power : 'a1 expr -> 'a1 expr option

val reduce_nth_power_of_negation : 'a1 expr -> 'a1 expr option

val reduce_nth_power_of_reciprocal : 'a1 expr -> 'a1 expr option

val reduce_nth_power_of_exponential :
  'a1 numOps -> 'a1 expr -> 'a1 expr option

val reduce_nth_root_where_n_is_one : 'a1 expr -> 'a1 expr option

val reduce_nth_root_of_mth_power : 'a1 expr -> 'a1 expr option

val reduce_nth_root_of_mth_root : 'a1 expr -> 'a1 expr option

val reduce_odd_nth_root_of_negation : 'a1 expr -> 'a1 expr option

val reduce_nth_root_of_reciprocal : 'a1 expr -> 'a1 expr option

val reduce_exponential_of_logarithm :
  'a1 numOps -> 'a1 expr -> 'a1 expr option

val reduce_exponential_of_negation : 'a1 expr -> 'a1 expr option

val reduce_logarithm_of_exponential :
  'a1 numOps -> 'a1 expr -> 'a1 expr option

val reduce_logarithm_of_reciprocal : 'a1 expr -> 'a1 expr option

val reduce_logarithm_of_nth_power : 'a1 numOps -> 'a1 expr -> 'a1 expr option

val reduce_cosine_of_negation : 'a1 expr -> 'a1 expr option

val reduce_sine_of_negation : 'a1 expr -> 'a1 expr option

type 't rule = string * ('t expr -> 't expr option)

val reducers_Add : 'a1 numOps -> 'a1 rule list

val reducers_Minus : 'a1 rule list

val reducers_Negation : 'a1 rule list

val reducers_Multiply : 'a1 numOps -> 'a1 rule list

val reducers_Divide : 'a1 rule list

val reducers_Reciprocal : 'a1 rule list

val reducers_Power : 'a1 numOps -> 'a1 rule list

val reducers_NthPower : 'a1 numOps -> 'a1 rule list

val reducers_NthRoot : 'a1 rule list

val reducers_Exponential : 'a1 numOps -> 'a1 rule list

val reducers_Logarithm : 'a1 numOps -> 'a1 rule list

val reducers_Cosine : 'a1 rule list

val reducers_Sine : 'a1 rule list

val reducers_of : 'a1 numOps -> 'a1 expr -> 'a1 rule list

val first_reducer : 'a1 rule list -> 'a1 expr -> (string * 'a1 expr) option

val apply_reducers : 'a1 numOps -> 'a1 expr -> (string * 'a1 expr) option

val all_rules : 'a1 numOps -> 'a1 rule list

type 't label =
| LConsolidate of 't expr
| LRule of string * 't expr

val consolidate : 'a1 numOps -> 'a1 expr -> 'a1 expr option

val rules_at : 'a1 numOps -> 'a1 expr -> ('a1 label * 'a1 expr) option

val step_named : 'a1 numOps -> 'a1 expr -> ('a1 label * 'a1 expr) option

val step : 'a1 numOps -> 'a1 expr -> 'a1 expr option

val fully_reduce : 'a1 numOps -> nat -> 'a1 expr -> 'a1 expr

val reduce_trace : 'a1 numOps -> nat -> 'a1 expr -> 'a1 label list

val bad_label : 'a1 label -> bool

val omapM : ('a1 -> 'a2 option) -> 'a1 list -> 'a2 list option

val simplified_add : 'a1 numOps -> 'a1 expr list -> 'a1 expr

val simplified_multiply : 'a1 numOps -> 'a1 expr list -> 'a1 expr

val assemble_add : 'a1 numOps -> 'a1 expr list -> 'a1 expr list -> 'a1 expr

val assemble_multiply :
  'a1 numOps -> 'a1 expr list -> 'a1 expr list -> 'a1 expr

val opt_map1 : ('a1 expr -> 'a1 expr) -> 'a1 expr option -> 'a1 expr option

val opt_map2 :
  ('a1 expr -> 'a1 expr -> 'a1 expr) -> 'a1 expr option -> 'a1 expr option ->
  'a1 expr option

val nfr : 'a1 numOps -> nat -> nat -> 'a1 expr -> 'a1 expr option

val normalize : 'a1 numOps -> nat -> nat -> 'a1 expr -> 'a1 expr option

val partial_as_expression :
  'a1 numOps -> nat -> nat -> 'a1 expr -> name -> 'a1 expr option

val partial_at_late :
  'a1 numOps -> 'a1 expr -> name -> 'a1 point -> 'a1 outcome

val at_via : 'a1 numOps -> 'a1 expr -> 'a1 expr -> 'a1 point -> 'a1 outcome

val partial_at_early :
  'a1 numOps -> nat -> nat -> 'a1 expr -> name -> 'a1 point -> 'a1 outcome
  option

val derivative_variable : 'a1 expr -> name option

val derivative_at_late :
  'a1 numOps -> 'a1 expr -> 'a1 point -> 'a1 outcome option

val derivative_at_number_late :
  'a1 numOps -> 'a1 expr -> 'a1 -> 'a1 outcome option

val differential_early_partials :
  'a1 numOps -> nat -> nat -> 'a1 expr -> name list -> (name * 'a1 expr) list
  option

val differential_early_component_expr :
  'a1 numOps -> nat -> nat -> 'a1 expr -> name list -> name -> 'a1 expr option

val differential_early_component_at :
  'a1 numOps -> nat -> nat -> 'a1 expr -> name list -> name -> 'a1 point ->
  'a1 outcome option

val differential_at_late :
  'a1 numOps -> 'a1 expr -> name list -> 'a1 point -> (name * 'a1) list
  outcome

val located_differential :
  'a1 numOps -> 'a1 expr -> name list -> 'a1 point -> (name * 'a1) list
  outcome

val differential_at_early :
  'a1 numOps -> nat -> nat -> 'a1 expr -> name list -> 'a1 point ->
  (name * 'a1) list outcome option

val component_of :
  'a1 numOps -> (name * 'a1) list outcome -> name -> 'a1 outcome

type 'f floatOps = { f_add : ('f -> 'f -> 'f); f_sub : ('f -> 'f -> 'f);
                     f_mul : ('f -> 'f -> 'f); f_div : ('f -> 'f -> 'f);
                     f_pow : ('f -> 'f -> 'f); f_neg : ('f -> 'f);
                     f_abs : ('f -> 'f); f_sqrt : ('f -> 'f);
                     f_cbrt : ('f -> 'f); f_log : ('f -> 'f);
                     f_sin : ('f -> 'f); f_cos : ('f -> 'f);
                     f_ofZ : (z -> 'f); f_eqb : ('f -> 'f -> bool);
                     f_ltb : ('f -> 'f -> bool); f_is_integer : ('f -> bool);
                     f_floorZ : ('f -> z); f_ceilZ : ('f -> z);
                     f_is_finite : ('f -> bool); f_e : 'f }

type 'f pynum =
| PInt of z
| PFloat of 'f

val to_f : 'a1 floatOps -> 'a1 pynum -> 'a1

val py_float : 'a1 floatOps -> 'a1 pynum -> 'a1 pynum

val py_add : 'a1 floatOps -> 'a1 pynum -> 'a1 pynum -> 'a1 pynum

val py_sub : 'a1 floatOps -> 'a1 pynum -> 'a1 pynum -> 'a1 pynum

val py_mul : 'a1 floatOps -> 'a1 pynum -> 'a1 pynum -> 'a1 pynum

val py_div : 'a1 floatOps -> 'a1 pynum -> 'a1 pynum -> 'a1 pynum

val py_neg : 'a1 floatOps -> 'a1 pynum -> 'a1 pynum

val float_pow : 'a1 floatOps -> 'a1 -> 'a1 -> 'a1

val py_pow : 'a1 floatOps -> 'a1 pynum -> 'a1 pynum -> 'a1 pynum

val py_eqb : 'a1 floatOps -> 'a1 pynum -> 'a1 pynum -> bool

val py_ltb : 'a1 floatOps -> 'a1 pynum -> 'a1 pynum -> bool

val py_int : 'a1 floatOps -> 'a1 pynum -> z option

val py_finite : 'a1 floatOps -> 'a1 pynum -> bool

val f_geb : 'a1 floatOps -> 'a1 -> 'a1 -> bool

val sum_float : 'a1 floatOps -> 'a1 -> 'a1 -> 'a1 pynum list -> 'a1

val sum_int : 'a1 floatOps -> z -> 'a1 pynum list -> 'a1 pynum

val py_sum : 'a1 floatOps -> 'a1 pynum list -> 'a1 pynum

val pyNumInst : 'a1 floatOps -> 'a1 pynum numOps
