(** * OrchAst: a deep embedding of the Python subset in which the numeric differentiation
    traversals are written (_numeric_partial and _compute_numeric_partials of every class and base
    class), with an interpreter over the model.

    harness/tie_extract.py translates the CURRENT source of those methods (GeneratedOrch.v);
    TieOrch.v proves that each translated body computes one unfolding of the model's [fwd] /
    [rev] (Forward.v, Reverse.v), for every number interface, variable, point, multiplier and
    accumulator.  Calls on sub-expressions are given the model's meaning: [t._evaluate(point)] is
    [eval p t] (the memo field is the business of Stateful.v / C09), [t._numeric_partial(...)] is
    [fwd v p t], [t._compute_numeric_partials(acc, m, point)] is [rev p t m acc]; the node's own
    [_verify_domain_constraints] and [_numeric_partial_formula*] are the model functions that
    TieMath.v / TieFormulas.v tie to their own source.  What is checked here is the orchestration:
    which children are evaluated, in which order, before or after which domain check, which
    shortcut is taken when, what is added to the accumulator. *)
From Coq Require Import ZArith List Bool String Ascii.
From SM Require Import Num Syntax Outcome MathFun Eval Forward Reverse.
Import ListNotations.
Open Scope string_scope.
Open Scope list_scope.

Inductive ox : Type :=
| OSelf
| OName (x : string)
| OInt (z : Z)
| OAttr (t : ox) (f : string)                (* t._inner t._left t._right t._inners *)
| ONoVars (t : ox)                           (* not t._variable_names *)
| OEvaluate (t : ox)                         (* t._evaluate(point) *)
| OPartial (t : ox)                          (* t._numeric_partial(variable_name, point) *)
| OFormula (which : string) (m : ox)         (* self._numeric_partial_formula<which>(point, m) *)
| OMf (f : string) (args : list (string * ox))   (* mf.f(args); kind "*" = starred *)
| OPlus (a b : ox)                           (* a + b *)
| OCmpEq (a b : ox)                          (* a == b *)
| ONameIs                                    (* self.name == variable_name *)
| OCoord                                     (* point.coordinate(self.name) *)
| OAnd (a b : ox)
| OComp (body : ox) (x : string) (iter : ox)
| OCompEnum (body : ox) (i x : string) (iter : ox)
| OWithout (t i : ox).                       (* util.list_without_entry_at(t, i) *)

Inductive ostmt : Type :=
| OSExpr (t : ox)                            (* an expression statement, e.g. self._evaluate(point) *)
| OSVerify (args : list (string * ox))       (* self._verify_domain_constraints(args) *)
| OSAssign (x : string) (t : ox)
| OSReturn (t : ox)
| OSIf (c : ox) (th el : list ostmt)
| OSPass
| OSFor (x : string) (iter : ox) (body : list ostmt)
| OSForEnum (i x : string) (iter : ox) (body : list ostmt)
| OSRev (t m : ox)                           (* t._compute_numeric_partials(accumulator, m, point) *)
| OSAddTo (m : ox).                          (* accumulator.add_to(self, m) *)

Record ofun : Type := mkOFun { o_params : list string; o_body : list ostmt }.

Section Interp.
  Context {T : Type} (N : NumOps T).
  Notation E := (expr T).
  Variable v : name.          (* variable_name *)
  Variable p : point T.       (* point *)

  Inductive oval : Type :=
  | OVN (x : T)
  | OVZ (z : Z)
  | OVB (b : bool)
  | OVE (e : E)
  | OVL (l : list oval).

  Definition oenv := list (string * oval).

  Fixpoint olook (x : string) (r : oenv) : option oval :=
    match r with
    | [] => None
    | (y, w) :: r' => if String.eqb x y then Some w else olook x r'
    end.

  Definition stuck {A} : outcome A := PyErr TypeError.

  Definition onum (w : oval) : outcome T :=
    match w with OVN x => Val x | OVZ z => Val (nofZ N z) | _ => stuck end.

  Fixpoint onums (l : list oval) : outcome (list T) :=
    match l with
    | [] => Val []
    | w :: r => x <- onum w ;; xs <- onums r ;; Val (x :: xs)
    end.

  Definition oattr (w : oval) (f : string) : outcome oval :=
    match w with
    | OVE e =>
        if String.eqb f "_inner" then
          match e with
          | Neg a | Recip a | Sin a | Cos a | NthPow a _ | NthRoot a _ | Exp a _ | Log a _ => Val (OVE a)
          | _ => stuck
          end
        else if String.eqb f "_left" then
          match e with Minus a _ | Divide a _ | Power a _ => Val (OVE a) | _ => stuck end
        else if String.eqb f "_right" then
          match e with Minus _ b | Divide _ b | Power _ b => Val (OVE b) | _ => stuck end
        else if String.eqb f "_inners" then
          match e with Add l | Mul l => Val (OVL (map OVE l)) | _ => stuck end
        else stuck
    | _ => stuck
    end.

  (** mf.f on numbers *)
  Definition omf (f : string) (xs : list T) : outcome T :=
    if String.eqb f "add" then Val (mf_add N xs)
    else if String.eqb f "multiply" then Val (mf_multiply N xs)
    else
      match xs with
      | [x] =>
          if String.eqb f "negation" then Val (mf_negation N x) else stuck
      | [x; y] =>
          if String.eqb f "minus" then Val (mf_minus N x y)
          else if String.eqb f "divide" then mf_divide N x y
          else stuck
      | _ => stuck
      end.

  (** self._numeric_partial_formula<which>(point, m) *)
  Definition oformula (self : E) (which : string) (m : T) : outcome T :=
    match self with
    | Divide a b =>
        if String.eqb which "_left" then divide_formula_left N p a b m
        else if String.eqb which "_right" then divide_formula_right N p a b m
        else stuck
    | Power a b =>
        if String.eqb which "_left" then power_formula_left N p a b m
        else if String.eqb which "_right" then power_formula_right N p a b m
        else stuck
    | Neg _ | Recip _ | Sin _ | Cos _ | NthPow _ _ | NthRoot _ _ | Exp _ _ | Log _ _ =>
        if String.eqb which "" then unary_formula N p self m else stuck
    | _ => stuck
    end.

  (** self._verify_domain_constraints(args) *)
  Definition overify (self : E) (args : list T) : outcome unit :=
    match self, args with
    | Divide _ _, [l; r] => verify_divide N l r
    | Power _ _, [l; r] => verify_power N l r
    | Minus _ _, [_; _] => Val tt
    | (Neg _ | Recip _ | Sin _ | Cos _ | NthPow _ _ | NthRoot _ _ | Exp _ _ | Log _ _), [iv] =>
        unary_verify N self iv
    | (Add _ | Mul _), _ => Val tt
    | _, _ => stuck
    end.

  Fixpoint owithout (i : nat) (l : list oval) : list oval :=
    match l with
    | [] => []
    | x :: r => match i with O => r | S j => x :: owithout j r end
    end.

  Section Loops.
    Fixpoint ocomp_loop (f : oval -> outcome oval) (l : list oval) : outcome (list oval) :=
      match l with
      | [] => Val []
      | it :: rest => w <- f it ;; ws <- ocomp_loop f rest ;; Val (w :: ws)
      end.

    Fixpoint oenum_loop (f : nat -> oval -> outcome oval) (n : nat) (l : list oval) : outcome (list oval) :=
      match l with
      | [] => Val []
      | it :: rest => w <- f n it ;; ws <- oenum_loop f (S n) rest ;; Val (w :: ws)
      end.
  End Loops.

  Fixpoint oev (r : oenv) (t : ox) {struct t} : outcome oval :=
    let oevargs :=
      fix oevargs (l : list (string * ox)) : outcome (list oval) :=
        match l with
        | [] => Val []
        | (k, a) :: rest =>
            w <- oev r a ;;
            ws <- oevargs rest ;;
            if String.eqb k "*" then
              match w with OVL items => Val (items ++ ws) | _ => stuck end
            else Val (w :: ws)
        end in
    match t with
    | OSelf => match olook "self" r with Some w => Val w | None => stuck end
    | OName x => match olook x r with Some w => Val w | None => stuck end
    | OInt z => Val (OVZ z)
    | OAttr a f => w <- oev r a ;; oattr w f
    | ONoVars a =>
        w <- oev r a ;;
        match w with OVE e => Val (OVB (var_free e)) | _ => stuck end
    | OEvaluate a =>
        w <- oev r a ;;
        match w with OVE e => x <- eval N p e ;; Val (OVN x) | _ => stuck end
    | OPartial a =>
        w <- oev r a ;;
        match w with OVE e => x <- fwd N v p e ;; Val (OVN x) | _ => stuck end
    | OFormula which m =>
        w <- oev r m ;; x <- onum w ;;
        match olook "self" r with
        | Some (OVE self) => y <- oformula self which x ;; Val (OVN y)
        | _ => stuck
        end
    | OMf f args => ws <- oevargs args ;; xs <- onums ws ;; y <- omf f xs ;; Val (OVN y)
    | OPlus a b =>
        x <- oev r a ;; y <- oev r b ;;
        x' <- onum x ;; y' <- onum y ;; Val (OVN (nadd N x' y'))
    | OCmpEq a b =>
        x <- oev r a ;; y <- oev r b ;;
        x' <- onum x ;; y' <- onum y ;; Val (OVB (neqb N x' y'))
    | ONameIs =>
        match olook "self" r with
        | Some (OVE (Var x)) => Val (OVB (name_eqb x v))
        | _ => stuck
        end
    | OCoord =>
        match olook "self" r with
        | Some (OVE (Var x)) => c <- coordinate p x ;; Val (OVN c)
        | _ => stuck
        end
    | OAnd a b =>
        x <- oev r a ;;
        match x with
        | OVB true => y <- oev r b ;; match y with OVB c => Val (OVB c) | _ => stuck end
        | OVB false => Val (OVB false)
        | _ => stuck
        end
    | OComp body x iter =>
        w <- oev r iter ;;
        match w with
        | OVL items => ws <- ocomp_loop (fun it => oev ((x, it) :: r) body) items ;; Val (OVL ws)
        | _ => stuck
        end
    | OCompEnum body i x iter =>
        w <- oev r iter ;;
        match w with
        | OVL items =>
            ws <- oenum_loop (fun n it => oev ((x, it) :: (i, OVZ (Z.of_nat n)) :: r) body) O items ;;
            Val (OVL ws)
        | _ => stuck
        end
    | OWithout a i =>
        w <- oev r a ;; wi <- oev r i ;;
        match w, wi with
        | OVL l, OVZ z => if Z.leb 0 z then Val (OVL (owithout (Z.to_nat z) l)) else stuck
        | _, _ => stuck
        end
    end.

  (** statements thread the environment and the accumulator; [inr w] = returned w *)
  Definition ostate := (oenv * accum (T:=T))%type.
  Definition oflow := (ostate + oval)%type.

  Section StmtLoops.
    Fixpoint ofor_loop (run_body : ostate -> nat -> oval -> outcome oflow) (n : nat) (st : ostate)
             (items : list oval) : outcome oflow :=
      match items with
      | [] => Val (inl st)
      | it :: rest =>
          f <- run_body st n it ;;
          match f with
          | inl st' => ofor_loop run_body (S n) st' rest
          | inr w => Val (inr w)
          end
      end.
  End StmtLoops.

  Fixpoint oexec (st : ostate) (s : ostmt) {struct s} : outcome oflow :=
    let block :=
      fix block (st : ostate) (l : list ostmt) {struct l} : outcome oflow :=
        match l with
        | [] => Val (inl st)
        | s :: rest =>
            f <- oexec st s ;;
            match f with
            | inl st' => block st' rest
            | inr w => Val (inr w)
            end
        end in
    let (r, acc) := st in
    match s with
    | OSExpr t => _ <- oev r t ;; Val (inl st)
    | OSVerify args =>
        ws <- (fix go (l : list (string * ox)) : outcome (list oval) :=
                 match l with
                 | [] => Val []
                 | (k, a) :: rest =>
                     w <- oev r a ;; ws <- go rest ;;
                     if String.eqb k "*" then
                       match w with OVL items => Val (items ++ ws) | _ => stuck end
                     else Val (w :: ws)
                 end) args ;;
        xs <- onums ws ;;
        match olook "self" r with
        | Some (OVE self) => _ <- overify self xs ;; Val (inl st)
        | _ => stuck
        end
    | OSAssign x t => w <- oev r t ;; Val (inl ((x, w) :: r, acc))
    | OSReturn t => w <- oev r t ;; Val (inr w)
    | OSIf c th el =>
        w <- oev r c ;;
        match w with
        | OVB true => block st th
        | OVB false => block st el
        | _ => stuck
        end
    | OSPass => Val (inl st)
    | OSFor x iter body =>
        w <- oev r iter ;;
        match w with
        | OVL items =>
            ofor_loop (fun st' _ it => block ((x, it) :: fst st', snd st') body) O st items
        | _ => stuck
        end
    | OSForEnum i x iter body =>
        w <- oev r iter ;;
        match w with
        | OVL items =>
            ofor_loop (fun st' n it => block ((x, it) :: (i, OVZ (Z.of_nat n)) :: fst st', snd st') body)
                      O st items
        | _ => stuck
        end
    | OSRev t m =>
        w <- oev r t ;; wm <- oev r m ;; x <- onum wm ;;
        match w with
        | OVE e => acc' <- rev N p e x acc ;; Val (inl (r, acc'))
        | _ => stuck
        end
    | OSAddTo m =>
        wm <- oev r m ;; x <- onum wm ;;
        match olook "self" r with
        | Some (OVE (Var y)) => Val (inl (r, acc_add N acc y x))
        | _ => stuck
        end
    end.

  Fixpoint oexec_block (st : ostate) (l : list ostmt) : outcome oflow :=
    match l with
    | [] => Val (inl st)
    | s :: rest =>
        f <- oexec st s ;;
        match f with
        | inl st' => oexec_block st' rest
        | inr w => Val (inr w)
        end
    end.

  (** _numeric_partial: the returned number *)
  Definition ocall_fwd (f : ofun) (self : E) : outcome T :=
    fl <- oexec_block ([("self", OVE self)], []) (o_body f) ;;
    match fl with
    | inr w => onum w
    | inl _ => stuck
    end.

  (** _compute_numeric_partials: the accumulator afterwards *)
  Definition ocall_rev (f : ofun) (self : E) (m : T) (acc : accum) : outcome accum :=
    fl <- oexec_block ([("multiplier", OVN m); ("self", OVE self)], acc) (o_body f) ;;
    match fl with
    | inl st => Val (snd st)
    | inr _ => stuck
    end.
End Interp.

Arguments OVN {T} x.
Arguments OVZ {T} z.
Arguments OVB {T} b.
Arguments OVE {T} e.
Arguments OVL {T} l.
