(** * SpecStateful: formal statements of C09 about Stateful.v. *)
From Coq Require Import ZArith List Bool.
From SM Require Import Num Syntax Outcome MathFun Eval Rules Driver Stateful.
Import ListNotations.

(** ** Part A: the evaluation cache *)

(* the cache agrees with pure evaluation at p on every node object of root *)
Definition consistent {T} (N : NumOps T) (s : store (T:=T)) (p : point T) (root : sexpr (T:=T))
  : Prop :=
  forall n i v, In n (snodes root) -> oid_of n = Some i -> sget s i = Some v ->
                eval N p (erase n) = Val v.

(* cached evaluation of any node of a root whose cache is consistent at p answers what pure
   evaluation answers, and keeps the cache consistent *)
Definition C09_eval_s_refines : Prop :=
  forall T (N : NumOps T) (root c : sexpr (T:=T)) (p : point T) (s : store (T:=T)),
    wf_ids root -> In c (snodes root) -> consistent N s p root ->
    snd (eval_s N s p c) = eval N p (erase c) /\ consistent N (fst (eval_s N s p c)) p root.

(* after _reset_evaluation_cache nothing is cached on any node of the root *)
Definition C09_reset_clean : Prop :=
  forall T (root n : sexpr (T:=T)) (i : oid) (s : store (T:=T)),
    In n (snodes root) -> oid_of n = Some i -> sget (reset_s s root) i = None.

(* any history of numeric API calls, from any initial cache contents, over expressions that
   share objects arbitrarily: every call answers what never-used copies answer *)
Definition C09_history_independent : Prop :=
  forall T (N : NumOps T) (h : list (call (T:=T))) (s0 : store (T:=T)),
    Forall call_ok h -> snd (run_history N s0 h) = map (pure_call N) h.

(* without the reset the statement is false: a stale value from another point is returned *)
Definition C09_no_reset_refuted : Prop :=
  exists (e : sexpr (T:=Z)) (p q : point Z) (N : NumOps Z),
    let s1 := fst (eval_s N [] p e) in
    snd (eval_s N s1 q e) <> eval N q (erase e).

(** ** Part B: the simplifier's flags *)
Fixpoint iter_step_g {T} (N : NumOps T) (k : nat) (e : expr T) : option (expr T) :=
  match k with
  | O => Some e
  | S j => match step N e with Some e' => iter_step_g N j e' | None => None end
  end.

(* one Python-level step under a truthful table: the table stays truthful and the form either
   does not change (a marking step) or makes exactly the pure model's step *)
Definition C09_flags_step : Prop :=
  forall T (N : NumOps T) (E_eqb : expr T -> expr T -> bool),
    (forall a b, E_eqb a b = true <-> a = b) ->
    forall (f f' : flags (T:=T)) (e e' : expr T),
      truthful N f -> take_step_f N E_eqb f e = (f', e') ->
      truthful N f' /\ (e' = e \/ step N e = Some e').

(* _fully_reduce under any truthful table and any budget returns a form of the pure rewrite
   sequence, with a truthful table *)
Definition C09_flags_fully_reduce : Prop :=
  forall T (N : NumOps T) (E_eqb : expr T -> expr T -> bool),
    (forall a b, E_eqb a b = true <-> a = b) ->
    forall (budget : nat) (f f' : flags (T:=T)) (e e' : expr T),
      truthful N f -> fully_reduce_f N E_eqb budget f e = (f', e') ->
      truthful N f' /\ exists k, iter_step_g N k e = Some e'.

(* history independence of simplification: whatever (truthful) flags earlier operations left
   behind, when the budget suffices (the result is flagged) the result is the same *)
Definition C09_flags_history_independent : Prop :=
  forall T (N : NumOps T) (E_eqb : expr T -> expr T -> bool),
    (forall a b, E_eqb a b = true <-> a = b) ->
    forall (b1 b2 : nat) (f1 f2 f1' f2' : flags (T:=T)) (e e1 e2 : expr T),
      truthful N f1 -> truthful N f2 ->
      fully_reduce_f N E_eqb b1 f1 e = (f1', e1) -> reduced f1' e1 = true ->
      fully_reduce_f N E_eqb b2 f2 e = (f2', e2) -> reduced f2' e2 = true ->
      e1 = e2.
