(** * CtorAst: a deep embedding of the Python subset in which construction-time validation and the
    operator overloads are written (the __init__ methods of every expression class, the dunder
    operators of Expression, and the number helpers of utilities.py), with an interpreter over the
    constructor model of Objects.v ([pyarg], [result], [mk_*], [op_*]).

    harness/tie_extract.py translates the CURRENT source of those methods (GeneratedCtor.v);
    TieCtor.v proves that each computes the model: which arguments are refused, what is stored.

    The set bookkeeping of the constructors ([variable_names = ...], the base [Expression.__init__],
    [self._value = None]) is not part of this embedding (statement [CSBook]); what it computes is
    covered by TieSets.v (static) and by the C14 / C01 correspondence (dynamic). *)
From Coq Require Import ZArith List Bool String Ascii.
From SM Require Import Num Syntax Outcome Eval Objects.
Import ListNotations.
Open Scope string_scope.
Open Scope list_scope.

Inductive cx : Type :=
| CSelf
| CName (x : string)
| CNone
| CInt (z : Z)
| CMathE
| CIsExpr (t : cx)                      (* isinstance(t, base.Expression) / isinstance(t, Expression) *)
| CIsInt (t : cx)                       (* isinstance(t, int) *)
| CIsFloat (t : cx)                     (* isinstance(t, float) *)
| CFloatIsInteger (t : cx)              (* t.is_integer() *)
| CRound (t : cx)                       (* round(t) *)
| CMod2Is (r : Z) (t : cx)              (* t % 2 == r *)
| CIntegral (t : cx)                    (* util.integer_from_integral_float(t) *)
| CCallIsInteger (t : cx)               (* is_integer(t), inside utilities.py *)
| CIsNone (t : cx)
| CNot (t : cx)
| CAnd (a b : cx)
| COr (a b : cx)
| CCmp (op : string) (a b : cx)         (* <= == on a number / int and an int literal *)
| CNameIllegal (t : cx)                 (* (not name) or (PATTERN.match(name) is None) *)
| CIsStr (t : cx)                       (* isinstance(t, str) *)
| CAttrName (t : cx)                    (* t.name *)
| CMk (cls : string) (args : list cx).  (* ex.Cls(args) in the operators *)

Inductive cstmt : Type :=
| CSRaise                               (* raise ... *)
| CSIf (c : cx) (th el : list cstmt)
| CSAssign (x : string) (t : cx)
| CSSuperInit (args : list cx)          (* super().__init__(args) of a class below UnaryExpression *)
| CSSetField (f : string) (t : cx)      (* self._inner = inner, self.value = value, ... *)
| CSSetInners (t : cx)                  (* self._inners = list(args) *)
| CSForArgs (x : string) (body : list cstmt)   (* for x in args: body *)
| CSBook                                (* set bookkeeping, base-class init, self._value = None *)
| CSReturn (t : cx).

Record cfun : Type := mkCFun { c_params : list string; c_body : list cstmt }.

Section Interp.
  Context {T : Type} (N : NumOps T).
  Notation E := (expr T).
  Notation arg := (pyarg (T:=T)).

  (** the Python-level number tests, abstractly; [nint] is their composition (hypothesis of TieCtor) *)
  Variable is_int : T -> bool.
  Variable is_float : T -> bool.
  Variable float_is_integer : T -> bool.
  Variable round_to_int : T -> Z.

  Inductive cval : Type :=
  | CVArg (a : arg)
  | CVInt (z : Z)           (* an int object produced by the library: round(...), a literal *)
  | CVB (b : bool)
  | CVNone
  | CVArgs (l : list arg).  (* *args *)

  (** outcome of construction-time code *)
  Inductive cres (A : Type) : Type := COk (a : A) | CRaises | CStuck.
  Arguments COk {A} a.
  Arguments CRaises {A}.
  Arguments CStuck {A}.

  Definition cbind {A B} (m : cres A) (f : A -> cres B) : cres B :=
    match m with COk a => f a | CRaises => CRaises | CStuck => CStuck end.

  Definition cenv := list (string * cval).
  Fixpoint clook (x : string) (r : cenv) : option cval :=
    match r with
    | [] => None
    | (y, w) :: r' => if String.eqb x y then Some w else clook x r'
    end.

  Definition of_result {A} (r : result A) : cres A :=
    match r with Ok a => COk a | Raises => CRaises end.

  (** comparison of a number (or a library int) with an int literal; anything else raises TypeError *)
  Definition ccmp (op : string) (a b : cval) : cres bool :=
    match a, b with
    | CVInt x, CVInt y =>
        if String.eqb op "<=" then COk (Z.leb x y)
        else if String.eqb op "==" then COk (Z.eqb x y)
        else CStuck
    | CVArg (ANum x), CVInt y =>
        if String.eqb op "<=" then COk (nleb N x (nofZ N y))
        else if String.eqb op "==" then COk (neqb N x (nofZ N y))
        else CStuck
    | CVArg _, CVInt _ => CRaises          (* str <= int, None <= int, Expression <= int: TypeError *)
    | _, _ => CStuck
    end.

  Definition cmk (cls : string) (args : list cval) : cres cval :=
    match args with
    | [CVArg (AExpr a)] =>
        if String.eqb cls "Negation" then COk (CVArg (AExpr (Neg a))) else CStuck
    | [CVArg (AExpr a); CVArg b] =>
        if String.eqb cls "Add" then cbind (of_result (mk_nary Add [AExpr a; b])) (fun e => COk (CVArg (AExpr e)))
        else if String.eqb cls "Multiply" then cbind (of_result (mk_nary Mul [AExpr a; b])) (fun e => COk (CVArg (AExpr e)))
        else if String.eqb cls "Minus" then cbind (of_result (mk_binary Minus (AExpr a) b)) (fun e => COk (CVArg (AExpr e)))
        else if String.eqb cls "Divide" then cbind (of_result (mk_binary Divide (AExpr a) b)) (fun e => COk (CVArg (AExpr e)))
        else if String.eqb cls "Power" then cbind (of_result (mk_binary Power (AExpr a) b)) (fun e => COk (CVArg (AExpr e)))
        else CStuck
    | [CVArg (AExpr a); CVInt z] =>
        (* NthPower(self, n) with n an int object: integer_from_integral_float(n) = n *)
        if String.eqb cls "NthPower" then
          (if Z.leb z 0 then CRaises else COk (CVArg (AExpr (NthPow a (Z.to_pos z)))))
        else CStuck
    | _ => CStuck
    end.

  Fixpoint cev (r : cenv) (t : cx) {struct t} : cres cval :=
    let cevlist :=
      fix cevlist (l : list cx) : cres (list cval) :=
        match l with
        | [] => COk []
        | a :: rest => cbind (cev r a) (fun w => cbind (cevlist rest) (fun ws => COk (w :: ws)))
        end in
    match t with
    | CSelf => match clook "self" r with Some w => COk w | None => CStuck end
    | CName x => match clook x r with Some w => COk w | None => CStuck end
    | CNone => COk CVNone
    | CInt z => COk (CVInt z)
    | CMathE => COk (CVArg (ANum (n_e N)))
    | CIsExpr a =>
        cbind (cev r a) (fun w => COk (CVB (match w with CVArg (AExpr _) => true | _ => false end)))
    | CIsInt a =>
        cbind (cev r a) (fun w =>
          match w with
          | CVInt _ => COk (CVB true)
          | CVArg (ANum x) => COk (CVB (is_int x))
          | _ => COk (CVB false)
          end)
    | CIsFloat a =>
        cbind (cev r a) (fun w =>
          match w with
          | CVArg (ANum x) => COk (CVB (is_float x))
          | _ => COk (CVB false)
          end)
    | CFloatIsInteger a =>
        cbind (cev r a) (fun w => match w with CVArg (ANum x) => COk (CVB (float_is_integer x)) | _ => CStuck end)
    | CRound a =>
        cbind (cev r a) (fun w => match w with CVArg (ANum x) => COk (CVInt (round_to_int x)) | _ => CStuck end)
    | CMod2Is k a =>
        cbind (cev r a) (fun w => match w with CVInt z => COk (CVB (Z.eqb (z mod 2) k)) | _ => CStuck end)
    | CIntegral a =>
        cbind (cev r a) (fun w =>
          match w with
          | CVArg (ANum x) => COk (match nint N x with Some z => CVInt z | None => CVNone end)
          | CVArg _ => COk CVNone
          | CVInt z => COk (CVInt z)
          | _ => CStuck
          end)
    | CCallIsInteger a =>
        cbind (cev r a) (fun w =>
          match w with
          | CVArg (ANum x) => COk (CVB (is_int x || (is_float x && float_is_integer x)))
          | _ => CStuck
          end)
    | CIsNone a => cbind (cev r a) (fun w => COk (CVB (match w with CVNone => true | _ => false end)))
    | CNot a => cbind (cev r a) (fun w => match w with CVB b => COk (CVB (negb b)) | _ => CStuck end)
    | CAnd a b =>
        cbind (cev r a) (fun w =>
          match w with
          | CVB true => cbind (cev r b) (fun u => match u with CVB c => COk (CVB c) | _ => CStuck end)
          | CVB false => COk (CVB false)
          | _ => CStuck
          end)
    | COr a b =>
        cbind (cev r a) (fun w =>
          match w with
          | CVB true => COk (CVB true)
          | CVB false => cbind (cev r b) (fun u => match u with CVB c => COk (CVB c) | _ => CStuck end)
          | _ => CStuck
          end)
    | CCmp op a b =>
        cbind (cev r a) (fun x => cbind (cev r b) (fun y => cbind (ccmp op x y) (fun c => COk (CVB c))))
    | CNameIllegal a =>
        cbind (cev r a) (fun w =>
          match w with
          | CVArg (AStr legal _) => COk (CVB (negb legal))
          | CVArg _ => CRaises               (* re.match on a non-string: TypeError *)
          | _ => CStuck
          end)
    | CIsStr a =>
        cbind (cev r a) (fun w => COk (CVB (match w with CVArg (AStr _ _) => true | _ => false end)))
    | CAttrName a =>
        cbind (cev r a) (fun w =>
          match w with
          | CVArg (AExpr (Var x)) => COk (CVArg (AStr true x))
          | CVArg _ => CRaises               (* AttributeError *)
          | _ => CStuck
          end)
    | CMk cls args => cbind (cevlist args) (fun ws => cmk cls ws)
    end.

  (** statements: locals and the fields being assigned to self *)
  Definition cfields := list (string * cval).
  Definition cstate := (cenv * cfields)%type.
  Definition cflow := (cstate + cval)%type.

  (** super().__init__(args) below UnaryExpression: the parent's validation and its fields *)
  Definition super_init (cls : string) (args : list cval) (fs : cfields) : cres cfields :=
    if String.eqb cls "ParameterizedUnaryExpression" then
      (* UnaryExpression.__init__(inner) *)
      match args with
      | [CVArg (AExpr a)] => COk (("_inner", CVArg (AExpr a)) :: fs)
      | [CVArg _] => CRaises
      | _ => CStuck
      end
    else
      (* ParameterizedUnaryExpression.__init__(inner, parameter) *)
      match args with
      | [CVArg (AExpr a); w] => COk (("_parameter", w) :: ("_inner", CVArg (AExpr a)) :: fs)
      | [CVArg _; _] => CRaises
      | _ => CStuck
      end.

  Variable owner : string.       (* the class whose method is being run *)

  Section StmtLoops.
    Fixpoint cfor_loop (run_body : cstate -> arg -> cres cflow) (st : cstate) (items : list arg) : cres cflow :=
      match items with
      | [] => COk (inl st)
      | it :: rest =>
          cbind (run_body st it) (fun f =>
            match f with
            | inl st' => cfor_loop run_body st' rest
            | inr w => COk (inr w)
            end)
      end.
  End StmtLoops.

  Fixpoint cexec (st : cstate) (s : cstmt) {struct s} : cres cflow :=
    let block :=
      fix block (st : cstate) (l : list cstmt) {struct l} : cres cflow :=
        match l with
        | [] => COk (inl st)
        | s :: rest =>
            cbind (cexec st s) (fun f =>
              match f with
              | inl st' => block st' rest
              | inr w => COk (inr w)
              end)
        end in
    let (r, fs) := st in
    let cevl :=
      fix cevl (l : list cx) : cres (list cval) :=
        match l with
        | [] => COk []
        | a :: rest => cbind (cev r a) (fun w => cbind (cevl rest) (fun ws => COk (w :: ws)))
        end in
    match s with
    | CSRaise => CRaises
    | CSIf c th el =>
        cbind (cev r c) (fun w =>
          match w with
          | CVB true => block st th
          | CVB false => block st el
          | _ => CStuck
          end)
    | CSAssign x t => cbind (cev r t) (fun w => COk (inl ((x, w) :: r, fs)))
    | CSSuperInit args =>
        cbind (cevl args) (fun ws => cbind (super_init owner ws fs) (fun fs' => COk (inl (r, fs'))))
    | CSSetField f t => cbind (cev r t) (fun w => COk (inl (r, (f, w) :: fs)))
    | CSSetInners t =>
        cbind (cev r t) (fun w => match w with CVArgs l => COk (inl (r, ("_inners", w) :: fs)) | _ => CStuck end)
    | CSForArgs x body =>
        match clook "args" r with
        | Some (CVArgs items) =>
            cfor_loop (fun st' it => block ((x, CVArg it) :: fst st', snd st') body) st items
        | _ => CStuck
        end
    | CSBook => COk (inl st)
    | CSReturn t => cbind (cev r t) (fun w => COk (inr w))
    end.

  Fixpoint cexec_block (st : cstate) (l : list cstmt) : cres cflow :=
    match l with
    | [] => COk (inl st)
    | s :: rest =>
        cbind (cexec st s) (fun f =>
          match f with
          | inl st' => cexec_block st' rest
          | inr w => COk (inr w)
          end)
    end.

  (** running __init__: the fields of the new object, or the constructor raised *)
  Definition cinit (f : cfun) (args : list cval) : cres cfields :=
    if Nat.eqb (List.length (c_params f)) (List.length args) then
      cbind (cexec_block (combine (c_params f) args, []) (c_body f)) (fun fl =>
        match fl with
        | inl st => COk (snd st)
        | inr _ => CStuck
        end)
    else CStuck.

  (** running a function or operator: the returned value *)
  Definition ccall (f : cfun) (self : option cval) (args : list cval) : cres cval :=
    if Nat.eqb (List.length (c_params f)) (List.length args) then
      cbind (cexec_block (match self with Some s => [("self", s)] | None => [] end ++ combine (c_params f) args, [])
                         (c_body f)) (fun fl =>
        match fl with
        | inr w => COk w
        | inl _ => COk CVNone
        end)
    else CStuck.
End Interp.

Arguments CVArg {T} a.
Arguments CVInt {T} z.
Arguments CVB {T} b.
Arguments CVNone {T}.
Arguments CVArgs {T} l.
Arguments COk {A} a.
Arguments CRaises {A}.
Arguments CStuck {A}.
