(** * Driver: model of _consolidate_expression_lacking_variables, _take_reduction_step and
    _fully_reduce, without the memo flags (Layer P).

    [step e = None] means: e is rule-free (the code would only set _is_fully_reduced).
    Python additionally takes "marking" steps that set flags and leave the form unchanged; the
    pure model skips them, so the sequences of *forms* coincide (Stateful.v models the flags). *)
From Coq Require Import ZArith List Bool String.
From SM Require Import Num Syntax Outcome MathFun Eval Rules.
Import ListNotations.
Open Scope string_scope.
Open Scope list_scope.

Section Driver.
  Context {T : Type} (N : NumOps T).
  Notation E := (expr T).

  (** what a form-changing step did: constant folding of [redex], or rule [nm] applied at [redex] *)
  Inductive label : Type :=
  | LConsolidate (redex : E)
  | LRule (nm : string) (redex : E).

  (* _consolidate_expression_lacking_variables *)
  Definition consolidate (e : E) : option E :=
    if var_free e then
      match e with
      | Const _ => None
      | _ => match eval N [] e with
             | Val v => Some (Const v)
             | _ => None
             end
      end
    else None.

  Definition lift1 (f : E -> E) (o : option (label * E)) : option (label * E) :=
    match o with Some (lab, x) => Some (lab, f x) | None => None end.

  Definition rules_at (e : E) : option (label * E) :=
    match apply_reducers N e with
    | Some (nm, e') => Some (LRule nm e, e')
    | None => None
    end.

  Fixpoint step_named (e : E) : option (label * E) :=
    match consolidate e with
    | Some c => Some (LConsolidate e, c)
    | None =>
        let step_list :=
          fix step_list (l : list E) : option (label * list E) :=
            match l with
            | [] => None
            | x :: r =>
                match step_named x with
                | Some (lab, x') => Some (lab, x' :: r)
                | None =>
                    match step_list r with
                    | Some (lab, r') => Some (lab, x :: r')
                    | None => None
                    end
                end
            end in
        let unary (a : E) (rebuild : E -> E) :=
          match step_named a with
          | Some (lab, a') => Some (lab, rebuild a')
          | None => rules_at e
          end in
        let binary (a b : E) (rebuild : E -> E -> E) :=
          match step_named a with
          | Some (lab, a') => Some (lab, rebuild a' b)
          | None =>
              match step_named b with
              | Some (lab, b') => Some (lab, rebuild a b')
              | None => rules_at e
              end
          end in
        match e with
        | Const _ | Var _ => None
        | Add l => match step_list l with
                   | Some (lab, l') => Some (lab, Add l')
                   | None => rules_at e
                   end
        | Mul l => match step_list l with
                   | Some (lab, l') => Some (lab, Mul l')
                   | None => rules_at e
                   end
        | Minus a b => binary a b Minus
        | Divide a b => binary a b Divide
        | Power a b => binary a b Power
        | Neg a => unary a Neg
        | Recip a => unary a Recip
        | Sin a => unary a Sin
        | Cos a => unary a Cos
        | NthPow a n => unary a (fun x => NthPow x n)
        | NthRoot a n => unary a (fun x => NthRoot x n)
        | Exp a b => unary a (fun x => Exp x b)
        | Log a b => unary a (fun x => Log x b)
        end
    end.

  Definition step (e : E) : option E :=
    match step_named e with Some (_, e') => Some e' | None => None end.

  (* _fully_reduce, with the number of form-changing steps bounded by [fuel] *)
  Fixpoint fully_reduce (fuel : nat) (e : E) : E :=
    match fuel with
    | O => e
    | S f => match step e with Some e' => fully_reduce f e' | None => e end
    end.

  (* the labels of the steps fully_reduce takes *)
  Fixpoint reduce_trace (fuel : nat) (e : E) : list label :=
    match fuel with
    | O => []
    | S f => match step_named e with
             | Some (lab, e') => lab :: reduce_trace f e'
             | None => []
             end
    end.

  (** KF-ROOT: NthRoot(NthPower(u, m), n) => NthPower(NthRoot(u, n), m) with n and m both even *)
  Definition bad_label (lab : label) : bool :=
    match lab with
    | LRule nm (NthRoot (NthPow _ m) n) =>
        String.eqb nm "_reduce_nth_root_of_mth_power" && Z.even (Zpos n) && Z.even (Zpos m)
    | _ => false
    end.
End Driver.

Arguments LConsolidate {T} _.
Arguments LRule {T} _ _.
