(** * Spec: the formal statements of the properties, as [Prop]s about the model at [RInst].
    The proofs live in proofs/*.v; Properties/Cnn.v only instantiates these statements.
    Keeping the statements here, apart from the proofs, is what prevents a quiet weakening. *)
From Coq Require Import Reals ZArith List Bool String Permutation.
From Coquelicot Require Import Rcomplements Hierarchy Derive.
From SM Require Import Num Syntax Outcome MathFun Eval Forward Reverse Synth Rules Driver
  Normalize Routes RInst Denote.
Import ListNotations.
Open Scope R_scope.

Notation evalR := (eval RInst).
Notation fwdR := (fwd RInst).
Notation wfR := (wf RInst).

(** the environment of a point; a missing coordinate reads as 0 (never consulted under
    [supplies]) *)
Definition env_of (p : point R) : env :=
  fun x => match lookup x p with Some v => v | None => 0 end.

(** the point has a coordinate for every variable occurring in the expression *)
Definition supplies (p : point R) (e : expr R) : Prop :=
  forall x, In x (vars e) -> lookup x p <> None.

(** [enum] enumerates (at least) the variable-name set of e *)
Definition covers (enum : list name) (e : expr R) : Prop :=
  forall x, In x (vars e) -> In x enum.

(** the true partial derivative of the function denoted by e, w.r.t. v, at rho, is d *)
Definition true_partial (rho : env) (e : expr R) (v : name) (d : R) : Prop :=
  is_derive (fun t : R => denote (upd rho v t) e) (rho v) d.

(** ** C01 *)
Definition C01_eval_sound : Prop :=
  forall (p : point R) (e : expr R),
    wfR e -> supplies p e -> InDomain (env_of p) e ->
    evalR p e = Val (denote (env_of p) e).

Definition C01_at_number : Prop :=
  forall (e : expr R) (x : R),
    (List.length (var_names e) <= 1)%nat ->
    exists v, at_number RInst e x = Some (evalR [(v, x)] e) /\ supplies [(v, x)] e.

(** ** C02 *)
Definition C02_domerr_iff : Prop :=
  forall (p : point R) (e : expr R),
    wfR e -> supplies p e ->
    (evalR p e = DomErr <-> ~ InDomain (env_of p) e).

Definition C02_total : Prop :=
  forall (p : point R) (e : expr R),
    wfR e -> supplies p e ->
    evalR p e = Val (denote (env_of p) e) \/ evalR p e = DomErr.

(** ** C03 *)
Definition C03_fwd_sound : Prop :=
  forall (p : point R) (e : expr R) (v : name),
    wfR e -> supplies p e -> InDomain (env_of p) e ->
    exists d, fwdR v p e = Val d /\ true_partial (env_of p) e v d.

Definition C03_fwd_absent : Prop :=
  forall (p : point R) (e : expr R) (v : name),
    wfR e -> supplies p e -> InDomain (env_of p) e -> ~ In v (vars e) ->
    fwdR v p e = Val 0.

(** ** C04 : the reverse-mode dictionary holds, for every variable at once, the forward value *)
Definition C04_rev_sound : Prop :=
  forall (p : point R) (e : expr R) (enum : list name),
    wfR e -> supplies p e -> InDomain (env_of p) e -> covers enum e ->
    exists ps, numeric_partials RInst p e enum = Val ps /\
      forall v, exists d, fwdR v p e = Val d /\ located_component RInst ps v = d.

(** the accumulator lemma behind it: contributions add up (repeated variables, shared
    sub-expressions) *)
Definition C04_rev_acc : Prop :=
  forall (p : point R) (e : expr R) (m : R) (acc : accum (T:=R)),
    wfR e -> supplies p e -> InDomain (env_of p) e ->
    exists acc', rev RInst p e m acc = Val acc' /\
      forall v, exists d, fwdR v p e = Val d /\
        acc_get RInst acc' v = acc_get RInst acc v + m * d.

(** ** C05 *)
Definition C05_synth_fwd_sound : Prop :=
  forall (rho : env) (e : expr R) (v : name),
    wfR e -> InDomain rho e ->
    let s := synth_fwd RInst v e in
    wfR s /\ incl (vars s) (vars e) /\ InDomain rho s /\ true_partial rho e v (denote rho s).

Definition C05_synth_rev_sound : Prop :=
  forall (rho : env) (e : expr R) (enum : list name) (v : name),
    wfR e -> InDomain rho e -> In v enum ->
    exists s, slookup v (synthetic_partials RInst e enum) = Some s /\
      wfR s /\ incl (vars s) (vars e) /\ InDomain rho s /\ true_partial rho e v (denote rho s).

(** ** C08 *)
(** [e'] is defined wherever [e] is, with the same value; well-formed; no new variables *)
Definition refines (e e' : expr R) : Prop :=
  wfR e ->
  wfR e' /\ incl (vars e') (vars e) /\
  forall rho, InDomain rho e -> InDomain rho e' /\ denote rho e' = denote rho e.

(* every single rule, wherever it is applicable, except the even/even root-of-power instance *)
Definition C08_rules_sound : Prop :=
  forall nm f (e e' : expr R),
    In (nm, f) (all_rules RInst) -> f e = Some e' -> bad_label (LRule nm e) = false ->
    refines e e'.

Definition C08_consolidate_sound : Prop :=
  forall e e' : expr R, consolidate RInst e = Some e' -> refines e e'.

(* one step of the driver at any position *)
Definition C08_step_sound : Prop :=
  forall (e e' : expr R) lab,
    step_named RInst e = Some (lab, e') -> bad_label lab = false -> refines e e'.

(* any number of steps: in particular the partially reduced form returned when the budget
   runs out *)
Definition C08_fully_reduce_sound : Prop :=
  forall (fuel : nat) (e : expr R),
    good_trace (reduce_trace RInst fuel e) = true -> refines e (fully_reduce RInst fuel e).

(* the final normal-form pass on ARBITRARY input *)
Definition C08_nfr_sound : Prop :=
  forall (fuel d : nat) (e e' : expr R),
    nfr RInst fuel d e = Some e' -> good_trace (nfr_trace RInst fuel d e) = true -> refines e e'.

Definition C08_normalize_sound : Prop :=
  forall (fuel d : nat) (e e' : expr R),
    normalize RInst fuel d e = Some e' -> good_trace (normalize_trace RInst fuel d e) = true ->
    refines e e'.

(* KF-ROOT: the even/even instance is unsound (value, and domain) *)
Definition C08_root_of_power_refuted : Prop :=
  exists (e e' : expr R) (rho : env),
    reduce_nth_root_of_mth_power e = Some e' /\ wfR e /\ InDomain rho e /\
    denote rho e' <> denote rho e.
Definition C08_root_of_power_domain_refuted : Prop :=
  exists (e e' : expr R) (rho : env),
    reduce_nth_root_of_mth_power e = Some e' /\ wfR e /\ InDomain rho e /\ ~ InDomain rho e'.

(** ** C05/C06 through as_expression *)
Definition C05_as_expression_sound : Prop :=
  forall (fuel d : nat) (rho : env) (e s : expr R) (v : name),
    wfR e -> InDomain rho e ->
    partial_as_expression RInst fuel d e v = Some s ->
    good_trace (normalize_trace RInst fuel d (synth_fwd RInst v e)) = true ->
    wfR s /\ incl (vars s) (vars e) /\ InDomain rho s /\ true_partial rho e v (denote rho s).

(** ** C07 : numeric derivative queries fail exactly where evaluation fails *)
Definition same_kind {A B} (o1 : outcome A) (o2 : outcome B) : Prop :=
  (is_val o1 = is_val o2) /\ (is_domerr o1 = is_domerr o2).

Definition C07_fwd : Prop :=
  forall (p : point R) (e : expr R) (v : name),
    wfR e -> supplies p e -> same_kind (fwdR v p e) (evalR p e).

Definition C07_rev : Prop :=
  forall (p : point R) (e : expr R) (enum : list name),
    wfR e -> supplies p e -> same_kind (numeric_partials RInst p e enum) (evalR p e).

Definition C07_early : Prop :=
  forall (fuel d : nat) (p : point R) (e s : expr R) (v : name),
    wfR e -> supplies p e ->
    partial_as_expression RInst fuel d e v = Some s ->
    good_trace (normalize_trace RInst fuel d (synth_fwd RInst v e)) = true ->
    same_kind (at_via RInst e s p) (evalR p e).

(** ** C06 : every route returns what Partial(e, v).at(p) (late) returns *)
Definition C06_located : Prop :=
  forall (p : point R) (e : expr R) (enum : list name) (v : name),
    wfR e -> supplies p e -> covers enum e ->
    component_of RInst (located_differential RInst e enum p) v = partial_at_late RInst e v p /\
    component_of RInst (differential_at_late RInst e enum p) v = partial_at_late RInst e v p.

Definition C06_early : Prop :=
  forall (fuel d : nat) (p : point R) (e s : expr R) (v : name),
    wfR e -> supplies p e ->
    partial_as_expression RInst fuel d e v = Some s ->
    good_trace (normalize_trace RInst fuel d (synth_fwd RInst v e)) = true ->
    at_via RInst e s p = partial_at_late RInst e v p.

(** ** C14 *)
Definition C14_no_missing : Prop :=
  forall (p : point R) (e : expr R) (v : name),
    supplies p e ->
    evalR p e <> CoordMissing /\ fwdR v p e <> CoordMissing /\
    (forall m acc, rev RInst p e m acc <> CoordMissing).

Definition C14_missing_not_val : Prop :=
  forall (p : point R) (e : expr R),
    ~ supplies p e -> forall r, evalR p e <> Val r.

Definition C14_number_accepted : Prop :=
  forall (e : expr R) (x : R),
    (at_number RInst e x <> None <-> (List.length (var_names e) <= 1)%nat) /\
    (derivative_variable e <> None <-> (List.length (var_names e) <= 1)%nat).

Definition C14_vars_of_results : Prop :=
  forall (e : expr R) (v : name),
    incl (vars (synth_fwd RInst v e)) (vars e).

(** ** C17 *)
Definition C17_no_pyerr : Prop :=
  forall (p : point R) (e : expr R) (v : name) (k : pyerr),
    wfR e ->
    evalR p e <> PyErr k /\ fwdR v p e <> PyErr k /\
    (forall m acc, rev RInst p e m acc <> PyErr k).

(** ** C18 : independence from the two orders Python leaves open *)
Definition C18_enum_indep : Prop :=
  forall (p : point R) (e : expr R) (enum enum' : list name) (v : name),
    Permutation enum enum' ->
    component_of RInst (located_differential RInst e enum p) v =
    component_of RInst (located_differential RInst e enum' p) v.

Definition C18_point_perm : Prop :=
  forall (p p' : point R) (e : expr R) (v : name),
    NoDup (map fst p) -> Permutation p p' ->
    evalR p e = evalR p' e /\ fwdR v p e = fwdR v p' e /\
    (forall m acc, rev RInst p e m acc = rev RInst p' e m acc).

Definition C18_synth_enum_indep : Prop :=
  forall (e : expr R) (enum enum' : list name) (v : name),
    Permutation enum enum' ->
    slookup v (synthetic_partials RInst e enum) = slookup v (synthetic_partials RInst e enum').

Definition C18_single_name : Prop :=
  forall (e : expr R) (l : list name),
    Permutation l (var_names e) -> (List.length l <= 1)%nat ->
    l = var_names e.

(** ** C11 *)
(* the i-th form of the rewrite sequence starting at e; None once a rule-free form was passed *)
Fixpoint iter_step (i : nat) (e : expr R) : option (expr R) :=
  match i with
  | O => Some e
  | S j => match step RInst e with Some e' => iter_step j e' | None => None end
  end.

(* from every expression the rewrite sequence reaches a rule-free form *)
Definition C11_terminates : Prop :=
  forall e : expr R, exists fuel : nat, step RInst (fully_reduce RInst fuel e) = None.

(* ... without ever revisiting an earlier form *)
Definition C11_no_revisit : Prop :=
  forall (e a b : expr R) (i j : nat),
    (i < j)%nat -> iter_step i e = Some a -> iter_step j e = Some b -> a <> b.

(* [step e = None] really means that no rule applies anywhere and nothing can be folded *)
Fixpoint subterms (e : expr R) : list (expr R) :=
  e :: match e with
       | Const _ | Var _ => []
       | Add l | Mul l => flat_map subterms l
       | Minus a b | Divide a b | Power a b => subterms a ++ subterms b
       | Neg a | Recip a | Sin a | Cos a | NthPow a _ | NthRoot a _ | Exp a _ | Log a _ =>
           subterms a
       end.

Definition C11_rule_free : Prop :=
  forall e : expr R, step RInst e = None ->
    forall s, In s (subterms e) ->
      apply_reducers RInst s = None /\ consolidate RInst s = None.
