(** * Outcome: what a call into the library can produce. *)
From Coq Require Import List.
Import ListNotations.

(** Python exceptions that are not the library's own.  The primitive operations of
    MathFun.v carry their failure preconditions, so "no such error escapes" (C17) has content. *)
Inductive pyerr : Type :=
| ZeroDivision | ValueError | ComplexResult | TypeError | KeyError | OverflowErr.

Inductive outcome (A : Type) : Type :=
| Val (a : A)
| DomErr                (* smoothmath.DomainError        *)
| CoordMissing          (* smoothmath.CoordinateMissing  *)
| PyErr (k : pyerr).    (* any other exception           *)

Arguments Val {A} a.
Arguments DomErr {A}.
Arguments CoordMissing {A}.
Arguments PyErr {A} k.

Definition bind {A B} (o : outcome A) (f : A -> outcome B) : outcome B :=
  match o with
  | Val a => f a
  | DomErr => DomErr
  | CoordMissing => CoordMissing
  | PyErr k => PyErr k
  end.

Notation "x <- o ;; k" := (bind o (fun x => k))
  (at level 61, o at next level, right associativity).

(** Left-to-right evaluation of a list of computations; the first failure wins. *)
Fixpoint sequence {A} (l : list (outcome A)) : outcome (list A) :=
  match l with
  | [] => Val []
  | o :: r => x <- o ;; xs <- sequence r ;; Val (x :: xs)
  end.

Definition is_val {A} (o : outcome A) : bool := match o with Val _ => true | _ => false end.
Definition is_domerr {A} (o : outcome A) : bool := match o with DomErr => true | _ => false end.

Definition omap {A B} (f : A -> B) (o : outcome A) : outcome B :=
  match o with
  | Val a => Val (f a)
  | DomErr => DomErr
  | CoordMissing => CoordMissing
  | PyErr k => PyErr k
  end.
