(** * SpecMore: further statements (added after the first wave; kept apart so that Spec.v stays
    frozen for the files compiled against it). *)
From Coq Require Import Reals ZArith List Bool.
From SM Require Import Num Syntax Outcome Eval Forward Synth RInst Denote Spec.
Import ListNotations.
Open Scope R_scope.

(** C05, second order: the symbolic first partial is again a well-formed expression defined on
    the original's domain, so differentiating it once more gives an expression that is defined
    there and denotes the true partial derivative OF THE FIRST PARTIAL — and the first partial,
    as a function of the point, is the true first partial of the original at EVERY point of the
    domain (C05_synth_fwd_sound is for all rho), so this is the true second-order partial. *)
Definition C05_second_order : Prop :=
  forall (rho : env) (e : expr R) (v w : name),
    wfR e -> InDomain rho e ->
    let s := synth_fwd RInst v e in
    let s2 := synth_fwd RInst w s in
    wfR s2 /\ incl (vars s2) (vars e) /\ InDomain rho s2 /\
    true_partial rho s w (denote rho s2) /\
    (* and s itself is the first partial wherever e is defined *)
    (forall rho', InDomain rho' e -> true_partial rho' e v (denote rho' s)).
