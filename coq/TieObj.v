(** * TieObj: the __eq__, __hash__, __str__, __repr__ and _to_string methods of the CURRENT source
    (GeneratedObj.v, regenerated on every run), interpreted by ObjAst, compute exactly the model's
    equality, hash and printed form (py_eq, py_hash and the show functions of Objects.v) — for every number interface,
    every object of the method's class and EVERY right-hand side of == (any object of the library
    or a foreign one).

    Equality lemmas are under [num_equiv N] (the number comparison is an equivalence; proved for the
    reals, premise of the C12 theorems): the source compares [other.x == self.x] where the model
    recurses as [eqb self.x other.x]. *)
From Coq Require Import ZArith List Bool String Lia.
From SM Require Import Num Syntax Outcome Eval Objects SpecObjects ObjAst GeneratedObj.
From SM.proofs Require Import EqHash.
Import ListNotations.
Open Scope string_scope.
Open Scope list_scope.

Section Tie.
  Context {T : Type} (N : NumOps T).
  Context {H : Type}.
  Variable h_str : string -> H.
  Variable h_name : name -> H.
  Variable h_num : T -> H.
  Variable h_pos : positive -> H.
  Variable h_nat : nat -> H.
  Variable h_tuple : list H -> H.
  Notation E := (expr T).
  Notation obj := (pyobj (T:=T)).
  Hypothesis Hequiv : num_equiv N.

  Definition run (f : qfun) (self : obj) (args : list (qval (T:=T) (H:=H))) : option qval :=
    qcall N h_str h_name h_num h_pos h_nat h_tuple f self args.

  Definition phash := py_hash h_str h_name h_num h_pos h_nat h_tuple.

  Ltac opq := cbn -[eqb point_eqb show show_point hash_expr hash_point sort_coords neqb name_eqb Pos.eqb].

  Lemma neqb_sym : forall x y, neqb N x y = neqb N y x.
  Proof. destruct Hequiv as (_ & Hs & _). exact Hs. Qed.

  (** ** == *)
  Lemma eq_Constant_tied : forall c (o : obj),
    run gen_obj_Constant_eq (OExpr (Const c)) [QVObj o] = Some (QVB (py_eq N (OExpr (Const c)) o)).
  Proof.
    intros c o. unfold run, qcall. destruct o as [e| | | | | |]; opq; try reflexivity.
    destruct e; opq; reflexivity.
  Qed.
  Lemma eq_Variable_tied : forall x (o : obj),
    run gen_obj_Variable_eq (OExpr (Var x)) [QVObj o] = Some (QVB (py_eq N (OExpr (Var x)) o)).
  Proof.
    intros x o. unfold run, qcall. destruct o as [e| | | | | |]; opq; try reflexivity.
    destruct e; opq; reflexivity.
  Qed.

  Lemma eq_Unary_tied : forall (e : E) (o : obj),
    match e with
    | Neg _ | Recip _ | Sin _ | Cos _ =>
        run gen_obj_UnaryExpression_eq (OExpr e) [QVObj o] = Some (QVB (py_eq N (OExpr e) o))
    | _ => True
    end.
  Proof.
    intros e o. destruct e; try exact I; unfold run, qcall;
      (destruct o as [e'| | | | | |]; opq; try reflexivity;
       destruct e'; opq; try reflexivity; cbn [eqb]; rewrite (eqb_sym N Hequiv); reflexivity).
  Qed.

  Lemma eq_Param_tied : forall (e : E) (o : obj),
    match e with
    | NthPow _ _ | NthRoot _ _ | Exp _ _ | Log _ _ =>
        run gen_obj_ParameterizedUnaryExpression_eq (OExpr e) [QVObj o] = Some (QVB (py_eq N (OExpr e) o))
    | _ => True
    end.
  Proof.
    intros e o. destruct e; try exact I; unfold run, qcall;
      (destruct o as [e'| | | | | |]; opq; try reflexivity;
       destruct e'; opq; try reflexivity; cbn [eqb];
       rewrite (eqb_sym N Hequiv);
       match goal with |- context [eqb N ?a ?b] => destruct (eqb N a b) end; reflexivity).
  Qed.

  Lemma eq_Binary_tied : forall (e : E) (o : obj),
    match e with
    | Minus _ _ | Divide _ _ | Power _ _ =>
        run gen_obj_BinaryExpression_eq (OExpr e) [QVObj o] = Some (QVB (py_eq N (OExpr e) o))
    | _ => True
    end.
  Proof.
    intros e o. destruct e; try exact I; unfold run, qcall;
      (destruct o as [e'| | | | | |]; opq; try reflexivity;
       destruct e'; opq; try reflexivity; cbn [eqb];
       rewrite (eqb_sym N Hequiv e'1), (eqb_sym N Hequiv e'2);
       match goal with |- context [eqb N ?a ?b && _] => destruct (eqb N a b) end; reflexivity).
  Qed.
  Notation OE := (fun x : E => @QVObj T H (OExpr x)).

  Lemma zip_any_ne_tied : forall (l l' : list E),
    List.length l' = List.length l ->
    qzip_any_ne N (map OE l') (map OE l) = Some (negb (eqb_list N l l')).
  Proof.
    induction l as [|a l IH]; intros l' Hlen; destruct l' as [|b l']; try discriminate Hlen; [reflexivity|].
    cbn [map qzip_any_ne qeq py_eq]. rewrite eqb_list_cons. rewrite (eqb_sym N Hequiv b a).
    destruct (eqb N a b); cbn [andb negb]; [|reflexivity].
    apply IH. injection Hlen; auto.
  Qed.

  Lemma eqb_list_length : forall (l l' : list E), eqb_list N l l' = true -> List.length l' = List.length l.
  Proof.
    induction l as [|a l IH]; intros l' He; destruct l' as [|b l']; try discriminate He; [reflexivity|].
    rewrite eqb_list_cons in He. apply andb_true_iff in He. cbn [List.length]. f_equal. apply IH. tauto.
  Qed.

  Lemma eq_NAry_tied : forall (e : E) (o : obj),
    match e with
    | Add _ | Mul _ =>
        run gen_obj_NAryExpression_eq (OExpr e) [QVObj o] = Some (QVB (py_eq N (OExpr e) o))
    | _ => True
    end.
  Proof.
    intros e o. destruct e; try exact I; unfold run, qcall;
      (destruct o as [e'| | | | | |]; opq; try reflexivity;
       destruct e' as [| |l'|l'| | | | | | | | | | |]; opq; try reflexivity;
       rewrite !map_length;
       first [rewrite eqb_Add | rewrite eqb_Mul];
       destruct (Nat.eqb (List.length l') (List.length l)) eqn:Hlen; opq;
       [ apply Nat.eqb_eq in Hlen; rewrite (zip_any_ne_tied l l' Hlen);
         destruct (eqb_list N l l'); reflexivity
       | destruct (eqb_list N l l') eqn:He; [|reflexivity];
         apply eqb_list_length in He; apply Nat.eqb_neq in Hlen; contradiction ]).
  Qed.

  Lemma eq_Point_tied : forall p (o : obj),
    run gen_obj_Point_eq (OPoint p) [QVObj o] = Some (QVB (py_eq N (OPoint p) o)).
  Proof. intros p o. unfold run, qcall. destruct o as [e0| | | | | |]; [destruct e0|..]; opq; reflexivity. Qed.

  Lemma eq_Partial_tied : forall e v (o : obj),
    run gen_obj_Partial_eq (OPartial e v) [QVObj o] = Some (QVB (py_eq N (OPartial e v) o)).
  Proof.
    intros e v o. unfold run, qcall. destruct o as [e0| | | | | |]; [destruct e0|..]; opq; try reflexivity.
    destruct (eqb N e e0); reflexivity.
  Qed.

  Lemma eq_Derivative_tied : forall e (o : obj),
    run gen_obj_Derivative_eq (ODerivative e) [QVObj o] = Some (QVB (py_eq N (ODerivative e) o)).
  Proof. intros e o. unfold run, qcall. destruct o as [e0| | | | | |]; [destruct e0|..]; opq; reflexivity. Qed.

  Lemma eq_Differential_tied : forall e (o : obj),
    run gen_obj_Differential_eq (ODifferential e) [QVObj o] = Some (QVB (py_eq N (ODifferential e) o)).
  Proof. intros e o. unfold run, qcall. destruct o as [e0| | | | | |]; [destruct e0|..]; opq; reflexivity. Qed.

  (* the coordinate names of a Point are distinct (they are the keys of a dict) *)
  Definition wf_obj (o : obj) : Prop :=
    match o with
    | OPoint p | OLocated _ p => NoDup (map fst p)
    | _ => True
    end.

  Lemma eq_Located_tied : forall e p (o : obj), NoDup (map fst p) -> wf_obj o ->
    run gen_obj_LocatedDifferential_eq (OLocated e p) [QVObj o] = Some (QVB (py_eq N (OLocated e p) o)).
  Proof.
    intros e p o Hp Ho. unfold run, qcall. destruct o as [e0| | | | | |]; [destruct e0|..]; opq; try reflexivity.
    destruct (eqb N e e0); opq; [|reflexivity].
    rewrite (point_eqb_sym N Hequiv p0 p Ho Hp). reflexivity.
  Qed.
  (** ** hash *)
  Definition hv (o : obj) : option (qval (T:=T) (H:=H)) :=
    match phash o with Some h => Some (QVHash h) | None => None end.

  Ltac hq := unfold run, qcall, hv, phash; cbn -[hash_expr hash_point sort_coords]; try reflexivity.

  Lemma hash_Constant_tied : forall c, run gen_obj_Constant_hash (OExpr (Const c)) [] = hv (OExpr (Const c)).
  Proof. intros. hq. Qed.
  Lemma hash_Variable_tied : forall x, run gen_obj_Variable_hash (OExpr (Var x)) [] = hv (OExpr (Var x)).
  Proof. intros. hq. Qed.

  Lemma hash_Unary_tied : forall e : E,
    match e with
    | Neg _ | Recip _ | Sin _ | Cos _ => run gen_obj_UnaryExpression_hash (OExpr e) [] = hv (OExpr e)
    | _ => True
    end.
  Proof. intros e. destruct e; try exact I; hq. Qed.

  Lemma hash_Param_tied : forall e : E,
    match e with
    | NthPow _ _ | NthRoot _ _ | Exp _ _ | Log _ _ =>
        run gen_obj_ParameterizedUnaryExpression_hash (OExpr e) [] = hv (OExpr e)
    | _ => True
    end.
  Proof. intros e. destruct e; try exact I; hq. Qed.

  Lemma hash_Binary_tied : forall e : E,
    match e with
    | Minus _ _ | Divide _ _ | Power _ _ => run gen_obj_BinaryExpression_hash (OExpr e) [] = hv (OExpr e)
    | _ => True
    end.
  Proof. intros e. destruct e; try exact I; hq. Qed.

  Lemma hash_list_tied : forall l : list E,
    (fix go (l0 : list (qval (T:=T) (H:=H))) : option (list H) :=
       match l0 with
       | [] => Some []
       | x :: r =>
           match qhash h_str h_name h_num h_pos h_nat h_tuple x, go r with
           | Some a, Some b => Some (a :: b)
           | _, _ => None
           end
       end) (map OE l) = Some (map (hash_expr h_str h_name h_num h_pos h_nat h_tuple) l).
  Proof.
    induction l as [|a l IH]; [reflexivity|]. cbn [map]. rewrite IH. reflexivity.
  Qed.

  Lemma hash_NAry_tied : forall e : E,
    match e with
    | Add _ | Mul _ => run gen_obj_NAryExpression_hash (OExpr e) [] = hv (OExpr e)
    | _ => True
    end.
  Proof.
    intros e. destruct e; try exact I; hq; rewrite hash_list_tied, map_length; reflexivity.
  Qed.

  Lemma hash_coords_tied : forall p : point T,
    (fix go (l0 : list (qval (T:=T) (H:=H))) : option (list H) :=
       match l0 with
       | [] => Some []
       | x :: r =>
           match qhash h_str h_name h_num h_pos h_nat h_tuple x, go r with
           | Some a, Some b => Some (a :: b)
           | _, _ => None
           end
       end) (map (fun kv : name * T => QVTup [QVName (fst kv); QVNum (snd kv)]) p)
    = Some (map (fun kv : name * T => h_tuple [h_name (fst kv); h_num (snd kv)]) p).
  Proof.
    induction p as [|a p IH]; [reflexivity|]. cbn [map]. rewrite IH. reflexivity.
  Qed.

  Lemma hash_Point_tied : forall p, run gen_obj_Point_hash (OPoint p) [] = hv (OPoint p).
  Proof. intros p. hq. rewrite hash_coords_tied. reflexivity. Qed.

  Lemma hash_Partial_tied : forall e v, run gen_obj_Partial_hash (OPartial e v) [] = hv (OPartial e v).
  Proof. intros. hq. Qed.
  Lemma hash_Derivative_tied : forall e, run gen_obj_Derivative_hash (ODerivative e) [] = hv (ODerivative e).
  Proof. intros. hq. Qed.
  Lemma hash_Differential_tied : forall e, run gen_obj_Differential_hash (ODifferential e) [] = hv (ODifferential e).
  Proof. intros. hq. Qed.
  Lemma hash_Located_tied : forall e p, run gen_obj_LocatedDifferential_hash (OLocated e p) [] = hv (OLocated e p).
  Proof. intros. hq. Qed.

  (** ** printed forms *)
  Definition sv (o : obj) : option (qval (T:=T) (H:=H)) :=
    match qto_string o with Some ts => Some (QVToks ts) | None => None end.

  Ltac sq := unfold run, qcall, sv; cbn -[show show_point]; try reflexivity.

  Lemma str_Constant_tied : forall c,
    run gen_obj_Constant_str (OExpr (Const c)) [] = sv (OExpr (Const c)) /\
    run gen_obj_Constant_repr (OExpr (Const c)) [] = sv (OExpr (Const c)).
  Proof. intros; split; sq. Qed.

  Lemma str_Variable_tied : forall x,
    run gen_obj_Variable_str (OExpr (Var x)) [] = sv (OExpr (Var x)) /\
    run gen_obj_Variable_repr (OExpr (Var x)) [] = sv (OExpr (Var x)).
  Proof. intros; split; sq. Qed.

  Lemma str_Unary_tied : forall e : E,
    match e with
    | Neg _ | Recip _ | Sin _ | Cos _ =>
        run gen_obj_UnaryExpression_str (OExpr e) [] = sv (OExpr e) /\
        run gen_obj_UnaryExpression_repr (OExpr e) [] = sv (OExpr e)
    | _ => True
    end.
  Proof. intros e. destruct e; try exact I; split; sq; cbn [show]; rewrite <- ?app_assoc, ?app_nil_r; reflexivity. Qed.

  Lemma str_Binary_tied : forall e : E,
    match e with
    | Minus _ _ | Divide _ _ | Power _ _ =>
        run gen_obj_BinaryExpression_str (OExpr e) [] = sv (OExpr e) /\
        run gen_obj_BinaryExpression_repr (OExpr e) [] = sv (OExpr e)
    | _ => True
    end.
  Proof.
    intros e. destruct e; try exact I; split; sq; cbn [show]; rewrite <- ?app_assoc, ?app_nil_r; reflexivity.
  Qed.

  (* ParameterizedUnaryExpression.__str__ / __repr__ return self._to_string(); the four _to_string *)
  Lemma str_Param_tied : forall e : E,
    match e with
    | NthPow _ _ | NthRoot _ _ | Exp _ _ | Log _ _ =>
        run gen_obj_ParameterizedUnaryExpression_str (OExpr e) [] = sv (OExpr e) /\
        run gen_obj_ParameterizedUnaryExpression_repr (OExpr e) [] = sv (OExpr e)
    | _ => True
    end.
  Proof. intros e. destruct e; try exact I; split; sq. Qed.

  Lemma to_string_NthPower_tied : forall a n,
    run gen_obj_NthPower_to_string (OExpr (NthPow a n)) [] = sv (OExpr (NthPow a n)).
  Proof. intros. sq. all: cbn [show]; rewrite <- ?app_assoc, ?app_nil_r; reflexivity. Qed.
  Lemma to_string_NthRoot_tied : forall a n,
    run gen_obj_NthRoot_to_string (OExpr (NthRoot a n)) [] = sv (OExpr (NthRoot a n)).
  Proof. intros. sq. all: cbn [show]; rewrite <- ?app_assoc, ?app_nil_r; reflexivity. Qed.
  Lemma to_string_Exponential_tied : forall a b,
    run gen_obj_Exponential_to_string (OExpr (Exp a b)) [] = sv (OExpr (Exp a b)).
  Proof. intros. sq. all: cbn [show]; rewrite <- ?app_assoc, ?app_nil_r; reflexivity. Qed.
  Lemma to_string_Logarithm_tied : forall a b,
    run gen_obj_Logarithm_to_string (OExpr (Log a b)) [] = sv (OExpr (Log a b)).
  Proof. intros. sq. all: cbn [show]; rewrite <- ?app_assoc, ?app_nil_r; reflexivity. Qed.
  Lemma join_str_tied : forall l : list E,
    (fix go (l0 : list (qval (T:=T) (H:=H))) : option (list (list (token T))) :=
       match l0 with
       | [] => Some []
       | w :: rest =>
           match qstr w, go rest with
           | Some a, Some b => Some (a :: b)
           | _, _ => None
           end
       end) (map OE l) = Some (map show l).
  Proof. induction l as [|a l IH]; [reflexivity|]. cbn [map qstr]. rewrite IH. reflexivity. Qed.

  Lemma str_NAry_tied : forall e : E,
    match e with
    | Add _ | Mul _ =>
        run gen_obj_NAryExpression_str (OExpr e) [] = sv (OExpr e) /\
        run gen_obj_NAryExpression_repr (OExpr e) [] = sv (OExpr e)
    | _ => True
    end.
  Proof.
    intros e. destruct e; try exact I; split; sq; rewrite join_str_tied; cbn -[show];
      cbn [show]; rewrite <- ?app_assoc, ?app_nil_r; reflexivity.
  Qed.

  Lemma str_Point_tied : forall p,
    run gen_obj_Point_str (OPoint p) [] = sv (OPoint p) /\
    run gen_obj_Point_repr (OPoint p) [] = sv (OPoint p) /\
    run gen_obj_Point_to_string (OPoint p) [] = sv (OPoint p).
  Proof.
    intros p. repeat split; sq; unfold show_point; rewrite <- ?app_assoc, ?app_nil_r; reflexivity.
  Qed.

  Lemma str_Partial_tied : forall e v,
    run gen_obj_Partial_str (OPartial e v) [] = sv (OPartial e v) /\
    run gen_obj_Partial_repr (OPartial e v) [] = sv (OPartial e v) /\
    run gen_obj_Partial_to_string (OPartial e v) [] = sv (OPartial e v).
  Proof.
    intros. repeat split; sq; unfold show_partial; rewrite <- ?app_assoc, ?app_nil_r; reflexivity.
  Qed.

  Lemma str_Derivative_tied : forall e,
    run gen_obj_Derivative_str (ODerivative e) [] = sv (ODerivative e) /\
    run gen_obj_Derivative_repr (ODerivative e) [] = sv (ODerivative e) /\
    run gen_obj_Derivative_to_string (ODerivative e) [] = sv (ODerivative e).
  Proof.
    intros. repeat split; sq; unfold show_derivative; rewrite <- ?app_assoc, ?app_nil_r; reflexivity.
  Qed.

  Lemma str_Differential_tied : forall e,
    run gen_obj_Differential_str (ODifferential e) [] = sv (ODifferential e) /\
    run gen_obj_Differential_repr (ODifferential e) [] = sv (ODifferential e) /\
    run gen_obj_Differential_to_string (ODifferential e) [] = sv (ODifferential e).
  Proof.
    intros. repeat split; sq; unfold show_differential; rewrite <- ?app_assoc, ?app_nil_r; reflexivity.
  Qed.

  Lemma str_Located_tied : forall e p,
    run gen_obj_LocatedDifferential_str (OLocated e p) [] = sv (OLocated e p) /\
    run gen_obj_LocatedDifferential_repr (OLocated e p) [] = sv (OLocated e p) /\
    run gen_obj_LocatedDifferential_to_string (OLocated e p) [] = sv (OLocated e p).
  Proof.
    intros. repeat split; sq; unfold show_located; rewrite <- ?app_assoc, ?app_nil_r; reflexivity.
  Qed.

  (** ** whole-protocol theorems: method resolution per class (the class's own method, else the one it
      inherits), then the tied body *)
  Definition gen_eq (a o : obj) : option (qval (T:=T) (H:=H)) :=
    match a with
    | OExpr e =>
        match e with
        | Const _ => run gen_obj_Constant_eq a [QVObj o]
        | Var _ => run gen_obj_Variable_eq a [QVObj o]
        | Add _ | Mul _ => run gen_obj_NAryExpression_eq a [QVObj o]
        | Minus _ _ | Divide _ _ | Power _ _ => run gen_obj_BinaryExpression_eq a [QVObj o]
        | Neg _ | Recip _ | Sin _ | Cos _ => run gen_obj_UnaryExpression_eq a [QVObj o]
        | NthPow _ _ | NthRoot _ _ | Exp _ _ | Log _ _ => run gen_obj_ParameterizedUnaryExpression_eq a [QVObj o]
        end
    | OPoint _ => run gen_obj_Point_eq a [QVObj o]
    | OPartial _ _ => run gen_obj_Partial_eq a [QVObj o]
    | ODerivative _ => run gen_obj_Derivative_eq a [QVObj o]
    | ODifferential _ => run gen_obj_Differential_eq a [QVObj o]
    | OLocated _ _ => run gen_obj_LocatedDifferential_eq a [QVObj o]
    | OForeign _ => None
    end.

  Definition is_library (a : obj) : Prop := match a with OForeign _ => False | _ => True end.

  Theorem eq_tied : forall a o : obj, is_library a -> wf_obj a -> wf_obj o ->
    gen_eq a o = Some (QVB (py_eq N a o)).
  Proof.
    intros a o Ha Hwa Hwo. destruct a as [e|p|e v|e|e|e p|k]; unfold gen_eq.
    - destruct e.
      + apply eq_Constant_tied. + apply eq_Variable_tied.
      + apply (eq_NAry_tied (Add l)). + apply (eq_NAry_tied (Mul l)).
      + apply (eq_Binary_tied (Minus e1 e2)). + apply (eq_Binary_tied (Divide e1 e2)).
      + apply (eq_Binary_tied (Power e1 e2)).
      + apply (eq_Unary_tied (Neg e)). + apply (eq_Unary_tied (Recip e)).
      + apply (eq_Unary_tied (Sin e)). + apply (eq_Unary_tied (Cos e)).
      + apply (eq_Param_tied (NthPow e n)). + apply (eq_Param_tied (NthRoot e n)).
      + apply (eq_Param_tied (Exp e base)). + apply (eq_Param_tied (Log e base)).
    - apply eq_Point_tied.
    - apply eq_Partial_tied.
    - apply eq_Derivative_tied.
    - apply eq_Differential_tied.
    - apply eq_Located_tied; assumption.
    - destruct Ha.
  Qed.

  Definition gen_hash (a : obj) : option (qval (T:=T) (H:=H)) :=
    match a with
    | OExpr e =>
        match e with
        | Const _ => run gen_obj_Constant_hash a []
        | Var _ => run gen_obj_Variable_hash a []
        | Add _ | Mul _ => run gen_obj_NAryExpression_hash a []
        | Minus _ _ | Divide _ _ | Power _ _ => run gen_obj_BinaryExpression_hash a []
        | Neg _ | Recip _ | Sin _ | Cos _ => run gen_obj_UnaryExpression_hash a []
        | NthPow _ _ | NthRoot _ _ | Exp _ _ | Log _ _ => run gen_obj_ParameterizedUnaryExpression_hash a []
        end
    | OPoint _ => run gen_obj_Point_hash a []
    | OPartial _ _ => run gen_obj_Partial_hash a []
    | ODerivative _ => run gen_obj_Derivative_hash a []
    | ODifferential _ => run gen_obj_Differential_hash a []
    | OLocated _ _ => run gen_obj_LocatedDifferential_hash a []
    | OForeign _ => None
    end.

  Theorem hash_tied : forall a : obj, gen_hash a = hv a.
  Proof.
    intros a. destruct a as [e|p|e v|e|e|e p|k]; unfold gen_hash.
    - destruct e.
      + apply hash_Constant_tied. + apply hash_Variable_tied.
      + apply (hash_NAry_tied (Add l)). + apply (hash_NAry_tied (Mul l)).
      + apply (hash_Binary_tied (Minus e1 e2)). + apply (hash_Binary_tied (Divide e1 e2)).
      + apply (hash_Binary_tied (Power e1 e2)).
      + apply (hash_Unary_tied (Neg e)). + apply (hash_Unary_tied (Recip e)).
      + apply (hash_Unary_tied (Sin e)). + apply (hash_Unary_tied (Cos e)).
      + apply (hash_Param_tied (NthPow e n)). + apply (hash_Param_tied (NthRoot e n)).
      + apply (hash_Param_tied (Exp e base)). + apply (hash_Param_tied (Log e base)).
    - apply hash_Point_tied.
    - apply hash_Partial_tied.
    - apply hash_Derivative_tied.
    - apply hash_Differential_tied.
    - apply hash_Located_tied.
    - reflexivity.
  Qed.

  (* repr(a) (and str(a), proved equal method by method above); for the parameterised classes the
     method is __repr__ -> self._to_string() -> the class's own _to_string *)
  Definition gen_repr (a : obj) : option (qval (T:=T) (H:=H)) :=
    match a with
    | OExpr e =>
        match e with
        | Const _ => run gen_obj_Constant_repr a []
        | Var _ => run gen_obj_Variable_repr a []
        | Add _ | Mul _ => run gen_obj_NAryExpression_repr a []
        | Minus _ _ | Divide _ _ | Power _ _ => run gen_obj_BinaryExpression_repr a []
        | Neg _ | Recip _ | Sin _ | Cos _ => run gen_obj_UnaryExpression_repr a []
        | NthPow _ _ => run gen_obj_NthPower_to_string a []
        | NthRoot _ _ => run gen_obj_NthRoot_to_string a []
        | Exp _ _ => run gen_obj_Exponential_to_string a []
        | Log _ _ => run gen_obj_Logarithm_to_string a []
        end
    | OPoint _ => run gen_obj_Point_to_string a []
    | OPartial _ _ => run gen_obj_Partial_to_string a []
    | ODerivative _ => run gen_obj_Derivative_to_string a []
    | ODifferential _ => run gen_obj_Differential_to_string a []
    | OLocated _ _ => run gen_obj_LocatedDifferential_to_string a []
    | OForeign _ => None
    end.

  Theorem repr_tied : forall a : obj, gen_repr a = sv a.
  Proof.
    intros a. destruct a as [e|p|e v|e|e|e p|k]; unfold gen_repr.
    - destruct e.
      + apply str_Constant_tied. + apply str_Variable_tied.
      + apply (str_NAry_tied (Add l)). + apply (str_NAry_tied (Mul l)).
      + apply (str_Binary_tied (Minus e1 e2)). + apply (str_Binary_tied (Divide e1 e2)).
      + apply (str_Binary_tied (Power e1 e2)).
      + apply (str_Unary_tied (Neg e)). + apply (str_Unary_tied (Recip e)).
      + apply (str_Unary_tied (Sin e)). + apply (str_Unary_tied (Cos e)).
      + apply to_string_NthPower_tied. + apply to_string_NthRoot_tied.
      + apply to_string_Exponential_tied. + apply to_string_Logarithm_tied.
    - apply str_Point_tied.
    - apply str_Partial_tied.
    - apply str_Derivative_tied.
    - apply str_Differential_tied.
    - apply str_Located_tied.
    - reflexivity.
  Qed.
End Tie.
