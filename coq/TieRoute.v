(** * TieRoute: the methods and helpers of Partial, Derivative, Differential and LocatedDifferential
    of the CURRENT source (GeneratedRoute.v, regenerated on every run), interpreted by RouteAst,
    compute exactly the object model of RouteAst.v, and the object model composes to the route
    functions of Routes.v. *)
From Coq Require Import ZArith List Bool String Lia.
From SM Require Import Num Syntax Outcome MathFun Eval Forward Reverse Synth Rules Driver Normalize Routes
                       RouteAst GeneratedRoute.
Import ListNotations.
Open Scope string_scope.
Open Scope list_scope.

Section Tie.
  Context {T : Type} (N : NumOps T).
  Notation E := (expr T).
  Variable norm : E -> E.
  Variable enum : E -> list name.
  Notation rval := (rval (T:=T)).

  Definition meth (f : rfun) (self : rval) (fs : rfields (T:=T)) (args : list rval) := rmethod N norm enum f self fs args.

  Ltac opq := cbn -[eval fwd synth_fwd numeric_partials synthetic_partials norm enum the_single_variable_name
                    retrieve_synthetic_partial mk_partial partial_at partial_as_expression mk_located diff_component
                    dictE dictN dict_find].

  Definition fields_partial (o : partial_obj (T:=T)) : rfields :=
    [("_original_expression", RVE (pe o)); ("_variable_name", RVName (pv o)); ("_synthetic_partial", oe (psp o))].

  (** ** helpers of partial.py *)
  Lemma retrieve_tied : forall e v,
    meth gen_route_fn_retrieve_synthetic_partial RVNone [] [RVE e; RVName v]
    = Val (RVE (retrieve_synthetic_partial N norm e v), []).
  Proof. reflexivity. Qed.

  (* the _private argument: None, or a dict holding the key *)
  Definition privE (o : option E) : rval := match o with Some s => RVPriv "synthetic_partial" (RVE s) | None => RVNone end.

  Lemma initial_synthetic_partial_tied : forall e v early (priv : option E),
    meth gen_route_fn_initial_synthetic_partial RVNone [] [RVE e; RVName v; RVB early; privE priv]
    = Val (oe (initial_synthetic_partial N norm e v early priv), []).
  Proof. intros e v early priv. destruct priv; destruct early; reflexivity. Qed.

  (** ** Partial *)
  Lemma Partial_init_tied : forall self e (var : rval) v early (priv : option E),
    get_name var = Val v ->
    meth gen_route_Partial_init self [] [RVE e; var; RVB early; privE priv]
    = Val (RVNone, fields_partial (mk_partial N norm e v early priv)).
  Proof.
    intros self e var v early priv Hv. unfold meth, rmethod. opq. rewrite Hv. opq.
    destruct priv; destruct early; reflexivity.
  Qed.

  Lemma Partial_at_tied : forall self (o : partial_obj) p,
    meth gen_route_Partial_at self (fields_partial o) [RVPoint p]
    = (x <- partial_at N o p ;; Val (RVN x, fields_partial o)).
  Proof.
    intros self [e v sp] p. unfold meth, rmethod, fields_partial, partial_at. cbn [pe pv psp].
    destruct sp as [s|]; opq.
    - destruct (eval N p e); opq; try reflexivity. destruct (eval N p s); reflexivity.
    - destruct (fwd N v p e); reflexivity.
  Qed.

  Lemma Partial_as_expression_tied : forall self (o : partial_obj),
    meth gen_route_Partial_as_expression self (fields_partial o) []
    = Val (RVE (fst (partial_as_expression N norm o)), fields_partial (snd (partial_as_expression N norm o))).
  Proof. intros self [e v sp]. destruct sp; reflexivity. Qed.
  (** ** Derivative *)
  Definition fields_deriv (o : deriv_obj (T:=T)) : rfields :=
    [("_original_expression", RVE (dve o)); ("_variable_name", RVName (dvv o)); ("_partial", RVPartial (dvp o))].

  Lemma Derivative_init_tied : forall self e early,
    meth gen_route_Derivative_init self [] [RVE e; RVB early]
    = match mk_derivative N norm e early with
      | Some o => Val (RVNone, fields_deriv o)
      | None => raises
      end.
  Proof.
    intros self e early. unfold meth, rmethod, mk_derivative. opq.
    destruct (the_single_variable_name e); reflexivity.
  Qed.

  Lemma Derivative_at_point_tied : forall self (o : deriv_obj) p,
    meth gen_route_Derivative_at self (fields_deriv o) [RVPoint p]
    = (x <- derivative_at_point N o p ;; Val (RVN x, fields_deriv o)).
  Proof.
    intros self [e v po] p. unfold meth, rmethod, derivative_at_point. cbn [dvp]. opq.
    destruct (partial_at N po p); reflexivity.
  Qed.

  Lemma Derivative_at_number_tied : forall self (o : deriv_obj) x,
    meth gen_route_Derivative_at self (fields_deriv o) [RVN x]
    = (y <- derivative_at_number N o x ;; Val (RVN y, fields_deriv o)).
  Proof.
    intros self [e v po] x. unfold meth, rmethod, derivative_at_number. cbn [dvp dvv]. opq.
    destruct (partial_at N po [(v, x)]); reflexivity.
  Qed.

  Lemma Derivative_as_expression_tied : forall self (o : deriv_obj),
    meth gen_route_Derivative_as_expression self (fields_deriv o) []
    = Val (RVE (fst (partial_as_expression N norm (dvp o))),
           fields_deriv (mkDeriv (dve o) (dvv o) (snd (partial_as_expression N norm (dvp o))))).
  Proof.
    intros self [e v po]. unfold meth, rmethod. cbn [dvp dve dvv]. opq.
    destruct (partial_as_expression N norm po). reflexivity.
  Qed.

  (** ** Differential *)
  Definition fields_diff (o : diff_obj (T:=T)) : rfields :=
    [("_original_expression", RVE (de o));
     ("_synthetic_partials", match dsps o with Some d => dictE d | None => RVNone end)].

  Lemma rmap_pure : forall (f : name -> rval -> rfields (T:=T) -> rres rval) (g : E -> rval)
                            (d : list (name * E)) (fs : rfields),
    (forall x s fs', f x (RVE s) fs' = Val (g s, fs')) ->
    rmap_loop f (map (fun xs : name * E => (fst xs, RVE (snd xs))) d) fs
    = Val (map (fun xs : name * E => (fst xs, g (snd xs))) d, fs).
  Proof.
    intros f g d fs Hf. induction d as [|[x s] d IH]; [reflexivity|].
    cbn [map rmap_loop fst snd]. rewrite Hf. cbn [bind]. rewrite IH. reflexivity.
  Qed.

  Lemma initial_synthetic_partials_tied : forall e early,
    meth gen_route_fn_initial_synthetic_partials RVNone [] [RVE e; RVB early]
    = Val (match initial_synthetic_partials N norm enum e early with Some d => dictE d | None => RVNone end, []).
  Proof.
    intros e early. destruct early; [|reflexivity].
    unfold meth, rmethod, initial_synthetic_partials. opq. unfold dictE at 1.
    rewrite (rmap_pure _ (fun s => RVE (norm s))) by (intros; reflexivity).
    opq. unfold dictE. rewrite map_map. reflexivity.
  Qed.

  Lemma Differential_init_tied : forall self e early,
    meth gen_route_Differential_init self [] [RVE e; RVB early]
    = Val (RVNone, fields_diff (mk_differential N norm enum e early)).
  Proof. intros self e early. destruct early; reflexivity. Qed.

  Lemma dict_find_E : forall (v : name) (d : list (name * E)),
    dict_find v (map (fun xs : name * E => (fst xs, RVE (snd xs))) d)
    = match slookup v d with Some s => Some (RVE s) | None => None end.
  Proof.
    intros v d. induction d as [|[x s] d IH]; [reflexivity|]. cbn [map fst snd slookup dict_find].
    destruct (name_eqb v x); [reflexivity | exact IH].
  Qed.

  Lemma Differential_component_tied : forall self (o : diff_obj) (var : rval) v,
    get_name var = Val v ->
    meth gen_route_Differential_component self (fields_diff o) [var]
    = Val (RVPartial (diff_component N norm o v), fields_diff o).
  Proof.
    intros self [e sps] var v Hv. unfold meth, rmethod, diff_component, fields_diff. cbn [de dsps].
    destruct sps as [d|]; unfold dictE; opq; rewrite ?Hv; opq; [|reflexivity].
    rewrite dict_find_E. destruct (slookup v d); opq; rewrite ?Hv; reflexivity.
  Qed.
  (** ** LocatedDifferential *)
  Definition fields_loc (o : located_obj (T:=T)) : rfields :=
    [("_original_expression", RVE (le o)); ("_point", RVPoint (lp o)); ("_numeric_partials", dictN (lnps o))].

  Definition privN (o : option (list (name * T))) : rval :=
    match o with Some d => RVPriv "numeric_partials" (dictN d) | None => RVNone end.

  Lemma to_dictN_dictN : forall d : list (name * T),
    to_dictN (map (fun xs : name * T => (fst xs, @RVN T (snd xs))) d) = Some d.
  Proof. induction d as [|[x w] d IH]; [reflexivity|]. cbn [map to_dictN fst snd]. rewrite IH. reflexivity. Qed.

  Lemma initial_numeric_partials_tied : forall e p (priv : option (list (name * T))),
    meth gen_route_fn_initial_numeric_partials RVNone [] [RVE e; RVPoint p; privN priv]
    = (d <- initial_numeric_partials N enum e p priv ;; Val (dictN d, [])).
  Proof.
    intros e p priv. unfold meth, rmethod. destruct priv as [d|]; opq; [reflexivity|].
    destruct (numeric_partials N p e (enum e)); reflexivity.
  Qed.

  Lemma Located_init_tied : forall self e p (priv : option (list (name * T))),
    meth gen_route_LocatedDifferential_init self [] [RVE e; RVPoint p; privN priv]
    = (o <- mk_located N enum e p priv ;; Val (RVNone, fields_loc o)).
  Proof.
    intros self e p priv. unfold meth, rmethod, mk_located. destruct priv as [d|]; opq.
    - unfold dictN at 1. rewrite to_dictN_dictN. reflexivity.
    - destruct (numeric_partials N p e (enum e)); reflexivity.
  Qed.

  Lemma dict_find_N : forall (v : name) (d : list (name * T)),
    dict_find v (map (fun xs : name * T => (fst xs, @RVN T (snd xs))) d)
    = match lookup v d with Some w => Some (RVN w) | None => None end.
  Proof.
    intros v d. induction d as [|[x w] d IH]; [reflexivity|]. cbn [map fst snd lookup dict_find].
    destruct (name_eqb v x); [reflexivity | exact IH].
  Qed.

  Lemma Located_component_tied : forall self (o : located_obj) (var : rval) v,
    get_name var = Val v ->
    meth gen_route_LocatedDifferential_component self (fields_loc o) [var]
    = Val (match lookup v (lnps o) with Some d => RVN d | None => RVZero end, fields_loc o).
  Proof.
    intros self [e p nps] var v Hv. unfold meth, rmethod, fields_loc. cbn [le lp lnps]. unfold dictN. opq.
    rewrite Hv. opq. rewrite dict_find_N. destruct (lookup v nps); reflexivity.
  Qed.

  (** ** Differential.at and component_at *)
  Lemma rmap_eval : forall (f : name -> rval -> rfields (T:=T) -> rres rval) (p : point T)
                            (d : list (name * E)) (fs : rfields),
    (forall x s fs', f x (RVE s) fs' = (w <- eval N p s ;; Val (RVN w, fs'))) ->
    rmap_loop f (map (fun xs : name * E => (fst xs, RVE (snd xs))) d) fs
    = (nps <- eval_values N p d ;; Val (map (fun xs : name * T => (fst xs, RVN (snd xs))) nps, fs)).
  Proof.
    intros f p d fs Hf. induction d as [|[x s] d IH]; [reflexivity|].
    cbn [map rmap_loop fst snd eval_values]. rewrite Hf.
    destruct (eval N p s); cbn [bind]; try reflexivity.
    rewrite IH. destruct (eval_values N p d); reflexivity.
  Qed.

  Lemma Differential_at_tied : forall self (o : diff_obj) p,
    meth gen_route_Differential_at self (fields_diff o) [RVPoint p]
    = (l <- diff_at N enum o p ;; Val (RVLocated l, fields_diff o)).
  Proof.
    intros self [e sps] p. unfold meth, rmethod, diff_at, fields_diff. cbn [de dsps].
    destruct sps as [d|]; unfold dictE; opq.
    - destruct (eval N p e); opq; try reflexivity.
      rewrite (rmap_eval _ p) by (intros x s fs'; opq; destruct (eval N p s); reflexivity).
      destruct (eval_values N p d) as [nps| | |k]; opq; try reflexivity.
      rewrite to_dictN_dictN. unfold mk_located. reflexivity.
    - destruct (eval N p e); opq; try reflexivity. unfold mk_located. opq.
      destruct (numeric_partials N p e (enum e)); reflexivity.
  Qed.

  Lemma Differential_component_at_tied : forall (o : diff_obj) (var : rval) v p,
    get_name var = Val v ->
    meth gen_route_Differential_component_at (RVDiff o) (fields_diff o) [var; RVPoint p]
    = (x <- diff_component_at N norm o v p ;; Val (RVN x, fields_diff o)).
  Proof.
    intros o var v p Hv. unfold meth, rmethod, diff_component_at. opq. rewrite Hv. opq.
    destruct (partial_at N (diff_component N norm o v) p); reflexivity.
  Qed.

  (** ** the entry points: Expression.at, get_the_single_variable_name, Point.coordinate *)
  Lemma single_name_tied : forall e,
    meth gen_route_fn_get_the_single_variable_name RVNone [] [RVE e; RVStr ""]
    = match the_single_variable_name e with
      | Some v => Val (RVName v, [])
      | None => raises
      end.
  Proof.
    intros e. unfold meth, rmethod, the_single_variable_name. cbn -[var_names].
    destruct (var_names e) as [|x [|y l]]; reflexivity.
  Qed.

  Lemma Expression_at_point_tied : forall e p,
    meth gen_route_Expression_at (RVE e) [] [RVPoint p] = (x <- eval N p e ;; Val (RVN x, [])).
  Proof. intros e p. unfold meth, rmethod. opq. destruct (eval N p e); reflexivity. Qed.

  Lemma Expression_at_number_tied : forall e x,
    meth gen_route_Expression_at (RVE e) [] [RVN x]
    = match at_number N e x with
      | Some o => (y <- o ;; Val (RVN y, []))
      | None => raises
      end.
  Proof.
    intros e x. unfold meth, rmethod, at_number. opq.
    destruct (the_single_variable_name e) as [v|]; opq; [|reflexivity].
    destruct (eval N [(v, x)] e); reflexivity.
  Qed.

  Lemma point_on_number_line_tied : forall v x,
    meth gen_route_fn_point_on_number_line RVNone [] [RVName v; RVN x] = Val (RVPoint [(v, x)], []).
  Proof. reflexivity. Qed.

  Definition fields_point (p : point T) : rfields := [("_coordinates", dictN p)].

  Lemma Point_coordinate_tied : forall (p : point T) (var : rval) v,
    get_name var = Val v ->
    meth gen_route_Point_coordinate (RVPoint p) (fields_point p) [var]
    = (c <- coordinate p v ;; Val (RVN c, fields_point p)).
  Proof.
    intros p var v Hv. unfold meth, rmethod, fields_point, coordinate, dictN. opq. rewrite Hv. opq.
    rewrite dict_find_N. destruct (lookup v p); reflexivity.
  Qed.

  (** ** the default values of the optional parameters, as the object model assumes them *)
  Lemma defaults_tied :
    gen_route_defaults =
    [("Partial", "__init__", ["False"; "None"]); ("Partial", "at", []); ("Partial", "as_expression", []);
     ("partial", "_initial_synthetic_partial", []); ("partial", "_retrieve_synthetic_partial", []);
     ("Derivative", "__init__", ["False"]); ("Derivative", "at", []); ("Derivative", "as_expression", []);
     ("Differential", "__init__", ["False"]); ("Differential", "component", []); ("Differential", "at", []);
     ("Differential", "component_at", []); ("differential", "_initial_synthetic_partials", []);
     ("LocatedDifferential", "__init__", ["None"]); ("LocatedDifferential", "component", []);
     ("located_differential", "_initial_numeric_partials", [])].
  Proof. reflexivity. Qed.
End Tie.

(** ** The object model composes to the route functions of Routes.v (the functions the theorems of
    C05-C07, C14 are about), whenever the simplifier's fuel suffices ([norm] is what [normalize]
    returns). *)
Section Bridge.
  Context {T : Type} (N : NumOps T).
  Notation E := (expr T).
  Variable norm : E -> E.
  Variable enum : E -> list name.
  Variables (fuel d : nat).
  Hypothesis Hnorm : forall x : E, normalize N fuel d x = Some (norm x).

  Lemma bridge_partial_late : forall e v p,
    partial_at N (mk_partial N norm e v false None) p = partial_at_late N e v p.
  Proof. reflexivity. Qed.

  Lemma bridge_as_expression : forall e v early,
    Routes.partial_as_expression N fuel d e v
    = Some (fst (RouteAst.partial_as_expression N norm (mk_partial N norm e v early None))).
  Proof.
    intros e v early. unfold Routes.partial_as_expression. rewrite Hnorm. destruct early; reflexivity.
  Qed.

  Lemma bridge_partial_early : forall e v p,
    partial_at_early N fuel d e v p = Some (partial_at N (mk_partial N norm e v true None) p).
  Proof.
    intros e v p. unfold partial_at_early, Routes.partial_as_expression. rewrite Hnorm. reflexivity.
  Qed.

  (* a late object after as_expression() answers like an early one *)
  Lemma bridge_late_after_as_expression : forall e v p,
    partial_at N (snd (RouteAst.partial_as_expression N norm (mk_partial N norm e v false None))) p
    = partial_at N (mk_partial N norm e v true None) p.
  Proof. reflexivity. Qed.

  Lemma bridge_derivative_late : forall e p,
    derivative_at_late N e p
    = match mk_derivative N norm e false with Some o => Some (derivative_at_point N o p) | None => None end.
  Proof.
    intros e p. unfold derivative_at_late, derivative_variable, mk_derivative.
    destruct (the_single_variable_name e); reflexivity.
  Qed.

  Lemma bridge_derivative_number_late : forall e x,
    derivative_at_number_late N e x
    = match mk_derivative N norm e false with Some o => Some (derivative_at_number N o x) | None => None end.
  Proof.
    intros e x. unfold derivative_at_number_late, derivative_variable, mk_derivative.
    destruct (the_single_variable_name e); reflexivity.
  Qed.

  Lemma omapM_norm : forall l : list (name * E),
    omapM (fun xs : name * E =>
             match normalize N fuel d (snd xs) with Some s => Some (fst xs, s) | None => None end) l
    = Some (map (fun xs : name * E => (fst xs, norm (snd xs))) l).
  Proof.
    induction l as [|[x s] l IH]; [reflexivity|]. cbn [omapM map fst snd]. rewrite Hnorm, IH. reflexivity.
  Qed.

  Lemma bridge_early_partials : forall e,
    differential_early_partials N fuel d e (enum e) = dsps (mk_differential N norm enum e true).
  Proof. intros e. unfold differential_early_partials. rewrite omapM_norm. reflexivity. Qed.

  Lemma bridge_component_at_late : forall e v p,
    diff_component_at N norm (mk_differential N norm enum e false) v p = partial_at_late N e v p.
  Proof. reflexivity. Qed.

  Lemma bridge_component_at_early : forall e v p,
    differential_early_component_at N fuel d e (enum e) v p
    = Some (diff_component_at N norm (mk_differential N norm enum e true) v p).
  Proof.
    intros e v p. unfold differential_early_component_at. rewrite bridge_early_partials.
    unfold diff_component_at, diff_component. cbn [mk_differential dsps de].
    destruct (slookup v _); reflexivity.
  Qed.

  Lemma eval_values_sequence : forall p (sp : list (name * E)),
    eval_values N p sp
    = sequence (map (fun xs : name * E => v <- eval N p (snd xs) ;; Val (fst xs, v)) sp).
  Proof.
    intros p sp. induction sp as [|[x s] sp IH]; [reflexivity|].
    cbn [eval_values map sequence fst snd]. destruct (eval N p s); cbn [bind]; try reflexivity.
    rewrite IH. reflexivity.
  Qed.

  Lemma bridge_at_late : forall e p,
    omap (lnps (T:=T)) (diff_at N enum (mk_differential N norm enum e false) p)
    = differential_at_late N e (enum e) p.
  Proof.
    intros e p. unfold diff_at, differential_at_late. cbn [mk_differential dsps de mk_located].
    destruct (eval N p e); cbn [bind omap]; try reflexivity.
    destruct (numeric_partials N p e (enum e)); reflexivity.
  Qed.

  Lemma bridge_at_early : forall e p,
    differential_at_early N fuel d e (enum e) p
    = Some (omap (lnps (T:=T)) (diff_at N enum (mk_differential N norm enum e true) p)).
  Proof.
    intros e p. unfold differential_at_early. rewrite bridge_early_partials.
    unfold diff_at. cbn [mk_differential dsps de mk_located].
    destruct (eval N p e); cbn [bind omap]; try reflexivity.
    rewrite <- eval_values_sequence. destruct (eval_values N p _); reflexivity.
  Qed.

  Lemma bridge_located : forall e p,
    omap (lnps (T:=T)) (mk_located N enum e p None) = located_differential N e (enum e) p.
  Proof.
    intros e p. unfold mk_located, located_differential.
    destruct (numeric_partials N p e (enum e)); reflexivity.
  Qed.

  Lemma bridge_located_component : forall (o : located_obj (T:=T)) v,
    RouteAst.located_component N o v = Reverse.located_component N (lnps o) v.
  Proof. reflexivity. Qed.
End Bridge.

(** ** reset-before-read: in every CURRENT route body, on every path, a call that reads the memo
    fields ([t._evaluate(p)], [t._numeric_partial(v, p)]) comes after [t._reset_evaluation_cache()]
    on the same receiver — which is what entitles RouteAst to read those calls as the pure [eval] /
    [fwd] (Stateful.v: an evaluation from a reset store is the pure one).  A route that drops the
    reset, or replaces [e.at(p)] by [e._evaluate(p)], fails here. *)
Lemma reset_discipline :
  forallb (fun nf : string * rfun => disciplined [] (r_body (snd nf))) gen_route_all = true.
Proof. vm_compute. reflexivity. Qed.

Lemma route_bodies_listed : List.length gen_route_all = 20%nat.
Proof. reflexivity. Qed.
