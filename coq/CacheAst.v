(** * CacheAst: a deep embedding of the Python subset in which the memoised evaluator is written
    (_evaluate and _reset_evaluation_cache of the three base classes and of the two leaves), with an
    interpreter over the stateful model (Stateful.v, part A: node objects with identities, the
    [_value] fields as a store).

    harness/tie_extract.py translates the CURRENT source of those methods (GeneratedCache.v);
    TieCacheBody.v proves that each computes one unfolding of the model's [eval_s] / [reset_s] —
    including WHEN the memo is read, WHEN it is written, what is left in the store when a child
    raises, and which children are reset.  Calls on children are the model's own functions. *)
From Coq Require Import ZArith List Bool String Ascii.
From SM Require Import Num Syntax Outcome MathFun Eval Forward Stateful.
Import ListNotations.
Open Scope string_scope.
Open Scope list_scope.

Inductive kx : Type :=
| KSelf
| KName (x : string)
| KNone
| KAttr (t : kx) (f : string)            (* _inner _left _right _inners _value value *)
| KIsNotNone (t : kx)
| KIsNone (t : kx)
| KEvaluate (t : kx)                     (* t._evaluate(point) *)
| KCoord                                 (* point.coordinate(self.name) *)
| KFormula (args : list (string * kx))   (* self._value_formula(args) *)
| KComp (body : kx) (x : string) (iter : kx).

Inductive kstmt : Type :=
| KSReturn (t : kx)
| KSIf (c : kx) (th el : list kstmt)
| KSAssign (x : string) (t : kx)
| KSSetValue (t : kx)                    (* self._value = t *)
| KSVerify (args : list (string * kx))   (* self._verify_domain_constraints(args) *)
| KSReset (t : kx)                       (* t._reset_evaluation_cache() *)
| KSFor (x : string) (iter : kx) (body : list kstmt)
| KSPass.

Record kfun : Type := mkKFun { k_params : list string; k_body : list kstmt }.

Section Interp.
  Context {T : Type} (N : NumOps T).
  Variable p : point T.
  Notation S := (sexpr (T:=T)).
  Notation store := (store (T:=T)).

  Inductive kval : Type :=
  | KVN (x : T)
  | KVNone
  | KVB (b : bool)
  | KVE (e : S)
  | KVL (l : list kval).

  Definition kenv := list (string * kval).
  Fixpoint klook (x : string) (r : kenv) : option kval :=
    match r with
    | [] => None
    | (y, w) :: r' => if String.eqb x y then Some w else klook x r'
    end.

  (** evaluation of a term: the store is threaded; an exception leaves the store as it is *)
  Definition kres (A : Type) := (store * outcome A)%type.
  Definition kret {A} (s : store) (a : A) : kres A := (s, Val a).
  Definition kstuck {A} (s : store) : kres A := (s, PyErr TypeError).
  Definition kbind {A B} (m : kres A) (f : store -> A -> kres B) : kres B :=
    match m with
    | (s, Val a) => f s a
    | (s, DomErr) => (s, DomErr)
    | (s, CoordMissing) => (s, CoordMissing)
    | (s, PyErr k) => (s, PyErr k)
    end.

  Definition kattr (s : store) (w : kval) (f : string) : option kval :=
    match w with
    | KVE e =>
        if String.eqb f "_value" then
          match oid_of e with
          | Some i => Some (match sget s i with Some v => KVN v | None => KVNone end)
          | None => None
          end
        else if String.eqb f "_inner" then
          match e with
          | SNeg _ a | SRecip _ a | SSin _ a | SCos _ a | SNthPow _ a _ | SNthRoot _ a _ | SExp _ a _ | SLog _ a _ =>
              Some (KVE a)
          | _ => None
          end
        else if String.eqb f "_left" then
          match e with SMinus _ a _ | SDivide _ a _ | SPower _ a _ => Some (KVE a) | _ => None end
        else if String.eqb f "_right" then
          match e with SMinus _ _ b | SDivide _ _ b | SPower _ _ b => Some (KVE b) | _ => None end
        else if String.eqb f "_inners" then
          match e with SAdd _ l | SMul _ l => Some (KVL (map KVE l)) | _ => None end
        else if String.eqb f "value" then
          match e with SConst c => Some (KVN c) | _ => None end
        else None
    | _ => None
    end.

  Fixpoint knums (l : list kval) : option (list T) :=
    match l with
    | [] => Some []
    | KVN x :: r => match knums r with Some xs => Some (x :: xs) | None => None end
    | _ => None
    end.

  (** _verify_domain_constraints and _value_formula of the node, separately *)
  Definition node_verify (e : S) (vs : list T) : outcome unit :=
    match e, vs with
    | SDivide _ _ _, [x; y] => verify_divide N x y
    | SPower _ _ _, [x; y] => verify_power N x y
    | SRecip _ _, [x] => verify_reciprocal N x
    | SNthRoot _ _ n, [x] => verify_nth_root N x n
    | SLog _ _ _, [x] => verify_logarithm N x
    | (SAdd _ _ | SMul _ _), _ => Val tt
    | SMinus _ _ _, [_; _] => Val tt
    | (SNeg _ _ | SSin _ _ | SCos _ _ | SNthPow _ _ _ | SExp _ _ _), [_] => Val tt
    | _, _ => PyErr TypeError
    end.

  Definition node_formula (e : S) (vs : list T) : outcome T :=
    match e, vs with
    | SAdd _ _, _ => Val (mf_add N vs)
    | SMul _ _, _ => Val (mf_multiply N vs)
    | SMinus _ _ _, [x; y] => Val (mf_minus N x y)
    | SDivide _ _ _, [x; y] => mf_divide N x y
    | SPower _ _ _, [x; y] => mf_power N x y
    | SNeg _ _, [x] => Val (mf_negation N x)
    | SRecip _ _, [x] => mf_reciprocal N x
    | SSin _ _, [x] => mf_sine N x
    | SCos _ _, [x] => mf_cosine N x
    | SNthPow _ _ n, [x] => mf_nth_power N x n
    | SNthRoot _ _ n, [x] => mf_nth_root N x n
    | SExp _ _ b, [x] => mf_exponential N x b
    | SLog _ _ b, [x] => mf_logarithm N x b
    | _, _ => PyErr TypeError
    end.

  Section Loops.
    Fixpoint kcomp_loop (f : store -> kval -> kres kval) (s : store) (l : list kval) : kres (list kval) :=
      match l with
      | [] => kret s []
      | it :: rest =>
          kbind (f s it) (fun s1 w => kbind (kcomp_loop f s1 rest) (fun s2 ws => kret s2 (w :: ws)))
      end.
  End Loops.

  Fixpoint kev (r : kenv) (s : store) (t : kx) {struct t} : kres kval :=
    let kevargs :=
      fix kevargs (s : store) (l : list (string * kx)) : kres (list kval) :=
        match l with
        | [] => kret s []
        | (k, a) :: rest =>
            kbind (kev r s a) (fun s1 w =>
              kbind (kevargs s1 rest) (fun s2 ws =>
                if String.eqb k "*" then
                  match w with KVL items => kret s2 (items ++ ws) | _ => kstuck s2 end
                else kret s2 (w :: ws)))
        end in
    match t with
    | KSelf => match klook "self" r with Some w => kret s w | None => kstuck s end
    | KName x => match klook x r with Some w => kret s w | None => kstuck s end
    | KNone => kret s KVNone
    | KAttr a f =>
        kbind (kev r s a) (fun s1 w => match kattr s1 w f with Some u => kret s1 u | None => kstuck s1 end)
    | KIsNotNone a =>
        kbind (kev r s a) (fun s1 w => kret s1 (KVB (match w with KVNone => false | _ => true end)))
    | KIsNone a =>
        kbind (kev r s a) (fun s1 w => kret s1 (KVB (match w with KVNone => true | _ => false end)))
    | KEvaluate a =>
        kbind (kev r s a) (fun s1 w =>
          match w with
          | KVE e => let (s2, o) := eval_s N s1 p e in kbind (s2, o) (fun s3 x => kret s3 (KVN x))
          | _ => kstuck s1
          end)
    | KCoord =>
        match klook "self" r with
        | Some (KVE (SVar x)) => kbind (s, coordinate p x) (fun s1 c => kret s1 (KVN c))
        | _ => kstuck s
        end
    | KFormula args =>
        kbind (kevargs s args) (fun s1 ws =>
          match knums ws, klook "self" r with
          | Some xs, Some (KVE e) => kbind (s1, node_formula e xs) (fun s2 y => kret s2 (KVN y))
          | _, _ => kstuck s1
          end)
    | KComp body x iter =>
        kbind (kev r s iter) (fun s1 w =>
          match w with
          | KVL items =>
              kbind (kcomp_loop (fun s' it => kev ((x, it) :: r) s' body) s1 items)
                    (fun s2 ws => kret s2 (KVL ws))
          | _ => kstuck s1
          end)
    end.

  (** statements: environment and store are threaded; [inr w] = returned w *)
  Definition kflow := (kenv + kval)%type.

  Section StmtLoops.
    Fixpoint kfor_loop (run_body : kenv -> store -> kval -> kres kflow) (r : kenv) (s : store)
             (items : list kval) : kres kflow :=
      match items with
      | [] => kret s (inl r)
      | it :: rest =>
          kbind (run_body r s it) (fun s1 f =>
            match f with
            | inl r' => kfor_loop run_body r' s1 rest
            | inr w => kret s1 (inr w)
            end)
      end.
  End StmtLoops.

  Fixpoint kexec (r : kenv) (s : store) (st : kstmt) {struct st} : kres kflow :=
    let block :=
      fix block (r : kenv) (s : store) (l : list kstmt) {struct l} : kres kflow :=
        match l with
        | [] => kret s (inl r)
        | st :: rest =>
            kbind (kexec r s st) (fun s1 f =>
              match f with
              | inl r' => block r' s1 rest
              | inr w => kret s1 (inr w)
              end)
        end in
    match st with
    | KSReturn t => kbind (kev r s t) (fun s1 w => kret s1 (inr w))
    | KSIf c th el =>
        kbind (kev r s c) (fun s1 w =>
          match w with
          | KVB true => block r s1 th
          | KVB false => block r s1 el
          | _ => kstuck s1
          end)
    | KSAssign x t => kbind (kev r s t) (fun s1 w => kret s1 (inl ((x, w) :: r)))
    | KSSetValue t =>
        kbind (kev r s t) (fun s1 w =>
          match klook "self" r with
          | Some (KVE e) =>
              match oid_of e, w with
              | Some i, KVN v => kret (sset s1 i v) (inl r)
              | Some i, KVNone => kret (sclear s1 i) (inl r)
              | _, _ => kstuck s1
              end
          | _ => kstuck s1
          end)
    | KSVerify args =>
        kbind ((fix go (s : store) (l : list (string * kx)) : kres (list kval) :=
                  match l with
                  | [] => kret s []
                  | (k, a) :: rest =>
                      kbind (kev r s a) (fun s1 w =>
                        kbind (go s1 rest) (fun s2 ws =>
                          if String.eqb k "*" then
                            match w with KVL items => kret s2 (items ++ ws) | _ => kstuck s2 end
                          else kret s2 (w :: ws)))
                  end) s args)
              (fun s1 ws =>
                 match knums ws, klook "self" r with
                 | Some xs, Some (KVE e) => kbind (s1, node_verify e xs) (fun s2 _ => kret s2 (inl r))
                 | _, _ => kstuck s1
                 end)
    | KSReset t =>
        kbind (kev r s t) (fun s1 w =>
          match w with
          | KVE e => kret (reset_s s1 e) (inl r)
          | _ => kstuck s1
          end)
    | KSFor x iter body =>
        kbind (kev r s iter) (fun s1 w =>
          match w with
          | KVL items => kfor_loop (fun r' s' it => block ((x, it) :: r') s' body) r s1 items
          | _ => kstuck s1
          end)
    | KSPass => kret s (inl r)
    end.

  Fixpoint kexec_block (r : kenv) (s : store) (l : list kstmt) : kres kflow :=
    match l with
    | [] => kret s (inl r)
    | st :: rest =>
        kbind (kexec r s st) (fun s1 f =>
          match f with
          | inl r' => kexec_block r' s1 rest
          | inr w => kret s1 (inr w)
          end)
    end.

  (** _evaluate(point): the store afterwards and the returned number *)
  Definition kcall_eval (f : kfun) (s : store) (self : S) : store * outcome T :=
    match kexec_block [("self", KVE self)] s (k_body f) with
    | (s1, Val (inr (KVN x))) => (s1, Val x)
    | (s1, Val _) => (s1, PyErr TypeError)
    | (s1, DomErr) => (s1, DomErr)
    | (s1, CoordMissing) => (s1, CoordMissing)
    | (s1, PyErr k) => (s1, PyErr k)
    end.

  (** _reset_evaluation_cache(): the store afterwards (None = stuck) *)
  Definition kcall_reset (f : kfun) (s : store) (self : S) : option store :=
    match kexec_block [("self", KVE self)] s (k_body f) with
    | (s1, Val (inl _)) => Some s1
    | _ => None
    end.
End Interp.

Arguments KVN {T} x.
Arguments KVNone {T}.
Arguments KVB {T} b.
Arguments KVE {T} e.
Arguments KVL {T} l.
