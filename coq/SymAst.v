(** * SymAst: a deep embedding of the Python subset in which the expression-building methods of
    smoothmath are written (the 46 _reduce_* methods, the _synthetic_partial_formula* methods,
    _synthetic_partial, _normalize_fully_reduced and their helpers), with an interpreter over the
    model's expression trees.

    harness/tie_extract.py translates the CURRENT source of those methods into values of [sfun]
    (coq/GeneratedSym.v); TieRules.v / TieSynth.v prove, for every number interface N and every
    tree, that interpreting the translated source gives exactly what the hand-written model
    (Rules.v, Synth.v, Normalize.v) gives.  So the symbolic core of the model is re-derived from the
    source on every run; a changed pattern, guard, parameter, argument order or constructor breaks
    a lemma statically, for all inputs at once.

    Library helpers that the methods call (be.first_of_given_type, be.partition_by_given_type,
    util.group_by_key, util.map_dictionary_values, util.integer_from_integral_float, util.is_even,
    util.is_odd, math.gcd, len, slices, comprehensions, any/all) are primitives of the embedded
    language; their meaning is given here, and the implementation's helpers are exercised against it
    by the dynamic correspondence (every STEP/NORM case goes through them). *)
From Coq Require Import ZArith List Bool String Ascii.
From SM Require Import Num Syntax Outcome MathFun Rules.
Import ListNotations.
Open Scope string_scope.
Open Scope list_scope.

Inductive sx : Type :=
| XSelf
| XName (x : string)
| XNone
| XInt (z : Z)
| XMathE                                   (* math.e *)
| XAttr (t : sx) (f : string)              (* t._inner t._left t._right t._inners t.n t.base t.value *)
| XIntOp (op : string) (a b : sx)          (* + - * // on ints *)
| XGcd (a b : sx)                          (* math.gcd *)
| XIntegral (t : sx)                       (* util.integer_from_integral_float(t) *)
| XLen (t : sx)
| XSlice (t : sx) (lo hi : option sx)      (* t[lo:hi] *)
| XIndex (t : sx) (i : sx)                 (* t[i] *)
| XCtor (cls : string) (args : list (string * sx))
      (* ex.Cls(args): kind "" positional, "*" starred, otherwise the keyword *)
| XMf (f : string) (args : list (string * sx))   (* mf.f(args) *)
| XIsInst (t : sx) (cls : string)
| XCmp (op : string) (a b : sx)
| XIsNone (t : sx)
| XParity (odd : bool) (t : sx)            (* util.is_odd / util.is_even *)
| XAnd (a b : sx)
| XNot (a : sx)
| XComp (body : sx) (x : string) (iter : sx) (cond : option sx)   (* [body for x in iter if cond] *)
| XCompKV (body : sx) (k v : string) (iter : sx)    (* [body for k, v in iter.items()] *)
| XCompEnum (body : sx) (i x : string) (iter : sx)  (* [body for (i, x) in enumerate(iter)] *)
| XAnyAll (all : bool) (body : sx) (x : string) (iter : sx)
| XValues (t : sx)                         (* d.values() *)
| XFirstOfType (t : sx) (cls : string)     (* be.first_of_given_type *)
| XPartition (t : sx) (cls : string)       (* be.partition_by_given_type *)
| XGroupBy (t : sx) (x : string) (key : sx)        (* util.group_by_key(t, lambda x: key) *)
| XMapValues (t : sx) (k v : string) (body : sx)   (* util.map_dictionary_values(t, lambda k, v: body) *)
| XWithout (t : sx) (i : sx)               (* util.list_without_entry_at(t, i) *)
| XCall (f : string) (args : list sx).     (* a call of another method / module function, by name *)

Inductive sstmt : Type :=
| SReturn (t : sx)
| SIf (c : sx) (th el : list sstmt)
| SAssign (x : string) (t : sx)
| SAssign2 (x y : string) (t : sx)         (* x, y = t *)
| SPass.

Record sfun : Type := mkSFun {
  s_params : list string;      (* without self *)
  s_body : list sstmt;
}.

Section Interp.
  Context {T : Type} (N : NumOps T).
  Notation E := (expr T).

  Inductive val : Type :=
  | VE (e : E)
  | VN (x : T)
  | VZ (z : Z)
  | VB (b : bool)
  | VNone
  | VS (x : name)              (* a variable name (a str) *)
  | VL (l : list val)           (* list, tuple used as a sequence, generator *)
  | VTup (a b : val)            (* a pair *)
  | VD (d : list (val * val)).  (* dict, in insertion order *)

  Definition senv := list (string * val).

  Fixpoint slook (x : string) (r : senv) : option val :=
    match r with
    | [] => None
    | (y, v) :: r' => if String.eqb x y then Some v else slook x r'
    end.

  (** the meaning of calls that leave the translated method: other methods, module functions *)
  Variable oracle : string -> list val -> option val.

  Definition cls_of (e : E) : string :=
    match e with
    | Const _ => "Constant" | Var _ => "Variable" | Add _ => "Add" | Mul _ => "Multiply"
    | Minus _ _ => "Minus" | Divide _ _ => "Divide" | Power _ _ => "Power"
    | Neg _ => "Negation" | Recip _ => "Reciprocal" | Sin _ => "Sine" | Cos _ => "Cosine"
    | NthPow _ _ => "NthPower" | NthRoot _ _ => "NthRoot"
    | Exp _ _ => "Exponential" | Log _ _ => "Logarithm"
    end.

  Definition is_cls (cls : string) (e : E) : bool := String.eqb (cls_of e) cls.

  Definition attr (v : val) (f : string) : option val :=
    match v with
    | VE e =>
        if String.eqb f "_inner" then
          match e with
          | Neg a | Recip a | Sin a | Cos a | NthPow a _ | NthRoot a _ | Exp a _ | Log a _ => Some (VE a)
          | _ => None
          end
        else if String.eqb f "_left" then
          match e with Minus a _ | Divide a _ | Power a _ => Some (VE a) | _ => None end
        else if String.eqb f "_right" then
          match e with Minus _ b | Divide _ b | Power _ b => Some (VE b) | _ => None end
        else if String.eqb f "_inners" then
          match e with Add l | Mul l => Some (VL (map VE l)) | _ => None end
        else if String.eqb f "n" then
          match e with NthPow _ n | NthRoot _ n => Some (VZ (Zpos n)) | _ => None end
        else if String.eqb f "base" then
          match e with Exp _ b | Log _ b => Some (VN b) | _ => None end
        else if String.eqb f "value" then
          match e with Const c => Some (VN c) | _ => None end
        else if String.eqb f "name" then
          match e with Var x => Some (VS x) | _ => None end
        else None
    | _ => None
    end.

  Fixpoint as_exprs (l : list val) : option (list E) :=
    match l with
    | [] => Some []
    | VE e :: r => match as_exprs r with Some es => Some (e :: es) | None => None end
    | _ => None
    end.

  Fixpoint as_nums (l : list val) : option (list T) :=
    match l with
    | [] => Some []
    | VN x :: r => match as_nums r with Some xs => Some (x :: xs) | None => None end
    | VZ z :: r => match as_nums r with Some xs => Some (nofZ N z :: xs) | None => None end
    | _ => None
    end.

  (** constructor calls; integer parameters must be positive (the constructors raise otherwise) *)
  Definition ctor (cls : string) (args : list val) : option val :=
    if String.eqb cls "Constant" then
      match args with
      | [VN x] => Some (VE (Const x))
      | [VZ z] => Some (VE (Const (nofZ N z)))
      | _ => None
      end
    else if String.eqb cls "Add" then
      match as_exprs args with Some l => Some (VE (Add l)) | None => None end
    else if String.eqb cls "Multiply" then
      match as_exprs args with Some l => Some (VE (Mul l)) | None => None end
    else
      match args with
      | [VE a] =>
          if String.eqb cls "Negation" then Some (VE (Neg a))
          else if String.eqb cls "Reciprocal" then Some (VE (Recip a))
          else if String.eqb cls "Sine" then Some (VE (Sin a))
          else if String.eqb cls "Cosine" then Some (VE (Cos a))
          else if String.eqb cls "Exponential" then Some (VE (Exp a (n_e N)))
          else if String.eqb cls "Logarithm" then Some (VE (Log a (n_e N)))
          else None
      | [VE a; VE b] =>
          if String.eqb cls "Minus" then Some (VE (Minus a b))
          else if String.eqb cls "Divide" then Some (VE (Divide a b))
          else if String.eqb cls "Power" then Some (VE (Power a b))
          else None
      | [VE a; VZ n] =>
          if Z.ltb 0 n then
            if String.eqb cls "NthPower" then Some (VE (NthPow a (Z.to_pos n)))
            else if String.eqb cls "NthRoot" then Some (VE (NthRoot a (Z.to_pos n)))
            else None
          else None
      | [VE a; VN b] =>
          if String.eqb cls "Exponential" then Some (VE (Exp a b))
          else if String.eqb cls "Logarithm" then Some (VE (Log a b))
          else None
      | _ => None
      end.

  (** mf.f(args) where the result is used to build a Constant: only add and multiply occur *)
  Definition mfcall (f : string) (args : list val) : option val :=
    match as_nums args with
    | Some xs =>
        if String.eqb f "add" then Some (VN (mf_add N xs))
        else if String.eqb f "multiply" then Some (VN (mf_multiply N xs))
        else None
    | None => None
    end.

  Definition intop (op : string) (a b : val) : option val :=
    match a, b with
    | VZ x, VZ y =>
        if String.eqb op "+" then Some (VZ (x + y))
        else if String.eqb op "-" then Some (VZ (x - y))
        else if String.eqb op "*" then Some (VZ (x * y))
        else if String.eqb op "//" then (if Z.eqb y 0 then None else Some (VZ (x / y)))
        else None
    | _, _ => None
    end.

  Definition num_of (v : val) : option T :=
    match v with VN x => Some x | VZ z => Some (nofZ N z) | _ => None end.

  Definition cmpv (op : string) (a b : val) : option val :=
    match a, b with
    | VS x, VS y =>
        if String.eqb op "==" then Some (VB (name_eqb x y))
        else if String.eqb op "!=" then Some (VB (negb (name_eqb x y)))
        else None
    | VZ x, VZ y =>
        if String.eqb op "==" then Some (VB (Z.eqb x y))
        else if String.eqb op "!=" then Some (VB (negb (Z.eqb x y)))
        else if String.eqb op "<" then Some (VB (Z.ltb x y))
        else if String.eqb op ">" then Some (VB (Z.ltb y x))
        else if String.eqb op "<=" then Some (VB (Z.leb x y))
        else if String.eqb op ">=" then Some (VB (Z.leb y x))
        else None
    | _, _ =>
        match num_of a, num_of b with
        | Some x, Some y =>
            if String.eqb op "==" then Some (VB (neqb N x y))
            else if String.eqb op "!=" then Some (VB (negb (neqb N x y)))
            else if String.eqb op "<" then Some (VB (nltb N x y))
            else if String.eqb op ">" then Some (VB (nltb N y x))
            else if String.eqb op "<=" then Some (VB (nleb N x y))
            else if String.eqb op ">=" then Some (VB (nleb N y x))
            else None
        | _, _ => None
        end
    end.

  (** dictionary keys: ints (n) or numbers (base), compared with == *)
  Definition key_eqb (a b : val) : bool :=
    match cmpv "==" a b with Some (VB r) => r | _ => false end.

  Definition nat_of (v : val) : option nat :=
    match v with VZ z => if Z.leb 0 z then Some (Z.to_nat z) else None | _ => None end.

  Fixpoint find_first (f : val -> bool) (i : nat) (l : list val) : option (nat * val) :=
    match l with
    | [] => None
    | x :: r => if f x then Some (i, x) else find_first f (S i) r
    end.

  Definition val_is (cls : string) (v : val) : bool :=
    match v with VE e => is_cls cls e | _ => false end.

  Fixpoint without (i : nat) (l : list val) : list val :=
    match i, l with
    | _, [] => []
    | O, _ :: r => r
    | S j, x :: r => x :: without j r
    end.

  (** the loops of comprehensions, as named higher-order functions (the body of the comprehension
      is passed as a closure), so that TieRules.v can reason about them once *)
  Section Loops.
    Fixpoint comp_loop (f : val -> option val) (keep : val -> option bool) (l : list val)
      : option (list val) :=
      match l with
      | [] => Some []
      | it :: rest =>
          match keep it, comp_loop f keep rest with
          | Some true, Some vs => match f it with Some v => Some (v :: vs) | None => None end
          | Some false, Some vs => Some vs
          | _, _ => None
          end
      end.

    Fixpoint kv_loop {A : Type} (f : val -> val -> option A) (l : list (val * val)) : option (list A) :=
      match l with
      | [] => Some []
      | (k, v) :: rest =>
          match f k v, kv_loop f rest with
          | Some w, Some ws => Some (w :: ws)
          | _, _ => None
          end
      end.

    Fixpoint enum_loop (f : nat -> val -> option val) (n : nat) (l : list val) : option (list val) :=
      match l with
      | [] => Some []
      | it :: rest =>
          match f n it, enum_loop f (S n) rest with
          | Some w, Some ws => Some (w :: ws)
          | _, _ => None
          end
      end.

    Fixpoint anyall_loop (all : bool) (f : val -> option val) (l : list val) : option bool :=
      match l with
      | [] => Some all
      | it :: rest =>
          match f it with
          | Some (VB b) =>
              if all then (if b then anyall_loop all f rest else Some false)
              else (if b then Some true else anyall_loop all f rest)
          | _ => None
          end
      end.

    Fixpoint key_loop (f : val -> option val) (l : list val) : option (list (val * val)) :=
      match l with
      | [] => Some []
      | it :: rest =>
          match f it, key_loop f rest with
          | Some k, Some ps => Some ((k, it) :: ps)
          | _, _ => None
          end
      end.

    Definition groups_of (ps : list (val * val)) : val :=
      VD (map (fun g => (fst g, VL (snd g)))
              (fold_left (fun g p => group_insert key_eqb (fst p) (snd p) g) ps [])).
  End Loops.

  Fixpoint ev (r : senv) (t : sx) {struct t} : option val :=
    let evargs :=
      fix evargs (l : list (string * sx)) : option (list val) :=
        match l with
        | [] => Some []
        | (k, a) :: rest =>
            match ev r a, evargs rest with
            | Some v, Some vs =>
                if String.eqb k "*" then
                  match v with VL items => Some (items ++ vs) | _ => None end
                else Some (v :: vs)
            | _, _ => None
            end
        end in
    let evlist :=
      fix evlist (l : list sx) : option (list val) :=
        match l with
        | [] => Some []
        | a :: rest =>
            match ev r a, evlist rest with
            | Some v, Some vs => Some (v :: vs)
            | _, _ => None
            end
        end in
    match t with
    | XSelf => slook "self" r
    | XName x => slook x r
    | XNone => Some VNone
    | XInt z => Some (VZ z)
    | XMathE => Some (VN (n_e N))
    | XAttr a f => match ev r a with Some v => attr v f | None => None end
    | XIntOp op a b =>
        match ev r a, ev r b with Some x, Some y => intop op x y | _, _ => None end
    | XGcd a b =>
        match ev r a, ev r b with
        | Some (VZ x), Some (VZ y) => Some (VZ (Z.gcd x y))
        | _, _ => None
        end
    | XIntegral a =>
        match ev r a with
        | Some (VN x) => Some (match nint N x with Some z => VZ z | None => VNone end)
        | Some (VZ z) => Some (VZ z)
        | _ => None
        end
    | XLen a => match ev r a with
                | Some (VL l) => Some (VZ (Z.of_nat (List.length l)))
                | _ => None
                end
    | XSlice a lo hi =>
        match ev r a with
        | Some (VL l) =>
            let olo := match lo with
                       | None => Some O
                       | Some tl => match ev r tl with Some v => nat_of v | None => None end
                       end in
            let ohi := match hi with
                       | None => Some (List.length l)
                       | Some th => match ev r th with Some v => nat_of v | None => None end
                       end in
            match olo, ohi with
            | Some i, Some j => Some (VL (skipn i (firstn j l)))
            | _, _ => None
            end
        | _ => None
        end
    | XIndex a i =>
        match ev r a, ev r i with
        | Some (VL l), Some vi =>
            match nat_of vi with Some k => nth_error l k | None => None end
        | _, _ => None
        end
    | XCtor cls args => match evargs args with Some vs => ctor cls vs | None => None end
    | XMf f args => match evargs args with Some vs => mfcall f vs | None => None end
    | XIsInst a cls =>
        match ev r a with
        | Some (VE e) => Some (VB (is_cls cls e))
        | Some _ => Some (VB false)
        | None => None
        end
    | XCmp op a b =>
        match ev r a, ev r b with Some x, Some y => cmpv op x y | _, _ => None end
    | XIsNone a =>
        match ev r a with
        | Some VNone => Some (VB true)
        | Some _ => Some (VB false)
        | None => None
        end
    | XParity odd a =>
        match ev r a with
        | Some (VZ z) => Some (VB (if odd then Z.odd z else Z.even z))
        | _ => None
        end
    | XAnd a b =>
        match ev r a with
        | Some (VB true) => match ev r b with Some (VB y) => Some (VB y) | _ => None end
        | Some (VB false) => Some (VB false)
        | _ => None
        end
    | XNot a => match ev r a with Some (VB x) => Some (VB (negb x)) | _ => None end
    | XComp body x iter cond =>
        match ev r iter with
        | Some (VL items) =>
            option_map VL
              (comp_loop (fun it => ev ((x, it) :: r) body)
                         (fun it => match cond with
                                    | None => Some true
                                    | Some c => match ev ((x, it) :: r) c with
                                                | Some (VB k) => Some k
                                                | _ => None
                                                end
                                    end)
                         items)
        | _ => None
        end
    | XCompKV body k v iter =>
        match ev r iter with
        | Some (VD d) =>
            option_map VL (kv_loop (fun kk vv => ev ((v, vv) :: (k, kk) :: r) body) d)
        | _ => None
        end
    | XCompEnum body i x iter =>
        match ev r iter with
        | Some (VL items) =>
            option_map VL
              (enum_loop (fun n it => ev ((x, it) :: (i, VZ (Z.of_nat n)) :: r) body) O items)
        | _ => None
        end
    | XAnyAll all body x iter =>
        match ev r iter with
        | Some (VL items) =>
            option_map VB (anyall_loop all (fun it => ev ((x, it) :: r) body) items)
        | _ => None
        end
    | XValues a => match ev r a with Some (VD d) => Some (VL (map snd d)) | _ => None end
    | XFirstOfType a cls =>
        match ev r a with
        | Some (VL l) =>
            Some (match find_first (val_is cls) O l with
                  | Some (i, x) => VTup (VZ (Z.of_nat i)) x
                  | None => VNone
                  end)
        | _ => None
        end
    | XPartition a cls =>
        match ev r a with
        | Some (VL l) =>
            Some (VTup (VL (filter (val_is cls) l)) (VL (filter (fun x => negb (val_is cls x)) l)))
        | _ => None
        end
    | XGroupBy a x key =>
        match ev r a with
        | Some (VL items) =>
            option_map groups_of (key_loop (fun it => ev ((x, it) :: r) key) items)
        | _ => None
        end
    | XMapValues a k v body =>
        match ev r a with
        | Some (VD d) =>
            option_map VD
              (kv_loop (fun kk vv => match ev ((v, vv) :: (k, kk) :: r) body with
                                     | Some w => Some (kk, w)
                                     | None => None
                                     end) d)
        | _ => None
        end
    | XWithout a i =>
        match ev r a, ev r i with
        | Some (VL l), Some vi =>
            match nat_of vi with Some k => Some (VL (without k l)) | None => None end
        | _, _ => None
        end
    | XCall f args => match evlist args with Some vs => oracle f vs | None => None end
    end.

  (** blocks: [inl r'] fell through with environment r'; [inr v] returned v *)
  Definition sflow := (senv + val)%type.

  Fixpoint sexec (r : senv) (s : sstmt) {struct s} : option sflow :=
    let block :=
      fix block (r : senv) (l : list sstmt) {struct l} : option sflow :=
        match l with
        | [] => Some (inl r)
        | s :: rest =>
            match sexec r s with
            | Some (inl r') => block r' rest
            | Some (inr v) => Some (inr v)
            | None => None
            end
        end in
    match s with
    | SReturn t => match ev r t with Some v => Some (inr v) | None => None end
    | SIf c th el =>
        match ev r c with
        | Some (VB true) => block r th
        | Some (VB false) => block r el
        | _ => None
        end
    | SAssign x t => match ev r t with Some v => Some (inl ((x, v) :: r)) | None => None end
    | SAssign2 x y t =>
        match ev r t with
        | Some (VTup a b) => Some (inl ((y, b) :: (x, a) :: r))
        | _ => None
        end
    | SPass => Some (inl r)
    end.

  Fixpoint sexec_block (r : senv) (l : list sstmt) : option sflow :=
    match l with
    | [] => Some (inl r)
    | s :: rest =>
        match sexec r s with
        | Some (inl r') => sexec_block r' rest
        | Some (inr v) => Some (inr v)
        | None => None
        end
    end.

  (** calling a translated method on [self] with positional arguments; falling off the end
      returns None, as in Python.  [None] = the interpreter got stuck (a Python type error). *)
  Definition scall (f : sfun) (self : val) (args : list val) : option val :=
    if Nat.eqb (List.length (s_params f)) (List.length args) then
      match sexec_block (("self", self) :: combine (s_params f) args) (s_body f) with
      | Some (inr v) => Some v
      | Some (inl _) => Some VNone
      | None => None
      end
    else None.

  (** a reducer: the result as [option E] *)
  Definition as_reduced (o : option val) : option (option E) :=
    match o with
    | Some (VE e) => Some (Some e)
    | Some VNone => Some None
    | _ => None
    end.
End Interp.

Arguments VE {T} e.
Arguments VN {T} x.
Arguments VZ {T} z.
Arguments VB {T} b.
Arguments VNone {T}.
Arguments VS {T} x.
Arguments VL {T} l.
Arguments VTup {T} a b.
Arguments VD {T} d.
