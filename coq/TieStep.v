(** * TieStep: _take_reduction_step (three base classes, two leaves),
    _consolidate_expression_lacking_variables and _fully_reduce of the CURRENT source
    (GeneratedStep.v, regenerated on every run), interpreted by StepAst, compute exactly the flag model
    of Stateful.v part B ([take_step_f], [consolidate_f], [fully_reduce_f]) — for every number
    interface, every flag table (whatever earlier simplifications left behind) and every tree. *)
From Coq Require Import ZArith List Bool String Lia.
From SM Require Import Num Syntax Outcome MathFun Eval Rules Driver Stateful StepAst GeneratedStep.
Import ListNotations.
Open Scope string_scope.
Open Scope list_scope.

Section Tie.
  Context {T : Type} (N : NumOps T).
  Notation E := (expr T).
  Variable E_eqb : E -> E -> bool.
  Variable budget : nat.
  Notation flags := (flags (T:=T)).

  Definition call (fn : tfun) (f : flags) (e : E) := tcall N E_eqb budget fn f e.

  Definition model_step_list (f1 : flags) :=
    fix step_list (l : list E) : option (flags * list E) :=
      match l with
      | [] => None
      | x :: r =>
          if reduced f1 x then
            match step_list r with
            | Some (f2, r') => Some (f2, x :: r')
            | None => None
            end
          else let (f2, x') := take_step_f N E_eqb f1 x in Some (f2, x' :: r)
      end.

  Ltac opq := cbn -[eval take_step_f consolidate_f apply_reducers mark_reduced mark_failed var_free model_step_list].

  (** ** constant folding *)
  Lemma consolidate_tied : forall f e,
    call gen_step_Expression_consolidate f e =
    match (if var_free e then match e with Const _ => false | _ => negb (failed f e) end else false),
          eval N [] e with
    | true, PyErr k => PyErr k
    | true, CoordMissing => CoordMissing
    | _, _ => let (f1, c) := consolidate_f N E_eqb f e in
              Val (f1, match c with Some c' => TVE c' | None => TVNone end)
    end.
  Proof.
    intros f e. unfold call, tcall, consolidate_f. opq.
    destruct (var_free e); opq; [|reflexivity].
    destruct e; opq; try reflexivity;
      (destruct (failed f _); opq; [reflexivity|];
       destruct (eval N [] _); reflexivity).
  Qed.

  (** ** leaves *)
  Lemma step_Constant_tied : forall f c,
    call gen_step_Constant_step f (Const c) = Val (mark_reduced E_eqb f (Const c), TVE (Const c)).
  Proof. reflexivity. Qed.

  Lemma step_Variable_tied : forall f x,
    call gen_step_Variable_step f (Var x) = Val (mark_reduced E_eqb f (Var x), TVE (Var x)).
  Proof. reflexivity. Qed.

  Lemma leaf_model : forall f (e : E),
    match e with Const _ | Var _ => True | _ => False end ->
    reduced f e = false -> take_step_f N E_eqb f e = (mark_reduced E_eqb f e, e).
  Proof.
    intros f e He Hr. destruct e; try contradiction; cbn [take_step_f]; rewrite Hr; reflexivity.
  Qed.
  Definition ret (r : flags * E) : tres (tval (T:=T)) := Val (fst r, TVE (snd r)).

  (** ** unary nodes *)
  Lemma step_Unary_tied : forall f e,
    match e with
    | Neg _ | Recip _ | Sin _ | Cos _ | NthPow _ _ | NthRoot _ _ | Exp _ _ | Log _ _ =>
        call gen_step_UnaryExpression_step f e = ret (take_step_f N E_eqb f e)
    | _ => True
    end.
  Proof.
    intros f e. destruct e; try exact I;
      (unfold call, tcall, ret; cbn [take_step_f]; opq;
       destruct (reduced f _) eqn:Hr; opq; [reflexivity|];
       destruct (consolidate_f N E_eqb f _) as [f1 [c|]] eqn:Hc; opq; [reflexivity|];
       destruct (reduced f1 e) eqn:Hr1; opq;
       [ destruct (apply_reducers N _) as [[nm e']|]; reflexivity
       | destruct (take_step_f N E_eqb f1 e) as [f2 a']; reflexivity ]).
  Qed.

  (** ** binary nodes *)
  Lemma step_Binary_tied : forall f e,
    match e with
    | Minus _ _ | Divide _ _ | Power _ _ =>
        call gen_step_BinaryExpression_step f e = ret (take_step_f N E_eqb f e)
    | _ => True
    end.
  Proof.
    intros f e. destruct e; try exact I;
      (unfold call, tcall, ret; cbn [take_step_f]; opq;
       destruct (reduced f _) eqn:Hr; opq; [reflexivity|];
       destruct (consolidate_f N E_eqb f _) as [f1 [c|]] eqn:Hc; opq; [reflexivity|];
       destruct (reduced f1 e1) eqn:Hr1; opq;
       [ destruct (reduced f1 e2) eqn:Hr2; opq;
         [ destruct (apply_reducers N _) as [[nm e']|]; reflexivity
         | destruct (take_step_f N E_eqb f1 e2) as [f2 b']; reflexivity ]
       | destruct (take_step_f N E_eqb f1 e1) as [f2 a']; reflexivity ]).
  Qed.
  (** ** n-ary nodes *)
  Lemma updated_at_app : forall (pre : list E) x rest x',
    updated_at (pre ++ x :: rest) (List.length pre) x' = pre ++ x' :: rest.
  Proof. induction pre as [|a pre IH]; intros; cbn [app List.length updated_at]; [reflexivity|]. rewrite IH. reflexivity. Qed.

  Lemma enum_spec : forall (C : list E -> E) (self : E) (l : list E)
                           (body : tenv (T:=T) -> flags -> nat -> E -> tres tflow) (f1 : flags),
    (forall r n it, tlook "self" r = Some (TVE self) ->
       exists r', tlook "self" r' = Some (TVE self) /\
         body r f1 n it =
           if reduced f1 it then Val (f1, inl r')
           else let (f2, it') := take_step_f N E_eqb f1 it in Val (f2, inr (TVE (C (updated_at l n it'))))) ->
    forall suf pre r, l = pre ++ suf -> tlook "self" r = Some (TVE self) ->
      match model_step_list f1 suf with
      | Some (f2, suf') => tenum_loop body (List.length pre) r f1 suf = Val (f2, inr (TVE (C (pre ++ suf'))))
      | None => exists r', tlook "self" r' = Some (TVE self) /\
                           tenum_loop body (List.length pre) r f1 suf = Val (f1, inl r')
      end.
  Proof.
    intros C self l body f1 Hb suf. induction suf as [|x suf IH]; intros pre r Hl Hr.
    - cbn [model_step_list tenum_loop]. exists r. split; [exact Hr | reflexivity].
    - cbn [model_step_list tenum_loop].
      destruct (Hb r (List.length pre) x Hr) as (r1 & Hr1 & Hbody). rewrite Hbody.
      destruct (reduced f1 x) eqn:Hx; cbn [bind].
      + specialize (IH (pre ++ [x]) r1).
        assert (Hl' : l = (pre ++ [x]) ++ suf) by (rewrite <- app_assoc; exact Hl).
        specialize (IH Hl' Hr1). rewrite app_length in IH. cbn [List.length] in IH.
        replace (List.length pre + 1)%nat with (S (List.length pre)) in IH by lia.
        destruct (model_step_list f1 suf) as [[f2 suf']|].
        * rewrite IH. rewrite <- app_assoc. reflexivity.
        * exact IH.
      + destruct (take_step_f N E_eqb f1 x) as [f2 x']. cbn [bind].
        rewrite Hl, updated_at_app. reflexivity.
  Qed.
  Lemma take_step_Add_unfold : forall f l,
    take_step_f N E_eqb f (Add l) =
    if reduced f (Add l) then (f, Add l)
    else match consolidate_f N E_eqb f (Add l) with
         | (f1, Some c) => (f1, c)
         | (f1, None) =>
             match model_step_list f1 l with
             | Some (f2, l') => (f2, Add l')
             | None => match apply_reducers N (Add l) with
                       | Some (_, e') => (f1, e')
                       | None => (mark_reduced E_eqb f1 (Add l), Add l)
                       end
             end
         end.
  Proof. reflexivity. Qed.

  Lemma take_step_Mul_unfold : forall f l,
    take_step_f N E_eqb f (Mul l) =
    if reduced f (Mul l) then (f, Mul l)
    else match consolidate_f N E_eqb f (Mul l) with
         | (f1, Some c) => (f1, c)
         | (f1, None) =>
             match model_step_list f1 l with
             | Some (f2, l') => (f2, Mul l')
             | None => match apply_reducers N (Mul l) with
                       | Some (_, e') => (f1, e')
                       | None => (mark_reduced E_eqb f1 (Mul l), Mul l)
                       end
             end
         end.
  Proof. reflexivity. Qed.

  Ltac nary_step C :=
    unfold call, tcall, ret; rewrite ?take_step_Add_unfold, ?take_step_Mul_unfold; opq;
    destruct (reduced _ _) eqn:Hr; opq; [reflexivity|];
    destruct (consolidate_f N E_eqb _ _) as [f1 [c|]] eqn:Hc; opq; [reflexivity|];
    match goal with
    | |- context [tenum_loop ?body 0 ?r0 f1 ?l] =>
        let Hs := fresh "Hs" in
        assert (Hs : forall r n it, tlook "self" r = Some (TVE (C l)) ->
                  exists r', tlook "self" r' = Some (TVE (C l)) /\
                    body r f1 n it =
                      if reduced f1 it then Val (f1, inl r')
                      else let (f2, it') := take_step_f N E_eqb f1 it in
                           Val (f2, inr (TVE (C (updated_at l n it')))));
        [ intros r n it Hself; exists (("inner", TVE it) :: ("i", TVNat n) :: r); split; [exact Hself|];
          opq; destruct (reduced f1 it); opq; [reflexivity|];
          destruct (take_step_f N E_eqb f1 it) as [f2 it']; opq;
          repeat (rewrite ?Hself, ?app_nil_r; opq); reflexivity
        | pose proof (enum_spec C (C l) l body f1 Hs l [] r0 eq_refl eq_refl) as Hloop;
          cbn [List.length app] in Hloop;
          destruct (model_step_list f1 l) as [[f2 l']|];
          [ rewrite Hloop; opq; reflexivity
          | destruct Hloop as (r' & Hself' & Hloop); rewrite Hloop; opq; rewrite Hself'; opq;
            destruct (apply_reducers N (C l)) as [[nm e']|]; opq; repeat (rewrite ?Hself'; opq); reflexivity ] ]
    end.

  Lemma step_NAry_tied : forall f e,
    match e with
    | Add _ | Mul _ => call gen_step_NAryExpression_step f e = ret (take_step_f N E_eqb f e)
    | _ => True
    end.
  Proof.
    intros f e. destruct e; try exact I.
    - nary_step (@Add T).
    - nary_step (@Mul T).
  Qed.
  (** ** _fully_reduce: the model with the forced flag at exhaustion written out *)
  Fixpoint fully_reduce_marking (b : nat) (f : flags) (e : E) : flags * E :=
    match b with
    | O => (mark_reduced E_eqb f e, e)
    | S b' =>
        if reduced f e then (f, e)
        else let (f1, e1) := take_step_f N E_eqb f e in fully_reduce_marking b' f1 e1
    end.

  Lemma fully_reduce_marking_form : forall b f e,
    snd (fully_reduce_marking b f e) = snd (fully_reduce_f N E_eqb b f e).
  Proof.
    induction b as [|b IH]; intros f e; cbn [fully_reduce_marking fully_reduce_f]; [reflexivity|].
    destruct (reduced f e); [reflexivity|]. destruct (take_step_f N E_eqb f e) as [f1 e1]. apply IH.
  Qed.

  (* the tables differ only when the budget ran out: then the final form got the forced flag *)
  Lemma fully_reduce_marking_flags : forall b f e,
    fst (fully_reduce_marking b f e) = fst (fully_reduce_f N E_eqb b f e) \/
    fst (fully_reduce_marking b f e)
    = mark_reduced E_eqb (fst (fully_reduce_f N E_eqb b f e)) (snd (fully_reduce_f N E_eqb b f e)).
  Proof.
    induction b as [|b IH]; intros f e; cbn [fully_reduce_marking fully_reduce_f]; [right; reflexivity|].
    destruct (reduced f e); [left; reflexivity|]. destruct (take_step_f N E_eqb f e) as [f1 e1]. apply IH.
  Qed.

  Lemma budget_loop_spec : forall (body : tenv (T:=T) -> flags -> tres tflow),
    (forall r f e, tlook "expression" r = Some (TVE e) ->
       body r f = if reduced f e then Val (f, inr (TVE e))
                  else let (f1, e1) := take_step_f N E_eqb f e in Val (f1, inl (("expression", TVE e1) :: r))) ->
    forall b r f e, tlook "expression" r = Some (TVE e) ->
      match tbudget_loop body b r f with
      | Val (f', inr w) => b <> O /\ (f', w) = (fst (fully_reduce_marking b f e), TVE (snd (fully_reduce_marking b f e)))
                           /\ True
      | Val (f', inl r') => exists e', tlook "expression" r' = Some (TVE e') /\
                                       (mark_reduced E_eqb f' e', e') = fully_reduce_marking b f e
      | _ => False
      end.
  Proof.
    intros body Hb b. induction b as [|b IH]; intros r f e Hr; cbn [tbudget_loop fully_reduce_marking].
    - exists e. split; [exact Hr | reflexivity].
    - rewrite (Hb r f e Hr). destruct (reduced f e) eqn:Hre; cbn [bind].
      + split; [discriminate|]. split; reflexivity.
      + destruct (take_step_f N E_eqb f e) as [f1 e1]. cbn [bind].
        specialize (IH (("expression", TVE e1) :: r) f1 e1 eq_refl).
        destruct (tbudget_loop body b (("expression", TVE e1) :: r) f1) as [[f' [r'|w]]| | |k]; try contradiction.
        * exact IH.
        * destruct IH as (Hb0 & Heq & _). split; [discriminate|]. split; [exact Heq | exact I].
  Qed.
  Theorem fully_reduce_tied : forall f e,
    call gen_step_Expression_fully_reduce f e = ret (fully_reduce_marking budget f e).
  Proof.
    intros f e. unfold call, tcall, ret. opq.
    match goal with
    | |- context [tbudget_loop ?body budget ?r0 f] =>
        assert (Hs : forall r f0 e0, tlook "expression" r = Some (TVE e0) ->
                  body r f0 = if reduced f0 e0 then Val (f0, inr (TVE e0))
                              else let (f1, e1) := take_step_f N E_eqb f0 e0 in
                                   Val (f1, inl (("expression", TVE e1) :: r)));
        [ intros r f0 e0 Hr; opq; rewrite Hr; opq; destruct (reduced f0 e0); opq; [reflexivity|];
          rewrite Hr; opq; destruct (take_step_f N E_eqb f0 e0); reflexivity
        | pose proof (budget_loop_spec body Hs budget r0 f e eq_refl) as Hloop;
          destruct (tbudget_loop body budget r0 f) as [[f' [r'|w]]| | |k]; try contradiction ]
    end.
    - destruct Hloop as (e' & Hr' & Heq). opq. rewrite Hr'. opq. rewrite Hr'. opq. rewrite <- Heq. reflexivity.
    - destruct Hloop as (_ & Heq & _). opq. inversion Heq; subst. reflexivity.
  Qed.

  (** ** the step as a whole: method resolution per class, then the tied body *)
  Definition gen_step (f : flags) (e : E) : tres (tval (T:=T)) :=
    match e with
    | Const _ => call gen_step_Constant_step f e
    | Var _ => call gen_step_Variable_step f e
    | Add _ | Mul _ => call gen_step_NAryExpression_step f e
    | Minus _ _ | Divide _ _ | Power _ _ => call gen_step_BinaryExpression_step f e
    | _ => call gen_step_UnaryExpression_step f e
    end.

  Theorem take_step_tied : forall f e,
    match e with
    | Const _ | Var _ =>
        gen_step f e = Val (mark_reduced E_eqb f e, TVE e) /\
        (reduced f e = false -> take_step_f N E_eqb f e = (mark_reduced E_eqb f e, e)) /\
        snd (take_step_f N E_eqb f e) = e
    | _ => gen_step f e = ret (take_step_f N E_eqb f e)
    end.
  Proof.
    intros f e. destruct e; unfold gen_step.
    - repeat split; [intros H; apply leaf_model; [exact I | exact H] | cbn [take_step_f]; destruct (reduced f _); reflexivity].
    - repeat split; [intros H; apply leaf_model; [exact I | exact H] | cbn [take_step_f]; destruct (reduced f _); reflexivity].
    - apply (step_NAry_tied f (Add l)). - apply (step_NAry_tied f (Mul l)).
    - apply (step_Binary_tied f (Minus e1 e2)). - apply (step_Binary_tied f (Divide e1 e2)).
    - apply (step_Binary_tied f (Power e1 e2)).
    - apply (step_Unary_tied f (Neg e)). - apply (step_Unary_tied f (Recip e)).
    - apply (step_Unary_tied f (Sin e)). - apply (step_Unary_tied f (Cos e)).
    - apply (step_Unary_tied f (NthPow e n)). - apply (step_Unary_tied f (NthRoot e n)).
    - apply (step_Unary_tied f (Exp e base)). - apply (step_Unary_tied f (Log e base)).
  Qed.
End Tie.
