(** * PyNum: Python's int/float tower (CPython 3.12) over a record of raw IEEE-double primitives.

    This is the executable instance of [NumOps]: it is extracted to OCaml, the record
    [FloatOps] is filled by ocaml/driver.ml with OCaml's native float operations (the same
    glibc libm CPython calls), and its results are compared bit for bit with the
    implementation.  The int/float tag is kept because CPython's builtin [sum] treats int and
    float items differently (Neumaier compensation applies to float items only). *)
From Coq Require Import ZArith List Bool.
From SM Require Import Num.
Import ListNotations.

Record FloatOps (F : Type) : Type := mkFloatOps {
  f_add : F -> F -> F;
  f_sub : F -> F -> F;
  f_mul : F -> F -> F;
  f_div : F -> F -> F;
  f_pow : F -> F -> F;        (* C pow *)
  f_neg : F -> F;
  f_abs : F -> F;
  f_sqrt : F -> F;
  f_cbrt : F -> F;
  f_log : F -> F;
  f_sin : F -> F;
  f_cos : F -> F;
  f_ofZ : Z -> F;             (* int -> double, round to nearest even (inf on overflow) *)
  f_eqb : F -> F -> bool;
  f_ltb : F -> F -> bool;
  f_is_integer : F -> bool;   (* float.is_integer(): finite and integral *)
  f_floorZ : F -> Z;          (* floor of a finite double *)
  f_ceilZ : F -> Z;           (* ceil of a finite double *)
  f_is_finite : F -> bool;
  f_e : F;                    (* math.e = 0x1.5bf0a8b145769p+1 *)
}.

Arguments f_add {F} _ _ _.
Arguments f_sub {F} _ _ _.
Arguments f_mul {F} _ _ _.
Arguments f_div {F} _ _ _.
Arguments f_pow {F} _ _ _.
Arguments f_neg {F} _ _.
Arguments f_abs {F} _ _.
Arguments f_sqrt {F} _ _.
Arguments f_cbrt {F} _ _.
Arguments f_log {F} _ _.
Arguments f_sin {F} _ _.
Arguments f_cos {F} _ _.
Arguments f_ofZ {F} _ _.
Arguments f_eqb {F} _ _ _.
Arguments f_ltb {F} _ _ _.
Arguments f_is_integer {F} _ _.
Arguments f_floorZ {F} _ _.
Arguments f_ceilZ {F} _ _.
Arguments f_is_finite {F} _ _.
Arguments f_e {F} _.

Inductive pynum (F : Type) : Type :=
| PInt (z : Z)
| PFloat (f : F).
Arguments PInt {F} z.
Arguments PFloat {F} f.

Section PyNum.
  Context {F : Type} (O : FloatOps F).
  Notation num := (pynum F).

  (* float(x) as a raw double *)
  Definition to_f (x : num) : F :=
    match x with PInt z => f_ofZ O z | PFloat f => f end.

  Definition py_float (x : num) : num := PFloat (to_f x).

  Definition py_add (x y : num) : num :=
    match x, y with
    | PInt a, PInt b => PInt (a + b)
    | _, _ => PFloat (f_add O (to_f x) (to_f y))
    end.

  Definition py_sub (x y : num) : num :=
    match x, y with
    | PInt a, PInt b => PInt (a - b)
    | _, _ => PFloat (f_sub O (to_f x) (to_f y))
    end.

  Definition py_mul (x y : num) : num :=
    match x, y with
    | PInt a, PInt b => PInt (a * b)
    | _, _ => PFloat (f_mul O (to_f x) (to_f y))
    end.

  (* true division; int / int is exact-then-rounded in CPython, which coincides with the
     quotient of the converted doubles whenever both ints are below 2^53 in magnitude *)
  Definition py_div (x y : num) : num := PFloat (f_div O (to_f x) (to_f y)).

  Definition py_neg (x : num) : num :=
    match x with PInt a => PInt (- a) | PFloat f => PFloat (f_neg O f) end.

  (* floatobject.c float_pow on finite arguments (the callers exclude 0 ** negative and
     negative ** non-integer) *)
  Definition float_pow (iv iw : F) : F :=
    if f_ltb O iv (f_ofZ O 0) && f_is_integer O iw then
      let r := f_pow O (f_neg O iv) iw in
      if Z.odd (f_floorZ O iw) then f_neg O r else r
    else f_pow O iv iw.

  (* int ** non-negative int, by squaring (Z.pow iterates linearly in the exponent) *)
  Fixpoint pow_pos_sq (a : Z) (p : positive) : Z :=
    match p with
    | xH => a
    | xO q => let r := pow_pos_sq a q in (r * r)%Z
    | xI q => let r := pow_pos_sq a q in (a * (r * r))%Z
    end.
  Definition int_pow (a b : Z) : Z :=
    match b with
    | Z0 => 1%Z
    | Zpos p => pow_pos_sq a p
    | Zneg _ => 0%Z
    end.

  Definition py_pow (x y : num) : num :=
    match x, y with
    | PInt a, PInt b =>
        if Z.leb 0 b then
          (* |a|^b >= 2^1024 cannot be converted by float() (OverflowError at every call site, which all
             wrap the power in float()): return the infinity instead of computing a million-bit integer *)
          if Z.leb 2 (Z.abs a) && Z.leb 1024 b
          then PFloat (let inf := f_ofZ O (Z.shiftl 1 2000) in
                       if Z.ltb a 0 && Z.odd b then f_neg O inf else inf)
          else PInt (int_pow a b)
        else PFloat (float_pow (f_ofZ O a) (f_ofZ O b))
    | _, _ => PFloat (float_pow (to_f x) (to_f y))
    end.

  Definition py_eqb (x y : num) : bool :=
    match x, y with
    | PInt a, PInt b => Z.eqb a b
    | PFloat f, PFloat g => f_eqb O f g
    | PInt a, PFloat f | PFloat f, PInt a => f_is_integer O f && Z.eqb (f_floorZ O f) a
    end.

  Definition py_ltb (x y : num) : bool :=
    match x, y with
    | PInt a, PInt b => Z.ltb a b
    | PFloat f, PFloat g => f_ltb O f g
    | PInt a, PFloat f =>
        if f_is_finite O f then Z.ltb a (f_ceilZ O f) else f_ltb O (f_ofZ O 0) f
    | PFloat f, PInt a =>
        if f_is_finite O f then Z.ltb (f_floorZ O f) a else f_ltb O f (f_ofZ O 0)
    end.

  (* utilities.integer_from_integral_float *)
  Definition py_int (x : num) : option Z :=
    match x with
    | PInt a => Some a
    | PFloat f => if f_is_integer O f then Some (f_floorZ O f) else None
    end.

  Definition py_finite (x : num) : bool :=
    match x with PInt _ => true | PFloat f => f_is_finite O f end.

  (** builtin sum(), bltinmodule.c of CPython 3.12 *)
  Definition f_geb (a b : F) : bool := f_ltb O b a || f_eqb O a b.

  Fixpoint sum_float (fr c : F) (l : list num) : F :=
    match l with
    | [] =>
        if negb (f_eqb O c (f_ofZ O 0)) && f_is_finite O c then f_add O fr c else fr
    | PFloat x :: r =>
        let t := f_add O fr x in
        let c' := if f_geb (f_abs O fr) (f_abs O x)
                  then f_add O c (f_add O (f_sub O fr t) x)
                  else f_add O c (f_add O (f_sub O x t) fr) in
        sum_float t c' r
    | PInt z :: r => sum_float (f_add O fr (f_ofZ O z)) c r
    end.

  Fixpoint sum_int (i : Z) (l : list num) : num :=
    match l with
    | [] => PInt i
    | PInt z :: r => sum_int (i + z) r
    | PFloat x :: r => PFloat (sum_float (f_add O (f_ofZ O i) x) (f_ofZ O 0) r)
    end.

  Definition py_sum (l : list num) : num := sum_int 0 l.

  Definition PyNumInst : NumOps num := {|
    nofZ := fun z => PInt z;
    nfloat := py_float;
    n_e := PFloat (f_e O);
    nsum := py_sum;
    nadd := py_add;
    nsub := py_sub;
    nmul := py_mul;
    ndiv := py_div;
    nneg := py_neg;
    npow := py_pow;
    npowi := fun x n => py_pow x (PInt (Zpos n));
    nsqrt := fun x => PFloat (f_sqrt O (to_f x));
    ncbrt := fun x => PFloat (f_cbrt O (to_f x));
    nln := fun x => PFloat (f_log O (to_f x));
    nsin := fun x => PFloat (f_sin O (to_f x));
    ncos := fun x => PFloat (f_cos O (to_f x));
    neqb := py_eqb;
    nltb := py_ltb;
    nint := py_int;
    nfinite := py_finite;
  |}.
End PyNum.
