(** * Reverse: model of _compute_numeric_partials (reverse mode) with NumericPartialsAccumulator,
    Expression._numeric_partials and LocatedDifferential. *)
From Coq Require Import ZArith List Bool.
From SM Require Import Num Syntax Outcome MathFun Eval Forward.
Import ListNotations.

Section Reverse.
  Context {T : Type} (N : NumOps T).
  Notation "0" := (n0 N).
  Notation "1" := (n1 N).

  (** NumericPartialsAccumulator: a dict  name -> number  in insertion order *)
  Definition accum := list (name * T).

  (* self._numeric_partials.get(variable_name, 0) *)
  Definition acc_get (acc : accum) (x : name) : T :=
    match lookup x acc with Some v => v | None => 0 end.

  Fixpoint acc_set (acc : accum) (x : name) (v : T) : accum :=
    match acc with
    | [] => [(x, v)]
    | (y, w) :: r => if name_eqb x y then (y, v) :: r else (y, w) :: acc_set r x v
    end.

  (* add_to: existing = get(name, 0); dict[name] = existing + contribution *)
  Definition acc_add (acc : accum) (x : name) (c : T) : accum :=
    acc_set acc x (nadd N (acc_get acc x) c).

  Fixpoint rev (p : point T) (e : expr T) (m : T) (acc : accum) {struct e} : outcome accum :=
    match e with
    | Const _ => Val acc
    | Var x => Val (acc_add acc x m)
    | Add l =>
        (fix go (l : list (expr T)) (acc : accum) {struct l} : outcome accum :=
           match l with
           | [] => Val acc
           | x :: r => acc' <- rev p x m acc ;; go r acc'
           end) l acc
    | Minus a b =>
        acc1 <- rev p a m acc ;;
        rev p b (mf_negation N m) acc1
    | Mul l =>
        vs <- eval_list N p l ;;
        (fix go (i : nat) (l : list (expr T)) (acc : accum) {struct l} : outcome accum :=
           match l with
           | [] => Val acc
           | x :: r =>
               acc' <- rev p x (mf_multiply N (m :: remove_nth i vs)) acc ;;
               go (S i) r acc'
           end) O l acc
    | Divide a b =>
        lv <- eval N p a ;;
        rv <- eval N p b ;;
        _ <- verify_divide N lv rv ;;
        ml <- divide_formula_left N p a b m ;;
        mr <- divide_formula_right N p a b m ;;
        acc1 <- rev p a ml acc ;;
        rev p b mr acc1
    | Power a b =>
        _ <- eval N p e ;;                       (* the F1 repair *)
        sc <- power_shortcut N p a ;;
        if sc then Val acc
        else
          lv <- eval N p a ;;
          rv <- eval N p b ;;
          _ <- verify_power N lv rv ;;
          ml <- power_formula_left N p a b m ;;
          mr <- power_formula_right N p a b m ;;
          acc1 <- rev p a ml acc ;;
          rev p b mr acc1
    | Neg a | Recip a | Sin a | Cos a | NthPow a _ | NthRoot a _ | Exp a _ | Log a _ =>
        iv <- eval N p a ;;
        _ <- unary_verify N e iv ;;
        m' <- unary_formula N p e m ;;
        rev p a m' acc
    end.

  (** Expression._numeric_partials(point): the accumulator read back over an enumeration of the
      set [_variable_names]  ([enum] is the iteration order of that set: any permutation). *)
  Definition numeric_partials_for (acc : accum) (enum : list name) : list (name * T) :=
    map (fun x => (x, acc_get acc x)) enum.

  Definition numeric_partials (p : point T) (e : expr T) (enum : list name)
    : outcome (list (name * T)) :=
    acc <- rev p e 1 [] ;;
    Val (numeric_partials_for acc enum).

  (** LocatedDifferential(e, p).component(v) = self._numeric_partials.get(name, 0) *)
  Definition located_component (partials : list (name * T)) (v : name) : T :=
    match lookup v partials with Some d => d | None => 0 end.
End Reverse.
