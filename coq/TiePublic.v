(** Static tie: the public names. *)
From Coq Require Import List String Bool.
From SM Require Import Generated.
Import ListNotations.
Open Scope string_scope.

Definition model_public : list string :=
  [ "DomainError"; "CoordinateMissing"; "Point"; "Expression"; "Derivative"; "Differential";
    "Partial"; "LocatedDifferential"; "Variable"; "Constant"; "Add"; "Minus"; "Negation";
    "Multiply"; "Divide"; "Reciprocal"; "Power"; "NthPower"; "NthRoot"; "Exponential";
    "Logarithm"; "Cosine"; "Sine" ].
Lemma public_tied : gen_public = model_public.
Proof. reflexivity. Qed.

