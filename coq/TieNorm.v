(** * TieNorm: the _normalize_fully_reduced methods (Add, Multiply, the unary and binary base
    classes, the leaves) and the helpers _simplified_Add / _simplified_Multiply of the CURRENT
    source (GeneratedSym.v), interpreted by SymAst.scall, compute exactly one unfolding of the
    model's normal-form pass (Normalize.nfr) — for every number interface N and every tree.

    Calls that leave a method are interpreted by [norm_oracle]: [t._normalize()] by an arbitrary
    partial function [norm] (None = out of fuel), [t._normalize_fully_reduced()] by an arbitrary
    [pass], the two _simplified_* helpers by their own translated bodies' meaning (proved below),
    and [_rebuild] as "same class and parameter, new children" (modelled; exercised dynamically). *)
From Coq Require Import ZArith List Bool String Lia.
From SM Require Import Num Syntax Outcome MathFun Eval Rules Driver Normalize SymAst SymLemmas GeneratedSym.
Import ListNotations.
Open Scope string_scope.
Open Scope list_scope.

Section Tie.
  Context {T : Type} (N : NumOps T).
  Notation E := (expr T).
  Notation val := (val (T:=T)).
  Variable norm : E -> option E.     (* t._normalize() *)
  Variable pass : E -> option E.     (* t._normalize_fully_reduced() *)

  Definition ove (o : option E) : option val := match o with Some e => Some (VE e) | None => None end.

  Definition rebuild1 (e x : E) : option E :=
    match e with
    | Neg _ => Some (Neg x) | Recip _ => Some (Recip x) | Sin _ => Some (Sin x) | Cos _ => Some (Cos x)
    | NthPow _ n => Some (NthPow x n) | NthRoot _ n => Some (NthRoot x n)
    | Exp _ b => Some (Exp x b) | Log _ b => Some (Log x b)
    | _ => None
    end.
  Definition rebuild2 (e x y : E) : option E :=
    match e with
    | Minus _ _ => Some (Minus x y) | Divide _ _ => Some (Divide x y) | Power _ _ => Some (Power x y)
    | _ => None
    end.

  Definition norm_oracle (f : string) (args : list val) : option val :=
    if String.eqb f "_normalize" then
      match args with [VE t] => ove (norm t) | _ => None end
    else if String.eqb f "_normalize_fully_reduced" then
      match args with [VE t] => ove (pass t) | _ => None end
    else if String.eqb f "_simplified_Add" then
      match args with
      | [VL ts] => match as_exprs ts with Some l => Some (VE (simplified_add N l)) | None => None end
      | _ => None
      end
    else if String.eqb f "_simplified_Multiply" then
      match args with
      | [VL ts] => match as_exprs ts with Some l => Some (VE (simplified_multiply N l)) | None => None end
      | _ => None
      end
    else if String.eqb f "_rebuild" then
      match args with
      | [VE (Const c)] => Some (VE (Const c))
      | [VE (Var x)] => Some (VE (Var x))
      | [VE e; VE x] => ove (rebuild1 e x)
      | [VE e; VE x; VE y] => ove (rebuild2 e x y)
      | _ => None
      end
    else None.

  Ltac opq := cbn -[nofZ nfloat n_e nsum nadd nsub nmul ndiv nneg npow npowi nsqrt ncbrt nln nsin ncos neqb nltb
                    nint nfinite mf_add mf_multiply nat_of skipn firstn groups_of Z.div Z.sub Z.add
                    Z.even Z.odd Z.leb Z.of_nat List.length Pos.gcd Pos.eqb Pos.mul Pos.pred]; unfold n0, n1, nm1.

  Lemma nat_of_of_nat_0 : nat_of (@VZ T 0) = Some O.
  Proof. reflexivity. Qed.

  Lemma Zn_eqb0 : forall n, Z.eqb (Z.of_nat n) 0 = Nat.eqb n 0.
  Proof. intros. apply (Z_of_nat_eqb n 0). Qed.
  Lemma Zn_eqb1 : forall n, Z.eqb (Z.of_nat n) 1 = Nat.eqb n 1.
  Proof. intros. apply (Z_of_nat_eqb n 1). Qed.
  Lemma Zn_geb1 : forall n, Z.leb 1 (Z.of_nat n) = Nat.leb 1 n.
  Proof. intros. apply (Z_of_nat_leb 1 n). Qed.

  (** ** the helpers: as module functions they have no self *)
  Definition callfn (f : sfun) (args : list val) : option val :=
    if Nat.eqb (List.length (s_params f)) (List.length args) then
      match sexec_block N norm_oracle (combine (s_params f) args) (s_body f) with
      | Some (inr v) => Some v
      | Some (inl _) => Some VNone
      | None => None
      end
    else None.

  Lemma simplified_Add_tied : forall l : list E,
    callfn gen_sym_fn_simplified_Add [VL (map VE l)] = Some (VE (simplified_add N l)).
  Proof.
    intros l. unfold callfn. cbn [s_params gen_sym_fn_simplified_Add List.length Nat.eqb]. opq.
    rewrite map_length, Zn_eqb0, Zn_eqb1.
    destruct l as [|a [|b l]]; cbn [List.length Nat.eqb]; opq; try reflexivity.
    rewrite app_nil_r, as_exprs_VE. reflexivity.
  Qed.

  Lemma simplified_Multiply_tied : forall l : list E,
    callfn gen_sym_fn_simplified_Multiply [VL (map VE l)] = Some (VE (simplified_multiply N l)).
  Proof.
    intros l. unfold callfn. cbn [s_params gen_sym_fn_simplified_Multiply List.length Nat.eqb]. opq.
    rewrite map_length, Zn_eqb0, Zn_eqb1.
    destruct l as [|a [|b l]]; cbn [List.length Nat.eqb]; opq; try reflexivity.
    rewrite app_nil_r, as_exprs_VE. reflexivity.
  Qed.

  (** ** leaves, unary, binary *)
  Definition runn (f : sfun) (e : E) : option val := scall N norm_oracle f (VE e) [].

  Lemma nfr_Constant_tied : forall c, runn gen_sym_Constant_normalize_fully_reduced (Const c) = Some (VE (Const c)).
  Proof. reflexivity. Qed.

  Lemma nfr_Variable_tied : forall x, runn gen_sym_Variable_normalize_fully_reduced (Var x) = Some (VE (Var x)).
  Proof. reflexivity. Qed.

  Lemma nfr_Unary_tied : forall e,
    match e with
    | Neg a | Recip a | Sin a | Cos a | NthPow a _ | NthRoot a _ | Exp a _ | Log a _ =>
        runn gen_sym_UnaryExpression_normalize_fully_reduced e =
        ove (match pass a with Some x => rebuild1 e x | None => None end)
    | _ => True
    end.
  Proof.
    intros e. destruct e; try exact I; unfold runn, scall; opq; destruct (pass e); reflexivity.
  Qed.

  Lemma nfr_Binary_tied : forall e,
    match e with
    | Minus a b | Divide a b | Power a b =>
        runn gen_sym_BinaryExpression_normalize_fully_reduced e =
        ove (match pass a, pass b with Some x, Some y => rebuild2 e x y | _, _ => None end)
    | _ => True
    end.
  Proof.
    intros e. destruct e; try exact I; unfold runn, scall; opq;
      destruct (pass e1); opq; try reflexivity; destruct (pass e2); reflexivity.
  Qed.

  (** ** Add and Multiply *)
  Lemma comp_loop_omapM : forall (f : val -> option val) (g : E -> option E) (l : list E),
    (forall e, In e l -> f (VE e) = ove (g e)) ->
    comp_loop f (fun _ => Some true) (map VE l) =
    match omapM g l with Some xs => Some (map VE xs) | None => None end.
  Proof.
    intros f g l. induction l as [|a l IH]; intros Hf; cbn [map comp_loop omapM]; [reflexivity|].
    rewrite IH by (intros e He; apply Hf; right; exact He).
    rewrite (Hf a (or_introl eq_refl)).
    destruct (g a) as [y|]; cbn [ove]; destruct (omapM g l); reflexivity.
  Qed.

  Lemma omapM_ext_in : forall (f g : E -> option E) (l : list E),
    (forall e, In e l -> f e = g e) -> omapM f l = omapM g l.
  Proof.
    intros f g l. induction l as [|a l IH]; intros H; cbn [omapM]; [reflexivity|].
    rewrite (H a (or_introl eq_refl)), IH by (intros e He; apply H; right; exact He). reflexivity.
  Qed.

  Lemma nfr_Add_tied : forall l,
    runn gen_sym_Add_normalize_fully_reduced (Add l) =
    ove (let (negs, non_negs) := partition_by is_Neg l in
         match omapM norm non_negs, omapM (fun t => norm (inner_of t)) negs with
         | Some type_i, Some type_ii => Some (assemble_add N type_i type_ii)
         | _, _ => None
         end).
  Proof.
    intros l. unfold runn, scall, partition_by. opq.
    rewrite filter_val_is, filter_not_val_is.
    rewrite (filter_ext_in' _ (is_cls "Negation") is_Neg) by (intros a; destruct a; reflexivity).
    rewrite (filter_ext_in' _ (fun e => negb (is_cls "Negation" e)) (fun x => negb (is_Neg x)))
      by (intros a; destruct a; reflexivity).
    opq.
    rewrite (comp_loop_omapM _ norm) by (intros; reflexivity).
    destruct (omapM norm (filter (fun x => negb (is_Neg x)) l)) as [ti|]; opq; [|reflexivity].
    rewrite (comp_loop_omapM _ (fun t => norm (inner_of t))).
    2: { intros e He. apply filter_In_true in He. destruct e; try discriminate He. reflexivity. }
    destruct (omapM (fun t => norm (inner_of t)) (filter is_Neg l)) as [tii|]; opq; [|reflexivity].
    rewrite !map_length, !Zn_geb1, !Zn_eqb0.
    destruct ti as [|a ti]; destruct tii as [|b tii]; cbn [List.length Nat.leb Nat.eqb]; opq;
      rewrite ?as_exprs_VE; reflexivity.
  Qed.
  Lemma nfr_Multiply_tied : forall l,
    runn gen_sym_Multiply_normalize_fully_reduced (Mul l) =
    ove (let (recips, non_recips) := partition_by is_Recip l in
         match omapM norm non_recips, omapM (fun t => norm (inner_of t)) recips with
         | Some numer, Some denom => Some (assemble_multiply N numer denom)
         | _, _ => None
         end).
  Proof.
    intros l. unfold runn, scall, partition_by. opq.
    rewrite filter_val_is, filter_not_val_is.
    rewrite (filter_ext_in' _ (is_cls "Reciprocal") is_Recip) by (intros a; destruct a; reflexivity).
    rewrite (filter_ext_in' _ (fun e => negb (is_cls "Reciprocal" e)) (fun x => negb (is_Recip x)))
      by (intros a; destruct a; reflexivity).
    opq.
    rewrite (comp_loop_omapM _ norm) by (intros; reflexivity).
    destruct (omapM norm (filter (fun x => negb (is_Recip x)) l)) as [ti|]; opq; [|reflexivity].
    rewrite (comp_loop_omapM _ (fun t => norm (inner_of t))).
    2: { intros e He. apply filter_In_true in He. destruct e; try discriminate He. reflexivity. }
    destruct (omapM (fun t => norm (inner_of t)) (filter is_Recip l)) as [tii|]; opq; [|reflexivity].
    rewrite !map_length, !Zn_geb1, !Zn_eqb0.
    destruct ti as [|a ti]; destruct tii as [|b tii]; cbn [List.length Nat.leb Nat.eqb]; opq;
      rewrite ?as_exprs_VE; reflexivity.
  Qed.

  (** ** the model's pass, one unfolding at a time: with [norm] and [pass] instantiated by the
      model's own functions at depth d, the translated methods compute [nfr fuel (S d)] *)
End Tie.

Section Whole.
  Context {T : Type} (N : NumOps T).
  Notation E := (expr T).

  Definition gen_nfr (norm pass : E -> option E) (e : E) : option (val (T:=T)) :=
    match e with
    | Const _ => runn N norm pass gen_sym_Constant_normalize_fully_reduced e
    | Var _ => runn N norm pass gen_sym_Variable_normalize_fully_reduced e
    | Add _ => runn N norm pass gen_sym_Add_normalize_fully_reduced e
    | Mul _ => runn N norm pass gen_sym_Multiply_normalize_fully_reduced e
    | Minus _ _ | Divide _ _ | Power _ _ => runn N norm pass gen_sym_BinaryExpression_normalize_fully_reduced e
    | _ => runn N norm pass gen_sym_UnaryExpression_normalize_fully_reduced e
    end.

  Theorem nfr_tied : forall fuel d e,
    gen_nfr (fun t => nfr N fuel d (fully_reduce N fuel t)) (nfr N fuel d) e = ove (nfr N fuel (S d) e).
  Proof.
    intros fuel d e.
    destruct e; unfold gen_nfr.
    - apply nfr_Constant_tied.
    - apply nfr_Variable_tied.
    - rewrite nfr_Add_tied. cbn [nfr]. destruct (partition_by is_Neg l). reflexivity.
    - rewrite nfr_Multiply_tied. cbn [nfr]. destruct (partition_by is_Recip l). reflexivity.
    - rewrite (nfr_Binary_tied N _ _ (Minus e1 e2)). cbn [nfr rebuild2 opt_map2].
      destruct (nfr N fuel d e1), (nfr N fuel d e2); reflexivity.
    - rewrite (nfr_Binary_tied N _ _ (Divide e1 e2)). cbn [nfr rebuild2 opt_map2].
      destruct (nfr N fuel d e1), (nfr N fuel d e2); reflexivity.
    - rewrite (nfr_Binary_tied N _ _ (Power e1 e2)). cbn [nfr rebuild2 opt_map2].
      destruct (nfr N fuel d e1), (nfr N fuel d e2); reflexivity.
    - rewrite (nfr_Unary_tied N _ _ (Neg e)). cbn [nfr rebuild1 opt_map1]. destruct (nfr N fuel d e); reflexivity.
    - rewrite (nfr_Unary_tied N _ _ (Recip e)). cbn [nfr rebuild1 opt_map1]. destruct (nfr N fuel d e); reflexivity.
    - rewrite (nfr_Unary_tied N _ _ (Sin e)). cbn [nfr rebuild1 opt_map1]. destruct (nfr N fuel d e); reflexivity.
    - rewrite (nfr_Unary_tied N _ _ (Cos e)). cbn [nfr rebuild1 opt_map1]. destruct (nfr N fuel d e); reflexivity.
    - rewrite (nfr_Unary_tied N _ _ (NthPow e n)). cbn [nfr rebuild1 opt_map1]. destruct (nfr N fuel d e); reflexivity.
    - rewrite (nfr_Unary_tied N _ _ (NthRoot e n)). cbn [nfr rebuild1 opt_map1]. destruct (nfr N fuel d e); reflexivity.
    - rewrite (nfr_Unary_tied N _ _ (Exp e base)). cbn [nfr rebuild1 opt_map1]. destruct (nfr N fuel d e); reflexivity.
    - rewrite (nfr_Unary_tied N _ _ (Log e base)). cbn [nfr rebuild1 opt_map1]. destruct (nfr N fuel d e); reflexivity.
  Qed.
End Whole.
