(** * Synth: model of _synthetic_partial (forward symbolic route) and
    _compute_synthetic_partials with SyntheticPartialsAccumulator (reverse symbolic route). *)
From Coq Require Import ZArith List Bool.
From SM Require Import Num Syntax Outcome MathFun Eval Forward.
Import ListNotations.

Section Synth.
  Context {T : Type} (N : NumOps T).
  Notation C0 := (Const (n0 N)).
  Notation C1 := (Const (n1 N)).

  (** _synthetic_partial_formula of the unary classes; [e] is the node, [m] the inner partial
      or the incoming multiplier. *)
  Definition synth_unary_formula (e : expr T) (m : expr T) : expr T :=
    match e with
    | Neg a => Neg m
    | Recip a => Neg (Divide m (NthPow a 2))
    | Sin a => Mul [Cos a; m]
    | Cos a => Mul [Neg (Sin a); m]
    | NthPow a n =>
        match n with
        | 1%positive => m
        | _ => Mul [Const (nofZ N (Zpos n)); NthPow a (Pos.pred n); m]
        end
    | NthRoot a n =>
        match n with
        | 1%positive => m
        | _ => Divide m (Mul [Const (nofZ N (Zpos n)); NthPow e (Pos.pred n)])
        end
    | Exp a base =>
        if neqb N base (n1 N) then C0
        else if neqb N base (n_e N) then Mul [e; m]
        else Mul [Log (Const base) (n_e N); e; m]
    | Log a base =>
        if neqb N base (n_e N) then Divide m a
        else Divide m (Mul [Log (Const base) (n_e N); a])
    | _ => m
    end.

  Definition synth_divide_left (a b m : expr T) : expr T := Divide m b.
  Definition synth_divide_right (a b m : expr T) : expr T :=
    Mul [Neg (Divide a (NthPow b 2)); m].
  Definition synth_power_left (a b m : expr T) : expr T :=
    Mul [b; Power a (Minus b C1); m].
  Definition synth_power_right (a b m : expr T) : expr T :=
    Mul [Log a (n_e N); Power a b; m].

  Fixpoint synth_fwd (v : name) (e : expr T) : expr T :=
    match e with
    | Const _ => C0
    | Var x => if name_eqb x v then C1 else C0
    | Add l => Add (map (synth_fwd v) l)
    | Minus a b => Minus (synth_fwd v a) (synth_fwd v b)
    | Mul l => Add (mapi (fun i d => Mul (d :: remove_nth i l)) (map (synth_fwd v) l))
    | Divide a b =>
        Add [synth_divide_left a b (synth_fwd v a); synth_divide_right a b (synth_fwd v b)]
    | Power a b =>
        Add [synth_power_left a b (synth_fwd v a); synth_power_right a b (synth_fwd v b)]
    | Neg a | Recip a | Sin a | Cos a | NthPow a _ | NthRoot a _ | Exp a _ | Log a _ =>
        synth_unary_formula e (synth_fwd v a)
    end.

  (** SyntheticPartialsAccumulator *)
  Definition saccum := list (name * expr T).

  Fixpoint slookup (x : name) (acc : saccum) : option (expr T) :=
    match acc with
    | [] => None
    | (y, w) :: r => if name_eqb x y then Some w else slookup x r
    end.

  Fixpoint sacc_set (acc : saccum) (x : name) (v : expr T) : saccum :=
    match acc with
    | [] => [(x, v)]
    | (y, w) :: r => if name_eqb x y then (y, v) :: r else (y, w) :: sacc_set r x v
    end.

  (* next = existing + contribution if existing is not None else contribution *)
  Definition sacc_add (acc : saccum) (x : name) (c : expr T) : saccum :=
    match slookup x acc with
    | Some ex => sacc_set acc x (Add [ex; c])
    | None => sacc_set acc x c
    end.

  Fixpoint synth_rev (e : expr T) (m : expr T) (acc : saccum) {struct e} : saccum :=
    match e with
    | Const _ => acc
    | Var x => sacc_add acc x m
    | Add l =>
        (fix go (l : list (expr T)) (acc : saccum) {struct l} : saccum :=
           match l with
           | [] => acc
           | x :: r => go r (synth_rev x m acc)
           end) l acc
    | Minus a b => synth_rev b (Neg m) (synth_rev a m acc)
    | Mul l =>
        (fix go (i : nat) (r : list (expr T)) (acc : saccum) {struct r} : saccum :=
           match r with
           | [] => acc
           | x :: r' => go (S i) r' (synth_rev x (Mul (m :: remove_nth i l)) acc)
           end) O l acc
    | Divide a b =>
        synth_rev b (synth_divide_right a b m) (synth_rev a (synth_divide_left a b m) acc)
    | Power a b =>
        synth_rev b (synth_power_right a b m) (synth_rev a (synth_power_left a b m) acc)
    | Neg a | Recip a | Sin a | Cos a | NthPow a _ | NthRoot a _ | Exp a _ | Log a _ =>
        synth_rev a (synth_unary_formula e m) acc
    end.

  (* synthetic_partials_for *)
  Definition synthetic_partials_for (acc : saccum) (enum : list name) : list (name * expr T) :=
    map (fun x => (x, match slookup x acc with Some w => w | None => C0 end)) enum.

  (* Expression._synthetic_partials() *)
  Definition synthetic_partials (e : expr T) (enum : list name) : list (name * expr T) :=
    synthetic_partials_for (synth_rev e C1 []) enum.
End Synth.
