(** Static tie: which methods touch the memo fields. *)
From Coq Require Import List String Bool.
From SM Require Import Generated.
Import ListNotations.
Open Scope string_scope.

(* the evaluation cache is read and written by exactly these methods (Stateful.v, Part A) *)
Definition model_value_access : list (string * string) :=
  [ ("BinaryExpression", "__init__"); ("BinaryExpression", "_evaluate");
    ("BinaryExpression", "_reset_evaluation_cache"); ("NAryExpression", "__init__");
    ("NAryExpression", "_evaluate"); ("NAryExpression", "_reset_evaluation_cache");
    ("UnaryExpression", "__init__"); ("UnaryExpression", "_evaluate");
    ("UnaryExpression", "_reset_evaluation_cache") ].
Lemma value_access_tied : gen_value_access = model_value_access.
Proof. reflexivity. Qed.

(* the simplifier flags are touched by exactly these methods (Stateful.v, Part B) *)
Definition model_flag_access : list (string * string * string) :=
  [ ("BinaryExpression", "_take_reduction_step", "_is_fully_reduced");
    ("Constant", "_take_reduction_step", "_is_fully_reduced");
    ("Expression", "__init__", "_evaluation_failed");
    ("Expression", "__init__", "_is_fully_reduced");
    ("Expression", "_consolidate_expression_lacking_variables", "_evaluation_failed");
    ("Expression", "_fully_reduce", "_is_fully_reduced");
    ("NAryExpression", "_take_reduction_step", "_is_fully_reduced");
    ("UnaryExpression", "_take_reduction_step", "_is_fully_reduced");
    ("Variable", "_take_reduction_step", "_is_fully_reduced") ].
Lemma flag_access_tied : gen_flag_access = model_flag_access.
Proof. reflexivity. Qed.

