(** Static tie: where sets are iterated and created. *)
From Coq Require Import List String Bool.
From SM Require Import Generated.
Import ListNotations.
Open Scope string_scope.

(* the only places that iterate a set of variable names: each takes an enumeration [enum] in the
   model (Reverse.numeric_partials_for, Synth.synthetic_partials_for,
   Eval.the_single_variable_name) *)
Definition model_set_iterations : list (string * string * string) :=
  [ ("NumericPartialsAccumulator", "numeric_partials_for", "for");
    ("SyntheticPartialsAccumulator", "synthetic_partials_for", "for");
    ("_private.base_expression.expression", "get_the_single_variable_name", "unpack") ].
Lemma set_iterations_tied : gen_set_iterations = model_set_iterations.
Proof. reflexivity. Qed.

(* the only places that build a set / take a dict view *)
Definition model_set_creations : list (string * string) :=
  [ ("Add", "_reduce_sum_by_consolidating_logarithms"); ("BinaryExpression", "__init__");
    ("Constant", "__init__"); ("Multiply", "_reduce_product_by_consolidating_exponentials");
    ("Multiply", "_reduce_product_by_consolidating_nth_powers");
    ("Multiply", "_reduce_product_by_consolidating_nth_roots"); ("NAryExpression", "__init__");
    ("Variable", "__init__") ].
Lemma set_creations_tied : gen_set_creations = model_set_creations.
Proof. reflexivity. Qed.

