(** * Extract: the executable model handed to ocaml/driver.ml.
    Only the directives of ExtrOcamlBasic are used (bool, option, unit, list, prod, sumbool,
    sumor -> OCaml's; andb/orb inlined).  Z, positive, nat, ascii, string stay Coq datatypes. *)
From Coq Require Import ZArith List Bool String.
From Coq Require Extraction ExtrOcamlBasic.
From SM Require Import Num Syntax Outcome MathFun Eval Forward Reverse Synth Rules Driver
  Normalize Routes PyNum.

Extraction Language OCaml.

Extraction "../ocaml/model.ml"
  PyNumInst
  size vars var_names var_free wfb
  eval at_number the_single_variable_name
  fwd rev numeric_partials located_component
  synth_fwd synthetic_partials
  consolidate step_named step fully_reduce reduce_trace bad_label apply_reducers all_rules
  nfr normalize
  partial_as_expression partial_at_late partial_at_early at_via
  derivative_at_late derivative_at_number_late
  differential_early_partials differential_early_component_expr differential_early_component_at
  differential_at_late differential_at_early located_differential component_of.
