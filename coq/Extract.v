(** * Extract: the executable model handed to ocaml/driver.ml.
    Only the directives of ExtrOcamlBasic are used (bool, option, unit, list, prod, sumbool,
    sumor -> OCaml's; andb/orb inlined).  Z, positive, nat, ascii, string stay Coq datatypes. *)
From Coq Require Import ZArith List Bool String.
From Coq Require Extraction ExtrOcamlBasic.
From SM Require Import Num Syntax Outcome MathFun Eval Forward Reverse Synth Rules Driver
  Normalize Routes PyNum Objects Stateful.

(* stable names for definitions whose extracted names would otherwise be numbered *)
Definition sm_expr_eqb {T} (N : NumOps T) := @eqb T N.
Definition sm_point_eqb {T} (N : NumOps T) := @point_eqb T N.
Definition sm_py_eq {T} (N : NumOps T) := @py_eq T N.

Extraction Language OCaml.

Extraction "../ocaml/model.ml"
  PyNumInst
  size vars var_names var_free wfb
  eval at_number the_single_variable_name
  fwd rev numeric_partials located_component
  synth_fwd synthetic_partials
  consolidate step_named step fully_reduce reduce_trace bad_label apply_reducers all_rules
  nfr normalize nfr_trace normalize_trace good_trace
  sm_expr_eqb sm_point_eqb sm_py_eq show show_point show_partial show_derivative show_differential show_located
  parse parse_fuel
  mk_nth_power mk_nth_root mk_exponential mk_logarithm mk_variable op_pow op_add op_sub
  erase reset_s eval_s run_history pure_call
  partial_as_expression partial_at_late partial_at_early at_via
  derivative_at_late derivative_at_number_late
  differential_early_partials differential_early_component_expr differential_early_component_at
  differential_at_late differential_at_early located_differential component_of.
