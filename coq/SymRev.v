(** * SymRev: the reverse symbolic traversal (_compute_synthetic_partials of every class), in the
    expression language of SymAst with statements that thread the SyntheticPartialsAccumulator.
    GeneratedSymRev.v holds the translated CURRENT source; TieSymRev.v proves each body computes one
    unfolding of the model's [synth_rev] (Synth.v). *)
From Coq Require Import ZArith List Bool String Ascii.
From SM Require Import Num Syntax Outcome MathFun Eval Forward Synth Rules SymAst.
Import ListNotations.
Open Scope string_scope.
Open Scope list_scope.

Inductive vstmt : Type :=
| VSAssign (x : string) (t : sx)
| VSRev (t m : sx)                         (* t._compute_synthetic_partials(accumulator, m) *)
| VSAddTo (m : sx)                         (* accumulator.add_to(self, m) *)
| VSFor (x : string) (iter : sx) (body : list vstmt)
| VSForEnum (i x : string) (iter : sx) (body : list vstmt)
| VSPass.

Record vfun : Type := mkVFun { v_params : list string; v_body : list vstmt }.

Section Interp.
  Context {T : Type} (N : NumOps T).
  Notation E := (expr T).
  Variable oracle : string -> list (val (T:=T)) -> option (val (T:=T)).
  Notation acc := (saccum (T:=T)).

  Definition vstate := (senv (T:=T) * acc)%type.

  Section Loops.
    Fixpoint vfor_loop (run_body : vstate -> nat -> val (T:=T) -> option vstate) (n : nat) (st : vstate)
             (items : list (val (T:=T))) : option vstate :=
      match items with
      | [] => Some st
      | it :: rest =>
          match run_body st n it with
          | Some st' => vfor_loop run_body (S n) st' rest
          | None => None
          end
      end.
  End Loops.

  Fixpoint vexec (st : vstate) (s : vstmt) {struct s} : option vstate :=
    let block :=
      fix block (st : vstate) (l : list vstmt) {struct l} : option vstate :=
        match l with
        | [] => Some st
        | s :: rest => match vexec st s with Some st' => block st' rest | None => None end
        end in
    let (r, a) := st in
    match s with
    | VSAssign x t => match ev N oracle r t with Some w => Some ((x, w) :: r, a) | None => None end
    | VSRev t m =>
        match ev N oracle r t, ev N oracle r m with
        | Some (VE e), Some (VE mm) => Some (r, synth_rev N e mm a)
        | _, _ => None
        end
    | VSAddTo m =>
        match slook "self" r, ev N oracle r m with
        | Some (VE (Var x)), Some (VE mm) => Some (r, sacc_add a x mm)
        | _, _ => None
        end
    | VSFor x iter body =>
        match ev N oracle r iter with
        | Some (VL items) => vfor_loop (fun st' _ it => block ((x, it) :: fst st', snd st') body) O st items
        | _ => None
        end
    | VSForEnum i x iter body =>
        match ev N oracle r iter with
        | Some (VL items) =>
            vfor_loop (fun st' n it => block ((x, it) :: (i, VZ (Z.of_nat n)) :: fst st', snd st') body) O st items
        | _ => None
        end
    | VSPass => Some st
    end.

  Fixpoint vexec_block (st : vstate) (l : list vstmt) : option vstate :=
    match l with
    | [] => Some st
    | s :: rest => match vexec st s with Some st' => vexec_block st' rest | None => None end
    end.

  Definition vcall (f : vfun) (self : E) (m : E) (a : acc) : option acc :=
    match vexec_block ([("multiplier", VE m); ("self", VE self)], a) (v_body f) with
    | Some st => Some (snd st)
    | None => None
    end.
End Interp.
