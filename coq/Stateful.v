(** * Stateful (Layer S): the memo fields of the implementation.

    Part A — the evaluation cache.  Every non-leaf node object carries [_value]; the model keys
    the cache by object identity ([oid]); a DAG that reuses a sub-expression object is a tree in
    which the same oid occurs several times with the same sub-tree ([wf_ids]).  [reset_s] is
    _reset_evaluation_cache, [eval_s] is _evaluate with the cache.  The derivative traversals
    (_numeric_partial, _compute_numeric_partials) touch the cache only by calling _evaluate on
    sub-expressions at the same point (the static tie checks that no other code reads or writes
    _value), so a numeric API call is modelled as: reset the root, then ANY sequence of
    [eval_s] calls on sub-expressions of the root at one point ([run_calls]).

    Part B — the simplifier's flags.  _is_fully_reduced and _evaluation_failed are memo bits
    whose meaning is structural (rule-freeness / undefinedness of a variable-free tree depend on
    the structure only), so the model keys them by structure: a flag table is a predicate on
    expressions.  [take_step_f] is _take_reduction_step with flags, including the "marking"
    steps that only set a flag; [fully_reduce_f] is _fully_reduce with the library's budget of
    Python-level steps (marking steps count). *)
From Coq Require Import ZArith List Bool.
From SM Require Import Num Syntax Outcome MathFun Eval Rules Driver.
Import ListNotations.

Section PartA.
  Context {T : Type} (N : NumOps T).

  Definition oid := positive.

  (** expression objects: non-leaf nodes carry their object identity *)
  Inductive sexpr : Type :=
  | SConst (c : T)
  | SVar (x : name)
  | SAdd (i : oid) (l : list sexpr)
  | SMul (i : oid) (l : list sexpr)
  | SMinus (i : oid) (a b : sexpr)
  | SDivide (i : oid) (a b : sexpr)
  | SPower (i : oid) (a b : sexpr)
  | SNeg (i : oid) (a : sexpr)
  | SRecip (i : oid) (a : sexpr)
  | SSin (i : oid) (a : sexpr)
  | SCos (i : oid) (a : sexpr)
  | SNthPow (i : oid) (a : sexpr) (n : positive)
  | SNthRoot (i : oid) (a : sexpr) (n : positive)
  | SExp (i : oid) (a : sexpr) (base : T)
  | SLog (i : oid) (a : sexpr) (base : T).

  Fixpoint erase (e : sexpr) : expr T :=
    match e with
    | SConst c => Const c
    | SVar x => Var x
    | SAdd _ l => Add (map erase l)
    | SMul _ l => Mul (map erase l)
    | SMinus _ a b => Minus (erase a) (erase b)
    | SDivide _ a b => Divide (erase a) (erase b)
    | SPower _ a b => Power (erase a) (erase b)
    | SNeg _ a => Neg (erase a)
    | SRecip _ a => Recip (erase a)
    | SSin _ a => Sin (erase a)
    | SCos _ a => Cos (erase a)
    | SNthPow _ a n => NthPow (erase a) n
    | SNthRoot _ a n => NthRoot (erase a) n
    | SExp _ a b => Exp (erase a) b
    | SLog _ a b => Log (erase a) b
    end.

  Definition oid_of (e : sexpr) : option oid :=
    match e with
    | SConst _ | SVar _ => None
    | SAdd i _ | SMul i _ | SMinus i _ _ | SDivide i _ _ | SPower i _ _ | SNeg i _ | SRecip i _
    | SSin i _ | SCos i _ | SNthPow i _ _ | SNthRoot i _ _ | SExp i _ _ | SLog i _ _ => Some i
    end.

  Definition schildren (e : sexpr) : list sexpr :=
    match e with
    | SConst _ | SVar _ => []
    | SAdd _ l | SMul _ l => l
    | SMinus _ a b | SDivide _ a b | SPower _ a b => [a; b]
    | SNeg _ a | SRecip _ a | SSin _ a | SCos _ a | SNthPow _ a _ | SNthRoot _ a _
    | SExp _ a _ | SLog _ a _ => [a]
    end.

  (** all node objects reachable from e, e included *)
  Fixpoint snodes (e : sexpr) : list sexpr :=
    e :: match e with
         | SConst _ | SVar _ => []
         | SAdd _ l | SMul _ l => flat_map snodes l
         | SMinus _ a b | SDivide _ a b | SPower _ a b => snodes a ++ snodes b
         | SNeg _ a | SRecip _ a | SSin _ a | SCos _ a | SNthPow _ a _ | SNthRoot _ a _
         | SExp _ a _ | SLog _ a _ => snodes a
         end.

  (** object identity is consistent: two reachable nodes with the same oid are the same object *)
  Definition wf_ids (root : sexpr) : Prop :=
    forall a b i, In a (snodes root) -> In b (snodes root) ->
                  oid_of a = Some i -> oid_of b = Some i -> a = b.

  (** the [_value] fields: oid -> Optional[float] *)
  Definition store := list (oid * T).

  Fixpoint sget (s : store) (i : oid) : option T :=
    match s with
    | [] => None
    | (j, v) :: r => if Pos.eqb i j then Some v else sget r i
    end.
  Definition sset (s : store) (i : oid) (v : T) : store := (i, v) :: s.
  Fixpoint sclear (s : store) (i : oid) : store :=
    match s with
    | [] => []
    | (j, v) :: r => if Pos.eqb i j then sclear r i else (j, v) :: sclear r i
    end.

  (* _reset_evaluation_cache: self._value = None; then the children *)
  Fixpoint reset_s (s : store) (e : sexpr) : store :=
    let reset_list := fix reset_list (s : store) (l : list sexpr) : store :=
      match l with [] => s | x :: r => reset_list (reset_s s x) r end in
    match e with
    | SConst _ | SVar _ => s
    | SAdd i l | SMul i l => reset_list (sclear s i) l
    | SMinus i a b | SDivide i a b | SPower i a b => reset_s (reset_s (sclear s i) a) b
    | SNeg i a | SRecip i a | SSin i a | SCos i a | SNthPow i a _ | SNthRoot i a _
    | SExp i a _ | SLog i a _ => reset_s (sclear s i) a
    end.

  (** _verify_domain_constraints followed by _value_formula of a node, on the values of its
      children *)
  Definition node_value (e : sexpr) (vs : list T) : outcome T :=
    match e, vs with
    | SAdd _ _, _ => Val (mf_add N vs)
    | SMul _ _, _ => Val (mf_multiply N vs)
    | SMinus _ _ _, [x; y] => Val (mf_minus N x y)
    | SDivide _ _ _, [x; y] => _ <- verify_divide N x y ;; mf_divide N x y
    | SPower _ _ _, [x; y] => _ <- verify_power N x y ;; mf_power N x y
    | SNeg _ _, [x] => Val (mf_negation N x)
    | SRecip _ _, [x] => _ <- verify_reciprocal N x ;; mf_reciprocal N x
    | SSin _ _, [x] => mf_sine N x
    | SCos _ _, [x] => mf_cosine N x
    | SNthPow _ _ n, [x] => mf_nth_power N x n
    | SNthRoot _ _ n, [x] => _ <- verify_nth_root N x n ;; mf_nth_root N x n
    | SExp _ _ b, [x] => mf_exponential N x b
    | SLog _ _ b, [x] => _ <- verify_logarithm N x ;; mf_logarithm N x b
    | _, _ => PyErr TypeError
    end.

  (* _evaluate: if self._value is not None: return it; evaluate the children left to right
     (an exception leaves the cache as it is at that moment); verify; compute; store *)
  Fixpoint eval_s (s : store) (p : point T) (e : sexpr) {struct e} : store * outcome T :=
    let eval_list := fix eval_list (s : store) (l : list sexpr) : store * outcome (list T) :=
      match l with
      | [] => (s, Val [])
      | x :: r =>
          match eval_s s p x with
          | (s1, Val v) =>
              match eval_list s1 r with
              | (s2, Val vs) => (s2, Val (v :: vs))
              | (s2, DomErr) => (s2, DomErr)
              | (s2, CoordMissing) => (s2, CoordMissing)
              | (s2, PyErr k) => (s2, PyErr k)
              end
          | (s1, DomErr) => (s1, DomErr)
          | (s1, CoordMissing) => (s1, CoordMissing)
          | (s1, PyErr k) => (s1, PyErr k)
          end
      end in
    let node (i : oid) (children : list sexpr) : store * outcome T :=
      match sget s i with
      | Some v => (s, Val v)
      | None =>
          match eval_list s children with
          | (s1, Val vs) =>
              match node_value e vs with
              | Val v => (sset s1 i v, Val v)
              | err => (s1, err)
              end
          | (s1, DomErr) => (s1, DomErr)
          | (s1, CoordMissing) => (s1, CoordMissing)
          | (s1, PyErr k) => (s1, PyErr k)
          end
      end in
    match e with
    | SConst c => (s, Val c)
    | SVar x => (s, coordinate p x)
    | SAdd i l | SMul i l => node i l
    | SMinus i a b | SDivide i a b | SPower i a b => node i [a; b]
    | SNeg i a | SRecip i a | SSin i a | SCos i a | SNthPow i a _ | SNthRoot i a _
    | SExp i a _ | SLog i a _ => node i [a]
    end.

  (** a numeric API call: reset the root, then a sequence of _evaluate calls on sub-expression
      objects of the root, all at the same point *)
  Fixpoint run_calls (s : store) (p : point T) (calls : list sexpr) : store * list (outcome T) :=
    match calls with
    | [] => (s, [])
    | c :: r =>
        let (s1, o) := eval_s s p c in
        let (s2, os) := run_calls s1 p r in
        (s2, o :: os)
    end.

  Record call : Type := mkCall { c_root : sexpr; c_point : point T; c_calls : list sexpr }.

  Definition run_call (s : store) (c : call) : store * list (outcome T) :=
    run_calls (reset_s s (c_root c)) (c_point c) (c_calls c).

  (* a history: any sequence of API calls, over any pool of expressions sharing objects *)
  Fixpoint run_history (s : store) (h : list call) : store * list (list (outcome T)) :=
    match h with
    | [] => (s, [])
    | c :: r =>
        let (s1, o) := run_call s c in
        let (s2, os) := run_history s1 r in
        (s2, o :: os)
    end.

  (* what freshly built, never-used copies answer *)
  Definition pure_call (c : call) : list (outcome T) :=
    map (fun x => eval N (c_point c) (erase x)) (c_calls c).

  Definition call_ok (c : call) : Prop :=
    wf_ids (c_root c) /\ forall x, In x (c_calls c) -> In x (snodes (c_root c)).
End PartA.

Section PartB.
  Context {T : Type} (N : NumOps T).
  Notation E := (expr T).

  (** flag tables, keyed by structure *)
  Record flags : Type := mkFlags {
    reduced : E -> bool;      (* _is_fully_reduced    *)
    failed : E -> bool;       (* _evaluation_failed   *)
  }.

  Variable E_eqb : E -> E -> bool.   (* decidable syntactic equality, used to update a table *)

  Definition mark_reduced (f : flags) (e : E) : flags :=
    mkFlags (fun x => E_eqb x e || reduced f x) (failed f).
  Definition mark_failed (f : flags) (e : E) : flags :=
    mkFlags (reduced f) (fun x => E_eqb x e || failed f x).

  (** flags tell the truth: a flagged expression is rule-free, and so are its sub-expressions'
      flags' claims; a failed expression does not evaluate *)
  Definition truthful (f : flags) : Prop :=
    (forall e, reduced f e = true -> step N e = None) /\
    (forall e, failed f e = true ->
       var_free e = true /\ forall v, eval N [] e <> Val v).

  (* _consolidate_expression_lacking_variables with the _evaluation_failed memo:
     returns the new table and the folded constant, if any *)
  Definition consolidate_f (f : flags) (e : E) : flags * option E :=
    if var_free e then
      match e with
      | Const _ => (f, None)
      | _ =>
          if failed f e then (f, None)
          else match eval N [] e with
               | Val v => (f, Some (Const v))
               | DomErr => (mark_failed f e, None)
               | _ => (f, None)
               end
      end
    else (f, None).

  (** one Python-level _take_reduction_step.  The result form is [snd]; a marking step returns
      the same form and a bigger table. *)
  Fixpoint take_step_f (f : flags) (e : E) {struct e} : flags * E :=
    if reduced f e then (f, e)
    else
      match consolidate_f f e with
      | (f1, Some c) => (f1, c)
      | (f1, None) =>
          let step_list :=
            fix step_list (l : list E) : option (flags * list E) :=
              match l with
              | [] => None
              | x :: r =>
                  if reduced f1 x then
                    match step_list r with
                    | Some (f2, r') => Some (f2, x :: r')
                    | None => None
                    end
                  else let (f2, x') := take_step_f f1 x in Some (f2, x' :: r)
              end in
          let finish (e : E) : flags * E :=
            match apply_reducers N e with
            | Some (_, e') => (f1, e')
            | None => (mark_reduced f1 e, e)
            end in
          let unary (a : E) (rebuild : E -> E) : flags * E :=
            if reduced f1 a then finish e
            else let (f2, a') := take_step_f f1 a in (f2, rebuild a') in
          let binary (a b : E) (rebuild : E -> E -> E) : flags * E :=
            if reduced f1 a then
              if reduced f1 b then finish e
              else let (f2, b') := take_step_f f1 b in (f2, rebuild a b')
            else let (f2, a') := take_step_f f1 a in (f2, rebuild a' b) in
          match e with
          | Const _ | Var _ => (mark_reduced f1 e, e)
          | Add l => match step_list l with
                     | Some (f2, l') => (f2, Add l')
                     | None => finish e
                     end
          | Mul l => match step_list l with
                     | Some (f2, l') => (f2, Mul l')
                     | None => finish e
                     end
          | Minus a b => binary a b Minus
          | Divide a b => binary a b Divide
          | Power a b => binary a b Power
          | Neg a => unary a Neg
          | Recip a => unary a Recip
          | Sin a => unary a Sin
          | Cos a => unary a Cos
          | NthPow a n => unary a (fun x => NthPow x n)
          | NthRoot a n => unary a (fun x => NthRoot x n)
          | Exp a b => unary a (fun x => Exp x b)
          | Log a b => unary a (fun x => Log x b)
          end
      end.

  (* _fully_reduce with a budget of Python-level steps; at exhaustion the current form is
     returned (and force-flagged, which the model does not record: the forced flag lands on an
     object created during this call) *)
  Fixpoint fully_reduce_f (budget : nat) (f : flags) (e : E) : flags * E :=
    match budget with
    | O => (f, e)
    | S b =>
        if reduced f e then (f, e)
        else let (f1, e1) := take_step_f f e in fully_reduce_f b f1 e1
    end.
End PartB.
