(** * TieSynth: the _synthetic_partial_formula* methods and the _synthetic_partial methods of the
    CURRENT source (GeneratedSym.v), interpreted by SymAst.scall, compute exactly the model's
    symbolic forward route (Synth.v) — for every number interface N, every variable and every tree.

    Calls that leave a method (the recursive call on a child, the class's own formula method) are
    interpreted by [synth_oracle], i.e. by the model function itself: each lemma is one unfolding of
    the recursion, and together they say that the model satisfies the recursion equations read off
    the source, which determine it. *)
From Coq Require Import ZArith List Bool String Lia.
From SM Require Import Num Syntax Outcome MathFun Eval Forward Synth Rules SymAst SymLemmas GeneratedSym.
Import ListNotations.
Open Scope string_scope.
Open Scope list_scope.

Section Tie.
  Context {T : Type} (N : NumOps T).
  Notation E := (expr T).
  Notation val := (val (T:=T)).

  Definition synth_oracle (f : string) (args : list val) : option val :=
    if String.eqb f "_synthetic_partial" then
      match args with [VE x; VS v] => Some (VE (synth_fwd N v x)) | _ => None end
    else if String.eqb f "_synthetic_partial_formula" then
      match args with
      | [VE e; VE m] =>
          match e with
          | Neg _ | Recip _ | Sin _ | Cos _ | NthPow _ _ | NthRoot _ _ | Exp _ _ | Log _ _ =>
              Some (VE (synth_unary_formula N e m))
          | _ => None
          end
      | _ => None
      end
    else if String.eqb f "_synthetic_partial_formula_left" then
      match args with
      | [VE (Divide a b); VE m] => Some (VE (synth_divide_left a b m))
      | [VE (Power a b); VE m] => Some (VE (synth_power_left N a b m))
      | _ => None
      end
    else if String.eqb f "_synthetic_partial_formula_right" then
      match args with
      | [VE (Divide a b); VE m] => Some (VE (synth_divide_right a b m))
      | [VE (Power a b); VE m] => Some (VE (synth_power_right N a b m))
      | _ => None
      end
    else None.

  Definition runf (f : sfun) (e : E) (args : list val) : option val := scall N synth_oracle f (VE e) args.

  Ltac opq := cbn -[nofZ nfloat n_e nsum nadd nsub nmul ndiv nneg npow npowi nsqrt ncbrt nln nsin ncos neqb nltb
                    nint nfinite mf_add mf_multiply nat_of skipn firstn groups_of synth_fwd Z.div Z.sub Z.add
                    Z.even Z.odd Z.leb Pos.gcd Pos.eqb Pos.mul Pos.pred]; unfold n0, n1, nm1.
  Ltac tie0 := intros; unfold runf, scall; opq.

  (** ** the formulas *)
  Lemma formula_Negation_tied : forall a m,
    runf gen_sym_Negation_synthetic_partial_formula (Neg a) [VE m] = Some (VE (synth_unary_formula N (Neg a) m)).
  Proof. tie0. reflexivity. Qed.

  Lemma formula_Reciprocal_tied : forall a m,
    runf gen_sym_Reciprocal_synthetic_partial_formula (Recip a) [VE m] = Some (VE (synth_unary_formula N (Recip a) m)).
  Proof. tie0. reflexivity. Qed.

  Lemma formula_Sine_tied : forall a m,
    runf gen_sym_Sine_synthetic_partial_formula (Sin a) [VE m] = Some (VE (synth_unary_formula N (Sin a) m)).
  Proof. tie0. reflexivity. Qed.

  Lemma formula_Cosine_tied : forall a m,
    runf gen_sym_Cosine_synthetic_partial_formula (Cos a) [VE m] = Some (VE (synth_unary_formula N (Cos a) m)).
  Proof. tie0. reflexivity. Qed.

  Lemma pos_sub_one : forall q : positive, (1 < q)%positive -> (Zpos q - 1 = Zpos (Pos.pred q))%Z.
  Proof. intros. lia. Qed.

  Lemma formula_NthPower_tied : forall a n m,
    runf gen_sym_NthPower_synthetic_partial_formula (NthPow a n) [VE m] = Some (VE (synth_unary_formula N (NthPow a n) m)).
  Proof.
    intros a n m. destruct (Pos.eqb n 1) eqn:Hn.
    - apply Pos.eqb_eq in Hn. subst n. tie0. reflexivity.
    - tie0. rewrite Hn. opq.
      assert (Hlt : (1 < n)%positive) by (apply Pos.eqb_neq in Hn; lia).
      rewrite (pos_sub_one n Hlt). opq.
      destruct n; try reflexivity. discriminate Hn.
  Qed.

  Lemma formula_NthRoot_tied : forall a n m,
    runf gen_sym_NthRoot_synthetic_partial_formula (NthRoot a n) [VE m] = Some (VE (synth_unary_formula N (NthRoot a n) m)).
  Proof.
    intros a n m. destruct (Pos.eqb n 1) eqn:Hn.
    - apply Pos.eqb_eq in Hn. subst n. tie0. reflexivity.
    - tie0. rewrite Hn. opq.
      assert (Hlt : (1 < n)%positive) by (apply Pos.eqb_neq in Hn; lia).
      rewrite (pos_sub_one n Hlt). opq.
      destruct n; try reflexivity. discriminate Hn.
  Qed.

  Lemma formula_Exponential_tied : forall a b m,
    runf gen_sym_Exponential_synthetic_partial_formula (Exp a b) [VE m] = Some (VE (synth_unary_formula N (Exp a b) m)).
  Proof.
    tie0. destruct (neqb N b (nofZ N 1)); opq; [reflexivity|].
    destruct (neqb N b (n_e N)); reflexivity.
  Qed.

  Lemma formula_Logarithm_tied : forall a b m,
    runf gen_sym_Logarithm_synthetic_partial_formula (Log a b) [VE m] = Some (VE (synth_unary_formula N (Log a b) m)).
  Proof. tie0. destruct (neqb N b (n_e N)); reflexivity. Qed.

  Lemma formula_left_Divide_tied : forall a b m,
    runf gen_sym_Divide_synthetic_partial_formula_left (Divide a b) [VE m] = Some (VE (synth_divide_left a b m)).
  Proof. tie0. reflexivity. Qed.

  Lemma formula_right_Divide_tied : forall a b m,
    runf gen_sym_Divide_synthetic_partial_formula_right (Divide a b) [VE m] = Some (VE (synth_divide_right a b m)).
  Proof. tie0. reflexivity. Qed.

  Lemma formula_left_Power_tied : forall a b m,
    runf gen_sym_Power_synthetic_partial_formula_left (Power a b) [VE m] = Some (VE (synth_power_left N a b m)).
  Proof. tie0. reflexivity. Qed.

  Lemma formula_right_Power_tied : forall a b m,
    runf gen_sym_Power_synthetic_partial_formula_right (Power a b) [VE m] = Some (VE (synth_power_right N a b m)).
  Proof. tie0. reflexivity. Qed.

  (** ** _synthetic_partial, one unfolding per class *)
  Lemma synthetic_partial_Constant_tied : forall c v,
    runf gen_sym_Constant_synthetic_partial (Const c) [VS v] = Some (VE (synth_fwd N v (Const c))).
  Proof. tie0. reflexivity. Qed.

  Lemma synthetic_partial_Variable_tied : forall x v,
    runf gen_sym_Variable_synthetic_partial (Var x) [VS v] = Some (VE (synth_fwd N v (Var x))).
  Proof. tie0. cbn [synth_fwd]. destruct (name_eqb x v); reflexivity. Qed.

  Lemma synthetic_partial_Minus_tied : forall a b v,
    runf gen_sym_Minus_synthetic_partial (Minus a b) [VS v] = Some (VE (synth_fwd N v (Minus a b))).
  Proof. tie0. reflexivity. Qed.

  Lemma synthetic_partial_Divide_tied : forall a b v,
    runf gen_sym_Divide_synthetic_partial (Divide a b) [VS v] = Some (VE (synth_fwd N v (Divide a b))).
  Proof. tie0. reflexivity. Qed.

  Lemma synthetic_partial_Power_tied : forall a b v,
    runf gen_sym_Power_synthetic_partial (Power a b) [VS v] = Some (VE (synth_fwd N v (Power a b))).
  Proof. tie0. reflexivity. Qed.

  Lemma synthetic_partial_Unary_tied : forall e v,
    match e with
    | Neg _ | Recip _ | Sin _ | Cos _ | NthPow _ _ | NthRoot _ _ | Exp _ _ | Log _ _ =>
        runf gen_sym_UnaryExpression_synthetic_partial e [VS v] = Some (VE (synth_fwd N v e))
    | _ => True
    end.
  Proof. intros e v. destruct e; try exact I; tie0; reflexivity. Qed.

  Lemma synthetic_partial_Add_tied : forall l v,
    runf gen_sym_Add_synthetic_partial (Add l) [VS v] = Some (VE (synth_fwd N v (Add l))).
  Proof.
    tie0.
    erewrite (comp_loop_VE_E _ _ (synth_fwd N v) (fun _ => true)).
    2: intros; reflexivity. 2: intros; reflexivity.
    opq. rewrite filter_true, app_nil_r, as_exprs_VE. reflexivity.
  Qed.
End Tie.
