(* driver.ml — runs the extracted Coq model (model.ml) on native IEEE doubles.

   Trusted glue: the FloatOps record below (raw double primitives over OCaml's float, i.e. the
   same glibc libm CPython calls), the line parser and the printer.  Everything else is the
   extracted model.  One case per input line, one result per output line. *)

open Model
type string = Stdlib.String.t

(* ---------- Z / positive / nat conversions ---------- *)
let rec pos_of_int n =
  if n = 1 then XH else if n land 1 = 0 then XO (pos_of_int (n lsr 1)) else XI (pos_of_int (n lsr 1))
let z_of_int n = if n = 0 then Z0 else if n > 0 then Zpos (pos_of_int n) else Zneg (pos_of_int (- n))

(* bits of a positive, most significant first *)
let bits_msb p =
  let rec go p acc = match p with
    | XH -> true :: acc
    | XO q -> go q (false :: acc)
    | XI q -> go q (true :: acc) in
  go p []

let rec nat_of_int n = let rec go n acc = if n <= 0 then acc else go (n - 1) (S acc) in go n O

let z_of_decimal (s : string) : z =
  let neg = String.length s > 0 && s.[0] = '-' in
  let digits = if neg then String.sub s 1 (String.length s - 1) else s in
  if String.length digits = 0 then failwith "empty int";
  let v =
    if String.length digits > 2 && digits.[0] = '0' && (digits.[1] = 'x' || digits.[1] = 'X') then begin
      (* hexadecimal of any length: the printers use it for big integers *)
      let acc = ref Z0 in
      String.iteri (fun i c ->
        if i >= 2 then begin
          let d = match c with
            | '0'..'9' -> Char.code c - 48
            | 'a'..'f' -> Char.code c - 87
            | 'A'..'F' -> Char.code c - 55
            | _ -> failwith "bad hex int" in
          acc := Z.add (Z.mul !acc (z_of_int 16)) (z_of_int d)
        end) digits;
      !acc
    end
    else if String.length digits <= 18 then z_of_int (int_of_string digits)
    else begin
      let acc = ref Z0 in
      String.iter (fun c ->
        if c < '0' || c > '9' then failwith "bad int";
        acc := Z.add (Z.mul !acc (z_of_int 10)) (z_of_int (Char.code c - 48))) digits;
      !acc
    end in
  if neg then Z.opp v else v

let pos_to_string p =
  let bits = bits_msb p in
  let len = List.length bits in
  if len <= 62 then string_of_int (List.fold_left (fun a b -> (a lsl 1) lor (if b then 1 else 0)) 0 bits)
  else begin
    (* hexadecimal for big integers *)
    let pad = (4 - len mod 4) mod 4 in
    let bits = List.init pad (fun _ -> false) @ bits in
    let buf = Buffer.create 64 in
    Buffer.add_string buf "0x";
    let rec go = function
      | a :: b :: c :: d :: r ->
          let v = (if a then 8 else 0) + (if b then 4 else 0) + (if c then 2 else 0) + (if d then 1 else 0) in
          Buffer.add_char buf "0123456789abcdef".[v]; go r
      | [] -> ()
      | _ -> assert false in
    go bits; Buffer.contents buf
  end
let z_to_string = function
  | Z0 -> "0" | Zpos p -> pos_to_string p | Zneg p -> "-" ^ pos_to_string p

(* int -> double, round to nearest even *)
let float_of_pos p =
  let bits = bits_msb p in
  let len = List.length bits in
  let to_int bs = List.fold_left (fun a b -> (a lsl 1) lor (if b then 1 else 0)) 0 bs in
  if len <= 62 then float_of_int (to_int bits)
  else begin
    let rec split n l acc = if n = 0 then (List.rev acc, l) else
        match l with x :: r -> split (n - 1) r (x :: acc) | [] -> (List.rev acc, []) in
    let (top, rest) = split 61 bits [] in
    let sticky = List.exists (fun b -> b) rest in
    let m = ((to_int top) lsl 1) lor (if sticky then 1 else 0) in
    Float.ldexp (float_of_int m) (List.length rest - 1)
  end
let float_of_z = function
  | Z0 -> 0.0 | Zpos p -> float_of_pos p | Zneg p -> -. (float_of_pos p)

(* integral finite double -> Z *)
let z_of_integral_float f =
  if Float.abs f < 4611686018427387904.0 then z_of_int (int_of_float f)
  else begin
    let (m, e) = Float.frexp f in
    let mi = int_of_float (Float.ldexp m 53) in     (* 53-bit integer, signed *)
    let rec shl p k = if k = 0 then p else shl (XO p) (k - 1) in
    let k = e - 53 in
    if mi > 0 then Zpos (shl (pos_of_int mi) k) else Zneg (shl (pos_of_int (- mi)) k)
  end

(* ---------- the raw double primitives ---------- *)
let fops : float floatOps = {
  f_add = ( +. ); f_sub = ( -. ); f_mul = ( *. ); f_div = ( /. );
  f_pow = ( ** );
  f_neg = (fun x -> -. x);
  f_abs = Float.abs;
  f_sqrt = sqrt;
  f_cbrt = Float.cbrt;
  f_log = log;
  f_sin = sin;
  f_cos = cos;
  f_ofZ = float_of_z;
  f_eqb = (fun (x : float) y -> x = y);
  f_ltb = (fun (x : float) y -> x < y);
  f_is_integer = Float.is_integer;
  f_floorZ = (fun x -> z_of_integral_float (Float.floor x));
  f_ceilZ = (fun x -> z_of_integral_float (Float.ceil x));
  f_is_finite = Float.is_finite;
  f_e = Int64.float_of_bits 0x4005BF0A8B145769L;
}

let ops : float pynum numOps = pyNumInst fops

type e = float pynum expr

(* ---------- tokenizer / parser ---------- *)
type tok = LP | RP | LB | RB | Atom of string

let tokenize (s : string) : tok list =
  let n = String.length s in
  let toks = ref [] in
  let i = ref 0 in
  while !i < n do
    let c = s.[!i] in
    if c = ' ' || c = '\t' || c = '\r' || c = ',' then incr i
    else if c = '(' then (toks := LP :: !toks; incr i)
    else if c = ')' then (toks := RP :: !toks; incr i)
    else if c = '[' then (toks := LB :: !toks; incr i)
    else if c = ']' then (toks := RB :: !toks; incr i)
    else begin
      let j = ref !i in
      while !j < n && not (List.mem s.[!j] [' '; '\t'; '\r'; ','; '('; ')'; '['; ']']) do incr j done;
      toks := Atom (String.sub s !i (!j - !i)) :: !toks;
      i := !j
    end
  done;
  List.rev !toks

exception Parse of string

let parse_num (a : string) : float pynum =
  if String.length a < 2 then raise (Parse ("num " ^ a));
  let body = String.sub a 1 (String.length a - 1) in
  match a.[0] with
  | 'i' -> PInt (z_of_decimal body)
  | 'f' -> PFloat (Int64.float_of_bits (Int64.of_string ("0x" ^ body)))
  | _ -> raise (Parse ("num " ^ a))

let parse_pos (a : string) : positive =
  match (try z_of_decimal a with Failure _ -> raise (Parse ("positive " ^ a))) with
  | Zpos p -> p
  | _ -> raise (Parse "positive")

let rec parse_expr (ts : tok list) : e * tok list =
  match ts with
  | LP :: Atom hd :: r -> begin
      match hd with
      | "C" -> (match r with Atom a :: RP :: r' -> (Const (parse_num a), r') | _ -> raise (Parse "C"))
      | "V" -> (match r with Atom a :: RP :: r' -> (Var (parse_pos a), r') | _ -> raise (Parse "V"))
      | "Add" -> let (l, r') = parse_list r in (Add l, r')
      | "Mul" -> let (l, r') = parse_list r in (Mul l, r')
      | "Minus" -> let (a, b, r') = parse2 r in (Minus (a, b), r')
      | "Divide" -> let (a, b, r') = parse2 r in (Divide (a, b), r')
      | "Power" -> let (a, b, r') = parse2 r in (Power (a, b), r')
      | "Neg" -> let (a, r') = parse1 r in (Neg a, r')
      | "Recip" -> let (a, r') = parse1 r in (Recip a, r')
      | "Sin" -> let (a, r') = parse1 r in (Sin a, r')
      | "Cos" -> let (a, r') = parse1 r in (Cos a, r')
      | "NthPow" -> let (a, r1) = parse_expr r in
          (match r1 with Atom n :: RP :: r' -> (NthPow (a, parse_pos n), r') | _ -> raise (Parse "NthPow"))
      | "NthRoot" -> let (a, r1) = parse_expr r in
          (match r1 with Atom n :: RP :: r' -> (NthRoot (a, parse_pos n), r') | _ -> raise (Parse "NthRoot"))
      | "Exp" -> let (a, r1) = parse_expr r in
          (match r1 with Atom b :: RP :: r' -> (Exp (a, parse_num b), r') | _ -> raise (Parse "Exp"))
      | "Log" -> let (a, r1) = parse_expr r in
          (match r1 with Atom b :: RP :: r' -> (Log (a, parse_num b), r') | _ -> raise (Parse "Log"))
      | _ -> raise (Parse ("head " ^ hd))
    end
  | _ -> raise (Parse "expr")
and parse1 r = let (a, r1) = parse_expr r in
  (match r1 with RP :: r' -> (a, r') | _ -> raise (Parse "unary"))
and parse2 r = let (a, r1) = parse_expr r in let (b, r2) = parse_expr r1 in
  (match r2 with RP :: r' -> (a, b, r') | _ -> raise (Parse "binary"))
and parse_list r =
  match r with
  | RP :: r' -> ([], r')
  | _ -> let (a, r1) = parse_expr r in let (l, r2) = parse_list r1 in (a :: l, r2)

(* point: [ id=num id=num ... ] *)
let parse_point (ts : tok list) : float pynum point * tok list =
  match ts with
  | LB :: r ->
      let rec go r acc = match r with
        | RB :: r' -> (List.rev acc, r')
        | Atom a :: r' ->
            (match String.index_opt a '=' with
             | Some k ->
                 let id = String.sub a 0 k and v = String.sub a (k + 1) (String.length a - k - 1) in
                 go r' ((parse_pos id, parse_num v) :: acc)
             | None -> raise (Parse "coord"))
        | _ -> raise (Parse "point") in
      go r []
  | _ -> raise (Parse "point[")

(* ---------- printer ---------- *)
let int_of_pos p = int_of_string (pos_to_string p)

let show_num = function
  | PInt z -> "i" ^ z_to_string z
  | PFloat f -> Printf.sprintf "f%016Lx" (Int64.bits_of_float f)

let rec show_expr (x : e) : string =
  match x with
  | Const c -> "(C " ^ show_num c ^ ")"
  | Var v -> "(V " ^ pos_to_string v ^ ")"
  | Add l -> "(Add" ^ String.concat "" (List.map (fun a -> " " ^ show_expr a) l) ^ ")"
  | Mul l -> "(Mul" ^ String.concat "" (List.map (fun a -> " " ^ show_expr a) l) ^ ")"
  | Minus (a, b) -> "(Minus " ^ show_expr a ^ " " ^ show_expr b ^ ")"
  | Divide (a, b) -> "(Divide " ^ show_expr a ^ " " ^ show_expr b ^ ")"
  | Power (a, b) -> "(Power " ^ show_expr a ^ " " ^ show_expr b ^ ")"
  | Neg a -> "(Neg " ^ show_expr a ^ ")"
  | Recip a -> "(Recip " ^ show_expr a ^ ")"
  | Sin a -> "(Sin " ^ show_expr a ^ ")"
  | Cos a -> "(Cos " ^ show_expr a ^ ")"
  | NthPow (a, n) -> "(NthPow " ^ show_expr a ^ " " ^ pos_to_string n ^ ")"
  | NthRoot (a, n) -> "(NthRoot " ^ show_expr a ^ " " ^ pos_to_string n ^ ")"
  | Exp (a, b) -> "(Exp " ^ show_expr a ^ " " ^ show_num b ^ ")"
  | Log (a, b) -> "(Log " ^ show_expr a ^ " " ^ show_num b ^ ")"

let show_pyerr = function
  | ZeroDivision -> "ZeroDivisionError" | ValueError -> "ValueError"
  | ComplexResult -> "ComplexResult" | TypeError -> "TypeError"
  | KeyError -> "KeyError" | OverflowErr -> "OverflowError"

let show_outcome (f : 'a -> string) (o : 'a outcome) : string =
  match o with
  | Val a -> "VAL " ^ f a
  | DomErr -> "DOMERR"
  | CoordMissing -> "COORD"
  | PyErr k -> "PYERR " ^ show_pyerr k

let show_opt (f : 'a -> string) (o : 'a option) (none : string) : string =
  match o with Some a -> f a | None -> none

let show_partials (l : (name * float pynum) list) : string =
  String.concat " " (List.map (fun (x, v) -> pos_to_string x ^ "=" ^ show_num v) l)
let show_epartials (l : (name * e) list) : string =
  String.concat " " (List.map (fun (x, v) -> pos_to_string x ^ "=" ^ show_expr v) l)

let ocaml_string_of_coq (s : Model.string) : string =
  let b = Buffer.create 32 in
  let rec go = function
    | EmptyString -> ()
    | String (Ascii (b0, b1, b2, b3, b4, b5, b6, b7), r) ->
        let bit x k = if x then 1 lsl k else 0 in
        Buffer.add_char b (Char.chr (bit b0 0 + bit b1 1 + bit b2 2 + bit b3 3 + bit b4 4 + bit b5 5 + bit b6 6 + bit b7 7));
        go r in
  go s; Buffer.contents b

let show_label (l : float pynum label) : string =
  match l with
  | LConsolidate _ -> "consolidate"
  | LRule (nm, _) -> ocaml_string_of_coq nm

(* sorted enumeration of the variable-name set *)
let enum_of (x : e) : name list =
  List.sort_uniq (fun a b -> compare (int_of_pos a) (int_of_pos b)) (var_names x)

let fuel_steps = ref 20000
let fuel_depth = ref 3000
let fuel () = nat_of_int !fuel_steps
let depth () = nat_of_int !fuel_depth

(* _normalize with exhaustion report: FUEL when the model's own fuel did not suffice *)
type 'a nres = NOk of 'a | NErr of string
let norm_checked (x : e) : e nres =
  let fu = fuel () in
  let r = fully_reduce ops fu x in
  match step ops r with
  | Some _ -> NErr "FUEL steps"
  | None ->
      (match nfr ops fu (depth ()) r with
       | Some y -> NOk y
       | None -> NErr "FUEL depth")

let show_norm (x : e) : string =
  match norm_checked x with NOk y -> show_expr y | NErr m -> m

let ntrace (x : e) : string =
  let tr = normalize_trace ops (fuel ()) (depth ()) x in
  Printf.sprintf "bad=%b steps=%d" (List.exists bad_label tr) (List.length tr)

let show_token (t : float pynum token) : string =
  match t with
  | TName s -> ocaml_string_of_coq s
  | TLP -> "(" | TRP -> ")" | TComma -> "," | TEq -> "="
  | TStr x -> "\"" ^ pos_to_string x ^ "\""
  | TNum c -> show_num c
  | TPos n -> "p" ^ pos_to_string n
let show_tokens (ts : float pynum token list) : string = String.concat " " (List.map show_token ts)

let show_result (r : e Model.result) : string =
  match r with Model.Ok x -> "OK " ^ show_expr x | Raises -> "RAISES"

(* arg ::= num | str | badstr | none | expr *)
let parse_arg (a : string) : float pynum pyarg =
  match a with
  | "str" -> AStr (true, pos_of_int 2)
  | "badstr" -> AStr (false, pos_of_int 2)
  | "none" -> AOther
  | "expr" -> AExpr (Var (pos_of_int 3))
  | _ -> ANum (parse_num a)

let trace_flags (x : e) : string =
  let tr = reduce_trace ops (fuel ()) x in
  let bad = List.exists bad_label tr in
  Printf.sprintf "steps=%d bad=%b" (List.length tr) bad

let run_line (line : string) : string =
  let ts = tokenize line in
  match ts with
  | [] -> ""
  | Atom cmd :: r -> begin
      match cmd with
      | "EVAL" ->
          let (p, r1) = parse_point r in let (x, _) = parse_expr r1 in
          show_outcome show_num (eval ops p x)
      | "ATNUM" ->
          (match r with
           | Atom a :: r1 -> let (x, _) = parse_expr r1 in
               show_opt (show_outcome show_num) (at_number ops x (parse_num a)) "REJECT"
           | _ -> raise (Parse "ATNUM"))
      | "FWD" ->
          (match r with
           | Atom v :: r1 ->
               let (p, r2) = parse_point r1 in let (x, _) = parse_expr r2 in
               show_outcome show_num (fwd ops (parse_pos v) p x)
           | _ -> raise (Parse "FWD"))
      | "REV" ->
          let (p, r1) = parse_point r in let (x, _) = parse_expr r1 in
          show_outcome show_partials (located_differential ops x (enum_of x) p)
      | "DIFFAT" ->
          let (p, r1) = parse_point r in let (x, _) = parse_expr r1 in
          show_outcome show_partials (differential_at_late ops x (enum_of x) p)
      | "DERIV" ->
          let (p, r1) = parse_point r in let (x, _) = parse_expr r1 in
          show_opt (show_outcome show_num) (derivative_at_late ops x p) "REJECT"
      | "DERIVNUM" ->
          (match r with
           | Atom a :: r1 -> let (x, _) = parse_expr r1 in
               show_opt (show_outcome show_num) (derivative_at_number_late ops x (parse_num a)) "REJECT"
           | _ -> raise (Parse "DERIVNUM"))
      | "SYNFWD" ->
          (match r with
           | Atom v :: r1 -> let (x, _) = parse_expr r1 in show_expr (synth_fwd ops (parse_pos v) x)
           | _ -> raise (Parse "SYNFWD"))
      | "SYNREV" ->
          let (x, _) = parse_expr r in show_epartials (synthetic_partials ops x (enum_of x))
      | "STEP" ->
          let (x, _) = parse_expr r in
          (match step_named ops x with
           | Some (lab, y) -> show_label lab ^ " " ^ show_expr y
           | None -> "NONE")
      | "REDUCE" ->
          let (x, _) = parse_expr r in
          let y = fully_reduce ops (fuel ()) x in
          (match step ops y with Some _ -> "FUEL steps" | None -> show_expr y)
      | "NORM" ->
          let (x, _) = parse_expr r in show_norm x
      | "TRACE" ->
          let (x, _) = parse_expr r in trace_flags x
      | "PEXPR" ->
          (match r with
           | Atom v :: r1 -> let (x, _) = parse_expr r1 in show_norm (synth_fwd ops (parse_pos v) x)
           | _ -> raise (Parse "PEXPR"))
      | "PEARLY" ->
          (match r with
           | Atom v :: r1 ->
               let (p, r2) = parse_point r1 in let (x, _) = parse_expr r2 in
               (match norm_checked (synth_fwd ops (parse_pos v) x) with
                | NOk s -> show_outcome show_num (at_via ops x s p)
                | NErr m -> m)
           | _ -> raise (Parse "PEARLY"))
      | "DEXPR" ->
          (match r with
           | Atom v :: r1 -> let (x, _) = parse_expr r1 in
               show_opt show_expr
                 (differential_early_component_expr ops (fuel ()) (depth ()) x (enum_of x) (parse_pos v))
                 "FUEL"
           | _ -> raise (Parse "DEXPR"))
      | "DEARLYAT" ->
          (match r with
           | Atom v :: r1 ->
               let (p, r2) = parse_point r1 in let (x, _) = parse_expr r2 in
               show_opt (show_outcome show_num)
                 (differential_early_component_at ops (fuel ()) (depth ()) x (enum_of x) (parse_pos v) p)
                 "FUEL"
           | _ -> raise (Parse "DEARLYAT"))
      | "DEARLYALL" ->
          let (p, r1) = parse_point r in let (x, _) = parse_expr r1 in
          show_opt (show_outcome show_partials)
            (differential_at_early ops (fuel ()) (depth ()) x (enum_of x) p) "FUEL"
      | "STEPCOUNT" ->
          let (x, _) = parse_expr r in
          let fu = fuel () in
          let tr = reduce_trace ops fu x in
          let y = fully_reduce ops fu x in
          (match step ops y with
           | Some _ -> "FUEL steps"
           | None -> Printf.sprintf "forms=%d final=%s" (List.length tr + 1) (show_expr y))
      | "STEPINFO" | "EQX" | "PEQX" | "REPRINJ" | "NUMREPR" | "NAMES" | "OPS" | "CTOROPS" | "LOCHASH" -> "SKIP"
      | "NTRACE" ->
          let (x, _) = parse_expr r in ntrace x
      | "PTRACE" ->
          (match r with
           | Atom v :: r1 -> let (x, _) = parse_expr r1 in ntrace (synth_fwd ops (parse_pos v) x)
           | _ -> raise (Parse "PTRACE"))
      | "DTRACE" ->
          let (x, _) = parse_expr r in
          let sp = synthetic_partials ops x (enum_of x) in
          let trs = List.concat_map (fun (_, s) -> normalize_trace ops (fuel ()) (depth ()) s) sp in
          Printf.sprintf "bad=%b steps=%d" (List.exists bad_label trs) (List.length trs)
      | "EQ" ->
          let (a, r1) = parse_expr r in let (b, _) = parse_expr r1 in
          string_of_bool (sm_expr_eqb ops a b)
      | "PEQ" ->
          let (p, r1) = parse_point r in let (q, _) = parse_point r1 in
          string_of_bool (sm_point_eqb ops p q)
      | "SHOW" ->
          let (x, _) = parse_expr r in show_tokens (show x)
      | "SHOWPOINT" ->
          let (p, _) = parse_point r in show_tokens (show_point p)
      | "SHOWPARTIAL" ->
          (match r with
           | Atom v :: r1 -> let (x, _) = parse_expr r1 in show_tokens (show_partial x (parse_pos v))
           | _ -> raise (Parse "SHOWPARTIAL"))
      | "SHOWDERIV" -> let (x, _) = parse_expr r in show_tokens (show_derivative x)
      | "SHOWDIFF" -> let (x, _) = parse_expr r in show_tokens (show_differential x)
      | "SHOWLOC" ->
          let (p, r1) = parse_point r in let (x, _) = parse_expr r1 in show_tokens (show_located x p)
      | "PARSEBACK" ->
          let (x, _) = parse_expr r in
          (match parse (fun c -> c) (parse_fuel x) (show x) with
           | Some (y, []) -> string_of_bool (sm_expr_eqb ops y x && sm_expr_eqb ops x y && y = x)
           | _ -> "false")
      | "OPPOW" ->
          (match r with
           | [Atom a] -> show_result (op_pow ops (Var (pos_of_int 2)) (parse_arg a))
           | _ -> raise (Parse "OPPOW"))
      | "OPBIN" ->
          (match r with
           | [Atom a] ->
               let x = parse_arg a in
               let v = Var (pos_of_int 2) in
               show_result (op_add v x) ^ " | " ^ show_result (op_sub v x)
           | _ -> raise (Parse "OPBIN"))
      | "MKNTH" ->
          (match r with
           | [Atom k; Atom inner; Atom a] ->
               let i = parse_arg inner and n = parse_arg a in
               show_result (if k = "pow" then mk_nth_power ops i n else mk_nth_root ops i n)
           | _ -> raise (Parse "MKNTH"))
      | "MKBASE" ->
          (match r with
           | [Atom k; Atom inner; Atom a] ->
               let i = parse_arg inner and b = parse_arg a in
               show_result (if k = "exp" then mk_exponential ops i b else mk_logarithm ops i b)
           | _ -> raise (Parse "MKBASE"))
      | "MKVAR" ->
          (match r with
           | [Atom a] -> show_result (mk_variable (parse_arg a))
           | _ -> raise (Parse "MKVAR"))
      | "VARS" ->
          let (x, _) = parse_expr r in
          String.concat " " (List.map pos_to_string (enum_of x))
      | "SIZE" ->
          let (x, _) = parse_expr r in
          let rec int_of_nat = function O -> 0 | S n -> 1 + int_of_nat n in
          string_of_int (int_of_nat (size x))
      | "SETFUEL" ->
          (match r with
           | [Atom a; Atom b] -> fuel_steps := int_of_string a; fuel_depth := int_of_string b; "OK"
           | _ -> raise (Parse "SETFUEL"))
      | _ -> raise (Parse ("command " ^ cmd))
    end
  | _ -> raise (Parse "line")

let () =
  try
    while true do
      let line = input_line stdin in
      let out =
        try run_line line with
        | Parse m -> "ERROR parse " ^ m
        | Stack_overflow -> "ERROR stack"
        | Failure m -> "ERROR failure " ^ m
        | Not_found -> "ERROR notfound" in
      print_string out; print_char '\n'; flush stdout
    done
  with End_of_file -> ()
