"""Static tie: regenerate coq/Generated.v from the CURRENT sources of /repo.

Fail-closed: any unexpected shape raises, which breaks the tie (the check then reports it).
Tables (all compared with the model's own tables in coq/Tie.v by [reflexivity]):
  gen_reducers        per class, the method names in the list returned by _reducers, in order
  gen_steps_bound     REDUCTION_STEPS_BOUND
  gen_bases           class -> base class
  gen_value_formula   class -> the mf.* function called by _value_formula
  gen_verify          class -> does _verify_domain_constraints have a body other than `pass`
  gen_operators       dunder -> constructors called in its body
  gen_writes          every attribute/subscript write and mutating-method call, with receiver kind
  gen_value_access    (class, method) pairs that mention the `_value` field
  gen_flag_access     (class/module, function, field) that mention _is_fully_reduced/_evaluation_failed
  gen_set_iterations  every iteration over a *_variable_names set
  gen_public          __all__ of the two public modules
  gen_mf_names        functions defined in math_functions.py
"""
import ast
import os
import sys

REPO = os.environ.get('VERIF_REPO', '/repo')
SRC = os.path.join(REPO, 'src', 'smoothmath')

EXPR_FILES = ['add', 'minus', 'negation', 'multiply', 'divide', 'reciprocal', 'power', 'nth_power',
              'nth_root', 'exponential', 'logarithm', 'cosine', 'sine', 'constant', 'variable']
MUTATORS = {'append', 'extend', 'insert', 'pop', 'remove', 'clear', 'sort', 'reverse', 'update',
            'setdefault', 'popitem', 'add', 'discard', 'difference_update', 'intersection_update',
            'symmetric_difference_update', '__setitem__', '__delitem__', '__setattr__', '__delattr__'}
FORBIDDEN_NAMES = {'setattr', 'delattr', 'exec', 'eval', 'globals', 'vars', 'locals', '__import__'}


TRANSLATED = []      # (file, lineno, end_lineno, name) of every function body handed to a translator


def note_translated(fd):
    TRANSLATED.append((getattr(fd, '_file', '?'), getattr(fd, 'lineno', 0), getattr(fd, 'end_lineno', 0), getattr(fd, 'name', '?')))


class TieError(Exception):
    pass


def parse(path):
    with open(path) as f:
        t = ast.parse(f.read(), path)
    for n in ast.walk(t):
        n._file = path
    return t


def all_py_files():
    out = []
    for root, _dirs, files in os.walk(SRC):
        for fn in sorted(files):
            if fn.endswith('.py'):
                out.append(os.path.join(root, fn))
    return sorted(out)


def coq_str(s):
    return '"' + s.replace('"', '""') + '"'


def coq_list(items):
    return '[' + '; '.join(items) + ']'


def classes_of(tree):
    return [n for n in tree.body if isinstance(n, ast.ClassDef)]


def methods_of(cls):
    return [n for n in cls.body if isinstance(n, ast.FunctionDef)]


def base_name(b):
    if isinstance(b, ast.Attribute):
        return b.attr
    if isinstance(b, ast.Name):
        return b.id
    raise TieError('base class shape')


def extract_reducers(cls):
    for m in methods_of(cls):
        if m.name == '_reducers':
            body = [s for s in m.body if not (isinstance(s, ast.Expr) and isinstance(s.value, ast.Constant))]
            if len(body) == 1 and isinstance(body[0], ast.Raise):
                return None   # abstract declaration in a base class
            if len(body) != 1 or not isinstance(body[0], ast.Return) or not isinstance(body[0].value, ast.List):
                raise TieError('_reducers of %s is not a single `return [..]`' % cls.name)
            names = []
            for el in body[0].value.elts:
                if not (isinstance(el, ast.Attribute) and isinstance(el.value, ast.Name) and el.value.id == 'self'):
                    raise TieError('_reducers element shape in %s' % cls.name)
                names.append(el.attr)
            note_translated(m)
            return names
    return None


def mf_call_in(func):
    calls = []
    for n in ast.walk(func):
        if isinstance(n, ast.Call) and isinstance(n.func, ast.Attribute) and \
                isinstance(n.func.value, ast.Name) and n.func.value.id == 'mf':
            calls.append(n.func.attr)
    return calls


def receiver_kind(node, params, local_fresh):
    """classify the object being written through"""
    # peel attributes/subscripts down to the root name
    cur = node
    depth = 0
    while isinstance(cur, (ast.Attribute, ast.Subscript)):
        cur = cur.value
        depth += 1
    if isinstance(cur, ast.Name):
        if cur.id == 'self':
            return 'self' if depth == 0 else 'self.field'
        if cur.id in local_fresh:
            return 'local_fresh'
        if cur.id in params:
            return 'param'
        return 'local_other'
    return 'other'


def fresh_locals(func):
    """names assigned in this function from a literal / constructor of a fresh container"""
    fresh = set()
    for n in ast.walk(func):
        if isinstance(n, ast.Assign) and len(n.targets) == 1 and isinstance(n.targets[0], ast.Name):
            v = n.value
            if isinstance(v, (ast.List, ast.Dict, ast.Set, ast.ListComp, ast.DictComp, ast.SetComp)):
                fresh.add(n.targets[0].id)
            elif isinstance(v, ast.Call) and isinstance(v.func, ast.Name) and v.func.id in ('dict', 'list', 'set'):
                fresh.add(n.targets[0].id)
        if isinstance(n, ast.AnnAssign) and isinstance(n.target, ast.Name) and n.value is not None:
            v = n.value
            if isinstance(v, (ast.List, ast.Dict, ast.Set)):
                fresh.add(n.target.id)
    return fresh


MODULE_ALIASES = set()


def collect_aliases(tree):
    for n in ast.walk(tree):
        if isinstance(n, ast.Import):
            for a in n.names:
                MODULE_ALIASES.add(a.asname or a.name.split('.')[0])


def writes_in(owner, func):
    out = []
    params = {a.arg for a in func.args.args + func.args.kwonlyargs}
    if func.args.vararg:
        params.add(func.args.vararg.arg)
    if func.args.kwarg:
        params.add(func.args.kwarg.arg)
    fresh = fresh_locals(func)

    def target(t, how):
        if isinstance(t, ast.Attribute):
            kind = receiver_kind(t.value, params, fresh)
            out.append((owner, func.name, how, kind, t.attr))
        elif isinstance(t, ast.Subscript):
            kind = receiver_kind(t.value, params, fresh)
            field = t.value.attr if isinstance(t.value, ast.Attribute) else '[]'
            out.append((owner, func.name, how + '[]', kind, field))
        elif isinstance(t, (ast.Tuple, ast.List)):
            for el in t.elts:
                target(el, how)
        elif isinstance(t, ast.Starred):
            target(t.value, how)
        elif isinstance(t, ast.Name):
            pass
        else:
            raise TieError('assignment target shape in %s.%s' % (owner, func.name))

    for n in ast.walk(func):
        if isinstance(n, ast.Assign):
            for t in n.targets:
                target(t, 'assign')
        elif isinstance(n, ast.AugAssign):
            target(n.target, 'augassign')
        elif isinstance(n, ast.AnnAssign):
            if n.value is not None:
                target(n.target, 'assign')
        elif isinstance(n, ast.Delete):
            for t in n.targets:
                target(t, 'delete')
        elif isinstance(n, ast.Call):
            f = n.func
            if isinstance(f, ast.Attribute) and f.attr in MUTATORS and not (
                    isinstance(f.value, ast.Name) and f.value.id in MODULE_ALIASES):
                kind = receiver_kind(f.value, params, fresh)
                field = f.value.attr if isinstance(f.value, ast.Attribute) else (
                    f.value.id if isinstance(f.value, ast.Name) else '?')
                # accumulator.add_to is the library's own method, handled as a normal call;
                # `.add`/`.update` etc. on anything are recorded
                out.append((owner, func.name, 'call.' + f.attr, kind, field))
            if isinstance(f, ast.Name) and f.id in FORBIDDEN_NAMES and not (owner == 'impl' and False):
                raise TieError('use of %s in %s.%s' % (f.id, owner, func.name))
        elif isinstance(n, (ast.Global, ast.Nonlocal)):
            raise TieError('global/nonlocal in %s.%s' % (owner, func.name))
    return out


def mentions(func, attr):
    for n in ast.walk(func):
        if isinstance(n, ast.Attribute) and n.attr == attr:
            return True
    return False


def set_iterations(owner, func):
    out = []

    def is_names(e):
        # the iterable itself is a variable-name set (not merely an expression mentioning one)
        if isinstance(e, ast.Attribute) and e.attr == '_variable_names':
            return True
        if isinstance(e, ast.Name) and e.id in ('variable_names',):
            return True
        return False
    for n in ast.walk(func):
        if isinstance(n, (ast.For, ast.comprehension)) and is_names(n.iter):
            out.append((owner, func.name, 'for'))
        if isinstance(n, ast.Assign) and any(isinstance(t, (ast.Tuple, ast.List)) for t in n.targets) \
                and is_names(n.value):
            out.append((owner, func.name, 'unpack'))
        if isinstance(n, ast.Starred) and is_names(n.value) and not isinstance(getattr(n, 'ctx', None), ast.Store):
            out.append((owner, func.name, 'splat'))
        if isinstance(n, ast.Call) and isinstance(n.func, ast.Name) and \
                n.func.id in ('list', 'tuple', 'sorted', 'next', 'iter', 'min', 'max') and \
                any(is_names(a) for a in n.args):
            out.append((owner, func.name, 'call.' + n.func.id))
    return out


def set_creations(owner, func):
    out = []
    for n in ast.walk(func):
        if isinstance(n, (ast.Set, ast.SetComp)):
            out.append((owner, func.name))
        if isinstance(n, ast.Call) and isinstance(n.func, ast.Name) and n.func.id in ('set', 'frozenset'):
            out.append((owner, func.name))
        if isinstance(n, ast.Call) and isinstance(n.func, ast.Attribute) and \
                n.func.attr in ('union', 'intersection', 'difference', 'symmetric_difference', 'keys', 'values'):
            out.append((owner, func.name))
    return out


def generate():
    set_creates = []
    reducers = []
    bases = []
    value_formula = []
    verify = []
    writes = []
    value_access = []
    flag_access = []
    set_iters = []
    toplevel = []
    for path in all_py_files():
        rel = os.path.relpath(path, SRC)
        tree = parse(path)
        collect_aliases(tree)
        mod = rel[:-3].replace(os.sep, '.')
        for node in tree.body:
            if isinstance(node, ast.FunctionDef):
                writes += writes_in(mod, node)
                set_iters += set_iterations(mod, node)
                set_creates += set_creations(mod, node)
                for fld in ('_is_fully_reduced', '_evaluation_failed'):
                    if mentions(node, fld):
                        flag_access.append((mod, node.name, fld))
                if mentions(node, '_value'):
                    value_access.append((mod, node.name))
            elif isinstance(node, ast.ClassDef):
                cls = node
                if len(cls.bases) > 1:
                    raise TieError('multiple inheritance in %s' % cls.name)
                if cls.bases:
                    bases.append((cls.name, base_name(cls.bases[0])))
                red = extract_reducers(cls)
                if red is not None:
                    reducers.append((cls.name, red))
                for m in methods_of(cls):
                    writes += writes_in(cls.name, m)
                    set_iters += set_iterations(cls.name, m)
                    set_creates += set_creations(cls.name, m)
                    if m.name == '_value_formula':
                        calls = mf_call_in(m)
                        if len(calls) == 1:
                            value_formula.append((cls.name, calls[0]))
                        elif calls:
                            raise TieError('_value_formula of %s calls several mf functions' % cls.name)
                    if m.name == '_verify_domain_constraints':
                        body = [s for s in m.body if not (isinstance(s, ast.Expr) and isinstance(s.value, ast.Constant))]
                        trivial = all(isinstance(s, ast.Pass) for s in body) or \
                            any(isinstance(s, ast.Raise) and 'must implement' in ast.dump(s) for s in body)
                        verify.append((cls.name, not trivial))
                    if mentions(m, '_value'):
                        value_access.append((cls.name, m.name))
                    for fld in ('_is_fully_reduced', '_evaluation_failed'):
                        if mentions(m, fld):
                            flag_access.append((cls.name, m.name, fld))
            elif isinstance(node, (ast.Import, ast.ImportFrom)):
                pass
            elif isinstance(node, ast.Expr) and isinstance(node.value, ast.Constant) and isinstance(node.value.value, str):
                pass
            elif isinstance(node, (ast.Assign, ast.AnnAssign, ast.If)):
                # module-level code other than imports, classes and functions: constants (the name pattern, the step
                # bound, __all__, type variables) and `if TYPE_CHECKING:` import blocks; recorded verbatim
                toplevel.append((rel, ast.unparse(node)))
            else:
                raise TieError('unexpected top-level statement in %s: %s' % (rel, type(node).__name__))
            if isinstance(node, ast.ClassDef):
                for st in node.body:
                    if isinstance(st, ast.FunctionDef):
                        continue
                    if isinstance(st, ast.Expr) and isinstance(st.value, ast.Constant) and isinstance(st.value.value, str):
                        continue
                    if isinstance(st, ast.Pass):
                        continue
                    # class-level code other than methods and docstrings (attribute assignments, aliases, nested classes)
                    toplevel.append((rel, '%s: %s' % (node.name, ast.unparse(st))))

    # operators
    operators = []
    tree = parse(os.path.join(SRC, '_private', 'base_expression', 'expression.py'))
    for cls in classes_of(tree):
        if cls.name == 'Expression':
            for m in methods_of(cls):
                if m.name.startswith('__') and m.name.endswith('__') and m.name not in ('__init__',):
                    ctors = []
                    for n in ast.walk(m):
                        if isinstance(n, ast.Call) and isinstance(n.func, ast.Attribute) and \
                                isinstance(n.func.value, ast.Name) and n.func.value.id == 'ex':
                            args = []
                            for a in n.args:
                                if isinstance(a, ast.Name):
                                    args.append(a.id)
                                else:
                                    raise TieError('operator argument shape in %s' % m.name)
                            ctors.append(n.func.attr + '(' + ','.join(args) + ')')
                    operators.append((m.name, ctors))
    # steps bound
    bound = None
    for node in tree.body:
        if isinstance(node, ast.Assign) and len(node.targets) == 1 and \
                isinstance(node.targets[0], ast.Name) and node.targets[0].id == 'REDUCTION_STEPS_BOUND':
            if not (isinstance(node.value, ast.Constant) and isinstance(node.value.value, int)):
                raise TieError('REDUCTION_STEPS_BOUND is not an int literal')
            bound = node.value.value
    if bound is None:
        raise TieError('REDUCTION_STEPS_BOUND not found')

    # public names
    public = []
    for rel in ('__init__.py', os.path.join('expression', '__init__.py')):
        t = parse(os.path.join(SRC, rel))
        found = False
        for node in t.body:
            if isinstance(node, ast.Assign) and isinstance(node.targets[0], ast.Name) and node.targets[0].id == '__all__':
                if not isinstance(node.value, ast.List):
                    raise TieError('__all__ shape')
                public += [el.value for el in node.value.elts]
                found = True
        if not found:
            raise TieError('__all__ missing in ' + rel)

    # math_functions
    t = parse(os.path.join(SRC, '_private', 'math_functions.py'))
    mf_names = [n.name for n in t.body if isinstance(n, ast.FunctionDef)]

    def pairs(l):
        return coq_list(['(%s, %s)' % (coq_str(a), coq_str(b)) for a, b in l])

    lines = []
    lines.append('(* GENERATED by harness/tie_extract.py from %s -- do not edit *)' % SRC)
    lines.append('From Coq Require Import List String.')
    lines.append('Import ListNotations.')
    lines.append('Open Scope string_scope.')
    lines.append('')
    lines.append('Definition gen_reducers : list (string * list string) :=')
    lines.append('  ' + coq_list(['(%s, %s)' % (coq_str(c), coq_list([coq_str(r) for r in rs]))
                                 for c, rs in sorted(reducers)]) + '.')
    lines.append('Definition gen_steps_bound : nat := %d.' % bound)
    lines.append('Definition gen_bases : list (string * string) := ' + pairs(sorted(bases)) + '.')
    lines.append('Definition gen_value_formula : list (string * string) := ' + pairs(sorted(value_formula)) + '.')
    lines.append('Definition gen_verify : list (string * bool) := ' +
                 coq_list(['(%s, %s)' % (coq_str(c), 'true' if b else 'false') for c, b in sorted(verify)]) + '.')
    lines.append('Definition gen_operators : list (string * list string) := ' +
                 coq_list(['(%s, %s)' % (coq_str(d), coq_list([coq_str(c) for c in cs]))
                           for d, cs in sorted(operators)]) + '.')
    lines.append('(* owner, function, how, receiver kind, field *)')
    lines.append('Definition gen_writes : list (string * string * string * string * string) :=')
    lines.append('  ' + coq_list(['(%s, %s, %s, %s, %s)' % tuple(coq_str(x) for x in w) for w in sorted(set(writes))]) + '.')
    lines.append('Definition gen_value_access : list (string * string) := ' + pairs(sorted(set(value_access))) + '.')
    lines.append('Definition gen_flag_access : list (string * string * string) := ' +
                 coq_list(['(%s, %s, %s)' % tuple(coq_str(x) for x in w) for w in sorted(set(flag_access))]) + '.')
    lines.append('Definition gen_set_iterations : list (string * string * string) := ' +
                 coq_list(['(%s, %s, %s)' % tuple(coq_str(x) for x in w) for w in sorted(set(set_iters))]) + '.')
    lines.append('Definition gen_set_creations : list (string * string) := ' + pairs(sorted(set(set_creates))) + '.')
    lines.append('Definition gen_public : list string := ' + coq_list([coq_str(p) for p in public]) + '.')
    lines.append('Definition gen_mf_names : list string := ' + coq_list([coq_str(p) for p in mf_names]) + '.')
    lines.append('Definition gen_toplevel : list (string * string) := ' + pairs(sorted(toplevel)) + '.')
    # every `raise` of the library, verbatim (exception class and message template), in source order per file
    raises = []
    for path in all_py_files():
        rel = os.path.relpath(path, SRC)
        tree = parse(path)
        for node in ast.walk(tree):
            if isinstance(node, ast.FunctionDef):
                for st in ast.walk(node):
                    if isinstance(st, ast.Raise):
                        raises.append((rel, '%s @%d: %s' % (node.name, st.lineno - node.lineno, ast.unparse(st))))
    lines.append('Definition gen_raises : list (string * string) := ' + pairs(raises) + '.')
    # which functions exist: per module its functions, per class its methods with their signatures (in source order).
    # A method added to a class (a new dunder, an override of something inherited), removed or re-declared is visible here
    # even when no translated body changes.
    defs = []
    for path in all_py_files():
        rel = os.path.relpath(path, SRC)
        tree = parse(path)
        for node in tree.body:
            if isinstance(node, ast.FunctionDef):
                defs.append((rel, '%s(%s)' % (node.name, ast.unparse(node.args))))
            elif isinstance(node, ast.ClassDef):
                for m in node.body:
                    if isinstance(m, (ast.FunctionDef, ast.AsyncFunctionDef, ast.ClassDef)):
                        sig = ast.unparse(m.args) if not isinstance(m, ast.ClassDef) else 'class'
                        decs = ''.join('@%s ' % ast.unparse(d) for d in getattr(m, 'decorator_list', []))
                        defs.append((rel, '%s.%s%s(%s)' % (node.name, decs, m.name, sig)))
    lines.append('Definition gen_defs : list (string * string) := ' + pairs(defs) + '.')
    # every import, wherever it stands (what the aliases mf, util, ex, er, pt, acc ... of the translated bodies denote)
    imports = []
    for path in all_py_files():
        rel = os.path.relpath(path, SRC)
        for node in ast.walk(parse(path)):
            if isinstance(node, (ast.Import, ast.ImportFrom)):
                imports.append((rel, ast.unparse(node)))
    lines.append('Definition gen_imports : list (string * string) := ' + pairs(imports) + '.')
    return '\n'.join(lines) + '\n'


# ---------------------------------------------------------------- translator to coq/PyAst.v
BINOPS = {ast.Add: '+', ast.Sub: '-', ast.Mult: '*', ast.Div: '/', ast.Pow: '**'}
CMPOPS = {ast.Eq: '==', ast.NotEq: '!=', ast.Lt: '<', ast.Gt: '>', ast.LtE: '<=', ast.GtE: '>='}


class Translator:
    def __init__(self, where):
        self.where = where
        self.self_fields = []

    def fail(self, what, node=None):
        raise TieError('cannot translate %s in %s: %s' % (what, self.where, ast.dump(node)[:120] if node is not None else ''))

    def z(self, n):
        return '(%d)%%Z' % n

    def expr(self, e):
        if isinstance(e, ast.Name):
            return '(EName %s)' % coq_str(e.id)
        if isinstance(e, ast.Constant):
            v = e.value
            if isinstance(v, bool):
                self.fail('bool literal', e)
            if isinstance(v, int):
                return '(EInt %s)' % self.z(v)
            if isinstance(v, float) and v.is_integer() and abs(v) < 2 ** 53:
                return '(EFloatLit %s)' % self.z(int(v))
            self.fail('literal', e)
        if isinstance(e, ast.Attribute):
            if isinstance(e.value, ast.Name) and e.value.id == 'math' and e.attr == 'e':
                return 'EMathE'
            if isinstance(e.value, ast.Name) and e.value.id == 'self' and e.attr in ('n', 'base'):
                name = 'self.' + e.attr
                if name not in self.self_fields:
                    self.self_fields.append(name)
                return '(EName %s)' % coq_str(name)
            self.fail('attribute', e)
        if isinstance(e, ast.UnaryOp) and isinstance(e.op, ast.USub):
            return '(ENeg %s)' % self.expr(e.operand)
        if isinstance(e, ast.BinOp) and type(e.op) in BINOPS:
            return '(EBin %s %s %s)' % (coq_str(BINOPS[type(e.op)]), self.expr(e.left), self.expr(e.right))
        if isinstance(e, ast.Call):
            f = e.func
            # a cached evaluation of a sub-expression at the point of the query: a free value
            if isinstance(f, ast.Attribute) and f.attr == '_evaluate' and len(e.args) == 1 and not e.keywords \
                    and isinstance(e.args[0], ast.Name) and e.args[0].id == 'point':
                tgt = f.value
                name = None
                if isinstance(tgt, ast.Name) and tgt.id == 'self':
                    name = 'SV'
                elif isinstance(tgt, ast.Attribute) and isinstance(tgt.value, ast.Name) and tgt.value.id == 'self':
                    name = {'_inner': 'IV', '_left': 'LV', '_right': 'RV'}.get(tgt.attr)
                if name is None:
                    self.fail('evaluate target', e)
                if name not in self.self_fields:
                    self.self_fields.append(name)
                return '(EName %s)' % coq_str(name)
            # a call into math_functions
            if isinstance(f, ast.Attribute) and isinstance(f.value, ast.Name) and f.value.id == 'mf':
                args = [self.expr(a) for a in e.args]
                kw = {k.arg: self.expr(k.value) for k in e.keywords}
                if f.attr in ('nth_power', 'nth_root'):
                    if 'n' in kw:
                        args.append(kw.pop('n'))
                elif f.attr in ('exponential', 'logarithm'):
                    if 'base' in kw:
                        args.append(kw.pop('base'))
                if kw:
                    self.fail('keyword arguments', e)
                return '(EMf %s %s)' % (coq_str(f.attr), coq_list(args))
        if isinstance(e, ast.Call) and not e.keywords:
            f = e.func
            if isinstance(f, ast.Name) and f.id == 'float' and len(e.args) == 1:
                return '(EFloat %s)' % self.expr(e.args[0])
            if isinstance(f, ast.Name) and f.id == 'sum' and len(e.args) == 1:
                return '(ESum %s)' % self.expr(e.args[0])
            if isinstance(f, ast.Attribute) and isinstance(f.value, ast.Name) and f.value.id == 'math':
                if f.attr in ('sqrt', 'cbrt', 'cos', 'sin') and len(e.args) == 1:
                    return '(EMath1 %s %s)' % (coq_str(f.attr), self.expr(e.args[0]))
                if f.attr == 'log' and len(e.args) == 2:
                    return '(ELog2 %s %s)' % (self.expr(e.args[0]), self.expr(e.args[1]))
        self.fail('expression', e)

    def cond(self, c):
        if isinstance(c, ast.Compare) and len(c.ops) == 1 and type(c.ops[0]) in CMPOPS:
            return '(CCmp %s %s %s)' % (coq_str(CMPOPS[type(c.ops[0])]), self.expr(c.left), self.expr(c.comparators[0]))
        if isinstance(c, ast.Call) and isinstance(c.func, ast.Attribute) and isinstance(c.func.value, ast.Name) \
                and c.func.value.id == 'util' and c.func.attr == 'is_even' and len(c.args) == 1:
            return '(CIsEven %s)' % self.expr(c.args[0])
        if isinstance(c, ast.BoolOp) and isinstance(c.op, ast.And):
            out = self.cond(c.values[-1])
            for v in reversed(c.values[:-1]):
                out = '(CAnd %s %s)' % (self.cond(v), out)
            return out
        self.fail('condition', c)

    def block(self, stmts):
        return coq_list([self.stmt(s) for s in stmts
                         if not (isinstance(s, ast.Expr) and isinstance(s.value, ast.Constant))])

    def stmt(self, s):
        if isinstance(s, ast.Return):
            if s.value is None:
                self.fail('bare return', s)
            return '(SReturn %s)' % self.expr(s.value)
        if isinstance(s, ast.Raise):
            exc = s.exc
            if isinstance(exc, ast.Call) and isinstance(exc.func, ast.Attribute) and exc.func.attr == 'DomainError':
                return 'SRaiseDomain'
            self.fail('raise', s)
        if isinstance(s, ast.Pass):
            return 'SPass'
        if isinstance(s, ast.If):
            return '(SIf %s %s %s)' % (self.cond(s.test), self.block(s.body), self.block(s.orelse))
        if isinstance(s, ast.Assign) and len(s.targets) == 1 and isinstance(s.targets[0], ast.Name):
            return '(SAssign %s %s)' % (coq_str(s.targets[0].id), self.expr(s.value))
        if isinstance(s, ast.AugAssign) and isinstance(s.target, ast.Name) and isinstance(s.op, ast.Mult):
            return '(SAugMul %s %s)' % (coq_str(s.target.id), self.expr(s.value))
        if isinstance(s, ast.For) and isinstance(s.target, ast.Name) and isinstance(s.iter, ast.Name) and not s.orelse:
            return '(SFor %s %s %s)' % (coq_str(s.target.id), coq_str(s.iter.id), self.block(s.body))
        self.fail('statement', s)

    def function(self, fd):
        note_translated(fd)
        if getattr(fd, 'decorator_list', None):
            self.fail('decorated function', fd)
        a = fd.args
        if a.kwonlyargs or a.kwarg or a.posonlyargs:
            self.fail('parameters', fd)
        params = []
        for p in a.args:
            if p.arg == 'self':
                continue
            is_int = isinstance(p.annotation, ast.Name) and p.annotation.id == 'int'
            params.append((p.arg, is_int))
        if a.vararg:
            params.append(('*' + a.vararg.arg, False))
        body = self.block(fd.body)
        params = [p for p in params if p[0] != 'point']
        for f in self.self_fields:
            params.append((f, f == 'self.n'))
        ps = coq_list(['(%s, %s)' % (coq_str(n), 'true' if i else 'false') for n, i in params])
        return '{| f_params := %s; f_body := %s |}' % (ps, body)


def generate_math():
    lines = ['(* GENERATED by harness/tie_extract.py: the current source of math_functions.py and of the',
             '   _verify_domain_constraints methods, translated into PyAst.pfun -- do not edit *)',
             'From Coq Require Import ZArith List String.', 'From SM Require Import PyAst.',
             'Import ListNotations.', 'Open Scope string_scope.', '']
    value_star = []
    t = parse(os.path.join(SRC, '_private', 'math_functions.py'))
    for node in t.body:
        if isinstance(node, ast.FunctionDef):
            tr = Translator('math_functions.' + node.name)
            lines.append('Definition gen_mf_%s : pfun := %s.' % (node.name, tr.function(node)))
    for fn in EXPR_FILES:
        t = parse(os.path.join(SRC, '_private', 'expression', fn + '.py'))
        for cls in classes_of(t):
            for m in methods_of(cls):
                if m.name == '_verify_domain_constraints':
                    tr = Translator('%s._verify_domain_constraints' % cls.name)
                    lines.append('Definition gen_verify_%s : pfun := %s.' % (cls.name, tr.function(m)))
                if m.name == '_value_formula':
                    if cls.name in ('Add', 'Multiply'):
                        # return mf.add(*inner_values): the n-ary shape, recorded as a table entry
                        body = [s_ for s_ in m.body if not (isinstance(s_, ast.Expr) and isinstance(s_.value, ast.Constant))]
                        ok = (len(body) == 1 and isinstance(body[0], ast.Return) and isinstance(body[0].value, ast.Call)
                              and isinstance(body[0].value.func, ast.Attribute) and isinstance(body[0].value.func.value, ast.Name)
                              and body[0].value.func.value.id == 'mf' and len(body[0].value.args) == 1
                              and isinstance(body[0].value.args[0], ast.Starred) and isinstance(body[0].value.args[0].value, ast.Name)
                              and m.args.vararg is not None and body[0].value.args[0].value.id == m.args.vararg.arg
                              and not m.args.args[1:] and not body[0].value.keywords and not m.decorator_list)
                        if not ok:
                            raise TieError('_value_formula of %s is not `return mf.f(*inner_values)`' % cls.name)
                        value_star.append((cls.name, body[0].value.func.attr))
                        note_translated(m)
                    else:
                        tr = Translator('%s._value_formula' % cls.name)
                        lines.append('Definition gen_value_%s : pfun := %s.' % (cls.name, tr.function(m)))
                if m.name in ('_numeric_partial_formula', '_numeric_partial_formula_left', '_numeric_partial_formula_right'):
                    tr = Translator('%s.%s' % (cls.name, m.name))
                    suffix = m.name[len('_numeric_partial_formula'):]
                    lines.append('Definition gen_formula%s_%s : pfun := %s.' % (suffix, cls.name, tr.function(m)))
    lines.append('Definition gen_value_star : list (string * string) := ' +
                 coq_list(['(%s, %s)' % (coq_str(c), coq_str(f)) for c, f in sorted(value_star)]) + '.')
    return '\n'.join(lines) + '\n'


# ---------------------------------------------------------------- translator to coq/SymAst.v
CLASS_NAMES = {'Constant', 'Variable', 'Add', 'Multiply', 'Minus', 'Divide', 'Power', 'Negation', 'Reciprocal',
               'Sine', 'Cosine', 'NthPower', 'NthRoot', 'Exponential', 'Logarithm'}
SYM_ATTRS = {'_inner', '_left', '_right', '_inners', 'n', 'base', 'value', 'name'}
INTOPS = {ast.Add: '+', ast.Sub: '-', ast.Mult: '*', ast.FloorDiv: '//'}


class SymTranslator:
    """expression-building methods -> SymAst.sfun (fail-closed)"""

    def __init__(self, where):
        self.where = where

    def fail(self, what, node=None):
        raise TieError('cannot translate %s in %s: %s' % (what, self.where, ast.dump(node)[:160] if node is not None else ''))

    def cls_name(self, e):
        if isinstance(e, ast.Attribute) and isinstance(e.value, ast.Name) and e.value.id == 'ex' and e.attr in CLASS_NAMES:
            return e.attr
        if isinstance(e, ast.Name) and e.id in CLASS_NAMES:
            return e.id
        return None

    def opt(self, e):
        return 'None' if e is None else '(Some %s)' % self.expr(e)

    def args(self, call):
        out = []
        for a in call.args:
            if isinstance(a, ast.Starred):
                out.append('("*", %s)' % self.expr(a.value))
            else:
                out.append('("", %s)' % self.expr(a))
        for k in call.keywords:
            if k.arg is None:
                self.fail('**kwargs', call)
            out.append('(%s, %s)' % (coq_str(k.arg), self.expr(k.value)))
        return coq_list(out)

    def comp(self, e):
        if len(e.generators) != 1:
            self.fail('nested comprehension', e)
        g = e.generators[0]
        if g.is_async or len(g.ifs) > 1:
            self.fail('comprehension shape', e)
        body = self.expr(e.elt)
        tgt = g.target
        if isinstance(tgt, ast.Name):
            cond = 'None' if not g.ifs else '(Some %s)' % self.expr(g.ifs[0])
            return '(XComp %s %s %s %s)' % (body, coq_str(tgt.id), self.expr(g.iter), cond)
        if isinstance(tgt, ast.Tuple) and len(tgt.elts) == 2 and all(isinstance(x, ast.Name) for x in tgt.elts) and not g.ifs:
            a, b = tgt.elts[0].id, tgt.elts[1].id
            it = g.iter
            if isinstance(it, ast.Call) and isinstance(it.func, ast.Attribute) and it.func.attr == 'items' and not it.args:
                return '(XCompKV %s %s %s %s)' % (body, coq_str(a), coq_str(b), self.expr(it.func.value))
            if isinstance(it, ast.Call) and isinstance(it.func, ast.Name) and it.func.id == 'enumerate' and len(it.args) == 1:
                return '(XCompEnum %s %s %s %s)' % (body, coq_str(a), coq_str(b), self.expr(it.args[0]))
        self.fail('comprehension target', e)

    def lam(self, f, nparams):
        if not isinstance(f, ast.Lambda) or len(f.args.args) != nparams or f.args.vararg or f.args.kwarg or f.args.defaults:
            self.fail('lambda', f)
        return [a.arg for a in f.args.args], self.expr(f.body)

    def expr(self, e):
        if isinstance(e, ast.Name):
            return 'XSelf' if e.id == 'self' else '(XName %s)' % coq_str(e.id)
        if isinstance(e, ast.Constant):
            if e.value is None:
                return 'XNone'
            if isinstance(e.value, bool):
                self.fail('bool literal', e)
            if isinstance(e.value, int):
                return '(XInt (%d)%%Z)' % e.value
            self.fail('literal', e)
        if isinstance(e, ast.UnaryOp) and isinstance(e.op, ast.USub) and isinstance(e.operand, ast.Constant) \
                and isinstance(e.operand.value, int) and not isinstance(e.operand.value, bool):
            return '(XInt (%d)%%Z)' % (-e.operand.value)
        if isinstance(e, ast.UnaryOp) and isinstance(e.op, ast.Not):
            return '(XNot %s)' % self.expr(e.operand)
        if isinstance(e, ast.Attribute):
            if isinstance(e.value, ast.Name) and e.value.id == 'math' and e.attr == 'e':
                return 'XMathE'
            if e.attr in SYM_ATTRS:
                return '(XAttr %s %s)' % (self.expr(e.value), coq_str(e.attr))
            self.fail('attribute', e)
        if isinstance(e, ast.BinOp) and type(e.op) in INTOPS:
            return '(XIntOp %s %s %s)' % (coq_str(INTOPS[type(e.op)]), self.expr(e.left), self.expr(e.right))
        if isinstance(e, ast.BoolOp) and isinstance(e.op, ast.And):
            out = self.expr(e.values[-1])
            for v in reversed(e.values[:-1]):
                out = '(XAnd %s %s)' % (self.expr(v), out)
            return out
        if isinstance(e, ast.Compare) and len(e.ops) == 1:
            op = e.ops[0]
            l, r = e.left, e.comparators[0]
            if isinstance(op, (ast.Is, ast.IsNot)) and isinstance(r, ast.Constant) and r.value is None:
                t = '(XIsNone %s)' % self.expr(l)
                return t if isinstance(op, ast.Is) else '(XNot %s)' % t
            if type(op) in CMPOPS:
                return '(XCmp %s %s %s)' % (coq_str(CMPOPS[type(op)]), self.expr(l), self.expr(r))
            self.fail('comparison', e)
        if isinstance(e, (ast.ListComp, ast.GeneratorExp)):
            return self.comp(e)
        if isinstance(e, ast.Subscript):
            if isinstance(e.slice, ast.Slice):
                if e.slice.step is not None:
                    self.fail('slice step', e)
                return '(XSlice %s %s %s)' % (self.expr(e.value), self.opt(e.slice.lower), self.opt(e.slice.upper))
            return '(XIndex %s %s)' % (self.expr(e.value), self.expr(e.slice))
        if isinstance(e, ast.Call):
            f = e.func
            cn = self.cls_name(f)
            if cn is not None:
                return '(XCtor %s %s)' % (coq_str(cn), self.args(e))
            if isinstance(f, ast.Name):
                if f.id == 'isinstance' and len(e.args) == 2 and not e.keywords:
                    c = self.cls_name(e.args[1])
                    if c is None:
                        self.fail('isinstance class', e)
                    return '(XIsInst %s %s)' % (self.expr(e.args[0]), coq_str(c))
                if f.id == 'len' and len(e.args) == 1 and not e.keywords:
                    return '(XLen %s)' % self.expr(e.args[0])
                if f.id in ('any', 'all') and len(e.args) == 1 and isinstance(e.args[0], ast.GeneratorExp) and not e.keywords:
                    g = e.args[0]
                    if len(g.generators) != 1 or g.generators[0].ifs or not isinstance(g.generators[0].target, ast.Name):
                        self.fail('any/all shape', e)
                    return '(XAnyAll %s %s %s %s)' % ('true' if f.id == 'all' else 'false', self.expr(g.elt),
                                                     coq_str(g.generators[0].target.id), self.expr(g.generators[0].iter))
                if f.id.startswith('_') and not e.keywords and not any(isinstance(a, ast.Starred) for a in e.args):
                    return '(XCall %s %s)' % (coq_str(f.id), coq_list([self.expr(a) for a in e.args]))
                self.fail('call of a name', e)
            if isinstance(f, ast.Attribute) and isinstance(f.value, ast.Name) and f.value.id in ('math', 'util', 'be', 'mf'):
                mod, fn = f.value.id, f.attr
                if e.keywords and mod != 'mf':
                    self.fail('keyword arguments', e)
                if mod == 'mf':
                    return '(XMf %s %s)' % (coq_str(fn), self.args(e))
                a = e.args
                if any(isinstance(x, ast.Starred) for x in a):
                    self.fail('starred argument', e)
                if (mod, fn) == ('math', 'gcd') and len(a) == 2:
                    return '(XGcd %s %s)' % (self.expr(a[0]), self.expr(a[1]))
                if (mod, fn) == ('util', 'integer_from_integral_float') and len(a) == 1:
                    return '(XIntegral %s)' % self.expr(a[0])
                if mod == 'util' and fn in ('is_even', 'is_odd') and len(a) == 1:
                    return '(XParity %s %s)' % ('true' if fn == 'is_odd' else 'false', self.expr(a[0]))
                if (mod, fn) == ('be', 'first_of_given_type') and len(a) == 2 and self.cls_name(a[1]):
                    return '(XFirstOfType %s %s)' % (self.expr(a[0]), coq_str(self.cls_name(a[1])))
                if (mod, fn) == ('be', 'partition_by_given_type') and len(a) == 2 and self.cls_name(a[1]):
                    return '(XPartition %s %s)' % (self.expr(a[0]), coq_str(self.cls_name(a[1])))
                if (mod, fn) == ('util', 'group_by_key') and len(a) == 2:
                    ps, body = self.lam(a[1], 1)
                    return '(XGroupBy %s %s %s)' % (self.expr(a[0]), coq_str(ps[0]), body)
                if (mod, fn) == ('util', 'map_dictionary_values') and len(a) == 2:
                    ps, body = self.lam(a[1], 2)
                    return '(XMapValues %s %s %s %s)' % (self.expr(a[0]), coq_str(ps[0]), coq_str(ps[1]), body)
                if (mod, fn) == ('util', 'list_without_entry_at') and len(a) == 2:
                    return '(XWithout %s %s)' % (self.expr(a[0]), self.expr(a[1]))
                self.fail('library call', e)
            if isinstance(f, ast.Attribute) and not e.keywords and not any(isinstance(a, ast.Starred) for a in e.args):
                if f.attr == 'values' and not e.args:
                    return '(XValues %s)' % self.expr(f.value)
                if f.attr.startswith('_'):
                    # a call of another method: interpreted by the oracle, receiver first
                    return '(XCall %s %s)' % (coq_str(f.attr), coq_list([self.expr(f.value)] + [self.expr(a) for a in e.args]))
            if isinstance(f, ast.Attribute) and f.attr == '_rebuild' and not e.keywords:
                # self._rebuild(*xs): the starred form, receiver first
                if len(e.args) == 1 and isinstance(e.args[0], ast.Starred):
                    return '(XCall "_rebuild*" %s)' % coq_list([self.expr(f.value), self.expr(e.args[0].value)])
            self.fail('call', e)
        self.fail('expression', e)

    def block(self, stmts):
        out = []
        for s in stmts:
            if isinstance(s, ast.Expr) and isinstance(s.value, ast.Constant):
                continue
            if isinstance(s, ast.AnnAssign) and s.value is None:
                continue   # a bare type declaration
            out.append(self.stmt(s))
        return coq_list(out)

    def stmt(self, s):
        if isinstance(s, ast.Return):
            return '(SReturn %s)' % ('XNone' if s.value is None else self.expr(s.value))
        if isinstance(s, ast.Pass):
            return 'SPass'
        if isinstance(s, ast.If):
            return '(SIf %s %s %s)' % (self.expr(s.test), self.block(s.body), self.block(s.orelse))
        if isinstance(s, ast.Assign) and len(s.targets) == 1:
            t = s.targets[0]
            if isinstance(t, ast.Name):
                return '(SAssign %s %s)' % (coq_str(t.id), self.expr(s.value))
            if isinstance(t, ast.Tuple) and len(t.elts) == 2 and all(isinstance(x, ast.Name) for x in t.elts):
                return '(SAssign2 %s %s %s)' % (coq_str(t.elts[0].id), coq_str(t.elts[1].id), self.expr(s.value))
        self.fail('statement', s)

    def function(self, fd, is_method=True):
        note_translated(fd)
        if getattr(fd, 'decorator_list', None):
            self.fail('decorated function', fd)
        a = fd.args
        if a.kwonlyargs or a.kwarg or a.posonlyargs or a.vararg or a.defaults:
            self.fail('parameters', fd)
        params = [p.arg for p in a.args]
        if is_method:
            if not params or params[0] != 'self':
                self.fail('method without self', fd)
            params = params[1:]
        return '{| s_params := %s; s_body := %s |}' % (coq_list([coq_str(p) for p in params]), self.block(fd.body))


SYM_METHODS = ('_synthetic_partial', '_synthetic_partial_formula', '_synthetic_partial_formula_left',
               '_synthetic_partial_formula_right', '_normalize_fully_reduced')
BASE_FILES = ['unary_expression', 'binary_expression', 'n_ary_expression', 'parameterized_unary_expression']


def generate_sym():
    lines = ['(* GENERATED by harness/tie_extract.py: the current source of every _reduce_* method, of the',
             '   _synthetic_partial* and _normalize_fully_reduced methods and of their helpers, translated into',
             '   SymAst.sfun -- do not edit *)',
             'From Coq Require Import ZArith List String.', 'From SM Require Import SymAst.',
             'Import ListNotations.', 'Open Scope string_scope.', '']
    table = []
    files = [('expression', fn) for fn in EXPR_FILES] + [('base_expression', fn) for fn in BASE_FILES]
    for sub, fn in files:
        src = os.path.join(SRC, '_private', sub, fn + '.py')
        t = parse(src)
        for node in t.body:
            if isinstance(node, ast.FunctionDef) and node.name.startswith('_simplified'):
                tr = SymTranslator('%s.%s' % (fn, node.name))
                lines.append('Definition gen_sym_fn%s : sfun := %s.' % (node.name, tr.function(node, is_method=False)))
            if isinstance(node, ast.ClassDef):
                for m in methods_of(node):
                    if m.name.startswith('_reduce_') or m.name in SYM_METHODS:
                        body = [s for s in m.body if not (isinstance(s, ast.Expr) and isinstance(s.value, ast.Constant))]
                        if len(body) == 1 and isinstance(body[0], ast.Raise):
                            continue   # abstract declaration
                        tr = SymTranslator('%s.%s' % (node.name, m.name))
                        ident = 'gen_sym_%s_%s' % (node.name, m.name.lstrip('_'))
                        lines.append('Definition %s : sfun := %s.' % (ident, tr.function(m)))
                        if m.name.startswith('_reduce_'):
                            table.append((node.name, m.name, ident))
    lines.append('')
    lines.append('(* class, method name, translated body: every _reduce_* method that exists in the source *)')
    lines.append('Definition gen_sym_reducers : list (string * string * sfun) :=')
    lines.append('  ' + coq_list(['(%s, %s, %s)' % (coq_str(c), coq_str(m), i) for c, m, i in table]) + '.')
    return '\n'.join(lines) + '\n'


# ---------------------------------------------------------------- translator to coq/OrchAst.v
class OrchTranslator:
    """_numeric_partial / _compute_numeric_partials bodies -> OrchAst.ofun (fail-closed)"""

    def __init__(self, where):
        self.where = where

    def fail(self, what, node=None):
        raise TieError('cannot translate %s in %s: %s' % (what, self.where, ast.dump(node)[:160] if node is not None else ''))

    def is_point(self, e):
        return isinstance(e, ast.Name) and e.id == 'point'

    def args(self, call_args):
        out = []
        for a in call_args:
            if isinstance(a, ast.Starred):
                out.append('("*", %s)' % self.expr(a.value))
            else:
                out.append('("", %s)' % self.expr(a))
        return coq_list(out)

    def expr(self, e):
        if isinstance(e, ast.Name):
            if e.id in ('point', 'variable_name', 'accumulator'):
                self.fail('bare use of %s' % e.id, e)
            return 'OSelf' if e.id == 'self' else '(OName %s)' % coq_str(e.id)
        if isinstance(e, ast.Constant) and isinstance(e.value, int) and not isinstance(e.value, bool):
            return '(OInt (%d)%%Z)' % e.value
        if isinstance(e, ast.Attribute) and e.attr in ('_inner', '_left', '_right', '_inners'):
            return '(OAttr %s %s)' % (self.expr(e.value), coq_str(e.attr))
        if isinstance(e, ast.UnaryOp) and isinstance(e.op, ast.Not) and isinstance(e.operand, ast.Attribute) \
                and e.operand.attr == '_variable_names':
            return '(ONoVars %s)' % self.expr(e.operand.value)
        if isinstance(e, ast.BinOp) and isinstance(e.op, ast.Add):
            return '(OPlus %s %s)' % (self.expr(e.left), self.expr(e.right))
        if isinstance(e, ast.BoolOp) and isinstance(e.op, ast.And):
            out = self.expr(e.values[-1])
            for x in reversed(e.values[:-1]):
                out = '(OAnd %s %s)' % (self.expr(x), out)
            return out
        if isinstance(e, ast.Compare) and len(e.ops) == 1 and isinstance(e.ops[0], ast.Eq):
            l, r = e.left, e.comparators[0]
            if isinstance(l, ast.Attribute) and l.attr == 'name' and isinstance(l.value, ast.Name) and l.value.id == 'self' \
                    and isinstance(r, ast.Name) and r.id == 'variable_name':
                return 'ONameIs'
            return '(OCmpEq %s %s)' % (self.expr(l), self.expr(r))
        if isinstance(e, (ast.ListComp, ast.GeneratorExp)):
            if len(e.generators) != 1 or e.generators[0].ifs or e.generators[0].is_async:
                self.fail('comprehension shape', e)
            g = e.generators[0]
            if isinstance(g.target, ast.Name):
                return '(OComp %s %s %s)' % (self.expr(e.elt), coq_str(g.target.id), self.expr(g.iter))
            if isinstance(g.target, ast.Tuple) and len(g.target.elts) == 2 and all(isinstance(x, ast.Name) for x in g.target.elts) \
                    and isinstance(g.iter, ast.Call) and isinstance(g.iter.func, ast.Name) and g.iter.func.id == 'enumerate' \
                    and len(g.iter.args) == 1:
                return '(OCompEnum %s %s %s %s)' % (self.expr(e.elt), coq_str(g.target.elts[0].id),
                                                   coq_str(g.target.elts[1].id), self.expr(g.iter.args[0]))
            self.fail('comprehension target', e)
        if isinstance(e, ast.Call) and not e.keywords:
            f = e.func
            if isinstance(f, ast.Attribute) and isinstance(f.value, ast.Name) and f.value.id == 'mf':
                return '(OMf %s %s)' % (coq_str(f.attr), self.args(e.args))
            if isinstance(f, ast.Attribute) and isinstance(f.value, ast.Name) and f.value.id == 'util' \
                    and f.attr == 'list_without_entry_at' and len(e.args) == 2:
                return '(OWithout %s %s)' % (self.expr(e.args[0]), self.expr(e.args[1]))
            if isinstance(f, ast.Attribute) and isinstance(f.value, ast.Name) and f.value.id == 'point' \
                    and f.attr == 'coordinate' and len(e.args) == 1 and isinstance(e.args[0], ast.Attribute) \
                    and e.args[0].attr == 'name' and isinstance(e.args[0].value, ast.Name) and e.args[0].value.id == 'self':
                return 'OCoord'
            if isinstance(f, ast.Attribute) and f.attr == '_evaluate' and len(e.args) == 1 and self.is_point(e.args[0]):
                return '(OEvaluate %s)' % self.expr(f.value)
            if isinstance(f, ast.Attribute) and f.attr == '_numeric_partial' and len(e.args) == 2 \
                    and isinstance(e.args[0], ast.Name) and e.args[0].id == 'variable_name' and self.is_point(e.args[1]):
                return '(OPartial %s)' % self.expr(f.value)
            if isinstance(f, ast.Attribute) and f.attr.startswith('_numeric_partial_formula') and len(e.args) == 2 \
                    and isinstance(f.value, ast.Name) and f.value.id == 'self' and self.is_point(e.args[0]):
                return '(OFormula %s %s)' % (coq_str(f.attr[len('_numeric_partial_formula'):]), self.expr(e.args[1]))
        self.fail('expression', e)

    def block(self, stmts):
        out = []
        for s in stmts:
            if isinstance(s, ast.Expr) and isinstance(s.value, ast.Constant):
                continue
            out.append(self.stmt(s))
        return coq_list(out)

    def stmt(self, s):
        if isinstance(s, ast.Return):
            if s.value is None:
                self.fail('bare return', s)
            return '(OSReturn %s)' % self.expr(s.value)
        if isinstance(s, ast.Pass):
            return 'OSPass'
        if isinstance(s, ast.If):
            return '(OSIf %s %s %s)' % (self.expr(s.test), self.block(s.body), self.block(s.orelse))
        if isinstance(s, ast.Assign) and len(s.targets) == 1 and isinstance(s.targets[0], ast.Name):
            return '(OSAssign %s %s)' % (coq_str(s.targets[0].id), self.expr(s.value))
        if isinstance(s, ast.For) and not s.orelse:
            if isinstance(s.target, ast.Name):
                return '(OSFor %s %s %s)' % (coq_str(s.target.id), self.expr(s.iter), self.block(s.body))
            if isinstance(s.target, ast.Tuple) and len(s.target.elts) == 2 and all(isinstance(x, ast.Name) for x in s.target.elts) \
                    and isinstance(s.iter, ast.Call) and isinstance(s.iter.func, ast.Name) and s.iter.func.id == 'enumerate' \
                    and len(s.iter.args) == 1 and not s.iter.keywords:
                return '(OSForEnum %s %s %s %s)' % (coq_str(s.target.elts[0].id), coq_str(s.target.elts[1].id),
                                                   self.expr(s.iter.args[0]), self.block(s.body))
        if isinstance(s, ast.Expr) and isinstance(s.value, ast.Call) and not s.value.keywords:
            c = s.value
            f = c.func
            if isinstance(f, ast.Attribute) and f.attr == '_verify_domain_constraints' and isinstance(f.value, ast.Name) \
                    and f.value.id == 'self':
                return '(OSVerify %s)' % self.args(c.args)
            if isinstance(f, ast.Attribute) and f.attr == '_compute_numeric_partials' and len(c.args) == 3 \
                    and isinstance(c.args[0], ast.Name) and c.args[0].id == 'accumulator' and self.is_point(c.args[2]):
                return '(OSRev %s %s)' % (self.expr(f.value), self.expr(c.args[1]))
            if isinstance(f, ast.Attribute) and f.attr == 'add_to' and isinstance(f.value, ast.Name) and f.value.id == 'accumulator' \
                    and len(c.args) == 2 and isinstance(c.args[0], ast.Name) and c.args[0].id == 'self':
                return '(OSAddTo %s)' % self.expr(c.args[1])
            return '(OSExpr %s)' % self.expr(c)
        self.fail('statement', s)

    def function(self, fd):
        note_translated(fd)
        if getattr(fd, 'decorator_list', None):
            self.fail('decorated function', fd)
        a = fd.args
        if a.kwonlyargs or a.kwarg or a.posonlyargs or a.vararg or a.defaults:
            self.fail('parameters', fd)
        params = [p.arg for p in a.args]
        expected = {'_numeric_partial': ['self', 'variable_name', 'point'],
                    '_compute_numeric_partials': ['self', 'accumulator', 'multiplier', 'point']}[fd.name]
        if params != expected:
            self.fail('parameter list %s' % params, fd)
        return '{| o_params := %s; o_body := %s |}' % (coq_list([coq_str(p) for p in params[1:]]), self.block(fd.body))


def generate_orch():
    lines = ['(* GENERATED by harness/tie_extract.py: the current source of every _numeric_partial and',
             '   _compute_numeric_partials method, translated into OrchAst.ofun -- do not edit *)',
             'From Coq Require Import ZArith List String.', 'From SM Require Import OrchAst.',
             'Import ListNotations.', 'Open Scope string_scope.', '']
    files = [('expression', fn) for fn in EXPR_FILES] + [('base_expression', fn) for fn in BASE_FILES]
    owners = []
    for sub, fn in files:
        t = parse(os.path.join(SRC, '_private', sub, fn + '.py'))
        for node in t.body:
            if isinstance(node, ast.ClassDef):
                for m in methods_of(node):
                    if m.name in ('_numeric_partial', '_compute_numeric_partials'):
                        body = [s for s in m.body if not (isinstance(s, ast.Expr) and isinstance(s.value, ast.Constant))]
                        if len(body) == 1 and isinstance(body[0], ast.Raise):
                            continue
                        tr = OrchTranslator('%s.%s' % (node.name, m.name))
                        ident = 'gen_orch_%s_%s' % (node.name, 'fwd' if m.name == '_numeric_partial' else 'rev')
                        lines.append('Definition %s : ofun := %s.' % (ident, tr.function(m)))
                        owners.append((node.name, m.name))
    lines.append('')
    lines.append('(* which classes define the two traversals themselves (the others inherit them) *)')
    lines.append('Definition gen_orch_owners : list (string * string) := ' +
                 coq_list(['(%s, %s)' % (coq_str(c), coq_str(m)) for c, m in sorted(owners)]) + '.')
    return '\n'.join(lines) + '\n'


# ---------------------------------------------------------------- translator to coq/ObjAst.v
OBJ_ATTRS = {'_inner', '_left', '_right', '_inners', '_parameter', 'n', 'base', 'value', 'name', '_coordinates',
             '_original_expression', '_variable_name', '_point'}
OBJ_METHODS = ('__eq__', '__hash__', '__str__', '__repr__', '_to_string')
OBJ_FILES = [('expression', 'constant'), ('expression', 'variable'), ('expression', 'nth_power'), ('expression', 'nth_root'),
             ('expression', 'exponential'), ('expression', 'logarithm'),
             ('base_expression', 'unary_expression'), ('base_expression', 'parameterized_unary_expression'),
             ('base_expression', 'binary_expression'), ('base_expression', 'n_ary_expression'),
             ('', 'point'), ('', 'partial'), ('', 'derivative'), ('', 'differential'), ('', 'located_differential')]


def tokenize_literal(text, where):
    """a literal piece of an f-string -> ltok list; double quotes around an interpolated name are dropped
    (the model's TStr token stands for the name with or without its quotes)"""
    out = []
    i = 0
    while i < len(text):
        c = text[i]
        if c in ' "':
            i += 1
        elif c == '(':
            out.append('LLP'); i += 1
        elif c == ')':
            out.append('LRP'); i += 1
        elif c == ',':
            out.append('LComma'); i += 1
        elif c == '=':
            out.append('LEq'); i += 1
        elif c.isalpha() or c == '_':
            j = i
            while j < len(text) and (text[j].isalnum() or text[j] == '_'):
                j += 1
            out.append('(LName %s)' % coq_str(text[i:j]))
            i = j
        else:
            raise TieError('cannot tokenise the literal %r in %s' % (text, where))
    return coq_list(out)


class ObjTranslator:
    """__eq__ / __hash__ / printers -> ObjAst.qfun (fail-closed)"""

    def __init__(self, where):
        self.where = where

    def fail(self, what, node=None):
        raise TieError('cannot translate %s in %s: %s' % (what, self.where, ast.dump(node)[:160] if node is not None else ''))

    def expr(self, e):
        if isinstance(e, ast.Name):
            if e.id == 'self':
                return 'QSelf'
            if e.id == 'other':
                return 'QOther'
            return '(QName %s)' % coq_str(e.id)
        if isinstance(e, ast.Constant):
            if isinstance(e.value, bool):
                return '(QBool %s)' % ('true' if e.value else 'false')
            if isinstance(e.value, str):
                return '(QTag %s)' % coq_str(e.value)
            self.fail('literal', e)
        if isinstance(e, ast.Attribute):
            if e.attr == '__class__':
                return '(QClassOf %s)' % self.expr(e.value)
            if e.attr in OBJ_ATTRS:
                return '(QAttr %s %s)' % (self.expr(e.value), coq_str(e.attr))
            self.fail('attribute', e)
        if isinstance(e, ast.BoolOp) and isinstance(e.op, ast.And):
            out = self.expr(e.values[-1])
            for x in reversed(e.values[:-1]):
                out = '(QAnd %s %s)' % (self.expr(x), out)
            return out
        if isinstance(e, ast.Compare) and len(e.ops) == 1 and isinstance(e.ops[0], (ast.Eq, ast.NotEq)):
            return '(%s %s %s)' % ('QEq' if isinstance(e.ops[0], ast.Eq) else 'QNe', self.expr(e.left), self.expr(e.comparators[0]))
        if isinstance(e, ast.Tuple):
            return '(QTuple %s)' % coq_list([self.expr(x) for x in e.elts])
        if isinstance(e, ast.JoinedStr):
            parts = []
            for v in e.values:
                if isinstance(v, ast.Constant) and isinstance(v.value, str):
                    parts.append('(QLit %s)' % tokenize_literal(v.value, self.where))
                elif isinstance(v, ast.FormattedValue) and v.conversion == -1 and v.format_spec is None:
                    parts.append(self.expr(v.value))
                else:
                    self.fail('f-string part', v)
            return '(QFStr %s)' % coq_list(parts)
        if isinstance(e, ast.Call) and not e.keywords:
            f = e.func
            a = e.args
            if isinstance(f, ast.Name) and f.id == 'hash' and len(a) == 1:
                return '(QHash %s)' % self.expr(a[0])
            if isinstance(f, ast.Name) and f.id == 'len' and len(a) == 1:
                return '(QLen %s)' % self.expr(a[0])
            if isinstance(f, ast.Name) and f.id == 'tuple' and len(a) == 1:
                x = a[0]
                if isinstance(x, ast.Call) and isinstance(x.func, ast.Name) and x.func.id == 'sorted' and len(x.args) == 1 \
                        and not x.keywords and isinstance(x.args[0], ast.Call) and isinstance(x.args[0].func, ast.Attribute) \
                        and x.args[0].func.attr == 'items' and not x.args[0].args:
                    return '(QSortedItems %s)' % self.expr(x.args[0].func.value)
                return '(QTupleOf %s)' % self.expr(x)
            if isinstance(f, ast.Attribute) and isinstance(f.value, ast.Name) and f.value.id == 'util' \
                    and f.attr == 'get_class_name' and len(a) == 1:
                return '(QClassName %s)' % self.expr(a[0])
            if isinstance(f, ast.Attribute) and f.attr == '_to_string' and isinstance(f.value, ast.Name) and f.value.id == 'self' and not a:
                return 'QToString'
            if isinstance(f, ast.Attribute) and f.attr == '__eq__' and len(a) == 1 and isinstance(a[0], ast.Name) and a[0].id == 'other' \
                    and isinstance(f.value, ast.Call) and isinstance(f.value.func, ast.Name) and f.value.func.id == 'super' \
                    and not f.value.args:
                return 'QSuperEq'
            if isinstance(f, ast.Name) and f.id == 'any' and len(a) == 1 and isinstance(a[0], ast.GeneratorExp):
                g = a[0]
                gen0 = g.generators[0] if len(g.generators) == 1 else None
                if gen0 and not gen0.ifs and isinstance(gen0.target, ast.Tuple) and len(gen0.target.elts) == 2 \
                        and all(isinstance(x, ast.Name) for x in gen0.target.elts) \
                        and isinstance(gen0.iter, ast.Call) and isinstance(gen0.iter.func, ast.Name) and gen0.iter.func.id == 'zip' \
                        and len(gen0.iter.args) == 2 and isinstance(g.elt, ast.Compare) and len(g.elt.ops) == 1 \
                        and isinstance(g.elt.ops[0], ast.NotEq) and isinstance(g.elt.left, ast.Name) \
                        and isinstance(g.elt.comparators[0], ast.Name) \
                        and [g.elt.left.id, g.elt.comparators[0].id] == [x.id for x in gen0.target.elts]:
                    return '(QAnyNeZip %s %s)' % (self.expr(gen0.iter.args[0]), self.expr(gen0.iter.args[1]))
                self.fail('any(...) shape', e)
            if isinstance(f, ast.Attribute) and f.attr == 'join' and isinstance(f.value, ast.Constant) and f.value.value == ', ' \
                    and len(a) == 1 and isinstance(a[0], ast.GeneratorExp) and len(a[0].generators) == 1 and not a[0].generators[0].ifs:
                g = a[0]
                gen0 = g.generators[0]
                # ", ".join(str(x) for x in t)
                if isinstance(gen0.target, ast.Name) and isinstance(g.elt, ast.Call) and isinstance(g.elt.func, ast.Name) \
                        and g.elt.func.id == 'str' and len(g.elt.args) == 1 and isinstance(g.elt.args[0], ast.Name) \
                        and g.elt.args[0].id == gen0.target.id:
                    return '(QJoinStr %s)' % self.expr(gen0.iter)
                # ", ".join(f'{k}={v}' for k, v in t.items())
                if isinstance(gen0.target, ast.Tuple) and len(gen0.target.elts) == 2 and all(isinstance(x, ast.Name) for x in gen0.target.elts) \
                        and isinstance(gen0.iter, ast.Call) and isinstance(gen0.iter.func, ast.Attribute) and gen0.iter.func.attr == 'items' \
                        and not gen0.iter.args and isinstance(g.elt, ast.JoinedStr) and len(g.elt.values) == 3:
                    k, mid, v = g.elt.values
                    names = [x.id for x in gen0.target.elts]
                    if isinstance(k, ast.FormattedValue) and isinstance(k.value, ast.Name) and k.value.id == names[0] and k.conversion == -1 \
                            and k.format_spec is None and isinstance(mid, ast.Constant) and mid.value == '=' \
                            and isinstance(v, ast.FormattedValue) and isinstance(v.value, ast.Name) and v.value.id == names[1] \
                            and v.conversion == -1 and v.format_spec is None:
                        return '(QJoinCoords %s)' % self.expr(gen0.iter.func.value)
                self.fail('join shape', e)
        self.fail('expression', e)

    def block(self, stmts):
        out = []
        for st in stmts:
            if isinstance(st, ast.Expr) and isinstance(st.value, ast.Constant):
                continue
            out.append(self.stmt(st))
        return coq_list(out)

    def stmt(self, st):
        if isinstance(st, ast.Return) and st.value is not None:
            return '(QSReturn %s)' % self.expr(st.value)
        if isinstance(st, ast.If):
            return '(QSIf %s %s %s)' % (self.expr(st.test), self.block(st.body), self.block(st.orelse))
        if isinstance(st, ast.Assign) and len(st.targets) == 1 and isinstance(st.targets[0], ast.Name):
            return '(QSAssign %s %s)' % (coq_str(st.targets[0].id), self.expr(st.value))
        self.fail('statement', st)

    def function(self, fd):
        note_translated(fd)
        if getattr(fd, 'decorator_list', None):
            self.fail('decorated function', fd)
        a = fd.args
        if a.kwonlyargs or a.kwarg or a.posonlyargs or a.vararg or a.defaults:
            self.fail('parameters', fd)
        params = [p.arg for p in a.args]
        if not params or params[0] != 'self':
            self.fail('method without self', fd)
        return '{| q_params := %s; q_body := %s |}' % (coq_list([coq_str(p) for p in params[1:]]), self.block(fd.body))


def generate_obj():
    lines = ['(* GENERATED by harness/tie_extract.py: the current source of the __eq__, __hash__, __str__, __repr__',
             '   and _to_string methods, translated into ObjAst.qfun -- do not edit *)',
             'From Coq Require Import ZArith List String.', 'From SM Require Import ObjAst.',
             'Import ListNotations.', 'Open Scope string_scope.', '']
    owners = []
    for sub, fn in OBJ_FILES:
        t = parse(os.path.join(SRC, '_private', sub, fn + '.py'))
        for node in t.body:
            if isinstance(node, ast.ClassDef):
                for m in methods_of(node):
                    if m.name in OBJ_METHODS:
                        body = [s for s in m.body if not (isinstance(s, ast.Expr) and isinstance(s.value, ast.Constant))]
                        if len(body) == 1 and isinstance(body[0], ast.Raise):
                            continue
                        tr = ObjTranslator('%s.%s' % (node.name, m.name))
                        ident = 'gen_obj_%s_%s' % (node.name, m.name.strip('_'))
                        lines.append('Definition %s : qfun := %s.' % (ident, tr.function(m)))
                        owners.append((node.name, m.name))
    lines.append('')
    lines.append('Definition gen_obj_owners : list (string * string) := ' +
                 coq_list(['(%s, %s)' % (coq_str(c), coq_str(m)) for c, m in sorted(owners)]) + '.')
    return '\n'.join(lines) + '\n'


# ---------------------------------------------------------------- translator to coq/CacheAst.v
class CacheTranslator:
    """_evaluate / _reset_evaluation_cache bodies -> CacheAst.kfun (fail-closed)"""

    def __init__(self, where):
        self.where = where

    def fail(self, what, node=None):
        raise TieError('cannot translate %s in %s: %s' % (what, self.where, ast.dump(node)[:160] if node is not None else ''))

    def args(self, call_args):
        out = []
        for a in call_args:
            if isinstance(a, ast.Starred):
                out.append('("*", %s)' % self.expr(a.value))
            else:
                out.append('("", %s)' % self.expr(a))
        return coq_list(out)

    def expr(self, e):
        if isinstance(e, ast.Name):
            if e.id == 'point':
                self.fail('bare use of point', e)
            return 'KSelf' if e.id == 'self' else '(KName %s)' % coq_str(e.id)
        if isinstance(e, ast.Constant) and e.value is None:
            return 'KNone'
        if isinstance(e, ast.Attribute) and e.attr in ('_inner', '_left', '_right', '_inners', '_value', 'value'):
            return '(KAttr %s %s)' % (self.expr(e.value), coq_str(e.attr))
        if isinstance(e, ast.Compare) and len(e.ops) == 1 and isinstance(e.ops[0], (ast.Is, ast.IsNot)) \
                and isinstance(e.comparators[0], ast.Constant) and e.comparators[0].value is None:
            return '(%s %s)' % ('KIsNone' if isinstance(e.ops[0], ast.Is) else 'KIsNotNone', self.expr(e.left))
        if isinstance(e, ast.ListComp) and len(e.generators) == 1 and not e.generators[0].ifs \
                and isinstance(e.generators[0].target, ast.Name):
            g = e.generators[0]
            return '(KComp %s %s %s)' % (self.expr(e.elt), coq_str(g.target.id), self.expr(g.iter))
        if isinstance(e, ast.Call) and not e.keywords:
            f = e.func
            if isinstance(f, ast.Attribute) and f.attr == '_evaluate' and len(e.args) == 1 \
                    and isinstance(e.args[0], ast.Name) and e.args[0].id == 'point':
                return '(KEvaluate %s)' % self.expr(f.value)
            if isinstance(f, ast.Attribute) and f.attr == '_value_formula' and isinstance(f.value, ast.Name) and f.value.id == 'self':
                return '(KFormula %s)' % self.args(e.args)
            if isinstance(f, ast.Attribute) and isinstance(f.value, ast.Name) and f.value.id == 'point' \
                    and f.attr == 'coordinate' and len(e.args) == 1 and isinstance(e.args[0], ast.Attribute) \
                    and e.args[0].attr == 'name' and isinstance(e.args[0].value, ast.Name) and e.args[0].value.id == 'self':
                return 'KCoord'
        self.fail('expression', e)

    def block(self, stmts):
        out = []
        for st in stmts:
            if isinstance(st, ast.Expr) and isinstance(st.value, ast.Constant):
                continue
            out.append(self.stmt(st))
        return coq_list(out)

    def stmt(self, st):
        if isinstance(st, ast.Return) and st.value is not None:
            return '(KSReturn %s)' % self.expr(st.value)
        if isinstance(st, ast.Pass):
            return 'KSPass'
        if isinstance(st, ast.If):
            return '(KSIf %s %s %s)' % (self.expr(st.test), self.block(st.body), self.block(st.orelse))
        if isinstance(st, ast.Assign) and len(st.targets) == 1:
            t = st.targets[0]
            if isinstance(t, ast.Name):
                return '(KSAssign %s %s)' % (coq_str(t.id), self.expr(st.value))
            if isinstance(t, ast.Attribute) and t.attr == '_value' and isinstance(t.value, ast.Name) and t.value.id == 'self':
                return '(KSSetValue %s)' % self.expr(st.value)
        if isinstance(st, ast.For) and not st.orelse and isinstance(st.target, ast.Name):
            return '(KSFor %s %s %s)' % (coq_str(st.target.id), self.expr(st.iter), self.block(st.body))
        if isinstance(st, ast.Expr) and isinstance(st.value, ast.Call) and not st.value.keywords:
            c = st.value
            f = c.func
            if isinstance(f, ast.Attribute) and f.attr == '_verify_domain_constraints' and isinstance(f.value, ast.Name) \
                    and f.value.id == 'self':
                return '(KSVerify %s)' % self.args(c.args)
            if isinstance(f, ast.Attribute) and f.attr == '_reset_evaluation_cache' and not c.args:
                return '(KSReset %s)' % self.expr(f.value)
        self.fail('statement', st)

    def function(self, fd):
        note_translated(fd)
        if getattr(fd, 'decorator_list', None):
            self.fail('decorated function', fd)
        a = fd.args
        if a.kwonlyargs or a.kwarg or a.posonlyargs or a.vararg or a.defaults:
            self.fail('parameters', fd)
        params = [p.arg for p in a.args]
        expected = {'_evaluate': ['self', 'point'], '_reset_evaluation_cache': ['self']}[fd.name]
        if params != expected:
            self.fail('parameter list %s' % params, fd)
        return '{| k_params := %s; k_body := %s |}' % (coq_list([coq_str(p) for p in params[1:]]), self.block(fd.body))


def generate_cache():
    lines = ['(* GENERATED by harness/tie_extract.py: the current source of every _evaluate and',
             '   _reset_evaluation_cache method, translated into CacheAst.kfun -- do not edit *)',
             'From Coq Require Import ZArith List String.', 'From SM Require Import CacheAst.',
             'Import ListNotations.', 'Open Scope string_scope.', '']
    owners = []
    files = [('expression', fn) for fn in EXPR_FILES] + [('base_expression', fn) for fn in BASE_FILES]
    for sub, fn in files:
        t = parse(os.path.join(SRC, '_private', sub, fn + '.py'))
        for node in t.body:
            if isinstance(node, ast.ClassDef):
                for m in methods_of(node):
                    if m.name in ('_evaluate', '_reset_evaluation_cache'):
                        body = [s for s in m.body if not (isinstance(s, ast.Expr) and isinstance(s.value, ast.Constant))]
                        if len(body) == 1 and isinstance(body[0], ast.Raise):
                            continue
                        tr = CacheTranslator('%s.%s' % (node.name, m.name))
                        ident = 'gen_cache_%s_%s' % (node.name, 'eval' if m.name == '_evaluate' else 'reset')
                        lines.append('Definition %s : kfun := %s.' % (ident, tr.function(m)))
                        owners.append((node.name, m.name))
    lines.append('')
    lines.append('Definition gen_cache_owners : list (string * string) := ' +
                 coq_list(['(%s, %s)' % (coq_str(c), coq_str(m)) for c, m in sorted(owners)]) + '.')
    return '\n'.join(lines) + '\n'


# ---------------------------------------------------------------- translator to coq/RouteAst.v
ROUTE_FILES = ['partial', 'derivative', 'differential', 'located_differential']
ROUTE_METHODS = ('__init__', 'at', 'as_expression', 'component', 'component_at')
ROUTE_CLASSES = {'Partial', 'Derivative', 'Differential', 'LocatedDifferential'}


class RouteTranslator:
    """methods and helpers of the derivative-object classes -> RouteAst.rfun (fail-closed)"""

    def __init__(self, where):
        self.where = where

    def fail(self, what, node=None):
        raise TieError('cannot translate %s in %s: %s' % (what, self.where, ast.dump(node)[:160] if node is not None else ''))

    def is_str_expr(self, e):
        if isinstance(e, ast.Constant) and isinstance(e.value, str):
            return True
        if isinstance(e, ast.BinOp) and isinstance(e.op, ast.Add):
            return self.is_str_expr(e.left) and self.is_str_expr(e.right)
        return False

    def args(self, call):
        out = []
        for a in call.args:
            if isinstance(a, ast.Starred):
                self.fail('starred argument', call)
            out.append('("", %s)' % self.expr(a))
        for k in call.keywords:
            if k.arg is None:
                self.fail('**kwargs', call)
            out.append('(%s, %s)' % (coq_str(k.arg), self.expr(k.value)))
        return coq_list(out)

    def expr(self, e):
        if isinstance(e, ast.Constant) and e.value == 'whatever':
            return '(RStr "whatever")'
        if self.is_str_expr(e):
            return '(RStr "")'
        if isinstance(e, ast.Name):
            return 'RSelf' if e.id == 'self' else '(RName %s)' % coq_str(e.id)
        if isinstance(e, ast.Attribute) and e.attr == '_variable_names':
            return '(RVarNames %s)' % self.expr(e.value)
        if isinstance(e, ast.Compare) and len(e.ops) == 1 and isinstance(e.ops[0], ast.Eq) \
                and isinstance(e.comparators[0], ast.Constant) and isinstance(e.comparators[0].value, int) \
                and not isinstance(e.comparators[0].value, bool):
            return '(RCmpInt %s (%d)%%Z)' % (self.expr(e.left), e.comparators[0].value)
        if isinstance(e, ast.Constant):
            if e.value is None:
                return 'RNone'
            if e.value == 0 and isinstance(e.value, int) and not isinstance(e.value, bool):
                return 'RZero'
            self.fail('literal', e)
        if isinstance(e, ast.Attribute) and isinstance(e.value, ast.Name) and e.value.id == 'self' and e.attr.startswith('_'):
            return '(RField %s)' % coq_str(e.attr)
        if isinstance(e, ast.UnaryOp) and isinstance(e.op, ast.Not):
            return '(RNot %s)' % self.expr(e.operand)
        if isinstance(e, ast.BoolOp) and isinstance(e.op, ast.And):
            out = self.expr(e.values[-1])
            for x in reversed(e.values[:-1]):
                out = '(RAnd %s %s)' % (self.expr(x), out)
            return out
        if isinstance(e, ast.Compare) and len(e.ops) == 1:
            op, l, r = e.ops[0], e.left, e.comparators[0]
            if isinstance(op, (ast.Is, ast.IsNot)) and isinstance(r, ast.Constant) and r.value is None:
                t = '(RIsNone %s)' % self.expr(l)
                return t if isinstance(op, ast.Is) else '(RNot %s)' % t
            if isinstance(op, ast.In) and isinstance(l, ast.Constant) and isinstance(l.value, str):
                return '(RIn %s %s)' % (coq_str(l.value), self.expr(r))
            self.fail('comparison', e)
        if isinstance(e, ast.Subscript) and isinstance(e.slice, ast.Constant) and isinstance(e.slice.value, str):
            return '(RIndex %s %s)' % (self.expr(e.value), coq_str(e.slice.value))
        if isinstance(e, ast.Dict) and len(e.keys) == 1 and isinstance(e.keys[0], ast.Constant) and isinstance(e.keys[0].value, str):
            return '(RPrivDict %s %s)' % (coq_str(e.keys[0].value), self.expr(e.values[0]))
        if isinstance(e, ast.Call):
            f = e.func
            if isinstance(f, ast.Name):
                if f.id == 'isinstance' and len(e.args) == 2 and not e.keywords and isinstance(e.args[1], ast.Attribute) \
                        and e.args[1].attr == 'Point':
                    return '(RIsPoint %s)' % self.expr(e.args[0])
                if f.id == 'len' and len(e.args) == 1 and not e.keywords:
                    return '(RLen %s)' % self.expr(e.args[0])
                if f.id == 'get_the_single_variable_name' and len(e.args) == 2 and not e.keywords:
                    return '(RSingleName %s)' % self.expr(e.args[0])
                if f.id == 'Point' and not e.args and len(e.keywords) == 1 and e.keywords[0].arg is None \
                        and isinstance(e.keywords[0].value, ast.Dict) and len(e.keywords[0].value.keys) == 1 \
                        and isinstance(e.keywords[0].value.keys[0], ast.Name) and isinstance(e.keywords[0].value.values[0], ast.Name):
                    # Point(**({variable_name: value}))
                    return '(RNumberLine (RName %s) (RName %s))' % (coq_str(e.keywords[0].value.keys[0].id),
                                                                     coq_str(e.keywords[0].value.values[0].id))
                if f.id.startswith('_'):
                    return '(RHelper %s %s)' % (coq_str(f.id), self.args(e))
                self.fail('call of a name', e)
            if isinstance(f, ast.Attribute) and isinstance(f.value, ast.Name) and f.value.id in ('va', 'be', 'pt', 'util', 'pa', 'ld'):
                mod, fn = f.value.id, f.attr
                if (mod, fn) == ('va', 'get_variable_name') and len(e.args) == 1 and not e.keywords:
                    return '(RGetName %s)' % self.expr(e.args[0])
                if (mod, fn) == ('be', 'get_the_single_variable_name') and len(e.args) == 2 and not e.keywords:
                    return '(RSingleName %s)' % self.expr(e.args[0])
                if (mod, fn) == ('pt', 'point_on_number_line') and len(e.args) == 2 and not e.keywords:
                    return '(RNumberLine %s %s)' % (self.expr(e.args[0]), self.expr(e.args[1]))
                if (mod, fn) == ('util', 'map_dictionary_values') and len(e.args) == 2 and not e.keywords \
                        and isinstance(e.args[1], ast.Lambda) and len(e.args[1].args.args) == 2:
                    lam = e.args[1]
                    return '(RMapValues %s %s %s %s)' % (self.expr(e.args[0]), coq_str(lam.args.args[0].arg),
                                                        coq_str(lam.args.args[1].arg), self.expr(lam.body))
                if mod in ('pa', 'ld') and fn in ROUTE_CLASSES:
                    return '(RNew %s %s)' % (coq_str(fn), self.args(e))
                self.fail('library call', e)
            if isinstance(f, ast.Attribute) and f.attr == 'get' and len(e.args) == 2 and not e.keywords:
                return '(RGet %s %s %s)' % (self.expr(f.value), self.expr(e.args[0]), self.expr(e.args[1]))
            if isinstance(f, ast.Attribute):
                return '(RCall %s %s %s)' % (self.expr(f.value), coq_str(f.attr), self.args(e))
        self.fail('expression', e)

    def block(self, stmts):
        out = []
        for st in stmts:
            if isinstance(st, ast.Expr) and isinstance(st.value, ast.Constant):
                continue
            if isinstance(st, ast.AnnAssign) and st.value is None:
                continue
            out.append(self.stmt(st))
        return coq_list(out)

    def stmt(self, st):
        if isinstance(st, ast.Return):
            return '(RSReturn %s)' % ('RNone' if st.value is None else self.expr(st.value))
        if isinstance(st, ast.If):
            return '(RSIf %s %s %s)' % (self.expr(st.test), self.block(st.body), self.block(st.orelse))
        if isinstance(st, ast.Assign) and len(st.targets) == 1:
            t = st.targets[0]
            if isinstance(t, ast.Name):
                return '(RSAssign %s %s)' % (coq_str(t.id), self.expr(st.value))
            if isinstance(t, ast.Attribute) and isinstance(t.value, ast.Name) and t.value.id == 'self':
                return '(RSSetField %s %s)' % (coq_str(t.attr), self.expr(st.value))
        if isinstance(st, ast.Expr) and isinstance(st.value, ast.Call):
            return '(RSExpr %s)' % self.expr(st.value)
        if isinstance(st, ast.Assign) and len(st.targets) == 1 and isinstance(st.targets[0], ast.Tuple) \
                and len(st.targets[0].elts) == 1 and isinstance(st.targets[0].elts[0], ast.Name):
            return '(RSUnpack1 %s %s)' % (coq_str(st.targets[0].elts[0].id), self.expr(st.value))
        if isinstance(st, ast.Raise) and isinstance(st.exc, ast.Call):
            f = st.exc.func
            if isinstance(f, ast.Name) and f.id == 'Exception':
                return 'RSRaise'
            if isinstance(f, ast.Attribute) and f.attr == 'CoordinateMissing':
                return 'RSRaiseCoord'
        self.fail('statement', st)

    def function(self, fd, is_method):
        note_translated(fd)
        if getattr(fd, 'decorator_list', None):
            self.fail('decorated function', fd)
        a = fd.args
        if a.kwonlyargs or a.kwarg or a.posonlyargs or a.vararg:
            self.fail('parameters', fd)
        params = [p.arg for p in a.args]
        if is_method:
            if not params or params[0] != 'self':
                self.fail('method without self', fd)
            params = params[1:]
        return '{| r_params := %s; r_body := %s |}' % (coq_list([coq_str(p) for p in params]), self.block(fd.body))


def generate_route():
    lines = ['(* GENERATED by harness/tie_extract.py: the current source of the methods and helpers of Partial,',
             '   Derivative, Differential and LocatedDifferential, translated into RouteAst.rfun -- do not edit *)',
             'From Coq Require Import ZArith List String.', 'From SM Require Import RouteAst.',
             'Import ListNotations.', 'Open Scope string_scope.', '']
    sigs = []
    for fn in ROUTE_FILES:
        t = parse(os.path.join(SRC, '_private', fn + '.py'))
        for node in t.body:
            if isinstance(node, ast.FunctionDef):
                tr = RouteTranslator('%s.%s' % (fn, node.name))
                lines.append('Definition gen_route_fn%s : rfun := %s.' % (node.name, tr.function(node, False)))
                sigs.append((fn, node.name, [ast.unparse(d) for d in node.args.defaults]))
            if isinstance(node, ast.ClassDef) and node.name in ROUTE_CLASSES:
                for m in methods_of(node):
                    if m.name in ROUTE_METHODS:
                        tr = RouteTranslator('%s.%s' % (node.name, m.name))
                        lines.append('Definition gen_route_%s_%s : rfun := %s.' % (node.name, m.name.strip('_'), tr.function(m, True)))
                        sigs.append((node.name, m.name, [ast.unparse(d) for d in m.args.defaults]))
    t = parse(os.path.join(SRC, '_private', 'base_expression', 'expression.py'))
    for node in t.body:
        if isinstance(node, ast.FunctionDef) and node.name == 'get_the_single_variable_name':
            tr = RouteTranslator('expression.get_the_single_variable_name')
            lines.append('Definition gen_route_fn_get_the_single_variable_name : rfun := %s.' % tr.function(node, False))
        if isinstance(node, ast.ClassDef) and node.name == 'Expression':
            for m in methods_of(node):
                if m.name == 'at':
                    tr = RouteTranslator('Expression.at')
                    lines.append('Definition gen_route_Expression_at : rfun := %s.' % tr.function(m, True))
    t = parse(os.path.join(SRC, '_private', 'point.py'))
    for node in t.body:
        if isinstance(node, ast.FunctionDef) and node.name == 'point_on_number_line':
            tr = RouteTranslator('point.point_on_number_line')
            lines.append('Definition gen_route_fn_point_on_number_line : rfun := %s.' % tr.function(node, False))
        if isinstance(node, ast.ClassDef) and node.name == 'Point':
            for m in methods_of(node):
                if m.name == 'coordinate':
                    tr = RouteTranslator('Point.coordinate')
                    lines.append('Definition gen_route_Point_coordinate : rfun := %s.' % tr.function(m, True))
    import re as _re
    names = [_re.match(r'Definition (gen_route_\w+) : rfun', l).group(1) for l in lines if l.startswith('Definition gen_route_') and ' : rfun' in l]
    lines.append('')
    lines.append('(* every translated route body, for the reset-before-read discipline *)')
    lines.append('Definition gen_route_all : list (string * rfun) := ' +
                 coq_list(['(%s, %s)' % (coq_str(n), n) for n in names]) + '.')
    lines.append('')
    lines.append('(* owner, function, the default values of its trailing parameters *)')
    lines.append('Definition gen_route_defaults : list (string * string * list string) := ' +
                 coq_list(['(%s, %s, %s)' % (coq_str(c), coq_str(m), coq_list([coq_str(d) for d in ds])) for c, m, ds in sigs]) + '.')
    return '\n'.join(lines) + '\n'


# ---------------------------------------------------------------- translator to coq/StepAst.v
class StepTranslator:
    """_take_reduction_step / _consolidate_expression_lacking_variables / _fully_reduce -> StepAst.tfun"""

    def __init__(self, where):
        self.where = where

    def fail(self, what, node=None):
        raise TieError('cannot translate %s in %s: %s' % (what, self.where, ast.dump(node)[:160] if node is not None else ''))

    def expr(self, e):
        if isinstance(e, ast.Name):
            return 'TSelf' if e.id == 'self' else '(TName %s)' % coq_str(e.id)
        if isinstance(e, ast.Constant) and e.value is None:
            return 'TNone'
        if isinstance(e, ast.Attribute):
            if e.attr in ('_inner', '_left', '_right', '_inners'):
                return '(TAttr %s %s)' % (self.expr(e.value), coq_str(e.attr))
            if e.attr == '_is_fully_reduced':
                return '(TReduced %s)' % self.expr(e.value)
            if e.attr == '_evaluation_failed':
                return '(TFailed %s)' % self.expr(e.value)
            if e.attr == '_variable_names':
                return '(THasVars %s)' % self.expr(e.value)
            self.fail('attribute', e)
        if isinstance(e, ast.UnaryOp) and isinstance(e.op, ast.Not):
            return '(TNot %s)' % self.expr(e.operand)
        if isinstance(e, ast.Compare) and len(e.ops) == 1 and isinstance(e.ops[0], (ast.Is, ast.IsNot)) \
                and isinstance(e.comparators[0], ast.Constant) and e.comparators[0].value is None:
            t = '(TIsNone %s)' % self.expr(e.left)
            return t if isinstance(e.ops[0], ast.Is) else '(TNot %s)' % t
        if isinstance(e, ast.Call) and not e.keywords:
            f = e.func
            a = e.args
            if isinstance(f, ast.Name) and f.id == 'isinstance' and len(a) == 2 and isinstance(a[1], ast.Attribute) \
                    and a[1].attr == 'Constant':
                return '(TIsConst %s)' % self.expr(a[0])
            if isinstance(f, ast.Attribute) and f.attr == '_consolidate_expression_lacking_variables' and not a:
                return '(TConsolidate %s)' % self.expr(f.value)
            if isinstance(f, ast.Attribute) and f.attr == '_take_reduction_step' and not a:
                return '(TStep %s)' % self.expr(f.value)
            if isinstance(f, ast.Attribute) and f.attr == '_rebuild' and isinstance(f.value, ast.Name) and f.value.id == 'self':
                out = []
                for x in a:
                    if isinstance(x, ast.Starred):
                        out.append('("*", %s)' % self.expr(x.value))
                    else:
                        out.append('("", %s)' % self.expr(x))
                return '(TRebuild %s)' % coq_list(out)
            if isinstance(f, ast.Attribute) and isinstance(f.value, ast.Name) and f.value.id == 'util' \
                    and f.attr == 'list_with_updated_entry_at' and len(a) == 3:
                return '(TUpdatedAt %s %s %s)' % (self.expr(a[0]), self.expr(a[1]), self.expr(a[2]))
            if isinstance(f, ast.Attribute) and f.attr == 'at' and len(a) == 1 and isinstance(a[0], ast.Call) \
                    and isinstance(a[0].func, ast.Attribute) and a[0].func.attr == 'Point' and not a[0].args and not a[0].keywords:
                return '(TAtEmptyPoint %s)' % self.expr(f.value)
            if isinstance(f, ast.Attribute) and isinstance(f.value, ast.Name) and f.value.id == 'ex' and f.attr == 'Constant' and len(a) == 1:
                return '(TMkConst %s)' % self.expr(a[0])
        self.fail('expression', e)

    def block(self, stmts):
        out = []
        for st in stmts:
            if isinstance(st, ast.Expr) and isinstance(st.value, ast.Constant):
                continue
            out.append(self.stmt(st))
        return coq_list(out)

    def is_reducer_loop(self, st):
        """for reducer in self._reducers: reduced = reducer(); if reduced is not None: return reduced"""
        if not (isinstance(st, ast.For) and not st.orelse and isinstance(st.target, ast.Name)
                and isinstance(st.iter, ast.Attribute) and st.iter.attr == '_reducers'
                and isinstance(st.iter.value, ast.Name) and st.iter.value.id == 'self' and len(st.body) == 2):
            return False
        a, b = st.body
        if not (isinstance(a, ast.Assign) and len(a.targets) == 1 and isinstance(a.targets[0], ast.Name)
                and isinstance(a.value, ast.Call) and isinstance(a.value.func, ast.Name)
                and a.value.func.id == st.target.id and not a.value.args and not a.value.keywords):
            return False
        nm = a.targets[0].id
        return (isinstance(b, ast.If) and not b.orelse and len(b.body) == 1 and isinstance(b.body[0], ast.Return)
                and isinstance(b.body[0].value, ast.Name) and b.body[0].value.id == nm
                and isinstance(b.test, ast.Compare) and len(b.test.ops) == 1 and isinstance(b.test.ops[0], ast.IsNot)
                and isinstance(b.test.left, ast.Name) and b.test.left.id == nm
                and isinstance(b.test.comparators[0], ast.Constant) and b.test.comparators[0].value is None)

    def stmt(self, st):
        if isinstance(st, ast.Return) and st.value is not None:
            return '(TSReturn %s)' % self.expr(st.value)
        if isinstance(st, ast.If):
            return '(TSIf %s %s %s)' % (self.expr(st.test), self.block(st.body), self.block(st.orelse))
        if isinstance(st, ast.Assign) and len(st.targets) == 1:
            t = st.targets[0]
            if isinstance(t, ast.Name):
                return '(TSAssign %s %s)' % (coq_str(t.id), self.expr(st.value))
            if isinstance(t, ast.Attribute) and isinstance(st.value, ast.Constant) and st.value.value is True:
                if t.attr == '_is_fully_reduced':
                    return '(TSSetReduced %s)' % self.expr(t.value)
                if t.attr == '_evaluation_failed':
                    return '(TSSetFailed %s)' % self.expr(t.value)
        if self.is_reducer_loop(st):
            return 'TSReducers'
        if isinstance(st, ast.For) and not st.orelse:
            if isinstance(st.target, ast.Tuple) and len(st.target.elts) == 2 and all(isinstance(x, ast.Name) for x in st.target.elts) \
                    and isinstance(st.iter, ast.Call) and isinstance(st.iter.func, ast.Name) and st.iter.func.id == 'enumerate' \
                    and len(st.iter.args) == 1 and not st.iter.keywords:
                return '(TSForEnum %s %s %s %s)' % (coq_str(st.target.elts[0].id), coq_str(st.target.elts[1].id),
                                                   self.expr(st.iter.args[0]), self.block(st.body))
            if isinstance(st.target, ast.Name) and st.target.id == '_' and isinstance(st.iter, ast.Call) \
                    and isinstance(st.iter.func, ast.Name) and st.iter.func.id == 'range' and len(st.iter.args) == 2 \
                    and isinstance(st.iter.args[0], ast.Constant) and st.iter.args[0].value == 0 \
                    and isinstance(st.iter.args[1], ast.Name) and st.iter.args[1].id == 'REDUCTION_STEPS_BOUND':
                return '(TSForBudget %s)' % self.block(st.body)
        if isinstance(st, ast.Try) and not st.orelse and not st.finalbody and len(st.handlers) == 1:
            h = st.handlers[0]
            if isinstance(h.type, ast.Attribute) and h.type.attr == 'DomainError' and h.name is None:
                return '(TSTryDomain %s %s)' % (self.block(st.body), self.block(h.body))
        if isinstance(st, ast.Expr) and isinstance(st.value, ast.Call) and isinstance(st.value.func, ast.Attribute) \
                and isinstance(st.value.func.value, ast.Name) and st.value.func.value.id == 'logging' and st.value.func.attr == 'warning':
            return 'TSWarn'
        self.fail('statement', st)

    def function(self, fd):
        note_translated(fd)
        if getattr(fd, 'decorator_list', None):
            self.fail('decorated function', fd)
        a = fd.args
        if a.kwonlyargs or a.kwarg or a.posonlyargs or a.vararg or a.defaults or [p.arg for p in a.args] != ['self']:
            self.fail('parameters', fd)
        return '{| t_params := []; t_body := %s |}' % self.block(fd.body)


def generate_step():
    lines = ['(* GENERATED by harness/tie_extract.py: the current source of _take_reduction_step,',
             '   _consolidate_expression_lacking_variables and _fully_reduce, translated into StepAst.tfun -- do not edit *)',
             'From Coq Require Import ZArith List String.', 'From SM Require Import StepAst.',
             'Import ListNotations.', 'Open Scope string_scope.', '']
    owners = []
    files = [('expression', fn) for fn in EXPR_FILES] + [('base_expression', fn) for fn in BASE_FILES] + [('base_expression', 'expression')]
    for sub, fn in files:
        t = parse(os.path.join(SRC, '_private', sub, fn + '.py'))
        for node in t.body:
            if isinstance(node, ast.ClassDef):
                for m in methods_of(node):
                    if m.name in ('_take_reduction_step', '_consolidate_expression_lacking_variables', '_fully_reduce'):
                        body = [s for s in m.body if not (isinstance(s, ast.Expr) and isinstance(s.value, ast.Constant))]
                        if len(body) == 1 and isinstance(body[0], ast.Raise):
                            continue
                        tr = StepTranslator('%s.%s' % (node.name, m.name))
                        short = {'_take_reduction_step': 'step', '_consolidate_expression_lacking_variables': 'consolidate',
                                 '_fully_reduce': 'fully_reduce'}[m.name]
                        lines.append('Definition gen_step_%s_%s : tfun := %s.' % (node.name, short, tr.function(m)))
                        owners.append((node.name, m.name))
    lines.append('')
    lines.append('Definition gen_step_owners : list (string * string) := ' +
                 coq_list(['(%s, %s)' % (coq_str(c), coq_str(m)) for c, m in sorted(owners)]) + '.')
    return '\n'.join(lines) + '\n'


# ---------------------------------------------------------------- translator to coq/CtorAst.v
BASE_LEVEL = {'UnaryExpression', 'BinaryExpression', 'NAryExpression', 'Constant', 'Variable'}


class CtorTranslator:
    """__init__ methods, operators, number helpers -> CtorAst.cfun (fail-closed)"""

    def __init__(self, where, owner):
        self.where = where
        self.owner = owner

    def fail(self, what, node=None):
        raise TieError('cannot translate %s in %s: %s' % (what, self.where, ast.dump(node)[:160] if node is not None else ''))

    def is_name_illegal(self, e):
        # (not name) or (ALPHANUMERIC_PATTERN.match(name) is None)
        if not (isinstance(e, ast.BoolOp) and isinstance(e.op, ast.Or) and len(e.values) == 2):
            return None
        a, b = e.values
        if not (isinstance(a, ast.UnaryOp) and isinstance(a.op, ast.Not) and isinstance(a.operand, ast.Name)):
            return None
        nm = a.operand.id
        if isinstance(b, ast.Compare) and len(b.ops) == 1 and isinstance(b.ops[0], ast.Is) \
                and isinstance(b.comparators[0], ast.Constant) and b.comparators[0].value is None \
                and isinstance(b.left, ast.Call) and isinstance(b.left.func, ast.Attribute) and b.left.func.attr == 'match' \
                and isinstance(b.left.func.value, ast.Name) and b.left.func.value.id == 'ALPHANUMERIC_PATTERN' \
                and len(b.left.args) == 1 and isinstance(b.left.args[0], ast.Name) and b.left.args[0].id == nm:
            return nm
        return None

    def expr(self, e):
        nm = self.is_name_illegal(e)
        if nm is not None:
            return '(CNameIllegal (CName %s))' % coq_str(nm)
        if isinstance(e, ast.Name):
            return 'CSelf' if e.id == 'self' else '(CName %s)' % coq_str(e.id)
        if isinstance(e, ast.Constant):
            if e.value is None:
                return 'CNone'
            if isinstance(e.value, int) and not isinstance(e.value, bool):
                return '(CInt (%d)%%Z)' % e.value
            self.fail('literal', e)
        if isinstance(e, ast.Attribute) and isinstance(e.value, ast.Name) and e.value.id == 'math' and e.attr == 'e':
            return 'CMathE'
        if isinstance(e, ast.Attribute) and e.attr == 'name':
            return '(CAttrName %s)' % self.expr(e.value)
        if isinstance(e, ast.UnaryOp) and isinstance(e.op, ast.Not):
            return '(CNot %s)' % self.expr(e.operand)
        if isinstance(e, ast.BoolOp) and isinstance(e.op, (ast.And, ast.Or)):
            c = 'CAnd' if isinstance(e.op, ast.And) else 'COr'
            out = self.expr(e.values[-1])
            for x in reversed(e.values[:-1]):
                out = '(%s %s %s)' % (c, self.expr(x), out)
            return out
        if isinstance(e, ast.Compare) and len(e.ops) == 1:
            op, l, r = e.ops[0], e.left, e.comparators[0]
            if isinstance(op, (ast.Is, ast.IsNot)) and isinstance(r, ast.Constant) and r.value is None:
                t = '(CIsNone %s)' % self.expr(l)
                return t if isinstance(op, ast.Is) else '(CNot %s)' % t
            if isinstance(op, ast.Eq) and isinstance(l, ast.BinOp) and isinstance(l.op, ast.Mod) \
                    and isinstance(l.right, ast.Constant) and l.right.value == 2 and isinstance(r, ast.Constant) and r.value in (0, 1):
                return '(CMod2Is (%d)%%Z %s)' % (r.value, self.expr(l.left))
            if isinstance(op, (ast.LtE, ast.Eq)) and isinstance(r, ast.Constant) and isinstance(r.value, int) and not isinstance(r.value, bool):
                return '(CCmp %s %s %s)' % (coq_str('<=' if isinstance(op, ast.LtE) else '=='), self.expr(l), self.expr(r))
            self.fail('comparison', e)
        if isinstance(e, ast.Call) and not e.keywords:
            f, a = e.func, e.args
            if isinstance(f, ast.Name) and f.id == 'isinstance' and len(a) == 2:
                k = a[1]
                if (isinstance(k, ast.Attribute) and k.attr == 'Expression') or (isinstance(k, ast.Name) and k.id == 'Expression'):
                    return '(CIsExpr %s)' % self.expr(a[0])
                if isinstance(k, ast.Name) and k.id == 'int':
                    return '(CIsInt %s)' % self.expr(a[0])
                if isinstance(k, ast.Name) and k.id == 'float':
                    return '(CIsFloat %s)' % self.expr(a[0])
                if isinstance(k, ast.Name) and k.id == 'str':
                    return '(CIsStr %s)' % self.expr(a[0])
                self.fail('isinstance class', e)
            if isinstance(f, ast.Name) and f.id == 'round' and len(a) == 1:
                return '(CRound %s)' % self.expr(a[0])
            if isinstance(f, ast.Name) and f.id == 'is_integer' and len(a) == 1:
                return '(CCallIsInteger %s)' % self.expr(a[0])
            if isinstance(f, ast.Attribute) and f.attr == 'is_integer' and not a:
                return '(CFloatIsInteger %s)' % self.expr(f.value)
            if isinstance(f, ast.Attribute) and isinstance(f.value, ast.Name) and f.value.id == 'util' \
                    and f.attr == 'integer_from_integral_float' and len(a) == 1:
                return '(CIntegral %s)' % self.expr(a[0])
            if isinstance(f, ast.Attribute) and isinstance(f.value, ast.Name) and f.value.id == 'ex' and f.attr in CLASS_NAMES:
                return '(CMk %s %s)' % (coq_str(f.attr), coq_list([self.expr(x) for x in a]))
        self.fail('expression', e)

    def block(self, stmts):
        out = []
        for st in stmts:
            if isinstance(st, ast.Expr) and isinstance(st.value, ast.Constant):
                continue
            if isinstance(st, ast.AnnAssign) and st.value is None:
                continue
            out.append(self.stmt(st))
        return coq_list(out)

    def stmt(self, st):
        if isinstance(st, ast.Raise):
            return 'CSRaise'
        if isinstance(st, ast.Return):
            return '(CSReturn %s)' % ('CNone' if st.value is None else self.expr(st.value))
        if isinstance(st, ast.If):
            return '(CSIf %s %s %s)' % (self.expr(st.test), self.block(st.body), self.block(st.orelse))
        if isinstance(st, ast.Assign) and len(st.targets) == 1:
            t = st.targets[0]
            if isinstance(t, ast.Name):
                if t.id == 'variable_names':
                    return 'CSBook'
                return '(CSAssign %s %s)' % (coq_str(t.id), self.expr(st.value))
            if isinstance(t, ast.Attribute) and isinstance(t.value, ast.Name) and t.value.id == 'self':
                if t.attr == '_value' and isinstance(st.value, ast.Constant) and st.value.value is None:
                    return 'CSBook'
                if t.attr == '_inners' and isinstance(st.value, ast.Call) and isinstance(st.value.func, ast.Name) \
                        and st.value.func.id == 'list' and len(st.value.args) == 1:
                    return '(CSSetInners %s)' % self.expr(st.value.args[0])
                return '(CSSetField %s %s)' % (coq_str(t.attr), self.expr(st.value))
        if isinstance(st, ast.For) and not st.orelse and isinstance(st.target, ast.Name) and isinstance(st.iter, ast.Name) \
                and st.iter.id == 'args':
            return '(CSForArgs %s %s)' % (coq_str(st.target.id), self.block(st.body))
        if isinstance(st, ast.Expr) and isinstance(st.value, ast.Call):
            c = st.value
            if isinstance(c.func, ast.Attribute) and c.func.attr == '__init__' and isinstance(c.func.value, ast.Call) \
                    and isinstance(c.func.value.func, ast.Name) and c.func.value.func.id == 'super' and not c.func.value.args:
                if self.owner in BASE_LEVEL:
                    return 'CSBook'          # Expression.__init__(variable_names): set and flags bookkeeping
                if c.keywords:
                    self.fail('keyword arguments to super().__init__', st)
                return '(CSSuperInit %s)' % coq_list([self.expr(x) for x in c.args])
        self.fail('statement', st)

    def function(self, fd, is_method=True):
        note_translated(fd)
        if getattr(fd, 'decorator_list', None):
            self.fail('decorated function', fd)
        a = fd.args
        if a.kwonlyargs or a.kwarg or a.posonlyargs:
            self.fail('parameters', fd)
        params = [p.arg for p in a.args]
        if is_method:
            if not params or params[0] != 'self':
                self.fail('method without self', fd)
            params = params[1:]
        if a.vararg:
            params.append(a.vararg.arg)
        return '{| c_params := %s; c_body := %s |}' % (coq_list([coq_str(p) for p in params]), self.block(fd.body))


CTOR_OPERATORS = ('__neg__', '__add__', '__sub__', '__mul__', '__truediv__', '__pow__')


def generate_ctor():
    lines = ['(* GENERATED by harness/tie_extract.py: the current source of the __init__ methods, the operators of',
             '   Expression and the number helpers of utilities.py, translated into CtorAst.cfun -- do not edit *)',
             'From Coq Require Import ZArith List String.', 'From SM Require Import CtorAst.',
             'Import ListNotations.', 'Open Scope string_scope.', '']
    defaults = []
    files = [('expression', fn) for fn in EXPR_FILES] + [('base_expression', fn) for fn in BASE_FILES]
    for sub, fn in files:
        t = parse(os.path.join(SRC, '_private', sub, fn + '.py'))
        for node in t.body:
            if isinstance(node, ast.ClassDef):
                for m in methods_of(node):
                    if m.name == '__init__':
                        tr = CtorTranslator('%s.__init__' % node.name, node.name)
                        lines.append('Definition gen_ctor_%s_init : cfun := %s.' % (node.name, tr.function(m)))
                        defaults.append((node.name, [ast.unparse(d) for d in m.args.defaults]))
            if isinstance(node, ast.FunctionDef) and node.name == 'get_variable_name':
                tr = CtorTranslator('variable.get_variable_name', '')
                lines.append('Definition gen_ctor_fn_get_variable_name : cfun := %s.' % tr.function(node, False))
    t = parse(os.path.join(SRC, '_private', 'base_expression', 'expression.py'))
    for node in t.body:
        if isinstance(node, ast.ClassDef) and node.name == 'Expression':
            for m in methods_of(node):
                if m.name in CTOR_OPERATORS:
                    tr = CtorTranslator('Expression.%s' % m.name, 'Expression')
                    lines.append('Definition gen_ctor_op_%s : cfun := %s.' % (m.name.strip('_'), tr.function(m)))
    t = parse(os.path.join(SRC, '_private', 'utilities.py'))
    for node in t.body:
        if isinstance(node, ast.FunctionDef) and node.name in ('is_integer', 'integer_from_integral_float', 'is_even', 'is_odd'):
            tr = CtorTranslator('utilities.%s' % node.name, '')
            lines.append('Definition gen_ctor_fn_%s : cfun := %s.' % (node.name, tr.function(node, False)))
    # the two constructors that only store what they are given: Expression.__init__ (variable-name set and the
    # two memo flags, both False) and Point.__init__ (the keyword dictionary itself)
    plain = []
    for rel, cls in ((os.path.join('base_expression', 'expression.py'), 'Expression'), ('point.py', 'Point')):
        t = parse(os.path.join(SRC, '_private', rel))
        for node in t.body:
            if isinstance(node, ast.ClassDef) and node.name == cls:
                for m in methods_of(node):
                    if m.name == '__init__':
                        if m.decorator_list or m.args.defaults or m.args.kwonlyargs or m.args.vararg:
                            raise TieError('%s.__init__: signature' % cls)
                        sig = [a.arg for a in m.args.posonlyargs] + [a.arg for a in m.args.args] + \
                              (['**' + m.args.kwarg.arg] if m.args.kwarg else [])
                        stores = []
                        for st in m.body:
                            if isinstance(st, ast.Expr) and isinstance(st.value, ast.Constant):
                                continue
                            if isinstance(st, ast.AnnAssign) and st.value is None:
                                continue
                            ok = (isinstance(st, ast.Assign) and len(st.targets) == 1 and isinstance(st.targets[0], ast.Attribute)
                                  and isinstance(st.targets[0].value, ast.Name) and st.targets[0].value.id == 'self'
                                  and ((isinstance(st.value, ast.Name)) or
                                       (isinstance(st.value, ast.Constant) and isinstance(st.value.value, bool))))
                            if not ok:
                                raise TieError('%s.__init__: statement %s' % (cls, ast.dump(st)[:120]))
                            stores.append((st.targets[0].attr, st.value.id if isinstance(st.value, ast.Name) else repr(st.value.value)))
                        plain.append((cls, sig, stores))
                        note_translated(m)
    if [c for c, _s, _t in plain] != ['Expression', 'Point']:
        raise TieError('plain constructors not found')
    lines.append('')
    lines.append('Definition gen_plain_inits : list (string * (list string * list (string * string))) := ' + coq_list(
        ['(%s, (%s, %s))' % (coq_str(c), coq_list([coq_str(x) for x in sig]),
                             coq_list(['(%s, %s)' % (coq_str(f), coq_str(v)) for f, v in stores])) for c, sig, stores in plain]) + '.')
    lines.append('')
    lines.append('Definition gen_ctor_defaults : list (string * list string) := ' +
                 coq_list(['(%s, %s)' % (coq_str(c), coq_list([coq_str(d) for d in ds])) for c, ds in defaults]) + '.')
    return '\n'.join(lines) + '\n'


# ---------------------------------------------------------------- translator to coq/SymRev.v
class SymRevTranslator(SymTranslator):
    """_compute_synthetic_partials bodies -> SymRev.vfun; expressions as in SymTranslator"""

    def vblock(self, stmts):
        out = []
        for st in stmts:
            if isinstance(st, ast.Expr) and isinstance(st.value, ast.Constant):
                continue
            out.append(self.vstmt(st))
        return coq_list(out)

    def vstmt(self, st):
        if isinstance(st, ast.Pass):
            return 'VSPass'
        if isinstance(st, ast.Assign) and len(st.targets) == 1 and isinstance(st.targets[0], ast.Name):
            return '(VSAssign %s %s)' % (coq_str(st.targets[0].id), self.expr(st.value))
        if isinstance(st, ast.For) and not st.orelse:
            if isinstance(st.target, ast.Name):
                return '(VSFor %s %s %s)' % (coq_str(st.target.id), self.expr(st.iter), self.vblock(st.body))
            if isinstance(st.target, ast.Tuple) and len(st.target.elts) == 2 and all(isinstance(x, ast.Name) for x in st.target.elts) \
                    and isinstance(st.iter, ast.Call) and isinstance(st.iter.func, ast.Name) and st.iter.func.id == 'enumerate' \
                    and len(st.iter.args) == 1 and not st.iter.keywords:
                return '(VSForEnum %s %s %s %s)' % (coq_str(st.target.elts[0].id), coq_str(st.target.elts[1].id),
                                                   self.expr(st.iter.args[0]), self.vblock(st.body))
        if isinstance(st, ast.Expr) and isinstance(st.value, ast.Call) and not st.value.keywords:
            c = st.value
            f = c.func
            if isinstance(f, ast.Attribute) and f.attr == '_compute_synthetic_partials' and len(c.args) == 2 \
                    and isinstance(c.args[0], ast.Name) and c.args[0].id == 'accumulator':
                return '(VSRev %s %s)' % (self.expr(f.value), self.expr(c.args[1]))
            if isinstance(f, ast.Attribute) and f.attr == 'add_to' and isinstance(f.value, ast.Name) and f.value.id == 'accumulator' \
                    and len(c.args) == 2 and isinstance(c.args[0], ast.Name) and c.args[0].id == 'self':
                return '(VSAddTo %s)' % self.expr(c.args[1])
        self.fail('statement', st)

    def vfunction(self, fd):
        if getattr(fd, 'decorator_list', None):
            self.fail('decorated function', fd)
        a = fd.args
        if a.kwonlyargs or a.kwarg or a.posonlyargs or a.vararg or a.defaults or \
                [p.arg for p in a.args] != ['self', 'accumulator', 'multiplier']:
            self.fail('parameters', fd)
        return '{| v_params := ["accumulator"; "multiplier"]; v_body := %s |}' % self.vblock(fd.body)


def generate_symrev():
    lines = ['(* GENERATED by harness/tie_extract.py: the current source of every _compute_synthetic_partials',
             '   method, translated into SymRev.vfun -- do not edit *)',
             'From Coq Require Import ZArith List String.', 'From SM Require Import SymAst SymRev.',
             'Import ListNotations.', 'Open Scope string_scope.', '']
    owners = []
    files = [('expression', fn) for fn in EXPR_FILES] + [('base_expression', fn) for fn in BASE_FILES]
    for sub, fn in files:
        t = parse(os.path.join(SRC, '_private', sub, fn + '.py'))
        for node in t.body:
            if isinstance(node, ast.ClassDef):
                for m in methods_of(node):
                    if m.name == '_compute_synthetic_partials':
                        body = [s for s in m.body if not (isinstance(s, ast.Expr) and isinstance(s.value, ast.Constant))]
                        if len(body) == 1 and isinstance(body[0], ast.Raise):
                            continue
                        tr = SymRevTranslator('%s._compute_synthetic_partials' % node.name)
                        note_translated(m)
                        lines.append('Definition gen_symrev_%s : vfun := %s.' % (node.name, tr.vfunction(m)))
                        owners.append(node.name)
    lines.append('')
    lines.append('Definition gen_symrev_owners : list string := ' + coq_list([coq_str(c) for c in sorted(owners)]) + '.')
    return '\n'.join(lines) + '\n'


# ---------------------------------------------------------------- translator to coq/AccAst.v
class AccTranslator:
    """accumulators.py -> AccAst.afun (fail-closed)"""

    def __init__(self, where):
        self.where = where

    def fail(self, what, node=None):
        raise TieError('cannot translate %s in %s: %s' % (what, self.where, ast.dump(node)[:160] if node is not None else ''))

    def expr(self, e):
        if isinstance(e, ast.Name):
            return '(AName %s)' % coq_str(e.id)
        if isinstance(e, ast.Constant):
            if e.value is None:
                return 'ANone'
            if e.value == 0 and isinstance(e.value, int) and not isinstance(e.value, bool):
                return 'AZero'
            self.fail('literal', e)
        if isinstance(e, ast.Dict) and not e.keys:
            return 'AEmptyDict'
        if isinstance(e, ast.Attribute) and isinstance(e.value, ast.Name) and e.value.id == 'self' and e.attr.startswith('_'):
            return '(AField %s)' % coq_str(e.attr)
        if isinstance(e, ast.BinOp) and isinstance(e.op, ast.Add):
            return '(APlus %s %s)' % (self.expr(e.left), self.expr(e.right))
        if isinstance(e, ast.IfExp):
            return '(AIfExp %s %s %s)' % (self.expr(e.test), self.expr(e.body), self.expr(e.orelse))
        if isinstance(e, ast.Compare) and len(e.ops) == 1 and isinstance(e.ops[0], (ast.Is, ast.IsNot)) \
                and isinstance(e.comparators[0], ast.Constant) and e.comparators[0].value is None:
            t = '(AIsNone %s)' % self.expr(e.left)
            return t if isinstance(e.ops[0], ast.Is) else '(ANot %s)' % t
        if isinstance(e, ast.Call) and not e.keywords:
            f, a = e.func, e.args
            if isinstance(f, ast.Attribute) and isinstance(f.value, ast.Name) and f.value.id == 'va' \
                    and f.attr == 'get_variable_name' and len(a) == 1:
                return '(AGetName %s)' % self.expr(a[0])
            if isinstance(f, ast.Attribute) and f.attr == 'get' and len(a) == 2:
                return '(AGet %s %s %s)' % (self.expr(f.value), self.expr(a[0]), self.expr(a[1]))
            if isinstance(f, ast.Attribute) and isinstance(f.value, ast.Name) and f.value.id == 'ex' and f.attr == 'Constant' \
                    and len(a) == 1 and isinstance(a[0], ast.Constant) and a[0].value == 0 and not isinstance(a[0].value, bool):
                return 'AConst0'
        self.fail('expression', e)

    def block(self, stmts):
        out = []
        for st in stmts:
            if isinstance(st, ast.Expr) and isinstance(st.value, ast.Constant):
                continue
            if isinstance(st, ast.AnnAssign) and st.value is None:
                continue
            out.append(self.stmt(st))
        return coq_list(out)

    def stmt(self, st):
        if isinstance(st, ast.Return) and st.value is not None:
            return '(ASReturn %s)' % self.expr(st.value)
        if isinstance(st, ast.If):
            return '(ASIf %s %s %s)' % (self.expr(st.test), self.block(st.body), self.block(st.orelse))
        if isinstance(st, ast.For) and not st.orelse and isinstance(st.target, ast.Name):
            return '(ASFor %s %s %s)' % (coq_str(st.target.id), self.expr(st.iter), self.block(st.body))
        if isinstance(st, ast.Assign) and len(st.targets) == 1:
            t = st.targets[0]
            if isinstance(t, ast.Name):
                return '(ASAssign %s %s)' % (coq_str(t.id), self.expr(st.value))
            if isinstance(t, ast.Subscript):
                if isinstance(t.value, ast.Attribute) and isinstance(t.value.value, ast.Name) and t.value.value.id == 'self':
                    return '(ASSetFieldItem %s %s %s)' % (coq_str(t.value.attr), self.expr(t.slice), self.expr(st.value))
                if isinstance(t.value, ast.Name):
                    return '(ASSetItem %s %s %s)' % (coq_str(t.value.id), self.expr(t.slice), self.expr(st.value))
        self.fail('statement', st)

    def function(self, fd):
        note_translated(fd)
        if getattr(fd, 'decorator_list', None):
            self.fail('decorated function', fd)
        a = fd.args
        if a.kwonlyargs or a.kwarg or a.posonlyargs or a.vararg or a.defaults:
            self.fail('parameters', fd)
        params = [p.arg for p in a.args]
        if not params or params[0] != 'self':
            self.fail('method without self', fd)
        return '{| a_params := %s; a_body := %s |}' % (coq_list([coq_str(p) for p in params[1:]]), self.block(fd.body))


def generate_acc():
    lines = ['(* GENERATED by harness/tie_extract.py: the current source of accumulators.py, translated into',
             '   AccAst.afun -- do not edit *)',
             'From Coq Require Import ZArith List String.', 'From SM Require Import AccAst.',
             'Import ListNotations.', 'Open Scope string_scope.', '']
    t = parse(os.path.join(SRC, '_private', 'accumulators.py'))
    inits = []
    for node in t.body:
        if isinstance(node, ast.ClassDef):
            for m in methods_of(node):
                if m.name in ('add_to', 'numeric_partials_for', 'synthetic_partials_for'):
                    tr = AccTranslator('%s.%s' % (node.name, m.name))
                    lines.append('Definition gen_acc_%s_%s : afun := %s.' % (node.name, m.name, tr.function(m)))
                elif m.name == '__init__':
                    # self._x = {} and a type declaration, nothing else
                    body = [s_ for s_ in m.body if not (isinstance(s_, ast.AnnAssign) and s_.value is None)
                            and not (isinstance(s_, ast.Expr) and isinstance(s_.value, ast.Constant))]
                    ok = (len(body) == 1 and isinstance(body[0], ast.Assign) and isinstance(body[0].value, ast.Dict)
                          and not body[0].value.keys and isinstance(body[0].targets[0], ast.Attribute))
                    if not ok:
                        raise TieError('__init__ of %s is not a single `self._x = {}`' % node.name)
                    inits.append((node.name, body[0].targets[0].attr))
                    note_translated(m)
                elif not (m.name.startswith('__') and m.name.endswith('__')):
                    raise TieError('unexpected method %s.%s' % (node.name, m.name))
    lines.append('')
    lines.append('Definition gen_acc_inits : list (string * string) := ' +
                 coq_list(['(%s, %s)' % (coq_str(c), coq_str(f)) for c, f in inits]) + '.')
    return '\n'.join(lines) + '\n'


# ---------------------------------------------------------------- translator to coq/UtilAst.v
class UtilTranslator:
    """list / dictionary helpers of utilities.py and the two type-directed wrappers of
    base_expression/expression.py -> UtilAst.ufun (fail-closed)"""

    def __init__(self, where, callables=()):
        self.where = where
        self.callables = set(callables)

    def fail(self, what, node=None):
        raise TieError('cannot translate %s in %s: %s' % (what, self.where, ast.dump(node)[:160] if node is not None else ''))

    def opt(self, e):
        return 'None' if e is None else '(Some %s)' % self.expr(e)

    def expr(self, e):
        if isinstance(e, ast.Name):
            return '(UName %s)' % coq_str(e.id)
        if isinstance(e, ast.Constant):
            if e.value is None:
                return 'UNoneLit'
            if isinstance(e.value, int) and not isinstance(e.value, bool):
                return '(UInt (%d))' % e.value
            self.fail('literal', e)
        if isinstance(e, ast.UnaryOp) and isinstance(e.op, ast.USub):
            return '(UNeg %s)' % self.expr(e.operand)
        if isinstance(e, ast.BinOp) and isinstance(e.op, ast.Add):
            return '(UAdd %s %s)' % (self.expr(e.left), self.expr(e.right))
        if isinstance(e, ast.BoolOp) and isinstance(e.op, ast.Or) and len(e.values) == 2:
            return '(UOr %s %s)' % (self.expr(e.values[0]), self.expr(e.values[1]))
        if isinstance(e, ast.Compare) and len(e.ops) == 1:
            op, a, b = e.ops[0], e.left, e.comparators[0]
            if isinstance(op, ast.GtE):
                return '(UGe %s %s)' % (self.expr(a), self.expr(b))
            if isinstance(op, ast.LtE):
                return '(ULe %s %s)' % (self.expr(a), self.expr(b))
            if isinstance(op, ast.NotIn):
                return '(UNotIn %s %s)' % (self.expr(a), self.expr(b))
            self.fail('comparison', e)
        if isinstance(e, ast.Subscript) and isinstance(e.slice, ast.Slice) and e.slice.step is None:
            return '(USlice %s %s %s)' % (self.expr(e.value), self.opt(e.slice.lower), self.opt(e.slice.upper))
        if isinstance(e, ast.List):
            return '(UList %s)' % coq_list([self.expr(x) for x in e.elts])
        if isinstance(e, ast.Tuple) and len(e.elts) == 2:
            return '(UTuple %s %s)' % (self.expr(e.elts[0]), self.expr(e.elts[1]))
        if isinstance(e, ast.Lambda):
            a = e.args
            if (len(a.args) == 1 and not (a.kwonlyargs or a.kwarg or a.posonlyargs or a.vararg or a.defaults)
                    and isinstance(e.body, ast.Call) and isinstance(e.body.func, ast.Name) and e.body.func.id == 'isinstance'
                    and len(e.body.args) == 2 and not e.body.keywords
                    and isinstance(e.body.args[0], ast.Name) and e.body.args[0].id == a.args[0].arg
                    and isinstance(e.body.args[1], ast.Name) and e.body.args[1].id != a.args[0].arg):
                return '(ULambdaIsInst %s)' % coq_str(e.body.args[1].id)
            self.fail('lambda', e)
        if isinstance(e, ast.Call) and not e.keywords:
            f, a = e.func, e.args
            if isinstance(f, ast.Name) and f.id == 'len' and len(a) == 1:
                return '(ULen %s)' % self.expr(a[0])
            if isinstance(f, ast.Name) and f.id == 'dict' and not a:
                return 'UDictNew'
            if isinstance(f, ast.Name) and f.id in self.callables and len(a) == 1:
                return '(UApply1 %s %s)' % (coq_str(f.id), self.expr(a[0]))
            if isinstance(f, ast.Name) and f.id in self.callables and len(a) == 2:
                return '(UApply2 %s %s %s)' % (coq_str(f.id), self.expr(a[0]), self.expr(a[1]))
            if isinstance(f, ast.Attribute) and f.attr == 'items' and not a:
                return '(UItems %s)' % self.expr(f.value)
            if isinstance(f, ast.Attribute) and isinstance(f.value, ast.Name) and f.value.id == 'util':
                return '(UHelper %s %s)' % (coq_str(f.attr), coq_list([self.expr(x) for x in a]))
        self.fail('expression', e)

    def block(self, stmts):
        out = []
        for st in stmts:
            if isinstance(st, ast.Expr) and isinstance(st.value, ast.Constant):
                continue
            out.append(self.stmt(st))
        return coq_list(out)

    def stmt(self, st):
        if isinstance(st, ast.Return):
            return '(USReturn %s)' % (self.expr(st.value) if st.value is not None else 'UNoneLit')
        if isinstance(st, ast.If):
            return '(USIf %s %s %s)' % (self.expr(st.test), self.block(st.body), self.block(st.orelse))
        if isinstance(st, ast.For) and not st.orelse:
            t, it = st.target, st.iter
            if isinstance(t, ast.Name):
                return '(USFor %s %s %s)' % (coq_str(t.id), self.expr(it), self.block(st.body))
            if isinstance(t, ast.Tuple) and len(t.elts) == 2 and all(isinstance(x, ast.Name) for x in t.elts):
                a, b = t.elts[0].id, t.elts[1].id
                if isinstance(it, ast.Call) and isinstance(it.func, ast.Name) and it.func.id == 'enumerate' \
                        and len(it.args) == 1 and not it.keywords:
                    return '(USForEnum %s %s %s %s)' % (coq_str(a), coq_str(b), self.expr(it.args[0]), self.block(st.body))
                return '(USFor2 %s %s %s %s)' % (coq_str(a), coq_str(b), self.expr(it), self.block(st.body))
        if isinstance(st, ast.Assign) and len(st.targets) == 1:
            t = st.targets[0]
            if isinstance(t, ast.Name):
                return '(USAssign %s %s)' % (coq_str(t.id), self.expr(st.value))
            if isinstance(t, ast.Subscript) and isinstance(t.value, ast.Name) and not isinstance(t.slice, ast.Slice):
                return '(USSetItem %s %s %s)' % (coq_str(t.value.id), self.expr(t.slice), self.expr(st.value))
        if isinstance(st, ast.Expr) and isinstance(st.value, ast.Call) and not st.value.keywords \
                and isinstance(st.value.func, ast.Attribute) and st.value.func.attr == 'append' and len(st.value.args) == 1:
            tgt = st.value.func.value
            if isinstance(tgt, ast.Name):
                return '(USAppend %s %s)' % (coq_str(tgt.id), self.expr(st.value.args[0]))
            if isinstance(tgt, ast.Subscript) and isinstance(tgt.value, ast.Name) and not isinstance(tgt.slice, ast.Slice):
                return '(USAppendAt %s %s %s)' % (coq_str(tgt.value.id), self.expr(tgt.slice), self.expr(st.value.args[0]))
        self.fail('statement', st)

    def function(self, fd):
        note_translated(fd)
        if getattr(fd, 'decorator_list', None):
            self.fail('decorated function', fd)
        a = fd.args
        if a.kwonlyargs or a.kwarg or a.posonlyargs or a.vararg or a.defaults:
            self.fail('parameters', fd)
        params = [p.arg for p in a.args]
        return '{| u_params := %s; u_body := %s |}' % (coq_list([coq_str(p) for p in params]), self.block(fd.body))


UTIL_HELPERS = {
    'list_without_entry_at': (), 'list_with_updated_entry_at': (), 'first_match_by_predicate': ('predicate',),
    'partition_by_predicate': ('predicate',), 'group_by_key': ('key_from_value',), 'map_dictionary_values': ('update_value',),
}
UTIL_WRAPPERS = ('first_of_given_type', 'partition_by_given_type')


def generate_util():
    lines = ['(* GENERATED by harness/tie_extract.py: the current source of the list and dictionary helpers of',
             '   utilities.py and of first_of_given_type / partition_by_given_type, translated into UtilAst.ufun',
             '   -- do not edit *)',
             'From Coq Require Import ZArith List String.', 'From SM Require Import UtilAst.',
             'Import ListNotations.', 'Open Scope string_scope.', '']
    t = parse(os.path.join(SRC, '_private', 'utilities.py'))
    seen = set()
    for node in t.body:
        if isinstance(node, ast.FunctionDef) and node.name in UTIL_HELPERS:
            tr = UtilTranslator('utilities.%s' % node.name, UTIL_HELPERS[node.name])
            lines.append('Definition gen_util_%s : ufun := %s.' % (node.name, tr.function(node)))
            seen.add(node.name)
    t = parse(os.path.join(SRC, '_private', 'base_expression', 'expression.py'))
    for node in t.body:
        if isinstance(node, ast.FunctionDef) and node.name in UTIL_WRAPPERS:
            tr = UtilTranslator('base_expression.expression.%s' % node.name)
            lines.append('Definition gen_util_%s : ufun := %s.' % (node.name, tr.function(node)))
            seen.add(node.name)
    missing = (set(UTIL_HELPERS) | set(UTIL_WRAPPERS)) - seen
    if missing:
        raise TieError('helpers not found: %s' % sorted(missing))
    return '\n'.join(lines) + '\n'


# ---------------------------------------------------------------- translator to coq/RebuildAst.v
class RebuildTranslator:
    """_rebuild of the base classes / Constant / Variable and the n / base properties -> RebuildAst.pfun"""

    def __init__(self, where):
        self.where = where

    def fail(self, what, node=None):
        raise TieError('cannot translate %s in %s: %s' % (what, self.where, ast.dump(node)[:160] if node is not None else ''))

    def expr(self, e):
        if isinstance(e, ast.Name) and e.id != 'self':
            return '(PName %s)' % coq_str(e.id)
        if isinstance(e, ast.Attribute) and isinstance(e.value, ast.Name) and e.value.id == 'self':
            return '(PField %s)' % coq_str(e.attr)
        if isinstance(e, ast.Call) and not e.keywords:
            f = e.func
            if isinstance(f, ast.Attribute) and f.attr == '__class__' and isinstance(f.value, ast.Name) and f.value.id == 'self':
                args = []
                for a in e.args:
                    if isinstance(a, ast.Starred):
                        args.append('("*", %s)' % self.expr(a.value))
                    else:
                        args.append('("", %s)' % self.expr(a))
                return '(PSelfClass %s)' % coq_list(args)
            if isinstance(f, ast.Name) and f.id in ('Constant', 'Variable') and len(e.args) == 1:
                return '(PCtor %s %s)' % (coq_str(f.id), self.expr(e.args[0]))
        self.fail('expression', e)

    def function(self, fd, decorators=()):
        note_translated(fd)
        got = [ast.unparse(d) for d in getattr(fd, 'decorator_list', [])]
        if got != list(decorators):
            self.fail('decorators %r' % (got,), fd)
        a = fd.args
        if a.kwonlyargs or a.kwarg or a.posonlyargs or a.defaults:
            self.fail('parameters', fd)
        params = [p.arg for p in a.args]
        if not params or params[0] != 'self':
            self.fail('method without self', fd)
        star = a.vararg is not None
        if star and params[1:]:
            self.fail('mixed parameters', fd)
        names = [a.vararg.arg] if star else params[1:]
        body = [st for st in fd.body if not (isinstance(st, ast.Expr) and isinstance(st.value, ast.Constant))]
        if len(body) != 1 or not isinstance(body[0], ast.Return) or body[0].value is None:
            self.fail('body (a single return expected)', fd)
        return '{| p_params := %s; p_star := %s; p_ret := %s |}' % (
            coq_list([coq_str(p) for p in names]), 'true' if star else 'false', self.expr(body[0].value))


REBUILD_CLASSES = {
    os.path.join('base_expression', 'unary_expression.py'): 'UnaryExpression',
    os.path.join('base_expression', 'parameterized_unary_expression.py'): 'ParameterizedUnaryExpression',
    os.path.join('base_expression', 'binary_expression.py'): 'BinaryExpression',
    os.path.join('base_expression', 'n_ary_expression.py'): 'NAryExpression',
    os.path.join('expression', 'constant.py'): 'Constant',
    os.path.join('expression', 'variable.py'): 'Variable',
}
PROPERTY_CLASSES = {
    os.path.join('expression', 'nth_power.py'): ('NthPower', 'n'),
    os.path.join('expression', 'nth_root.py'): ('NthRoot', 'n'),
    os.path.join('expression', 'exponential.py'): ('Exponential', 'base'),
    os.path.join('expression', 'logarithm.py'): ('Logarithm', 'base'),
}


def generate_rebuild():
    lines = ['(* GENERATED by harness/tie_extract.py: the current source of the _rebuild methods and of the n / base',
             '   properties, translated into RebuildAst.pfun; and which concrete classes override them -- do not edit *)',
             'From Coq Require Import ZArith List String.', 'From SM Require Import RebuildAst.',
             'Import ListNotations.', 'Open Scope string_scope.', '']
    for rel, cls in sorted(REBUILD_CLASSES.items()):
        t = parse(os.path.join(SRC, '_private', rel))
        found = False
        for node in t.body:
            if isinstance(node, ast.ClassDef) and node.name == cls:
                for m in methods_of(node):
                    if m.name == '_rebuild':
                        tr = RebuildTranslator('%s._rebuild' % cls)
                        lines.append('Definition gen_rebuild_%s : pfun := %s.' % (cls, tr.function(m)))
                        found = True
        if not found:
            raise TieError('%s._rebuild not found' % cls)
    for rel, (cls, prop) in sorted(PROPERTY_CLASSES.items()):
        t = parse(os.path.join(SRC, '_private', rel))
        found = False
        for node in t.body:
            if isinstance(node, ast.ClassDef) and node.name == cls:
                for m in methods_of(node):
                    if m.name == prop:
                        tr = RebuildTranslator('%s.%s' % (cls, prop))
                        lines.append('Definition gen_property_%s_%s : pfun := %s.' % (cls, prop, tr.function(m, ('property',))))
                        found = True
        if not found:
            raise TieError('%s.%s not found' % (cls, prop))
    # no other class may define _rebuild / n / base / __getattr__ / __getattribute__ (an override would bypass the tie)
    overrides = []
    for root, _d, files in os.walk(os.path.join(SRC, '_private')):
        for fn in sorted(files):
            if not fn.endswith('.py'):
                continue
            rel = os.path.relpath(os.path.join(root, fn), os.path.join(SRC, '_private'))
            t = parse(os.path.join(root, fn))
            for node in ast.walk(t):
                if isinstance(node, ast.ClassDef):
                    for m in methods_of(node):
                        if m.name == '_rebuild' and REBUILD_CLASSES.get(rel) != node.name and node.name != 'Expression':
                            overrides.append('%s._rebuild' % node.name)
                        if m.name in ('n', 'base') and PROPERTY_CLASSES.get(rel) != (node.name, m.name):
                            overrides.append('%s.%s' % (node.name, m.name))
                        if m.name in ('__getattr__', '__getattribute__', '__setattr__'):
                            overrides.append('%s.%s' % (node.name, m.name))
    lines.append('')
    lines.append('Definition gen_rebuild_overrides : list string := %s.' % coq_list([coq_str(o) for o in sorted(overrides)]))
    return '\n'.join(lines) + '\n'


# ---------------------------------------------------------------- translator to coq/EntryAst.v
class EntryTranslator:
    """Expression._numeric_partials / _synthetic_partials / _normalize -> EntryAst.nfun (fail-closed)"""

    def __init__(self, where):
        self.where = where

    def fail(self, what, node=None):
        raise TieError('cannot translate %s in %s: %s' % (what, self.where, ast.dump(node)[:160] if node is not None else ''))

    def expr(self, e):
        if isinstance(e, ast.Name):
            return 'NSelf' if e.id == 'self' else '(NName %s)' % coq_str(e.id)
        if isinstance(e, ast.Constant) and isinstance(e.value, int) and not isinstance(e.value, bool):
            return '(NInt (%d))' % e.value
        if isinstance(e, ast.Attribute) and isinstance(e.value, ast.Name) and e.value.id == 'self' and e.attr == '_variable_names':
            return 'NVarNames'
        if isinstance(e, ast.Call) and not e.keywords:
            f, a = e.func, e.args
            if isinstance(f, ast.Attribute) and isinstance(f.value, ast.Name) and f.value.id == 'acc' and not a:
                return '(NNewAcc %s)' % coq_str(f.attr)
            if isinstance(f, ast.Attribute) and isinstance(f.value, ast.Name) and f.value.id == 'ex' and f.attr == 'Constant' \
                    and len(a) == 1 and isinstance(a[0], ast.Constant) and isinstance(a[0].value, int) \
                    and not isinstance(a[0].value, bool):
                return '(NConst (%d))' % a[0].value
            if isinstance(f, ast.Attribute) and not any(isinstance(x, ast.Starred) for x in a):
                return '(NCall %s %s %s)' % (self.expr(f.value), coq_str(f.attr), coq_list([self.expr(x) for x in a]))
        self.fail('expression', e)

    def function(self, fd):
        note_translated(fd)
        if getattr(fd, 'decorator_list', None):
            self.fail('decorated function', fd)
        a = fd.args
        if a.kwonlyargs or a.kwarg or a.posonlyargs or a.vararg or a.defaults:
            self.fail('parameters', fd)
        params = [p.arg for p in a.args]
        if not params or params[0] != 'self':
            self.fail('method without self', fd)
        out = []
        for st in fd.body:
            if isinstance(st, ast.Expr) and isinstance(st.value, ast.Constant):
                continue
            if isinstance(st, ast.Return) and st.value is not None:
                out.append('(NSReturn %s)' % self.expr(st.value))
            elif isinstance(st, ast.Assign) and len(st.targets) == 1 and isinstance(st.targets[0], ast.Name):
                out.append('(NSAssign %s %s)' % (coq_str(st.targets[0].id), self.expr(st.value)))
            elif isinstance(st, ast.Expr) and isinstance(st.value, ast.Call):
                out.append('(NSExpr %s)' % self.expr(st.value))
            else:
                self.fail('statement', st)
        return '{| n_params := %s; n_body := %s |}' % (coq_list([coq_str(p) for p in params[1:]]), coq_list(out))


ENTRY_METHODS = ('_numeric_partials', '_synthetic_partials', '_normalize')


def generate_entry():
    lines = ['(* GENERATED by harness/tie_extract.py: the current source of Expression._numeric_partials,',
             '   _synthetic_partials and _normalize, translated into EntryAst.nfun; and which classes override',
             '   them -- do not edit *)',
             'From Coq Require Import ZArith List String.', 'From SM Require Import EntryAst.',
             'Import ListNotations.', 'Open Scope string_scope.', '']
    t = parse(os.path.join(SRC, '_private', 'base_expression', 'expression.py'))
    seen = set()
    for node in t.body:
        if isinstance(node, ast.ClassDef) and node.name == 'Expression':
            for m in methods_of(node):
                if m.name in ENTRY_METHODS:
                    tr = EntryTranslator('Expression.%s' % m.name)
                    lines.append('Definition gen_entry%s : nfun := %s.' % (m.name, tr.function(m)))
                    seen.add(m.name)
    if seen != set(ENTRY_METHODS):
        raise TieError('entry points not found: %s' % sorted(set(ENTRY_METHODS) - seen))
    overrides = []
    for root, _d, files in os.walk(os.path.join(SRC, '_private')):
        for fn in sorted(files):
            if fn.endswith('.py'):
                t = parse(os.path.join(root, fn))
                for node in ast.walk(t):
                    if isinstance(node, ast.ClassDef) and node.name != 'Expression':
                        for m in methods_of(node):
                            if m.name in ENTRY_METHODS or m.name in ('_fully_reduce', 'at', '_consolidate_expression_lacking_variables'):
                                overrides.append('%s.%s' % (node.name, m.name))
    expr_like = ('Expression', 'UnaryExpression', 'ParameterizedUnaryExpression', 'BinaryExpression', 'NAryExpression')
    lines.append('')
    lines.append('(* classes other than Expression that define an entry point (derivative objects define their own at) *)')
    lines.append('Definition gen_entry_overrides : list string := %s.' % coq_list(
        [coq_str(o) for o in sorted(overrides) if o.split('.')[0] not in ('Partial', 'Derivative', 'Differential', 'LocatedDifferential') or o.split('.')[1] != 'at']))
    _ = expr_like
    return '\n'.join(lines) + '\n'


def write_if_changed(path, text):
    old = open(path).read() if os.path.exists(path) else None
    if old != text:
        with open(path, 'w') as f:
            f.write(text)
        return True
    return False


def main():
    coqdir = os.path.join(os.path.dirname(os.path.dirname(os.path.abspath(__file__))), 'coq')
    try:
        mtext = generate_math()
    except (TieError, SyntaxError, OSError) as ex:
        mtext = ('(* GENERATED: the translator FAILED CLOSED: %s *)\n'
                 'Definition translator_failed : False := I.\n') % str(ex).replace('*)', '* )')
        print('TIE-TRANSLATE-FAILED: %s' % ex)
    if write_if_changed(os.path.join(coqdir, 'GeneratedMath.v'), mtext):
        print('GeneratedMath.v rewritten')
    try:
        stext = generate_sym()
    except (TieError, SyntaxError, OSError) as ex:
        stext = ('(* GENERATED: the translator FAILED CLOSED: %s *)\n'
                 'Definition sym_translator_failed : False := I.\n') % str(ex).replace('*)', '* )')
        print('TIE-TRANSLATE-FAILED: %s' % ex)
    if write_if_changed(os.path.join(coqdir, 'GeneratedSym.v'), stext):
        print('GeneratedSym.v rewritten')
    try:
        otext = generate_orch()
    except (TieError, SyntaxError, OSError) as ex:
        otext = ('(* GENERATED: the translator FAILED CLOSED: %s *)\n'
                 'Definition orch_translator_failed : False := I.\n') % str(ex).replace('*)', '* )')
        print('TIE-TRANSLATE-FAILED: %s' % ex)
    if write_if_changed(os.path.join(coqdir, 'GeneratedOrch.v'), otext):
        print('GeneratedOrch.v rewritten')
    try:
        qtext = generate_obj()
    except (TieError, SyntaxError, OSError) as ex:
        qtext = ('(* GENERATED: the translator FAILED CLOSED: %s *)\n'
                 'Definition obj_translator_failed : False := I.\n') % str(ex).replace('*)', '* )')
        print('TIE-TRANSLATE-FAILED: %s' % ex)
    if write_if_changed(os.path.join(coqdir, 'GeneratedObj.v'), qtext):
        print('GeneratedObj.v rewritten')
    try:
        ktext = generate_cache()
    except (TieError, SyntaxError, OSError) as ex:
        ktext = ('(* GENERATED: the translator FAILED CLOSED: %s *)\n'
                 'Definition cache_translator_failed : False := I.\n') % str(ex).replace('*)', '* )')
        print('TIE-TRANSLATE-FAILED: %s' % ex)
    if write_if_changed(os.path.join(coqdir, 'GeneratedCache.v'), ktext):
        print('GeneratedCache.v rewritten')
    try:
        rtext = generate_route()
    except (TieError, SyntaxError, OSError) as ex:
        rtext = ('(* GENERATED: the translator FAILED CLOSED: %s *)\n'
                 'Definition route_translator_failed : False := I.\n') % str(ex).replace('*)', '* )')
        print('TIE-TRANSLATE-FAILED: %s' % ex)
    if write_if_changed(os.path.join(coqdir, 'GeneratedRoute.v'), rtext):
        print('GeneratedRoute.v rewritten')
    try:
        ttext = generate_step()
    except (TieError, SyntaxError, OSError) as ex:
        ttext = ('(* GENERATED: the translator FAILED CLOSED: %s *)\n'
                 'Definition step_translator_failed : False := I.\n') % str(ex).replace('*)', '* )')
        print('TIE-TRANSLATE-FAILED: %s' % ex)
    if write_if_changed(os.path.join(coqdir, 'GeneratedStep.v'), ttext):
        print('GeneratedStep.v rewritten')
    try:
        ctext = generate_ctor()
    except (TieError, SyntaxError, OSError) as ex:
        ctext = ('(* GENERATED: the translator FAILED CLOSED: %s *)\n'
                 'Definition ctor_translator_failed : False := I.\n') % str(ex).replace('*)', '* )')
        print('TIE-TRANSLATE-FAILED: %s' % ex)
    if write_if_changed(os.path.join(coqdir, 'GeneratedCtor.v'), ctext):
        print('GeneratedCtor.v rewritten')
    try:
        vtext = generate_symrev()
    except (TieError, SyntaxError, OSError) as ex:
        vtext = ('(* GENERATED: the translator FAILED CLOSED: %s *)\n'
                 'Definition symrev_translator_failed : False := I.\n') % str(ex).replace('*)', '* )')
        print('TIE-TRANSLATE-FAILED: %s' % ex)
    if write_if_changed(os.path.join(coqdir, 'GeneratedSymRev.v'), vtext):
        print('GeneratedSymRev.v rewritten')
    try:
        atext = generate_acc()
    except (TieError, SyntaxError, OSError) as ex:
        atext = ('(* GENERATED: the translator FAILED CLOSED: %s *)\n'
                 'Definition acc_translator_failed : False := I.\n') % str(ex).replace('*)', '* )')
        print('TIE-TRANSLATE-FAILED: %s' % ex)
    if write_if_changed(os.path.join(coqdir, 'GeneratedAcc.v'), atext):
        print('GeneratedAcc.v rewritten')
    try:
        utext = generate_util()
    except (TieError, SyntaxError, OSError) as ex:
        utext = ('(* GENERATED: the translator FAILED CLOSED: %s *)\n'
                 'Definition util_translator_failed : False := I.\n') % str(ex).replace('*)', '* )')
        print('TIE-TRANSLATE-FAILED: %s' % ex)
    if write_if_changed(os.path.join(coqdir, 'GeneratedUtil.v'), utext):
        print('GeneratedUtil.v rewritten')
    try:
        rtext = generate_rebuild()
    except (TieError, SyntaxError, OSError) as ex:
        rtext = ('(* GENERATED: the translator FAILED CLOSED: %s *)\n'
                 'Definition rebuild_translator_failed : False := I.\n') % str(ex).replace('*)', '* )')
        print('TIE-TRANSLATE-FAILED: %s' % ex)
    if write_if_changed(os.path.join(coqdir, 'GeneratedRebuild.v'), rtext):
        print('GeneratedRebuild.v rewritten')
    try:
        etext = generate_entry()
    except (TieError, SyntaxError, OSError) as ex:
        etext = ('(* GENERATED: the translator FAILED CLOSED: %s *)\n'
                 'Definition entry_translator_failed : False := I.\n') % str(ex).replace('*)', '* )')
        print('TIE-TRANSLATE-FAILED: %s' % ex)
    if write_if_changed(os.path.join(coqdir, 'GeneratedEntry.v'), etext):
        print('GeneratedEntry.v rewritten')
    out = sys.argv[1] if len(sys.argv) > 1 else os.path.join(os.path.dirname(os.path.dirname(os.path.abspath(__file__))), 'coq', 'Generated.v')
    try:
        text = generate()
    except (TieError, SyntaxError, OSError) as ex:
        text = ('(* GENERATED: the extractor FAILED CLOSED: %s *)\n'
                'Definition tie_extract_failed : False := I.\n') % str(ex).replace('*)', '* )')
        old = open(out).read() if os.path.exists(out) else None
        if old != text:
            open(out, 'w').write(text)
        print('TIE-EXTRACT-FAILED: %s' % ex)
        return 2
    old = open(out).read() if os.path.exists(out) else None
    if old != text:
        with open(out, 'w') as f:
            f.write(text)
        print('Generated.v rewritten')
    else:
        print('Generated.v unchanged')
    return 0


if __name__ == '__main__':
    sys.exit(main())
