"""Dynamic checks for C09-C16 and C18 (histories, step counts, object protocol, seeds)."""
import collections
import json
import math
import os
import random
import hashlib

import sx
import gen
import core
from props import Batch, Report, sizes, kind, expr_pool, points_for, is_bad_trace, finite_val

E = math.e
HISTORY_RUNNER = os.path.join(os.path.dirname(os.path.abspath(__file__)), 'history_runner.py')


# ------------------------------------------------------------------ histories (C09, C10)
def share_pool(rng, n_roots):
    """a pool of expressions in which later entries reuse earlier OBJECTS via (REF k)"""
    pool = []          # list of sx strings with REFs
    flat = []          # the same, expanded to plain tuples (for the model)
    for k in range(n_roots + 2):
        def sub(budget):
            r0 = rng.random()
            if pool and r0 < 0.40:
                j = rng.randrange(len(pool))
                return ('REF', j)
            if pool and r0 < 0.52:
                j = rng.randrange(len(pool))
                return flat[j]               # an equal but DISTINCT copy of an earlier pool member
            if budget <= 1:
                return gen.rleaf(rng, [2, 3], 0.3)
            e = gen.rexpr(rng, budget, [2, 3])
            return e
        twin = None
        if k >= 1 and rng.random() < 0.15:
            # a whole pool member that is == an earlier one but spelled differently (2 against 2.0): whatever is
            # remembered under a key compared with == hands one of them the other's answer
            j = rng.randrange(len(flat))
            if sx.to_sx(gen.respell(flat[j])) != sx.to_sx(flat[j]):
                twin = gen.respell(flat[j])
        if twin is not None:
            e = twin
        elif k < 2:
            e = gen.rexpr(rng, rng.randint(2, 6), [2, 3])
        else:
            h = rng.choice(['Add', 'Mul', 'Minus', 'Divide', 'Power', 'Neg', 'Recip', 'Sin', 'NthPow', 'NthRoot', 'Exp', 'Log'])
            if h in sx.NARY and rng.random() < 0.3:
                # the same composite text twice: equal structure, two distinct objects, next to other terms
                t = gen.rexpr(rng, rng.randint(2, 5), [2, 3], p_const=0.3)
                kids = [t, t] + [sub(rng.randint(1, 4)) for _ in range(rng.randint(0, 2))]
                rng.shuffle(kids)
                e = (h, kids)
            elif h in sx.NARY:
                e = (h, [sub(rng.randint(1, 5)) for _ in range(rng.randint(2, 4))])
            elif h in sx.BINARY and rng.random() < 0.25:
                t = gen.rexpr(rng, rng.randint(2, 5), [2, 3], p_const=0.4)
                e = (h, t, t)                # rebuilt twice: equal structure, two objects
            elif h in sx.BINARY:
                e = (h, sub(rng.randint(1, 5)), sub(rng.randint(1, 5)))
            elif h in sx.UNARY:
                e = (h, sub(rng.randint(1, 6)))
            elif h in sx.NPARAM:
                e = (h, sub(rng.randint(1, 6)), rng.choice([1, 2, 3, 4]))
            else:
                e = (h, sub(rng.randint(1, 6)), rng.choice([E, 2, 0.5]))
        pool.append(ref_sx(e))
        flat.append(expand(e, flat))
    return pool, flat


def ref_sx(e):
    if e[0] == 'REF':
        return '(REF %d)' % e[1]
    h = e[0]
    if h in ('C', 'V'):
        return sx.to_sx(e)
    if h in sx.NARY:
        return '(%s%s)' % (h, ''.join(' ' + ref_sx(a) for a in e[1]))
    if h in sx.BINARY:
        return '(%s %s %s)' % (h, ref_sx(e[1]), ref_sx(e[2]))
    if h in sx.UNARY:
        return '(%s %s)' % (h, ref_sx(e[1]))
    if h in sx.NPARAM:
        return '(%s %s %d)' % (h, ref_sx(e[1]), e[2])
    return '(%s %s %s)' % (h, ref_sx(e[1]), sx.num_sx(e[2]))


def expand(e, flat):
    if e[0] == 'REF':
        return flat[e[1]]
    if e[0] in ('C', 'V'):
        return e
    return sx.with_children(e, [expand(c, flat) for c in sx.children(e)])


def make_history(rng, length, focus=False, partial_points=False, reuse=False):
    """focus=True: 2-3 points that are revisited (one inside most domains, one on boundaries), a
    small pool, and operations that keep returning to the same objects: the shape that exposes a
    stale memo (A at p; something sharing A's objects at q; A at p again / fail, then retry)"""
    pool, flat = share_pool(rng, rng.randint(1, 3) if focus else rng.randint(2, 5))
    npts = rng.randint(2, 3) if focus else rng.randint(2, 4)
    pts = []
    for k in range(npts):
        r = rng.random()
        if focus and k == 0:
            p = [(2, rng.choice([1.5, 2, 0.75, 3])), (3, rng.choice([2.5, 1.25, 4, 0.5]))]
        elif focus and k == 1:
            p = [(3, rng.choice([0, -1, 2, 1])), (2, rng.choice([0, 1, -2.5, -1]))]
        elif r < 0.6:
            p = [(2, gen.rnum(rng)), (3, gen.rnum(rng))]
        elif r < 0.8:
            p = [(3, rng.choice([0, -1, 2])), (2, rng.choice([0, 1, -2.5]))]
        else:
            p = [(2, gen.rnum(rng))]            # lacks a coordinate: CoordinateMissing half-way
        if partial_points and k > 0:
            p = [c for c in p if rng.random() < 0.6]     # any subset of the coordinates (C14)
        pts.append(p)
    ops = []
    model_lines = []      # per op: protocol line whose model answer must equal the op's outcome (or None)
    slots = {}
    nslots = 0
    last_e = None
    for _ in range(length):
        r = rng.random()
        e = rng.randrange(len(pool))
        if focus and last_e is not None and rng.random() < 0.5:
            e = last_e                           # come back to the same object
        last_e = e
        p = rng.randrange(npts)
        v = rng.choice([2, 3, 3, 2, 5])
        es, ps = sx.to_sx(flat[e]), sx.point_sx(pts[p])
        if r < 0.22:
            if len(sx.var_ids(flat[e])) <= 1 and rng.random() < 0.35:
                # the bare-number form of at() on an expression with at most one variable
                xn = rng.choice([0, -1, 2, 1.5, -2.5, 0.0, 3, 1, 0.5])
                ops.append(['atnum', e, sx.num_sx(xn)])
                model_lines.append('ATNUM %s %s' % (sx.num_sx(xn), es))
            else:
                ops.append(['at', e, p])
                model_lines.append('EVAL %s %s' % (ps, es))
        elif r < 0.28:
            ops.append(['located', e, p])
            model_lines.append('REV %s %s' % (ps, es))
        elif r < 0.33:
            ops.append(['norm', e])
            model_lines.append('NORM %s' % es)
        elif r < 0.50 or not slots:
            kind_ = rng.choice(['partial', 'partial', 'diff', 'deriv'])
            early = rng.random() < 0.4
            s = nslots
            nslots += 1
            if kind_ == 'partial':
                ops.append([rng.choice(['mkpartial', 'mkpartialobj']), s, e, v, int(early)])
            elif kind_ == 'diff':
                ops.append(['mkdiff', s, e, int(early)])
            else:
                ops.append(['mkderiv', s, e, int(early)])
            slots[s] = {'kind': kind_, 'e': e, 'v': v, 'symbolic': early, 'early': early}
            model_lines.append(None)
        else:
            s = rng.choice(list(slots))
            sl = slots[s]
            es = sx.to_sx(flat[sl['e']])
            if sl['kind'] == 'partial':
                if rng.random() < 0.7:
                    ops.append(['pat', s, p])
                    model_lines.append(('PEARLY' if sl['symbolic'] else 'FWD') + ' %d %s %s' % (sl['v'], ps, es))
                else:
                    ops.append(['pexpr', s])
                    sl['symbolic'] = True
                    model_lines.append('PEXPR %d %s' % (sl['v'], es))
            elif sl['kind'] == 'deriv':
                ids = sx.var_ids(flat[sl['e']])
                if len(ids) > 1:
                    ops.append(['dat', s, p])
                    model_lines.append(None)          # the slot holds no object (constructor rejected)
                elif rng.random() < 0.3:
                    # Derivative.at(number)
                    xn = rng.choice([0, -1, 2, 1.5, -2.5, 0.0, 3, 1, 0.5])
                    vv = ids[0] if ids else 1
                    ops.append(['datnum', s, sx.num_sx(xn)])
                    model_lines.append(('PEARLY' if sl['symbolic'] else 'FWD') + ' %d %s %s' % (vv, sx.point_sx([(vv, xn)]), es))
                elif rng.random() < 0.7:
                    ops.append(['dat', s, p])
                    vv = ids[0] if ids else 1
                    model_lines.append(('PEARLY' if sl['symbolic'] else 'FWD') + ' %d %s %s' % (vv, ps, es))
                else:
                    ops.append(['dexpr', s])
                    sl['symbolic'] = True
                    vv = ids[0] if ids else 1
                    model_lines.append('PEXPR %d %s' % (vv, es))
            else:
                rr = rng.random()
                if rr < 0.4:
                    ops.append(['dfat', s, p])
                    model_lines.append(('DEARLYALL' if sl['early'] else 'DIFFAT') + ' %s %s' % (ps, es))
                elif rr < 0.8:
                    ops.append(['dfcompat', s, v, p])
                    model_lines.append(('DEARLYAT' if sl['early'] else 'FWD') + ' %d %s %s' % (v, ps, es))
                else:
                    ops.append(['dfcompexpr', s, v])
                    model_lines.append(('DEXPR' if sl['early'] else 'PEXPR') + ' %d %s' % (v, es))
    if reuse:
        # after every operation that returns an expression, sometimes feed that expression into a new one
        ops2, ml2, nres = [], [], 0
        for op, l in zip(ops, model_lines):
            ops2.append(op)
            ml2.append(l)
            if op[0] in ('pexpr', 'dexpr', 'dfcompexpr', 'norm'):
                nres += 1
                for _ in range(rng.choice([1, 1, 2])):
                    ops2.append(['reuse', rng.randrange(nres), rng.randrange(7), rng.randrange(len(pool)),
                                 rng.choice([2, 3]), rng.randrange(npts)])
                    ml2.append(None)
        ops, model_lines = ops2, ml2
    h = {'pool': pool, 'points': [sx.point_sx(p) for p in pts], 'ops': ops}
    return h, model_lines


def run_histories(hs, fresh_oracle=True):
    lines = [json.dumps(dict(h, fresh_oracle=fresh_oracle)) for h in hs]
    out = core.run_impl(lines, runner=HISTORY_RUNNER)
    res = []
    for o in out:
        try:
            res.append(json.loads(o))
        except Exception:  # noqa: BLE001
            res.append({'error': o[:300]})
    return res


def history_check(ctx, prop):
    rng, tier = ctx.rng, ctx.tier
    rep = Report(prop)
    n = sizes(tier, 260, 5000)
    maxlen = sizes(tier, 12, 60)
    hs = []
    mls = []
    for _ in range(n):
        h, ml = make_history(rng, rng.randint(4, maxlen))
        hs.append(h)
        mls.append(ml)
    for h in dag_rule_histories(rng, sizes(tier, 120, 2500)):
        hs.append(h)
        mls.append(model_lines_for(h))
    for h in twin_histories(rng, sizes(tier, 60, 800)) + wide_histories(rng, sizes(tier, 30, 400)) \
            + widening_histories(rng, sizes(tier, 40, 500)) + budget_histories(rng, sizes(tier, 3, 20)):
        hs.append(h)
        mls.append(model_lines_for(h))
    for k_ in range(sizes(tier, 90, 1500)):
        h, ml = make_history(rng, rng.randint(4, 10), focus=(k_ % 2 == 0), reuse=True)
        hs.append(h)
        mls.append(ml)
    for h in component_histories(rng, sizes(tier, 60, 1000)) + repeat_histories(rng, sizes(tier, 60, 1000)):
        hs.append(h)
        mls.append(model_lines_for(h))
    for k_ in range(sizes(tier, 40, 600)):
        # points whose coordinates are real numbers of another type (Fraction, Decimal): outcomes are not judged (the
        # model's numbers are int / float), but the used-versus-fresh and nothing-was-altered oracles apply all the same
        h, ml = make_history(rng, rng.randint(4, 10), focus=(k_ % 2 == 0))
        ex = {}
        for j, ps_ in enumerate(h['points']):
            pt_, _ = sx.parse_point(sx.tokenize(ps_))
            for i_, _v in pt_:
                if rng.random() < 0.6:
                    ex.setdefault(str(j), {})[str(i_)] = rng.choice([['F', 1, 3], ['F', -7, 2], ['F', 5, 1], ['D', '0.1'], ['D', '2.50'],
                                                                     ['F', 22, 7], ['D', '-1.75']])
        h['exotic'] = ex
        hs.append(h)
        mls.append([None] * len(ml))
    res = run_histories(hs)
    # model answers: pure functions of (expression, point)
    flat_lines = []
    owner = []
    for hi, ml in enumerate(mls):
        for oi, l in enumerate(ml):
            if l is not None:
                flat_lines.append(l)
                owner.append((hi, oi))
    model = core.run_model(flat_lines)
    ops_hist = collections.Counter()
    for hi, (h, r) in enumerate(zip(hs, res)):
        rep.cases += 1
        rep.distinct.add(json.dumps(h, sort_keys=True))
        if 'range' in r:
            rep.stats['histories_out_of_range'] += 1     # exact integer arithmetic far outside the double range
            continue
        if 'error' in r:
            rep.stats['runner_errors'] += 1
            rep.oracle_failures.append({'what': 'history runner failed: ' + r['error'], 'lines': [], 'kf': None, 'history': h})
            continue
        for op in h['ops']:
            ops_hist[op[0]] += 1
        for o in r['outs']:
            rep.stats['outcome_' + kind(o)] += 1
        if hi < 3:
            rep.sample({'pool': h['pool'], 'points': h['points'], 'ops': h['ops'][:8], 'outs': r['outs'][:8]})
        provenance_failures(rep, h, r)
        if prop == 'C09':
            for f in r['fresh']:
                if f['used'].startswith('WARN') or f['fresh'].startswith('WARN'):
                    # the step budget was exhausted on one side: history dependence at the budget boundary
                    rep.known['KF-BUDGET'].append({'what': 'operation %d: used %s... fresh %s...' % (f['op'], f['used'][:40], f['fresh'][:40]),
                                                   'lines': [(json.dumps(trim_history(h, f['op']))[:300], '', '')], 'kf': 'KF-BUDGET'})
                    continue
                rep.oracle_failures.append({
                    'what': 'operation %d %s answered %s but a never-used copy answers %s' % (
                        f['op'], h['ops'][f['op']], f['used'], f['fresh']),
                    'lines': [], 'kf': None, 'history': trim_history(h, f['op'])})
        if prop == 'C10':
            for m in r['mutations']:
                rep.oracle_failures.append({
                    'what': 'operation %d %s changed the structure of an existing %s object' % (m['op'], h['ops'][m['op']], m['object']),
                    'lines': [], 'kf': None, 'history': trim_history(h, m['op']), 'extra': m})
            for f in r['final']:
                rep.oracle_failures.append({'what': 'after the history a pool object differs from a fresh copy: %s' % f,
                                            'lines': [], 'kf': None, 'history': h})
    # correspondence: each operation's outcome against the pure model
    for (hi, oi), m in zip(owner, model):
        r = res[hi]
        if 'error' in r or 'range' in r:
            continue
        i = r['outs'][oi]
        if i == 'NOSLOT':
            rep.stats['corr_skip'] += 1      # the derivative object could not be built (rejected, or overflow while folding)
            continue
        st = core.classify(i, m)
        rep.stats['corr_' + st] += 1
        if st in ('disagree', 'error'):
            rep.disagreements.append({'line': mls[hi][oi], 'impl': i, 'model': m,
                                      'note': 'operation %d of a history: %s' % (oi, hs[hi]['ops'][oi]),
                                      'failing_input': False, 'history': trim_history(hs[hi], oi)})
    rep.stats.update({'op_' + k: v for k, v in ops_hist.items()})
    return rep


def component_histories(rng, n):
    """a Differential asked for the same component again and again, as a number and as an expression, by name:
    component() must hand out an object that knows nothing about what earlier components were used for"""
    out = []
    for _ in range(n):
        pool, flat = share_pool(rng, rng.randint(1, 2))
        e = len(pool) - 1
        ids = sx.var_ids(flat[e]) or [2]
        pts = [[(i, gen.rnum(rng) if rng.random() < 0.7 else rng.choice([-3, -1, 2, 0.5, -2.5])) for i in sorted(set(ids + [2, 3]))]
               for _k in range(2)]
        v = rng.choice(ids)
        early = int(rng.random() < 0.3)
        ops = [['mkdiff', 0, e, early], ['dfcompat', 0, v, 0], ['dfcompexpr', 0, v], ['dfcompat', 0, v, 0], ['dfcompat', 0, v, 1],
               ['dfat', 0, 1], ['dfcompexpr', 0, rng.choice(ids)], ['dfcompat', 0, v, 1], ['dfat', 0, 0]]
        out.append({'pool': pool, 'points': [sx.point_sx(p) for p in pts], 'ops': ops})
    return out


def repeat_histories(rng, n):
    """the same simplification / differentiation asked twice of the SAME object, for expressions holding a
    variable-free sub-expression that cannot be evaluated (so that it cannot be folded and the attempt leaves whatever
    it leaves on the object) or one that can; the second answer is compared with a never-used copy's"""
    c = lambda v: ('C', v)      # noqa: E731
    x, y = ('V', 2), ('V', 3)
    bads = [('Log', ('Minus', c(1), c(1)), E), ('NthPow', ('NthRoot', ('Minus', c(2), c(6)), 2), 2),
            ('Recip', ('Add', [c(1), c(-1)])), ('Divide', c(1), ('Mul', [c(0), c(3)])), ('Power', c(-2), c(0.5)),
            ('Log', ('Neg', ('Neg', ('Neg', c(3)))), 2), ('NthRoot', ('Add', [c(-4), ('Mul', [c(1), c(0)])]), 2),
            ('Sin', ('Log', ('Minus', c(2), c(2)), E)), ('Power', ('Minus', c(1), c(1)), ('Neg', ('Neg', c(-1)))),
            ('NthPow', ('Add', [c(1), c(2)]), 2), ('Exp', ('Minus', c(3), c(1)), 2)]
    out = []
    for _ in range(n):
        b1, b2 = rng.choice(bads), rng.choice(bads)
        u = gen.rexpr(rng, rng.randint(1, 5), [2, 3], p_const=0.2)
        e = rng.choice([('Mul', [x, b1]), ('Add', [('Sin', x), b1]), ('Mul', [('Sin', x), b1, y]), ('Power', x, b1),
                        ('Minus', u, b1), ('Divide', b1, ('Add', [u, b2])), ('Mul', [u, ('Add', [b1, b2])]),
                        ('Log', ('Add', [x, b1]), E), ('NthPow', ('Add', [u, b1]), 3), ('Add', [u, ('Mul', [b1, y])])])
        v = rng.choice([2, 3])
        early = int(rng.random() < 0.4)
        ops = [['norm', 0], ['norm', 0], ['mkpartial', 0, 0, v, early], ['pexpr', 0], ['mkpartial', 1, 0, v, early], ['pexpr', 1],
               ['mkdiff', 2, 0, early], ['dfcompexpr', 2, v], ['mkdiff', 3, 0, 1 - early], ['dfcompexpr', 3, v], ['norm', 0],
               ['at', 0, 0], ['pat', 1, 0], ['at', 0, 0]]
        out.append({'pool': [sx.to_sx(e)], 'points': [sx.point_sx([(2, 1.5), (3, 0.75)])], 'ops': ops})
    return out


def provenance_failures(rep, h, r):
    """a 'reuse' operation found that an expression containing an object the library returned earlier simplifies,
    differentiates or evaluates differently from the same expression built from constructors"""
    for oi, o in enumerate(r.get('outs', [])):
        if o.startswith('REUSED') or o == 'BUDGET':
            rep.stats['reuse_' + ('compared' if o.startswith('REUSED') else 'budget')] += 1
        if o.startswith('PROVENANCE'):
            rep.oracle_failures.append({
                'what': 'operation %d %s: an expression returned by the library, used as an operand of a new expression, '
                        'behaves differently from the same expression built from constructors: %s' % (oi, h['ops'][oi], o[11:]),
                'lines': [], 'kf': None, 'history': trim_history(h, oi)})


def dag_rule_histories(rng, n):
    """pools in which the SAME composite object sits inside a rule's redex and elsewhere in the root"""
    x, y = '(V 2)', '(V 3)'
    comps = ['(Add %s %s)' % (x, y), '(Mul %s %s)' % (x, y), '(Neg %s)' % x, '(Recip %s)' % y, '(NthPow %s 2)' % x,
             '(NthRoot %s 3)' % y, '(Exp %s f4005bf0a8b145769)' % x, '(Log %s f4005bf0a8b145769)' % y,
             '(Minus %s %s)' % (x, y), '(Divide %s %s)' % (x, y), '(Add %s (C i1) %s)' % (x, y), '(Mul (C i2) %s)' % x,
             '(Sin %s)' % x, '(Power %s %s)' % (x, y), '(Add (Neg %s) %s)' % (x, y), '(Mul (Recip %s) %s)' % (x, y)]
    wraps = ['(Neg (REF 0))', '(Recip (REF 0))', '(NthPow (REF 0) 2)', '(NthPow (REF 0) 3)', '(NthRoot (REF 0) 3)',
             '(Exp (REF 0) f4005bf0a8b145769)', '(Log (REF 0) f4005bf0a8b145769)', '(Sin (REF 0))', '(Cos (REF 0))',
             '(Minus (C i1) (REF 0))', '(Minus (REF 0) (V 3))', '(Divide (C i1) (REF 0))', '(Divide (REF 0) (V 2))',
             '(Power (REF 0) (C i2))', '(Power (C i2) (REF 0))', '(Power (REF 0) (Neg (V 3)))', '(Neg (Neg (REF 0)))',
             '(Add (REF 0) (C i0))', '(Mul (REF 0) (C i1))', '(Mul (Neg (REF 0)) (V 2))', '(Add (REF 0) (Neg (REF 0)))']
    roots = ['(Mul (REF 0) (REF 1) (REF 0))', '(Add (REF 1) (REF 0))', '(Minus (REF 0) (REF 1))', '(Divide (REF 1) (REF 0))',
             '(Add (REF 0) (REF 1) (REF 0))', '(Mul (REF 1) (REF 1))', '(Sin (Add (REF 1) (REF 0)))']
    out = []
    for _ in range(n):
        c, w, r = rng.choice(comps), rng.choice(wraps), rng.choice(roots)
        pts = ['[2=%s 3=%s]' % (sx.num_sx(rng.choice([0.5, 1.5, 2, 3])), sx.num_sx(rng.choice([0.5, 2, 1.25, 3])))
               for _ in range(2)]
        seqs = [[['norm', 2], ['at', 2, 0], ['at', 0, 0], ['norm', 1], ['at', 1, 1], ['norm', 2], ['at', 2, 1]],
                [['mkpartial', 0, 2, 2, 0], ['pexpr', 0], ['at', 2, 0], ['at', 0, 1], ['mkpartial', 1, 1, 3, 1], ['pat', 1, 0],
                 ['norm', 0], ['at', 2, 1]],
                [['at', 2, 0], ['mkdiff', 0, 2, 1], ['dfcompexpr', 0, 2], ['norm', 2], ['at', 1, 0], ['at', 2, 1]]]
        out.append({'pool': [c, w, r], 'points': pts, 'ops': rng.choice(seqs)})
    return out


def twin_histories(rng, n):
    """two pool members that are == but spelled differently (ints against integral floats), asked the same
    symbolic and numeric questions one after the other: an answer remembered under a key compared with == (a
    process-wide memo, a dictionary of results) is handed to the wrong one"""
    out = []
    tries = 0
    while len(out) < n and tries < 20 * n:
        tries += 1
        e = gen.rexpr(rng, rng.randint(2, 9), [2, 3], p_const=0.45)
        t = gen.respell(e)
        if sx.to_sx(t) == sx.to_sx(e) or not sx.var_ids(e):
            continue
        v = rng.choice(sx.var_ids(e))
        pts = [sx.point_sx(gen.positive_point(rng, [2, 3])), sx.point_sx(gen.rpoint(rng, [2, 3]))]
        first, second = (0, 1) if rng.random() < 0.5 else (1, 0)
        early = rng.randint(0, 1)
        ops = [['mkpartial', 0, first, v, early], ['pexpr', 0], ['pat', 0, 0],
               ['mkpartial', 1, second, v, early], ['pexpr', 1], ['pat', 1, 0],
               ['mkdiff', 2, second, 1], ['dfcompexpr', 2, v], ['mkdiff', 3, first, 1], ['dfcompexpr', 3, v],
               ['norm', first], ['norm', second], ['at', first, 1], ['at', second, 1]]
        out.append({'pool': [sx.to_sx(e), sx.to_sx(t)], 'points': pts, 'ops': ops})
    return out


def wide_histories(rng, n):
    """a sum or product with MANY operands (9-13, some of them quotients, differences, powers), used on its own and
    inside a non-linear parent that is differentiated symbolically and simplified in between: a simplifier that edits
    wide nodes in place, or gives up on them differently, changes what the wide node itself answers"""
    out = []
    for _ in range(n):
        w = gen.wide_node(rng, [2, 3], arity=rng.choice([9, 10, 11, 13]), kind='mixed')
        f = rng.choice(['(Sin (REF 0))', '(Mul (V 2) (REF 0))', '(NthPow (REF 0) 2)', '(Exp (REF 0) f4005bf0a8b145769)',
                        '(Divide (REF 0) (Add (V 3) (C i5)))'])
        v = rng.choice([2, 3])
        pts = [sx.point_sx([(2, rng.choice([1.5, 2, 0.75, 3])), (3, rng.choice([2.5, 1.25, 4, 0.5]))]),
               sx.point_sx([(2, gen.rnum(rng)), (3, gen.rnum(rng))])]
        ops = [['at', 0, 0], ['mkpartial', 0, 1, v, 1], ['at', 0, 0], ['pexpr', 0], ['at', 0, 1], ['at', 1, 0], ['norm', 1],
               ['at', 0, 0], ['located', 0, 1], ['mkpartial', 1, 0, v, 0], ['pat', 1, 0], ['pexpr', 1], ['at', 0, 1],
               ['mkdiff', 2, 1, 1], ['dfat', 2, 0], ['at', 0, 0], ['norm', 0], ['at', 0, 1]]
        out.append({'pool': [sx.to_sx(w), f], 'points': pts, 'ops': ops})
    return out


def widening_histories(rng, n):
    """the user's own expression contains a redex whose rewrite ENLARGES the domain (e^(ln x) -> x, 1/(1/x) -> x,
    (sqrt x)^2 -> x) inside a sum or product; it is asked outside its domain, then some derivative object over it is
    simplified, then it is asked again: a simplifier that edits the user's nodes in place makes the second answer
    a number"""
    x, y = '(V 2)', '(V 3)'
    redex = ['(Exp (Log %s f4005bf0a8b145769) f4005bf0a8b145769)' % x, '(Recip (Recip %s))' % x, '(NthPow (NthRoot %s 2) 2)' % x,
             '(NthPow (NthRoot %s 4) 4)' % x, '(Exp (Log %s f4000000000000000) f4000000000000000)' % x]
    wraps = ['(Add %s (C i5))', '(Mul %s ' + y + ')', '(Add ' + y + ' %s (C i1))', '(Mul (C i2) %s (Add ' + y + ' (C i1)))',
             '(Add %s (Sin ' + y + ') ' + x + ')']
    roots = ['(Log (REF 0) f4005bf0a8b145769)', '(REF 0)', '(Mul ' + y + ' (REF 0))', '(Sin (REF 0))', '(NthPow (REF 0) 2)']
    out = []
    for _ in range(n):
        inner = rng.choice(wraps) % rng.choice(redex)
        pts = ['[2=%s 3=%s]' % (sx.num_sx(rng.choice([-3, -0.5, 0, -1])), sx.num_sx(rng.choice([2, 1.5, 3]))),
               '[2=%s 3=%s]' % (sx.num_sx(rng.choice([2, 1.5, 4])), sx.num_sx(rng.choice([2, 0.5])))]
        v = rng.choice([2, 3])
        early = rng.randint(0, 1)
        ops = [['at', 1, 0], ['mkpartial', 0, 1, v, 0], ['pat', 0, 0], ['pat', 0, 1],
               ['mkpartial', 1, 1, v, 1], ['pexpr', 1], ['mkdiff', 2, 1, early], ['dfcompexpr', 2, v], ['norm', 1],
               ['at', 1, 0], ['pat', 0, 0], ['located', 1, 0], ['at', 0, 0], ['dfat', 2, 0], ['mkpartial', 3, 1, v, 0], ['pat', 3, 0]]
        out.append({'pool': [inner, rng.choice(roots)], 'points': pts, 'ops': ops})
    return out


def budget_histories(rng, n):
    """a simplification that runs out of the step budget on a very wide sum whose LAST terms are objects shared with
    small expressions; afterwards the small expressions are simplified: whatever the budget fallback leaves on the
    nodes it never reached (flags, edits) shows in their answers"""
    out = []
    for _ in range(n):
        N = rng.choice([150, 200, 240])
        shared = ['(Sin (Minus (V 2) (C i%d)))' % (N + 1), '(NthPow (NthRoot (V 2) 3) 3)', '(Cos (Divide (V 2) (C i3)))']
        terms = ' '.join('(Sin (Minus (V 2) (C i%d)))' % k for k in range(1, N))
        big = '(Add %s (REF 0) (REF 1) (REF 2))' % terms
        small = rng.choice(['(Mul (V 3) (REF 1))', '(Add (REF 0) (V 3))', '(Sin (REF 2))'])
        pts = ['[2=%s 3=%s]' % (sx.num_sx(rng.choice([0, 1.5, -2])), sx.num_sx(2)), '[2=%s 3=%s]' % (sx.num_sx(0.5), sx.num_sx(3))]
        ops = [['mkpartial', 0, 3, 2, 0], ['pexpr', 0], ['mkpartial', 1, 4, rng.choice([2, 3]), 0], ['pexpr', 1], ['pat', 1, 0],
               ['mkpartial', 2, 0, 2, 0], ['pexpr', 2], ['norm', 1], ['at', 4, 0], ['norm', 2]]
        out.append({'pool': shared + [big, small], 'points': pts, 'ops': ops})
    return out


def twin_children_histories(rng, n):
    """an n-ary node whose operands include the same composite term written out twice (equal, distinct objects,
    two or more levels above the variables), asked the same question at a first point, at a second, and at the first
    again, through every kind of route: whatever deduplicates operands by == treats only one of the twins"""
    out = []
    for _ in range(n):
        def deep():
            u = gen.rexpr(rng, rng.randint(2, 4), [2, 3], p_const=0.15)
            return rng.choice([('NthPow', ('NthPow', u, 2), 2), ('Sin', ('Mul', [u, ('C', 2)])), ('Exp', ('Neg', u), E),
                               ('Mul', [u, u]), ('NthPow', ('Add', [u, ('C', 1)]), 3)])
        t = deep()
        kids = [t, t] + [gen.rexpr(rng, rng.randint(1, 3), [2, 3]) for _ in range(rng.randint(0, 2))]
        rng.shuffle(kids)
        root = (rng.choice(['Add', 'Mul']), kids)
        if rng.random() < 0.4:
            root = rng.choice([('Recip', root), ('Log', root, E), ('NthRoot', root, 2), ('Minus', ('V', 2), root), ('Sin', root)])
        v = rng.choice([2, 3])
        pts = [sx.point_sx([(2, rng.choice([1.5, 2, 0.75, 3])), (3, rng.choice([2.5, 1.25, 4, 0.5]))]),
               sx.point_sx([(3, rng.choice([0, -1, 2, 1])), (2, rng.choice([0, 1, -2.5, -1]))]),
               sx.point_sx([(2, gen.rnum(rng)), (3, gen.rnum(rng))])]
        early = rng.randint(0, 1)
        ops = [['mkpartial', 0, 0, v, 0], ['pat', 0, 0], ['pat', 0, 1], ['pat', 0, 0], ['pat', 0, 2],
               ['at', 0, 1], ['at', 0, 0], ['located', 0, 1], ['located', 0, 2],
               ['mkdiff', 1, 0, early], ['dfat', 1, 0], ['dfat', 1, 1], ['dfcompat', 1, v, 2], ['dfcompat', 1, v, 0],
               ['mkpartial', 2, 0, v, 1], ['pat', 2, 1], ['pat', 2, 0]]
        out.append({'pool': [ref_sx(root)], 'points': pts, 'ops': ops})
    return out


def model_lines_for(h):
    """the pure-model line of every operation of a history (None for constructions)"""
    flat = []
    for s_ in h['pool']:
        flat.append(_expand_refs(s_, flat))
    pts = h['points']
    slots = {}
    out = []
    for op in h['ops']:
        k = op[0]
        if k == 'at':
            out.append('EVAL %s %s' % (pts[op[2]], flat[op[1]]))
        elif k == 'norm':
            out.append('NORM %s' % flat[op[1]])
        elif k == 'located':
            out.append('REV %s %s' % (pts[op[2]], flat[op[1]]))
        elif k in ('mkpartial', 'mkpartialobj'):
            slots[op[1]] = {'kind': 'partial', 'e': op[2], 'v': op[3], 'symbolic': bool(op[4]), 'early': bool(op[4])}
            out.append(None)
        elif k == 'mkdiff':
            slots[op[1]] = {'kind': 'diff', 'e': op[2], 'early': bool(op[3])}
            out.append(None)
        elif k == 'pat':
            sl = slots[op[1]]
            out.append(('PEARLY' if sl['symbolic'] else 'FWD') + ' %d %s %s' % (sl['v'], pts[op[2]], flat[sl['e']]))
        elif k == 'pexpr':
            sl = slots[op[1]]
            sl['symbolic'] = True
            out.append('PEXPR %d %s' % (sl['v'], flat[sl['e']]))
        elif k == 'dfcompexpr':
            sl = slots[op[1]]
            out.append(('DEXPR' if sl['early'] else 'PEXPR') + ' %d %s' % (op[2], flat[sl['e']]))
        else:
            out.append(None)
    return out


def _expand_refs(s_, flat):
    import re
    return re.sub(r'\(REF (\d+)\)', lambda m: flat[int(m.group(1))], s_)


def history_correspondence(ctx, rep, n, keep, maxlen=10, what='history', extra=None, disturb=(), partial_points=False,
                           exact=False, reuse=0):
    """histories restricted to the operation kinds in [keep] (plus the constructions they need); every
    operation's outcome against the pure model; a wrong kind or value is a concrete failing history.
    Operations of the kinds in [disturb] are executed too (they share objects and caches with the
    judged ones) but their answers are not judged here.  Half of the histories are 'focused'."""
    rng = ctx.rng
    hs, mls = [], []
    tries = 0
    while len(hs) < n and tries < 20 * n:
        tries += 1
        h, ml = make_history(rng, rng.randint(4, maxlen), focus=(tries % 2 == 0), partial_points=partial_points)
        ops, m2 = [], []
        for op, l in zip(h['ops'], ml):
            if op[0] in keep or op[0].startswith('mk') or op[0] in ('pexpr', 'dexpr') \
                    or (op[0] == 'atnum' and 'at' in keep) or (op[0] == 'datnum' and 'dat' in keep):   # as_expression switches the object's path
                ops.append(op)
                m2.append(l)
            elif op[0] in disturb or (op[0] == 'atnum' and 'at' in disturb) or (op[0] == 'datnum' and 'dat' in disturb):
                ops.append(op)
                m2.append(None)
        if not any(l is not None for l in m2):
            continue
        h['ops'] = ops
        hs.append(h)
        mls.append(m2)
    for h in (extra or []):
        hs.append(h)
        mls.append(model_lines_for(h))
    for h in twin_children_histories(rng, max(6, n // 12)) + wide_histories(rng, max(4, n // 20)) \
            + widening_histories(rng, max(6, n // 12)):
        ml = model_lines_for(h)
        ops, m2 = [], []
        for op, l in zip(h['ops'], ml):
            if op[0] in keep or op[0].startswith('mk'):
                ops.append(op)
                m2.append(l)
            elif op[0] in disturb:
                ops.append(op)
                m2.append(None)
        if any(l is not None for l in m2):
            hs.append(dict(h, ops=ops))
            mls.append(m2)
    for k_ in range(reuse):
        h, ml = make_history(rng, rng.randint(4, maxlen), focus=(k_ % 2 == 0), reuse=True)
        hs.append(h)
        mls.append(ml)
    res = run_histories(hs, fresh_oracle=False)
    flat_lines = [l for ml in mls for l in ml if l is not None]
    model = core.run_model(flat_lines)
    k = 0
    for h, r, ml in zip(hs, res, mls):
        rep.cases += 1
        rep.distinct.add(json.dumps(h, sort_keys=True))
        for oi, l in enumerate(ml):
            if l is None:
                continue
            m = model[k]
            k += 1
            if 'error' in r or 'range' in r:
                continue
            i = r['outs'][oi]
            if i == 'NOSLOT':
                continue
            st = core.classify(i, m)
            rep.stats['corr_' + st] += 1
            rep.stats[what + '_operations'] += 1
            if st in ('disagree', 'error'):
                oi_, om_ = core.parse_outcome(i), core.parse_outcome(m)
                wrong = oi_[0] != om_[0] or (exact and st == 'disagree')     # exact: bit-for-bit (C18), the model being bit-exact
                if oi_[0] == om_[0] == 'VAL':
                    wrong = not core.close(oi_[1], om_[1], rel=1e-9, abs_=1e-12)
                elif oi_[0] == om_[0] == 'VALS':
                    wrong = any(not core.close(oi_[1].get(q, 0), om_[1].get(q, 0), rel=1e-9, abs_=1e-12)
                                for q in set(oi_[1]) | set(om_[1]))
                elif oi_[0] == om_[0] == 'OTHER':
                    wrong = False
                if exact and st == 'disagree':
                    wrong = True
                if wrong:
                    rep.oracle_failures.append({
                        'what': 'operation %d %s of a sequence over expressions sharing objects: implementation %s, model %s'
                                % (oi, h['ops'][oi], i[:120], m[:120]),
                        'lines': [(l, i, m)], 'kf': None, 'history': trim_history(h, oi)})
                else:
                    rep.disagreements.append({'line': l, 'impl': i, 'model': m, 'note': what, 'failing_input': False,
                                              'history': trim_history(h, oi)})
        if 'error' in r:
            rep.oracle_failures.append({'what': 'history runner failed: ' + r['error'], 'lines': [], 'kf': None, 'history': h})
        elif 'range' not in r:
            provenance_failures(rep, h, r)


def trim_history(h, upto):
    return {'pool': h['pool'], 'points': h['points'], 'ops': h['ops'][:upto + 1]}


def replay_history(payload):
    h = payload['history']
    r = run_histories([h])[0]
    print(json.dumps({'history': h, 'result': r}, indent=1)[:6000])
    bad = r.get('fresh') or r.get('mutations') or r.get('final') or r.get('error') \
        or any(o.startswith('PROVENANCE') for o in r.get('outs', []))
    return 1 if bad else 0


def check_C09(ctx):
    rep = history_check(ctx, 'C09')
    rep.rule = ('random operation histories (at, LocatedDifferential, _normalize, Partial/Derivative/Differential early and '
                'late, at / as_expression / component queries, failing calls) over pools of expressions whose later members '
                'reuse earlier OBJECTS, at 2-4 points incl. points lacking a coordinate; every operation is repeated on '
                'freshly built copies and compared bit for bit, and compared with the pure model; distinct = distinct history')
    budget_probe(ctx, rep)
    process_state_probe(ctx, rep)
    return rep


def budget_probe(ctx, rep):
    """C09 near the step budget: the number of Python-level steps depends on flags left behind by
    earlier simplifications, so an expression that needs slightly more than the budget when fresh
    may finish within it when its shared sub-objects were simplified before (KF-BUDGET)."""
    Ls = (108,) if ctx.tier == 'quick' else tuple(range(100, 120))
    w = budget_witness(Ls)
    if w:
        rep.known['KF-BUDGET'].append({'what': w, 'lines': [(w, '', '')], 'kf': 'KF-BUDGET'})


def process_state_probe(ctx, rep):
    """process-wide state keyed by equality (e.g. a memo on math functions): numerically equal but
    differently spelled operands (10 vs 10.0, 0.0 vs -0.0) evaluated in ONE interpreter process, in
    two different orders; every answer must be what the pure model answers"""
    lines = []
    spell = lambda v: [int(v), float(v)]          # noqa: E731
    for a, n in [(3, 34), (10, 23), (17, 13), (7, 20), (5, 25), (2, 60), (6, 21), (11, 16)]:
        for x in spell(a):
            lines.append('EVAL [2=%s] (NthPow (V 2) %d)' % (sx.num_sx(x), n))
            for m in spell(n):
                lines.append('EVAL [2=%s 3=%s] (Power (V 2) (V 3))' % (sx.num_sx(x), sx.num_sx(m)))
                lines.append('EVAL [3=%s] (Exp (V 3) %s)' % (sx.num_sx(m), sx.num_sx(x)))
                lines.append('FWD 2 [2=%s 3=%s] (Power (V 2) (V 3))' % (sx.num_sx(x), sx.num_sx(m)))
    for z in (0.0, -0.0, 0):
        for n in (1, 3, 5):
            lines.append('EVAL [2=%s] (NthPow (V 2) %d)' % (sx.num_sx(z), n))
            lines.append('EVAL [2=%s] (Mul (V 2) (C i3))' % sx.num_sx(z))
            lines.append('EVAL [2=%s] (Neg (V 2))' % sx.num_sx(z))
        lines.append('EVAL [2=%s] (Exp (V 2) i2)' % sx.num_sx(z))
        lines.append('EVAL [2=%s] (Sin (V 2))' % sx.num_sx(z))
    for v in (2, 2.0, 4, 4.0, 8, 8.0, 27, 27.0):
        lines.append('EVAL [2=%s] (NthRoot (V 2) 3)' % sx.num_sx(v))
        lines.append('EVAL [2=%s] (NthRoot (V 2) 2)' % sx.num_sx(v))
        lines.append('EVAL [2=%s] (Log (V 2) i2)' % sx.num_sx(v))
        lines.append('EVAL [2=%s] (Log (V 2) f4000000000000000)' % sx.num_sx(v))
    model = core.run_model(lines, jobs=1)
    a = core.run_impl(lines, jobs=1)
    rev = list(reversed(lines))
    b = list(reversed(core.run_impl(rev, jobs=1)))
    for l, m, x, y in zip(lines, model, a, b):
        rep.stats['process_state_probe_lines'] += 1
        if x != y:
            rep.oracle_failures.append({'what': 'the answer depends on what was evaluated earlier in the same process: %s (this order) vs %s '
                                                '(reverse order)' % (x, y), 'lines': [(l, x, m)], 'kf': None})
        elif core.classify(x, m) == 'disagree':
            rep.disagreements.append({'line': l, 'impl': x, 'model': m, 'note': 'process state probe', 'failing_input': False})


def check_C10(ctx):
    rep = history_check(ctx, 'C10')
    import props
    props.augmented_assignments(rep, ctx.rng, sizes(ctx.tier, 60, 600))
    rep.rule = ('the same histories as C09; before and after every operation a structural snapshot (class, parameters, '
                'identity of children and of the argument list, coordinates) of every pool object, point, derivative object '
                'and previously returned expression is compared with the snapshot taken at creation; at the end every pool '
                'object must ==, repr and str like a fresh copy; distinct = distinct history')
    return rep


# ------------------------------------------------------------------ C11
def check_C11(ctx):
    rng, tier = ctx.rng, ctx.tier
    rep = Report('C11')
    rep.rule = ('rule patterns in context, random trees up to 20 nodes (budget clause), long Minus/Divide/Negation-of-sum/'
                'Reciprocal-of-product/Power chains up to a few hundred nodes, raw symbolic derivatives; per input the whole '
                'rewrite sequence of the implementation is driven step by step: no revisited form, the termination measure '
                'of the proof strictly decreases, steps <= size^2, no warning for <= 20 nodes; number of forms and final form '
                'against the model; distinct = distinct input')
    exprs = [gen.in_context(rng, p, [2, 3]) for p in gen.rule_patterns(rng, [2, 3], per_pattern=1)]
    exprs += [gen.rexpr(rng, rng.randint(5, 20), [2, 3], p_const=0.25) for _ in range(sizes(tier, 250, 6000))]
    for L in sizes(tier, [8, 25], [8, 25, 60, 120]):
        exprs += gen.chains(rng, [2, 3], L)
    exprs += gen.repairable_singular(rng, [2, 3], sizes(tier, 80, 1000))
    pre = ['SYNFWD 2 %s' % sx.to_sx(e) for e in exprs[:sizes(tier, 120, 1500)] if sx.size(e) <= 9]
    for s in core.run_model(pre):
        try:
            d = core.parse_expr_line(s)
            if sx.size(d) <= 60:
                exprs.append(d)
        except Exception:  # noqa: BLE001
            pass
    b = Batch()
    recs = []
    seen = set()
    for e in exprs:
        es = sx.to_sx(e)
        if es in seen:
            continue
        seen.add(es)
        recs.append((e, b.add('STEPCOUNT %s' % es), b.add('STEPINFO %s' % es)))
    b.run()
    worst = 0.0
    for e, i, j in recs:
        rep.cases += 1
        rep.distinct.add(sx.to_sx(e))
        rep.corr(b, i, 'STEPCOUNT')
        if 'OverflowError' in b.impl[j] or 'OverflowError' in b.impl[i]:
            rep.stats['range_excluded'] += 1
            continue
        info = dict(kv.split('=', 1) for kv in b.impl[j].split() if '=' in kv)
        if not info:
            rep.oracle_fail('step counting failed: %s' % b.impl[j], b, [j])
            continue
        n = sx.size(e)
        py, forms = int(info['pysteps']), int(info['forms'])
        rep.stats['size_le_20' if n <= 20 else 'size_gt_20'] += 1
        worst = max(worst, py / float(n * n))
        rep.sample({'input': sx.to_sx(e)[:200], 'size': n, 'python_steps': py, 'forms': forms, 'warn': info['warn']})
        if info['revisit'] == 'True':
            rep.oracle_fail('the rewrite sequence revisits an earlier form', b, [j])
        if info['mudec'] != 'True':
            rep.oracle_fail('a rewrite step does not decrease the termination measure', b, [j])
        if py >= 300000:
            rep.oracle_fail('no rule-free form reached within 300000 steps', b, [j])
        if n <= 20 and info['warn'] == 'True':
            rep.oracle_fail('an expression of %d nodes triggers the step-budget fallback' % n, b, [j])
        if n >= 4 and py > n * n + 10:
            rep.oracle_fail('%d Python-level steps for %d nodes: more than quadratic' % (py, n), b, [j])
        if info['warn'] == 'True':
            rep.stats['budget_fallback'] += 1
    rep.stats['worst_steps_over_size_squared_x1000'] = int(worst * 1000)
    # the same driver under the interpreter's DEFAULT recursion limit (the harness raises it for deep trees): chains that
    # need close to, or more than, the library's own step budget must end the same way - a form, or the warning fallback -
    # and not in a RecursionError (a driver that spends a stack frame per step would)
    deep = [e for e in exprs if 80 <= sx.size(e) <= 400][:sizes(tier, 6, 30)]
    deep += gen.chains(rng, [2, 3], 60) + gen.chains(rng, [2], 70) + (gen.chains(rng, [2], 100) if tier == 'thorough' else [])
    if deep:
        bd = Batch()
        # NORM calls the library's own _normalize / _fully_reduce (the step-by-step commands drive the steps themselves)
        di = [bd.add('NORM %s' % sx.to_sx(e)) for e in deep]
        bd.run(model=False)
        old_env = dict(os.environ)
        os.environ['VERIF_RECLIMIT'] = 'default'
        try:
            low = core.run_impl(bd.lines, hashseed=0)
        finally:
            os.environ.clear()
            os.environ.update(old_env)
        for k_, i in enumerate(di):
            hi = bd.impl[i]
            if hi.startswith(('ERROR', 'PYERR')):
                continue
            rep.stats['default_recursion_limit_cases'] += 1
            rep.stats['default_recursion_limit_beyond_budget'] += hi.startswith('WARN')
            if low[k_] != hi and ('recursion' in low[k_].lower() or low[k_].startswith(('ERROR', 'PYERR'))):
                rep.oracle_fail('under the default recursion limit the simplification ends in a RecursionError (%s) where it '
                                'otherwise ends with %s' % (low[k_][:60], hi[:60]), bd, [i])
    # the form the implementation stops at must be rule-free: ask the model whether a step is still possible
    b2 = Batch()
    finals = []
    for e, i, j in recs:
        out = b.impl[i]
        if 'final=' in out and 'warn=True' not in b.impl[j] and not out.startswith(('ERROR', 'PYERR', 'WARN')):
            fin = out.split('final=', 1)[1]
            finals.append((i, b2.add('STEP %s' % fin)))
    if finals:
        b2.model = core.run_model(b2.lines)
        b2.impl = ['SKIP'] * len(b2.lines)
        b2.status = ['skip'] * len(b2.lines)
        for i, k in finals:
            m = b2.model[k]
            rep.stats['final_forms_checked'] += 1
            if m not in ('NONE',) and not m.startswith(('ERROR', 'FUEL')) and 'OverflowError' not in m:
                rep.oracle_failures.append({
                    'what': 'simplification stopped at a form to which a rule still applies: %s' % m[:200],
                    'lines': [(b.lines[i], b.impl[i], b.model[i]), (b2.lines[k], 'SKIP', m)], 'kf': None})
    return rep


# ------------------------------------------------------------------ C12
def respell(rng, e):
    """the same expression with ints written as floats and vice versa where numerically equal"""
    def go(x):
        h = x[0]
        if h == 'C':
            v = x[1]
            if isinstance(v, int) and not isinstance(v, bool) and rng.random() < 0.6:
                return ('C', float(v))
            if isinstance(v, float) and v.is_integer() and abs(v) < 1e9 and rng.random() < 0.6:
                return ('C', int(v))
            return x
        if h == 'V':
            return x
        y = sx.with_children(x, [go(c) for c in sx.children(x)])
        if h in sx.BPARAM:
            b = y[2]
            if isinstance(b, int) and rng.random() < 0.6:
                return (h, y[1], float(b))
            if isinstance(b, float) and b.is_integer() and rng.random() < 0.6:
                return (h, y[1], int(b))
        return y
    return go(e)


def mutate_one(rng, e):
    """change exactly one parameter, leaf, argument order or arity, somewhere in the tree"""
    nodes = list(sx.subterms(e))
    target = rng.choice(nodes)

    def change(x):
        h = x[0]
        if h == 'C':
            if rng.random() < 0.5:
                # a numerically different value that is very close: one ulp, or 1e-10 .. 1e-13 relative
                f = float(x[1])
                y = math.nextafter(f, math.inf) if rng.random() < 0.4 else f * (1 + rng.choice([1e-10, 3e-11, 1e-12, -1e-10, 1e-13]))
                if y != f and math.isfinite(y):
                    return ('C', y)
            return ('C', x[1] + 1 if not isinstance(x[1], float) else x[1] + 0.5)
        if h == 'V':
            return ('V', x[1] + 1)
        if h in sx.NARY:
            l = list(x[1])
            r = rng.random()
            if len(l) >= 2 and r < 0.4 and sx.to_sx(l[0]) != sx.to_sx(l[1]):
                l[0], l[1] = l[1], l[0]
                return (h, l)
            if l and r < 0.7:
                return (h, l[:-1])
            return (h, l + [('C', 7)])
        if h in sx.BINARY:
            if sx.to_sx(x[1]) != sx.to_sx(x[2]) and rng.random() < 0.5:
                return (h, x[2], x[1])
            return (rng.choice([k for k in sx.BINARY if k != h]), x[1], x[2])
        if h in sx.UNARY:
            return (rng.choice([k for k in sx.UNARY if k != h]), x[1])
        if h in sx.NPARAM:
            if rng.random() < 0.5:
                return (h, x[1], x[2] + 1)
            return ('NthRoot' if h == 'NthPow' else 'NthPow', x[1], x[2])
        if rng.random() < 0.3:
            y = float(x[2]) * (1 + rng.choice([1e-10, 1e-12, -1e-11])) if rng.random() < 0.5 else math.nextafter(float(x[2]), math.inf)
            if y != x[2] and y != 1 and y > 0:
                return (h, x[1], y)                  # a base that is very close but not equal
        if rng.random() < 0.5:
            return (h, x[1], x[2] * 2 if x[2] * 2 != 1 else 3)
        return ('Log' if h == 'Exp' and x[2] != 1 else 'Exp', x[1], x[2])
    done = [False]

    def go(x):
        if x is target and not done[0]:
            done[0] = True
            return change(x)
        if x[0] in ('C', 'V'):
            return x
        return sx.with_children(x, [go(c) for c in sx.children(x)])
    return go(e)


def check_C12(ctx):
    rng, tier = ctx.rng, ctx.tier
    rep = Report('C12')
    rep.rule = ('pairs (e, e rebuilt), (e, e with ints/floats respelled), (e, e with exactly one parameter / leaf / argument '
                'order / arity / constructor changed somewhere), random unrelated pairs, points in permuted coordinate order '
                'and with one value changed, derivative objects, foreign objects; == against the model; reflexivity, symmetry, '
                '!=, hash consistency, set/dict membership, transitivity on the implementation; distinct = distinct pair')
    n = sizes(tier, 500, 12000)
    b = Batch()
    recs = []
    for _ in range(n):
        e = gen.rexpr(rng, rng.randint(1, 12), [2, 3, 4])
        r = rng.random()
        if r < 0.2:
            f, what = e, 'same'
        elif r < 0.45:
            f, what = respell(rng, e), 'respelled'
        elif r < 0.85:
            f, what = mutate_one(rng, e), 'mutated'
        else:
            f, what = gen.rexpr(rng, rng.randint(1, 8), [2, 3]), 'random'
        g = respell(rng, f)
        recs.append((e, f, g, what,
                     b.add('EQ %s %s' % (sx.to_sx(e), sx.to_sx(f))),
                     b.add('EQ %s %s' % (sx.to_sx(f), sx.to_sx(e))),
                     b.add('EQX %s %s %s' % (sx.to_sx(e), sx.to_sx(f), sx.to_sx(g)))))
    # parameters next to special values: a constructor or comparison that snaps a base to e (or 2, 10, 1/2), or a
    # constant to a nearby round value, makes numerically different objects equal
    specials = [E, 2.0, 10.0, 0.5, 3.0, 1.0000000001]
    for s0 in specials:
        near = [s0 * (1 + d) for d in (1e-10, -1e-10, 3e-12, -1e-13, 1e-15)] + [math.nextafter(s0, math.inf), math.nextafter(s0, -math.inf)]
        near = [y for y in dict.fromkeys(near) if y != s0 and y > 0 and y != 1]
        for _ in range(sizes(tier, 2, 12)):
            inner = gen.rexpr(rng, rng.randint(1, 4), [2, 3])
            h = rng.choice(['Exp', 'Log'])
            y1, y2 = rng.choice(near), rng.choice(near)
            for a_, c_ in (((h, inner, s0), (h, inner, y1)), ((h, inner, y1), (h, inner, y2)),
                           (('Mul', [('C', s0), inner]), ('Mul', [('C', y1), inner]))):
                if sx.to_sx(a_) == sx.to_sx(c_):
                    continue
                g = respell(rng, c_)
                recs.append((a_, c_, g, 'mutated',
                             b.add('EQ %s %s' % (sx.to_sx(a_), sx.to_sx(c_))),
                             b.add('EQ %s %s' % (sx.to_sx(c_), sx.to_sx(a_))),
                             b.add('EQX %s %s %s' % (sx.to_sx(a_), sx.to_sx(c_), sx.to_sx(g)))))
    # points
    prec = []
    for _ in range(n // 4):
        ids = rng.sample([2, 3, 4, 5, 6], rng.randint(0, 4))
        p = [(i, gen.rnum(rng)) for i in ids]
        q = list(p)
        rng.shuffle(q)
        r = rng.random()
        if r < 0.3 and q:
            k = rng.randrange(len(q))
            q[k] = (q[k][0], q[k][1] + 1)
        elif r < 0.45 and q:
            q.pop()
        elif r < 0.6:
            q = [(i, float(v) if isinstance(v, int) else (int(v) if float(v).is_integer() else v)) for i, v in q]
        prec.append((p, q, b.add('PEQ %s %s' % (sx.point_sx(p), sx.point_sx(q))),
                     b.add('PEQX %s %s' % (sx.point_sx(p), sx.point_sx(q)))))
    b.run()
    eqs = collections.Counter()
    for e, f, g, what, i, j, x in recs:
        rep.cases += 1
        rep.distinct.add((sx.to_sx(e), sx.to_sx(f)))
        rep.corr(b, i, 'EQ')
        rep.corr(b, j, 'EQ')
        eqs[what + '_' + b.impl[i]] += 1
        rep.sample(b.lines[i] + '  =>  ' + b.impl[i])
        if b.impl[i] != b.impl[j]:
            rep.oracle_fail('== is not symmetric', b, [i, j])
        if what in ('same', 'respelled') and b.impl[i] != 'true':
            rep.oracle_fail('numerically equal constructions compare unequal', b, [i])
        if what == 'mutated' and b.impl[i] != 'false' and sx.to_sx(e) != sx.to_sx(f) and b.model[i] == 'false':
            # (a swap of two operands that are numerically equal, 2 and 2.0, changes the spelling only: the model says so)
            rep.oracle_fail('expressions differing in one place compare equal', b, [i])
        if b.impl[x] != 'ok':
            rep.oracle_fail('equality/hash law broken on the implementation: %s' % b.impl[x], b, [x])
    for p, q, i, x in prec:
        rep.cases += 1
        rep.distinct.add((sx.point_sx(p), sx.point_sx(q)))
        rep.corr(b, i, 'PEQ')
        if b.impl[x] != 'ok':
            rep.oracle_fail('point equality/hash law broken: %s' % b.impl[x], b, [x])
    rep.stats.update({'pair_' + k: v for k, v in eqs.items()})
    used_roundtrip(rep, [e for e, _f, _g, _w, _i, _j, _x in recs[:sizes(tier, 200, 3000)]], rng)
    wide_equalities(rep, sizes(tier, [9, 17, 100, 257, 300], [9, 10, 16, 17, 33, 100, 255, 256, 257, 258, 300, 1000]))
    # derivative objects reached by different routes: Differential(e).component(v) against Partial(e, v),
    # Differential(e).at(p) against LocatedDifferential(e, p), early and late, ==, != and hash
    import props
    cases_ = []
    for e, _f, _g, _w, _i, _j, _x in recs[:sizes(tier, 150, 2500)]:
        ids = sx.var_ids(e)
        if ids:
            cases_.append((e, gen.positive_point(rng, ids) if rng.random() < 0.7 else gen.rpoint(rng, ids), rng.choice(ids)))
    props.object_equalities(rep, cases_)
    return rep


def wide_equalities(rep, arities):
    """==, hash, repr of n-ary nodes with many operands, also beyond 256 (where two equal ints stop being one object)"""
    b = Batch()
    idx = [b.add('WIDEEQ %d' % k) for k in arities]
    b.run(model=False)
    for i in idx:
        rep.stats['wide_equality_' + b.impl[i].split(':')[0].split(' ')[0]] += 1
        if b.impl[i] != 'ok':
            rep.oracle_fail('n-ary nodes with many operands: %s' % b.impl[i], b, [i])


def used_roundtrip(rep, exprs, rng):
    """results obtained from expressions that were printed and hashed before (memoised hashes / printed forms carried
    into rebuilt nodes show here): equal to, hashing like, printing like the results from untouched copies"""
    b = Batch()
    idx = []
    for e in exprs:
        ids = sx.var_ids(e) or [2]
        idx.append(b.add('USEDRT %d %s' % (rng.choice(ids), sx.to_sx(e))))
    for e in gen.rule_patterns(rng, [2, 3], per_pattern=1):
        idx.append(b.add('USEDRT 2 %s' % sx.to_sx(gen.in_context(rng, e, [2, 3]))))
    b.run(model=False)
    for i in idx:
        rep.stats['used_roundtrip_' + b.impl[i].split(':')[0].split(' ')[0]] += 1
        if b.impl[i].startswith(('bad', 'ERROR')):
            rep.oracle_fail('an expression that was printed and hashed before being differentiated: %s' % b.impl[i], b, [i])


# ------------------------------------------------------------------ C13
def near_special_bases(rng, e):
    """replace bases by values next to e, 2, 10 (a tolerant comparison with the natural base must show)"""
    near = [math.nextafter(E, 3.0), math.nextafter(E, 2.0), 2.718281828, 2.718281828459045 * (1 + 1e-10), E,
            math.nextafter(2.0, 3.0), 2.0000000001, 10.000000001, math.nextafter(10.0, 11.0), 0.5000000001]

    def go(x):
        if x[0] in ('C', 'V'):
            return x
        y = sx.with_children(x, [go(c) for c in sx.children(x)])
        if y[0] in sx.BPARAM and rng.random() < 0.7:
            return (y[0], y[1], rng.choice(near))
        return y
    return go(e)


def check_C13(ctx):
    rng, tier = ctx.rng, ctx.tier
    rep = Report('C13')
    rep.rule = ('repr and str of random trees over all 15 constructors and parameter grid, of points, and of the four '
                'derivative objects, tokenised and compared with the model\'s show; eval(repr(e)) == e with the public names '
                'in scope; one-place mutations must print differently; 2000+ random doubles through repr/float; '
                'distinct = distinct object')
    n = sizes(tier, 450, 10000)
    b = Batch()
    recs = []
    for k in range(n):
        e = gen.rexpr(rng, rng.randint(1, 12), [2, 3, 4])
        if rng.random() < 0.3:
            e = ('C', rng.choice([rng.uniform(-1e6, 1e6), rng.random() * 1e-7, 1e22, 1.5e300, -0.0, 1e16, 123456789012345678, -7]))
        if rng.random() < 0.35:
            e = near_special_bases(rng, e)
        es = sx.to_sx(e)
        f = mutate_one(rng, e)
        idx = {'SHOW': b.add('SHOW %s' % es), 'PARSEBACK': b.add('PARSEBACK %s' % es),
               'INJ': b.add('REPRINJ %s %s' % (es, sx.to_sx(f)))}
        r = rng.random()
        p = gen.rpoint(rng, sx.var_ids(e) or [2], extra=rng.randint(0, 1))
        if rng.random() < 0.4:
            # coordinates that Python prints in exponent notation, huge and tiny magnitudes, negative zero
            p = [(k_, rng.choice([1e-10, 3e-20, 1e+20, 2.5e+30, 1e+200, 1e-07, 1e16, 1e22, -0.0, 5e-324, 1.5e-300,
                                  123456789012345680.0, -1e+100, 7e+70])) for k_, _ in p]
        if r < 0.25:
            idx['X'] = b.add('SHOWPARTIAL %d %s' % (rng.choice([2, 3, 9]), es))
        elif r < 0.4:
            idx['X'] = b.add('SHOWDIFF %s' % es)
        elif r < 0.55 and len(sx.var_ids(e)) <= 1:
            idx['X'] = b.add('SHOWDERIV %s' % es)
        elif r < 0.7:
            idx['X'] = b.add('SHOWLOC %s %s' % (sx.point_sx(p), es))
        else:
            idx['X'] = b.add('SHOWPOINT %s' % sx.point_sx(p))
        recs.append((e, idx))
    nums = b.add('NUMREPR %d %d' % (ctx.seed, sizes(tier, 2000, 50000)))
    b.run()
    # the same objects read back: eval(repr(obj)) == obj (implementation only)
    b3 = Batch()
    rt = [(idx, b3.add('RTOBJ ' + b.lines[idx['X']])) for e, idx in recs]
    b3.run(model=False)
    for idx, k in rt:
        rep.stats['objects_read_back'] += 1
        if b3.impl[k].startswith('false') or b3.impl[k].startswith('ERROR'):
            rep.oracle_fail('eval(repr(obj)) != obj for a point / derivative object: %s' % b3.impl[k], b3, [k])
    for e, idx in recs:
        rep.cases += 1
        rep.distinct.add(sx.to_sx(e))
        for k in ('SHOW', 'PARSEBACK', 'X'):
            rep.corr(b, idx[k], k)
        rep.sample(b.lines[idx['SHOW']] + '  =>  ' + b.impl[idx['SHOW']][:200])
        if b.impl[idx['PARSEBACK']] != 'true':
            rep.oracle_fail('eval(repr(e)) != e', b, [idx['PARSEBACK'], idx['SHOW']])
        if b.impl[idx['INJ']] not in ('ok', 'same'):
            rep.oracle_fail('two unequal expressions print identically: %s' % b.impl[idx['INJ']], b, [idx['INJ']])
    if b.impl[nums] != 'ok':
        rep.oracle_fail('repr of a finite number does not read back equal: %s' % b.impl[nums], b, [nums])
    used_roundtrip(rep, [e for e, _idx in recs[:sizes(tier, 150, 3000)]], rng)
    wide_equalities(rep, sizes(tier, [9, 12, 17, 23, 40], [9, 10, 11, 12, 15, 16, 17, 23, 24, 25, 33, 40, 100, 257]))
    b4 = Batch()
    nrt = b4.add('NAMERT')
    b4.run(model=False)
    if b4.impl[nrt] != 'ok':
        rep.oracle_fail('printed names: %s' % b4.impl[nrt], b4, [nrt])
    rep.stats['number_literals_round_tripped'] = sizes(tier, 2000, 50000)
    return rep


# ------------------------------------------------------------------ C14
NAMES = ['x', 'X1', '_', '_a', '9', '9lives', 'x_y_z', 'été', 'Ωmega', '变量', 'x٣', 'ｘ', 'a' * 200, 'whatever', 'self', 'point',
         'class', 'None', 'lambda', 'n', 'base', 'args', 'kwargs', 'x́', 'ǅ', 'ª', '²']
BAD_NAMES = ['', ' ', 'a b', 'a-b', 'x\n', '\nx', 'x.y', 'x+', 'é-', '"', "a'b", 'x\t', 'x\x00', '-', '(x)', 'x,y', 'x=1']


def check_C14(ctx):
    rng, tier = ctx.rng, ctx.tier
    rep = Report('C14')
    rep.rule = ('random trees x every subset of their variables supplied x extra coordinates x all entry points (at, Partial '
                'early/late, LocatedDifferential, Differential early/late) with the differentiation variable occurring or not, '
                'supplied or not; bare numbers for 0-, 1-, 2-variable expressions; %d legal and %d illegal names through '
                'Variable/Point/at; distinct = (expression, point, variable)') % (len(NAMES), len(BAD_NAMES))
    n = sizes(tier, 300, 6000)
    b = Batch()
    recs = []
    for _ in range(n):
        e = gen.rexpr(rng, rng.randint(1, 10), [2, 3, 4][:rng.randint(0, 3)], p_const=0.2)
        ids = sx.var_ids(e)
        es = sx.to_sx(e)
        sub = [i for i in ids if rng.random() < 0.65]
        full = rng.random() < 0.5
        if full:
            sub = list(ids)
        extra = [k for k in (5, 6) if rng.random() < 0.3]
        p = [(i, rng.choice([0.5, 1, 2, 3, 1.5])) for i in sub + extra]
        rng.shuffle(p)
        v = rng.choice(ids + [7] if ids else [7, 2])
        ps = sx.point_sx(p)
        idx = {r: b.add(l) for r, l in (
            ('EVAL', 'EVAL %s %s' % (ps, es)), ('FWD', 'FWD %d %s %s' % (v, ps, es)), ('REV', 'REV %s %s' % (ps, es)),
            ('DIFFAT', 'DIFFAT %s %s' % (ps, es)), ('PEARLY', 'PEARLY %d %s %s' % (v, ps, es)),
            ('DEARLYAT', 'DEARLYAT %d %s %s' % (v, ps, es)), ('DEARLYALL', 'DEARLYALL %s %s' % (ps, es)),
            ('ATNUM', 'ATNUM %s %s' % (sx.num_sx(1.5), es)), ('DERIVNUM', 'DERIVNUM %s %s' % (sx.num_sx(1.5), es)),
            ('DERIV', 'DERIV %s %s' % (ps, es)), ('VARS', 'VARS %s' % es))}
        recs.append((e, p, v, set(sub) >= set(ids), idx))
    names = b.add('NAMES')
    b.run()
    for e, p, v, supplied, idx in recs:
        rep.cases += 1
        rep.distinct.add((sx.to_sx(e), sx.point_sx(p), v))
        for r, i in idx.items():
            rep.corr(b, i, r)
        rep.sample({'expr': sx.to_sx(e), 'point': sx.point_sx(p), 'var': v, 'supplied': supplied,
                    'at': b.impl[idx['EVAL']], 'partial': b.impl[idx['FWD']]})
        if supplied:
            rep.stats['supplied'] += 1
            for r in ('EVAL', 'FWD', 'REV', 'DIFFAT', 'PEARLY', 'DEARLYAT', 'DEARLYALL', 'DERIV'):
                if kind(b.impl[idx[r]]) == 'COORD':
                    rep.oracle_fail('%s raised CoordinateMissing although every variable of the expression is supplied' % r,
                                    b, [idx[r]])
        else:
            rep.stats['not_supplied'] += 1
            if kind(b.impl[idx['EVAL']]) == 'VAL':
                rep.oracle_fail('at() returned a number although a variable of the expression has no coordinate', b, [idx['EVAL']])
        nv = len(sx.var_ids(e))
        for r in ('ATNUM', 'DERIVNUM', 'DERIV'):
            acc = kind(b.impl[idx[r]]) != 'REJECT'
            if acc != (nv <= 1):
                rep.oracle_fail('%s %s a bare number for an expression with %d variables' % (
                    r, 'accepted' if acc else 'rejected', nv), b, [idx[r]])
    if b.impl[names] != 'ok':
        rep.oracle_fail('variable names: %s' % b.impl[names], b, [names])
    be_ = Batch()
    err = be_.add('ERRCLASSES')
    be_.run(model=False)
    if be_.impl[err] != 'ok':
        rep.oracle_fail('exception classes: %s' % be_.impl[err], be_, [err])
    # the same on USED objects: a call that stopped half-way with CoordinateMissing (or DomainError), then a
    # call at a point with other coordinates; every answer against the pure model
    history_correspondence(ctx, rep, sizes(tier, 300, 5000), ('at', 'located', 'pat', 'dat', 'dfat', 'dfcompat'),
                           maxlen=sizes(tier, 12, 30), what='sequence', partial_points=True)
    # bare numbers given to sub-expression OBJECTS that also sit inside larger expressions (the variable-name
    # sets of shared objects must not be touched by building those)
    import props
    props.shared_evaluation(ctx, rep)
    return rep


# ------------------------------------------------------------------ C15 / C16
def arg_stream(rng, n):
    out = ['i1', 'i2', 'i3', 'i0', 'i-1', 'i-5', 'i1000', 'str', 'none', 'expr',
           sx.num_sx(1.0), sx.num_sx(2.0), sx.num_sx(0.0), sx.num_sx(-0.0), sx.num_sx(-3.0), sx.num_sx(2.5), sx.num_sx(0.5),
           sx.num_sx(1e300), sx.num_sx(1e16), sx.num_sx(4503599627370497.0), sx.num_sx(-1e-300), sx.num_sx(5e-324),
           sx.num_sx(float('inf')), sx.num_sx(float('-inf')), sx.num_sx(float('nan')), sx.num_sx(E), 'i1', sx.num_sx(7.0)]
    # floats next to an integer (a tolerant integrality test would round them): one ulp, 1e-13 .. 1e-9 relative,
    # and large magnitudes where a relative tolerance swallows a fractional part
    near = [3.0000000000000004, 0.29 * 100, 0.1 * 3 * 10, math.nextafter(2.0, 3.0), math.nextafter(2.0, 1.0), 7.0 + 1e-13,
            2.0000000001, 1.9999999999, 0.3 / 0.1, 1.0000000000000002, 0.9999999999999999, 2000000000.5, 1e10 + 0.75,
            123456789.25, 4.000000001, 5 - 1e-12, 1e-12, 1 + 1e-9, 33.00000000001]
    out += [sx.num_sx(x) for x in near]
    # integers and integral floats beyond 2^52 / 2^53 / 2^63 (a detour through float loses their low bits and their parity)
    out += ['i%d' % z for z in (2 ** 52 + 1, 2 ** 53 + 1, 2 ** 53 + 3, 10 ** 23, 2 ** 63 + 1, 2 ** 64 + 5, 3 ** 40)]
    out += [sx.num_sx(x) for x in (4503599627370499.0, 9007199254740994.0, 1e23, 2.0 ** 63, 6.3e18)]
    for _ in range(n):
        r = rng.random()
        if r < 0.12:
            k = rng.choice([1, 2, 3, 4, 5, 8, 12, 40, 1000, 10 ** 6, 10 ** 9])
            d = rng.choice([1e-15, 1e-13, 1e-11, 1e-10, 3e-10, 1e-9, 1e-7]) * k * rng.choice([1, -1])
            x = k + d
            if x != k:
                out.append(sx.num_sx(x))
                continue
        if r < 0.35:
            out.append('i%d' % rng.randint(-6, 40))
        elif r < 0.6:
            out.append(sx.num_sx(float(rng.randint(-6, 40))))
        elif r < 0.9:
            out.append(sx.num_sx(round(rng.uniform(-5, 9), rng.randint(0, 3))))
        else:
            out.append(sx.num_sx(rng.uniform(-1e3, 1e3)))
    return out


def _rej(s_):
    return kind(s_) in ('REJECT', 'RAISES')


def check_C15(ctx):
    rng, tier = ctx.rng, ctx.tier
    rep = Report('C15')
    rep.rule = ('-a, a+b, a-b, a*b, a/b, a**b on random pairs against the named constructors (==, repr, no simplification); '
                'a**x over ints of both signs, 0, integral / non-integral / huge floats, inf, nan, bool, str, None, list; '
                'foreign operands on both sides of every operator; distinct = distinct operand tuple')
    b = Batch()
    recs = []
    for a in arg_stream(rng, sizes(tier, 150, 4000)):
        recs.append((a, b.add('OPPOW %s' % a), b.add('OPBIN %s' % a)))
    pairs = []
    for _ in range(sizes(tier, 200, 5000)):
        x = gen.rexpr(rng, rng.randint(1, 8), [2, 3])
        y = gen.rexpr(rng, rng.randint(1, 8), [2, 3])
        pairs.append((x, y, b.add('OPS %s %s' % (sx.to_sx(x), sx.to_sx(y)))))
    b.run()
    for a, i, j in recs:
        rep.cases += 1
        rep.distinct.add(a)
        rep.corr(b, i, 'OPPOW')
        rep.corr(b, j, 'OPBIN')
        for k_ in (i, j):
            if b.status[k_] == 'disagree' and _rej(b.impl[k_]) != _rej(b.model[k_]):
                # the model accepts exactly the documented operands (C15_pow_integer, C15_rejects)
                rep.oracle_fail('an operator %s an operand that the documented range %s: %s' % (
                    'accepted' if _rej(b.model[k_]) else 'rejected',
                    'excludes' if _rej(b.model[k_]) else 'includes', b.impl[k_][:120]), b, [k_])
        rep.stats['pow_' + kind(b.impl[i])] += 1
        rep.sample(b.lines[i] + '  =>  ' + b.impl[i])
    for x, y, i in pairs:
        rep.cases += 1
        rep.distinct.add((sx.to_sx(x), sx.to_sx(y)))
        if b.impl[i] != 'ok':
            rep.oracle_fail('operator result differs from the named constructor: %s' % b.impl[i], b, [i])
    import props
    props.augmented_assignments(rep, rng, sizes(tier, 60, 600))
    bo = Batch()
    # (CPython 3.12 cannot hash or print a chain of more than about 240 nested nodes - its C recursion limit, which
    # sys.setrecursionlimit does not move; longer chains are outside what any check can ask of the library)
    oc = [bo.add('OPCHAIN %d' % k) for k in sizes(tier, [12, 160], [12, 101, 130, 160, 200])]
    bo.run(model=False)
    for i in oc:
        if bo.impl[i] != 'ok':
            rep.oracle_fail('long operator chains: %s' % bo.impl[i], bo, [i])
    return rep


def check_C16(ctx):
    rng, tier = ctx.rng, ctx.tier
    rep = Report('C16')
    rep.rule = ('every constructor with arguments of every kind: n over ints of both signs, 0, integral and non-integral floats, '
                'inf, nan, str, None, expressions; base likewise incl. 0, 1, negatives; operands over expressions, numbers, '
                'strings, None; names; acceptance and the reported parameters (n, base, name, value) against the model; '
                'distinct = distinct (constructor, arguments)')
    b = Batch()
    recs = []
    args = arg_stream(rng, sizes(tier, 120, 3000))
    for a in args:
        for k in ('pow', 'root'):
            for inner in ('expr', 'none', 'i3', 'str'):
                if inner != 'expr' and rng.random() < 0.7:
                    continue
                recs.append((('MKNTH', k, inner, a), b.add('MKNTH %s %s %s' % (k, inner, a))))
        for k in ('exp', 'log'):
            for inner in ('expr', 'none', 'i3'):
                if inner != 'expr' and rng.random() < 0.7:
                    continue
                recs.append((('MKBASE', k, inner, a), b.add('MKBASE %s %s %s' % (k, inner, a))))
    for a in ('str', 'badstr', 'none', 'expr', 'i3', sx.num_sx(1.5)):
        recs.append((('MKVAR', a), b.add('MKVAR %s' % a)))
    ops = b.add('CTOROPS')
    names = b.add('NAMES')
    b.run()
    for key, i in recs:
        rep.cases += 1
        rep.distinct.add(key)
        st = b.status[i]
        # non-finite parameters are outside the property (finite numeric content)
        if 'inf' in b.lines[i] or any(t in b.lines[i] for t in ('f7ff', 'ffff', 'f7ff8', 'fff0')):
            rep.stats['nonfinite_parameter'] += 1
            continue
        rep.corr(b, i, key[0])
        if b.status[i] == 'disagree' and _rej(b.impl[i]) != _rej(b.model[i]):
            # the model accepts exactly the documented ranges (C16_ctor_nth, C16_ctor_base, C16_ctor_operands)
            rep.oracle_fail('a constructor %s an argument that the documented range %s: %s' % (
                'accepted' if _rej(b.model[i]) else 'rejected',
                'excludes' if _rej(b.model[i]) else 'includes', b.impl[i][:120]), b, [i])
        elif b.status[i] == 'disagree' and b.impl[i].startswith('OK ') and b.model[i].startswith('OK '):
            # accepted by both, but the object reports other parameters than it was given (n stored as the integer
            # it denotes, base / name / operands as given: C16_ctor_nth, C16_ctor_base)
            rep.oracle_fail('the constructed object reports %s but the documented result is %s' % (
                b.impl[i][3:120], b.model[i][3:120]), b, [i])
        rep.stats['%s_%s' % (key[0], kind(b.impl[i]))] += 1
        rep.sample(b.lines[i] + '  =>  ' + b.impl[i])
        _ = st
    if b.impl[ops] != 'ok':
        rep.oracle_fail('operand validation: %s' % b.impl[ops], b, [ops])
    if b.impl[names] != 'ok':
        rep.oracle_fail('variable names: %s' % b.impl[names], b, [names])
    return rep


# ------------------------------------------------------------------ C18
def check_C18(ctx):
    rng, tier = ctx.rng, ctx.tier
    rep = Report('C18')
    seeds = sizes(tier, [0, 1, 2, 17, 4242], [0, 1, 2, 17, 4242, 99991, 31337, 'random'])
    rep.rule = ('a seeded battery of every route (values, dictionaries, raw and normalised symbolic derivatives, steps) on '
                'trees over 2-5 variable names, run in separate interpreter processes under PYTHONHASHSEED in %s, with the '
                'coordinates of each point also written in permuted order and variables pre-created in permuted order; all '
                'outputs must be identical across processes and to the seed-free model; distinct = distinct case line') % (seeds,)
    n = sizes(tier, 160, 2500)
    lines = []
    for _ in range(n):
        pool = rng.sample([2, 3, 4, 5, 6], rng.randint(2, 5))
        if rng.random() < 0.15:
            # a pair of whole expressions that are == but spelled differently, or unequal with equal hashes, asked for every
            # symbolic answer one after the other, and nothing else about them anywhere in the batch: in this process the first
            # is met first, in the reverse-order process the second
            pe = gen.rexpr(rng, rng.randint(3, 9), pool, p_const=0.45)
            pt_ = gen.respell(pe) if rng.random() < 0.6 else gen.hash_collision_variant(pe)
            if pt_ is not None and sx.to_sx(pt_) != sx.to_sx(pe) and sx.var_ids(pe):
                for w in sx.var_ids(pe)[:2]:
                    for ee in (pe, pt_):
                        lines += ['PEXPR %d %s' % (w, sx.to_sx(ee)), 'DEXPR %d %s' % (w, sx.to_sx(ee)), 'NORM %s' % sx.to_sx(ee)]
                rep.stats['equal_or_colliding_pairs'] += 1
        if len(pool) >= 3 and rng.random() < 0.25:
            # two variables next to sub-trees that are == but spelled differently (1 against 1.0)
            e = gen.twins(rng, pool, rng.randint(2, 6))
            rep.stats['twin_expressions'] += 1
            lines += ['DEXPR %d %s' % (w, sx.to_sx(e)) for w in sx.var_ids(e)]
        elif rng.random() < 0.2:
            # repeated operands and contributions whose floating-point sum is order-sensitive
            e = gen.order_sensitive_sum(rng, pool)
            rep.stats['order_sensitive_sums'] += 1
        else:
            e = gen.rexpr(rng, rng.randint(3, 14), pool, p_const=0.15)
        ids = sx.var_ids(e)
        if not ids:
            continue
        es = sx.to_sx(e)
        p = gen.positive_point(rng, ids) if rng.random() < 0.6 else gen.rpoint(rng, ids)
        perms = [p]
        q = list(p)
        rng.shuffle(q)
        perms.append(q)
        v = rng.choice(ids)
        for pp in perms:
            ps = sx.point_sx(pp)
            lines += ['EVAL %s %s' % (ps, es), 'FWD %d %s %s' % (v, ps, es), 'REV %s %s' % (ps, es),
                      'PEARLY %d %s %s' % (v, ps, es), 'DEARLYALL %s %s' % (ps, es), 'DEARLYAT %d %s %s' % (v, ps, es)]
        lines += ['SYNREV %s' % es, 'PEXPR %d %s' % (v, es), 'DEXPR %d %s' % (v, es), 'NORM %s' % es, 'STEP %s' % es,
                  'VARS %s' % es, 'SHOW %s' % es]
        # the differentiation variable given as a Variable object instead of its name: the same question
        ps0 = sx.point_sx(perms[0])
        lines += ['VO FWD %d %s %s' % (v, ps0, es), 'VO PEARLY %d %s %s' % (v, ps0, es), 'VO DEARLYAT %d %s %s' % (v, ps0, es),
                  'VO PEXPR %d %s' % (v, es), 'VO DEXPR %d %s' % (v, es)]
        # failing calls: a coordinate missing and/or a point outside the domain; WHICH error surfaces must not
        # depend on the order in which the variable-name set is visited
        q = [(k, rng.choice([-1, 0, -0.5, 2])) for k in ids]
        rng.shuffle(q)
        if len(q) > 1 and rng.random() < 0.7:
            q.pop()
            if len(q) > 1 and rng.random() < 0.5:
                q.pop()        # two or more coordinates missing: WHICH one is reported must not depend on a set's order
        qs = sx.point_sx(q)
        lines += ['EVAL %s %s' % (qs, es), 'REV %s %s' % (qs, es), 'DIFFAT %s %s' % (qs, es), 'DEARLYALL %s %s' % (qs, es),
                  'DEARLYAT %d %s %s' % (v, qs, es), 'PEARLY %d %s %s' % (v, qs, es), 'FWD %d %s %s' % (v, qs, es)]
        # the TEXT of the exception too (which coordinate is reported missing, which constraint failed) must not
        # depend on the order in which a set is visited: compared across processes only
        lines += ['MSG EVAL %s %s' % (qs, es), 'MSG REV %s %s' % (qs, es), 'MSG DIFFAT %s %s' % (qs, es),
                  'MSG DEARLYALL %s %s' % (qs, es), 'MSG FWD %d %s %s' % (v, qs, es),
                  'MSG DERIV %s %s' % (qs, es), 'MSG ATNUM %s %s' % (sx.num_sx(1.5), es)]   # refusals of multi-variable expressions
        if rng.random() < 0.3:
            # the same point with zeros of either sign, and with integers spelled either way
            z0 = [(k, 0.0) for k in ids]
            z1 = [(k, -0.0) for k in ids]
            i0 = [(k, 2) for k in ids]
            i1 = [(k, 2.0) for k in ids]
            for pp in (z1, z0, i0, i1):
                lines += ['EVAL %s %s' % (sx.point_sx(pp), es), 'REV %s %s' % (sx.point_sx(pp), es)]
        lines.append('LOCHASH %s %s %s' % (sx.point_sx(perms[0]), sx.point_sx(perms[1]), es))
        if len(ids) == 1:
            lines += ['ATNUM %s %s' % (sx.num_sx(1.5), es), 'DERIVNUM %s %s' % (sx.num_sx(1.5), es)]
    # probes at the two ends of the batch: the same function at arguments that are == but not identical (a zero of
    # either sign, an integer of either spelling); together with the reverse-order process this exposes a memo keyed by ==
    heads_ = [lambda u: ('Sin', u), lambda u: ('Cos', u), lambda u: ('Exp', u, 2), lambda u: ('Exp', u, E), lambda u: ('Log', u, 2),
              lambda u: ('Recip', u), lambda u: ('NthPow', u, 3), lambda u: ('NthRoot', u, 3), lambda u: ('Neg', u),
              lambda u: ('Mul', [u, ('C', 3)]), lambda u: ('Power', ('C', 2), u), lambda u: ('Sin', ('Neg', u))]
    first, last = [], []
    for hd in heads_:
        es_ = sx.to_sx(hd(('V', 2)))
        for a_, b_ in ((-0.0, 0.0), (2, 2.0), (-1, -1.0), (0, -0.0)):
            first += ['EVAL %s %s' % (sx.point_sx([(2, a_)]), es_), 'REV %s %s' % (sx.point_sx([(2, a_)]), es_)]
            last += ['EVAL %s %s' % (sx.point_sx([(2, b_)]), es_), 'REV %s %s' % (sx.point_sx([(2, b_)]), es_)]
    lines = first + lines + last
    model = core.run_model(lines)
    runs = {}
    for s in seeds:
        env_extra = {'VERIF_PRECREATE': str(rng.randint(1, 10 ** 6))}
        old = dict(os.environ)
        os.environ.update(env_extra)
        try:
            runs[s] = core.run_impl(lines, hashseed=s)
        finally:
            os.environ.clear()
            os.environ.update(old)
    base = runs[seeds[0]]
    # the same questions asked in the opposite ORDER in a further process: an answer must not depend on what the
    # process computed before (a module-level memo keyed by ==, which conflates 0.0 with -0.0 and 2 with 2.0, would show)
    rev_out = list(reversed(core.run_impl(list(reversed(lines)), hashseed=seeds[0])))
    for i, l in enumerate(lines):
        if rev_out[i] != base[i] and not base[i].startswith('ERROR timeout') and not rev_out[i].startswith('ERROR timeout'):
            rep.oracle_failures.append({'what': 'outcome depends on the order in which a process is asked: %s when asked in order, '
                                                '%s when asked in reverse order' % (base[i][:120], rev_out[i][:120]),
                                        'lines': [(l, base[i], model[i])], 'kf': None})
    rep.stats['processes_reverse_order'] = 1
    where = {}
    for i, l in enumerate(lines):
        where.setdefault(l, i)
    for i, l in enumerate(lines):
        if l.startswith('VO ') and l[3:] in where:
            j = where[l[3:]]
            rep.stats['variable_spellings_compared'] += 1
            if base[i] != base[j] and not base[i].startswith('ERROR timeout') and not base[j].startswith('ERROR timeout'):
                rep.oracle_failures.append({'what': 'outcome depends on whether the variable is given by name or as a Variable object: '
                                                    '%s by name, %s as an object' % (base[j][:120], base[i][:120]),
                                            'lines': [(l, base[i], model[i]), (lines[j], base[j], model[j])], 'kf': None})
    rep.cases = len(lines)
    rep.distinct = set(lines)
    digests = {str(s): hashlib.sha256('\n'.join(r).encode()).hexdigest()[:16] for s, r in runs.items()}
    rep.stats['processes'] = len(seeds)
    for i, l in enumerate(lines):
        if i < 6:
            rep.sample(l + '  =>  ' + base[i])
        outs = {str(s): runs[s][i] for s in seeds}
        if len(set(outs.values())) > 1:
            rep.oracle_failures.append({'what': 'outcome depends on the hash seed / process: %s' % outs,
                                        'lines': [(l, base[i], model[i])], 'kf': None,
                                        'extra': {'hashseeds': [str(s) for s in seeds]}})
        if l.startswith('MSG '):
            rep.stats['exception_texts_compared'] += 1
            continue
        if l.startswith('LOCHASH'):
            if base[i] != 'ok':
                rep.oracle_failures.append({'what': 'set/dict membership depends on how the point was written: %s' % base[i],
                                            'lines': [(l, base[i], model[i])], 'kf': None})
            continue
        st = core.classify(base[i], model[i])
        rep.stats['corr_' + st] += 1
        if st in ('disagree', 'error'):
            rep.disagreements.append({'line': l, 'impl': base[i], 'model': model[i], 'note': l.split()[0], 'failing_input': False})
    # permuted coordinate order must not change anything: lines come in pairs (p, permuted p)
    byexpr = collections.defaultdict(list)
    for i, l in enumerate(lines):
        t = l.split(' ')
        if t[0] in ('EVAL', 'FWD', 'REV', 'PEARLY', 'DEARLYALL', 'DEARLYAT'):
            coords = tuple(sorted(l[l.index('[') + 1:l.index(']')].split()))
            key = (t[0], coords, l[l.index(']') + 1:], t[1] if t[0] in ('FWD', 'PEARLY', 'DEARLYAT') else '')
            byexpr[key].append(i)
    for key, idxs in byexpr.items():
        outs = set(base[i] for i in idxs)
        if len(outs) > 1:
            rep.oracle_failures.append({'what': 'outcome depends on the order in which the coordinates were written',
                                        'lines': [(lines[i], base[i], model[i]) for i in idxs], 'kf': None})
    rep.digests = digests
    rep.stats.update({'digest_' + k: 1 for k in set(digests.values())})
    # "the same expression and point always produce the same outcome": also on objects that were used before
    history_correspondence(ctx, rep, sizes(tier, 120, 2500),
                           ('at', 'located', 'pat', 'dat', 'dfat', 'dfcompat', 'pexpr', 'dexpr', 'dfcompexpr', 'norm'),
                           maxlen=sizes(tier, 10, 24), what='sequence', disturb=(), exact=True, reuse=sizes(tier, 90, 1500))
    return rep


# ------------------------------------------------------------------ known findings: recorded witnesses
def reexecute_finding(f):
    key = f['key']
    x = ('V', 2)
    if key == 'KF-ROOT':
        e = ('NthRoot', ('NthPow', x, 2), 2)
        lines = ['EVAL [2=i-3] %s' % sx.to_sx(e), 'NORM %s' % sx.to_sx(e), 'PEARLY 2 [2=i-3] %s' % sx.to_sx(e),
                 'FWD 2 [2=i-3] %s' % sx.to_sx(e)]
        out = core.run_impl(lines)
        if out[1] == '(V 2)' and out[2] != out[3]:
            return 'NthRoot(NthPower(x,2),2) normalises to x (value %s at x=-3); early derivative %s vs late %s' % (out[0], out[2], out[3])
        return None
    if key == 'KF-ORDER':
        e = ('NthPow', ('Sin', x), 2)
        out = core.run_impl(['PEXPR 2 %s' % sx.to_sx(e), 'DEXPR 2 %s' % sx.to_sx(e)])
        if out[0] != out[1]:
            return 'Partial.as_expression() = %s but Differential(early).component.as_expression() = %s' % (out[0], out[1])
        return None
    if key == 'KF-BUDGET':
        return budget_witness()
    return None


def budget_history(L, nt=24):
    pool = ['(V 2)', '(V 3)']
    u = '(Add ' + ' '.join('(Sin (Mul (V 2) (C i%d)))' % k for k in range(2, 2 + nt)) + ')'
    pool.append(u)
    e = '(REF 2)'
    for _ in range(L):
        e = '(Minus %s (V 3))' % e
    pool.append(e)
    return {'pool': pool, 'points': ['[2=i1 3=i2]'],
            'ops': [['mkpartial', 0, 2, 2, 0], ['pexpr', 0], ['mkpartial', 1, 3, 2, 0], ['pexpr', 1]]}


def budget_witness(Ls=(108,)):
    """u = sum of 24 sines (shared object); e = Minus chain of length L over u.
    Partial(u, x).as_expression() first, then Partial(e, x).as_expression(): the second call
    finishes inside the 1000-step budget because sub-objects of u were flagged by the first,
    while on never-used copies it runs out of budget and returns a partially reduced form."""
    rs = run_histories([budget_history(L) for L in Ls])
    for L, r in zip(Ls, rs):
        for f in r.get('fresh', []):
            if f['fresh'].startswith('WARN') != f['used'].startswith('WARN'):
                return ('Partial(e, x).as_expression() for a Minus chain of length %d over a shared 24-term sum u: after '
                        'Partial(u, x).as_expression() it returns %s... ; on never-used copies it returns %s...'
                        % (L, f['used'][:36], f['fresh'][:36]))
    return None
