"""Build, proof obligations, static tie, verdicts and evidence for ./check."""
import fcntl
import json
import os
import re
import subprocess
import sys
import time

VERIF = os.path.dirname(os.path.dirname(os.path.abspath(__file__)))
COQ = os.path.join(VERIF, 'coq')
OCAML = os.path.join(VERIF, 'ocaml')
WORK = os.path.join(VERIF, '_work')
REPLAYS = os.path.join(VERIF, 'replays')
EVIDENCE = os.path.join(VERIF, 'evidence')

ALLOWED_AXIOMS = {
    'ClassicalDedekindReals.sig_forall_dec',
    'ClassicalDedekindReals.sig_not_dec',
    'FunctionalExtensionality.functional_extensionality_dep',
    'Classical_Prop.classic',
}

FORBIDDEN = re.compile(r'\b(Admitted|admit|Axiom|Axioms|Parameter|Parameters|Conjecture|Conjectures)\b'
                       r'|Unset\s+Guard|Unset\s+Positivity|Unset\s+Universe|bypass_check|type-in-type'
                       r'|impredicative-set|Admit\s+Obligations')

# property -> (Properties file, [tie files], human description of the theorems)
TIE_FOR = {
    'C01': ['TieClasses', 'TieMath', 'TieFormulas', 'TieCacheBody', 'TieRoute', 'TieToplevel', 'TieCtor'], 'C02': ['TieClasses', 'TieMath', 'TieFormulas', 'TieCacheBody', 'TieToplevel', 'TieCtor', 'TieRoute'],
    'C03': ['TieClasses', 'TieMath', 'TieFormulas', 'TieOrch', 'TieUtil', 'TieToplevel', 'TieCtor', 'TieRoute', 'TieCacheBody'], 'C04': ['TieClasses', 'TieMath', 'TieFormulas', 'TieOrch', 'TieAcc', 'TieUtil', 'TieEntry', 'TieToplevel', 'TieCtor', 'TieRoute', 'TieCacheBody'],
    'C05': ['TieClasses', 'TieReducers', 'TieRules', 'TieSynth', 'TieSynthAll', 'TieSymRev', 'TieAcc', 'TieNorm', 'TieRoute', 'TieUtil', 'TieEntry', 'TieToplevel', 'TieCtor', 'TieRebuild', 'TieStep', 'TieMath', 'TieFormulas', 'TieCacheBody'],
    'C06': ['TieClasses', 'TieReducers', 'TieMath', 'TieFormulas', 'TieOrch', 'TieRules', 'TieSynth', 'TieSynthAll', 'TieSymRev', 'TieAcc', 'TieNorm', 'TieRoute', 'TieUtil', 'TieObj', 'TieEntry', 'TieToplevel', 'TieCtor', 'TieRebuild', 'TieStep', 'TieCacheBody'],
    'C07': ['TieClasses', 'TieReducers', 'TieMath', 'TieFormulas', 'TieOrch', 'TieRules', 'TieRoute', 'TieToplevel', 'TieCtor', 'TieUtil', 'TieAcc', 'TieEntry', 'TieCacheBody', 'TieSynth', 'TieSynthAll', 'TieSymRev', 'TieNorm', 'TieStep', 'TieRebuild'],
    'C08': ['TieReducers', 'TieRules', 'TieNorm', 'TieStep', 'TieUtil', 'TieRebuild', 'TieEntry', 'TieToplevel', 'TieCtor', 'TieMath', 'TieFormulas', 'TieCacheBody', 'TieRoute'],
    'C09': ['TieCache', 'TieBound', 'TieCacheBody', 'TieStep', 'TieToplevel', 'TieRoute', 'TieEntry', 'TieRebuild', 'TieAcc', 'TieUtil'], 'C10': ['TieWrites', 'TieUtil', 'TieRebuild', 'TieToplevel', 'TieStep', 'TieRoute', 'TieAcc', 'TieCtor', 'TieCacheBody'], 'C11': ['TieReducers', 'TieBound', 'TieRules', 'TieStep', 'TieUtil', 'TieRebuild', 'TieToplevel', 'TieCtor', 'TieMath', 'TieFormulas', 'TieCacheBody', 'TieRoute', 'TieNorm'],
    'C12': ['TieClasses', 'TieObj', 'TieCtor', 'TieToplevel'], 'C13': ['TiePublic', 'TieObj', 'TieCtor', 'TieToplevel'], 'C14': ['TieSets', 'TieRoute', 'TieCtor', 'TieClasses', 'TieToplevel', 'TieCacheBody', 'TieOrch', 'TieEntry'], 'C15': ['TieOperators', 'TieCtor', 'TieToplevel', 'TieObj'],
    'C16': ['TieClasses', 'TieCtor', 'TieRebuild', 'TieToplevel'], 'C17': ['TieClasses', 'TieMath', 'TieCtor', 'TieToplevel', 'TieRoute', 'TieOrch', 'TieCacheBody', 'TieFormulas', 'TieRules', 'TieSynth', 'TieSynthAll', 'TieSymRev', 'TieNorm', 'TieStep', 'TieEntry', 'TieAcc', 'TieUtil', 'TieRebuild', 'TieReducers'], 'C18': ['TieSets', 'TieRoute', 'TieCacheBody', 'TieEntry', 'TieAcc', 'TieToplevel', 'TieOrch', 'TieSymRev', 'TieUtil', 'TieRules', 'TieMath', 'TieFormulas', 'TieSynth', 'TieSynthAll', 'TieNorm', 'TieStep', 'TieObj'],
}


def sh(cmd, cwd=None, timeout=1800, env=None):
    pr = subprocess.run(cmd, cwd=cwd, shell=isinstance(cmd, str), stdout=subprocess.PIPE,
                        stderr=subprocess.STDOUT, timeout=timeout, env=env)
    return pr.returncode, pr.stdout.decode(errors='replace')


class Lock:
    def __init__(self, name):
        os.makedirs(WORK, exist_ok=True)
        self.path = os.path.join(WORK, name)

    def __enter__(self):
        self.f = open(self.path, 'w')
        fcntl.flock(self.f, fcntl.LOCK_EX)
        return self

    def __exit__(self, *a):
        fcntl.flock(self.f, fcntl.LOCK_UN)
        self.f.close()


def grep_gate():
    """no Admitted/admit/Axiom/... anywhere in the development (comments are stripped first)"""
    bad = []
    for root, _d, files in os.walk(COQ):
        for fn in files:
            if not fn.endswith('.v'):
                continue
            path = os.path.join(root, fn)
            text = open(path, errors='replace').read()
            text = strip_comments(text)
            for m in FORBIDDEN.finditer(text):
                line = text.count('\n', 0, m.start()) + 1
                bad.append('%s:%d: %s' % (os.path.relpath(path, VERIF), line, m.group(0)))
    # Variable / Hypothesis outside a Section
    for root, _d, files in os.walk(COQ):
        for fn in files:
            if fn.endswith('.v'):
                path = os.path.join(root, fn)
                depth = 0
                for i, line in enumerate(strip_comments(open(path, errors='replace').read()).split('\n'), 1):
                    s = line.strip()
                    if re.match(r'(Section|Module)\s+\w+\s*\.', s) and not re.match(r'Module\s+\w+\s*:=', s):
                        depth += 1
                    elif re.match(r'End\s+\w+\s*\.', s):
                        depth = max(0, depth - 1)
                    elif depth == 0 and re.match(r'(Variable|Variables|Hypothesis|Hypotheses|Context)\b', s):
                        bad.append('%s:%d: %s outside a section' % (os.path.relpath(path, VERIF), i, s.split()[0]))
    return bad


def strip_comments(text):
    out = []
    depth = 0
    i = 0
    n = len(text)
    in_str = False
    while i < n:
        c = text[i]
        if depth == 0 and c == '"':
            in_str = not in_str
            out.append(c)
            i += 1
            continue
        if not in_str and text.startswith('(*', i):
            depth += 1
            i += 2
            continue
        if not in_str and depth > 0 and text.startswith('*)', i):
            depth -= 1
            i += 2
            continue
        if depth == 0:
            out.append(c)
        elif c == '\n':
            out.append(c)
        i += 1
    return ''.join(out)


def ensure_makefile():
    mk = os.path.join(COQ, 'Makefile')
    cp = os.path.join(COQ, '_CoqProject')
    if not os.path.exists(mk) or os.path.getmtime(mk) < os.path.getmtime(cp):
        rc, out = sh('coq_makefile -f _CoqProject -o Makefile', cwd=COQ)
        if rc != 0:
            raise RuntimeError('coq_makefile failed: ' + out)


def regenerate():
    """rewrite coq/Generated.v from /repo's current sources; returns (ok, message)"""
    rc, out = sh([sys.executable, os.path.join(VERIF, 'harness', 'tie_extract.py')])
    return rc == 0, out.strip()


def make_target(target, jobs=8, timeout=3000):
    rc, out = sh('timeout %d make -j%d %s' % (timeout, jobs, target), cwd=COQ, timeout=timeout + 60)
    return rc == 0, out


def build_driver():
    ml = os.path.join(OCAML, 'model.ml')
    drv = os.path.join(OCAML, 'driver')
    src = os.path.join(OCAML, 'driver.ml')
    if not os.path.exists(ml):
        return False, 'model.ml missing (extraction did not run)'
    if os.path.exists(drv) and os.path.getmtime(drv) >= max(os.path.getmtime(ml), os.path.getmtime(src)):
        return True, 'driver up to date'
    rc, out = sh('ocamlfind ocamlopt -O3 -w -a model.mli model.ml driver.ml -o driver', cwd=OCAML, timeout=600)
    return rc == 0, out


def parse_assumptions(out):
    """Print Assumptions blocks -> list of sets of axiom names (one per theorem), in order"""
    blocks = []
    cur = None
    for line in out.split('\n'):
        if line.startswith('Closed under the global context'):
            blocks.append(set())
            cur = None
        elif line.startswith('Axioms:'):
            cur = set()
            blocks.append(cur)
        elif cur is not None:
            m = re.match(r'^([A-Za-z_][\w.\']*)\s*$', line) or re.match(r'^([A-Za-z_][\w.\']*)\s*:', line)
            if m and not line.startswith(' '):
                cur.add(m.group(1))
            elif line.strip() == '':
                pass
    return blocks


def theorem_names(vfile):
    text = strip_comments(open(vfile).read())
    return re.findall(r'^\s*Theorem\s+(\w+)', text, flags=re.M)


def build_for(prop):
    """Rebuild everything property [prop] needs from the current tree.
    Returns dict: ok, tie_ok, tie_broken (list), obligations, discharged, axioms, messages,
    proof_broken (list), theorems"""
    info = {'ok': True, 'tie_ok': True, 'tie_broken': [], 'obligations': 0, 'discharged': 0,
            'axioms': [], 'messages': [], 'proof_broken': [], 'theorems': [], 'gate': []}
    with Lock('build.lock'):
        ensure_makefile()
        ok, msg = regenerate()
        info['messages'].append(msg)
        if not ok:
            info['tie_ok'] = False
            info['tie_broken'].append('tie_extract (fail-closed): ' + msg)
        # model + extraction + driver
        ok, out = make_target('Extract.vo')
        if not ok:
            info['ok'] = False
            info['messages'].append('model build failed: ' + out[-1500:])
            return info
        ok, out = build_driver()
        if not ok:
            info['ok'] = False
            info['messages'].append('driver build failed: ' + out[-1500:])
            return info
        # static tie
        for tie in TIE_FOR.get(prop, []):
            ok, out = make_target('%s.vo' % tie)
            if not ok:
                info['tie_ok'] = False
                m = re.search(r'File "\./(\S+)", line (\d+)', out)
                where = '%s:%s' % (m.group(1), m.group(2)) if m else tie
                lemma = failing_lemma(os.path.join(COQ, tie + '.v'), int(m.group(2)) if m else 0)
                info['tie_broken'].append('%s (%s, lemma %s)' % (tie, where, lemma))
        # proof obligations of this property
        pfile = os.path.join(COQ, 'Properties', prop + '.v')
        names = theorem_names(pfile)
        info['theorems'] = names
        info['obligations'] = len(names)
        ok, out = make_target('Properties/%s.vo' % prop)
        if ok:
            # re-run coqc on the Properties file alone to capture Print Assumptions
            rc, out2 = sh('timeout 900 coqc -Q . SM Properties/%s.v' % prop, cwd=COQ, timeout=1000)
            if rc != 0:
                ok = False
                out = out2
            else:
                blocks = parse_assumptions(out2)
                info['discharged'] = len(names)
                axioms = set()
                for b in blocks:
                    axioms |= b
                info['axioms'] = sorted(axioms)
                extra = axioms - ALLOWED_AXIOMS
                if extra:
                    info['proof_broken'].append('axioms outside the allowed list: ' + ', '.join(sorted(extra)))
                if len(blocks) < len(names):
                    info['proof_broken'].append('Print Assumptions missing for some theorems (%d < %d)' % (len(blocks), len(names)))
        if not ok:
            m = re.search(r'File "\./(\S+)", line (\d+)', out)
            where = '%s:%s' % (m.group(1), m.group(2)) if m else 'Properties/%s.v' % prop
            info['proof_broken'].append('does not compile: %s | %s' % (where, out[-600:].replace('\n', ' | ')))
        gate = grep_gate()
        info['gate'] = gate
        if gate:
            info['proof_broken'].append('forbidden command: ' + '; '.join(gate[:5]))
    return info


def tie_lemma_counts(prop):
    """number of Qed-closed lemmas/theorems in each tie file of the property (they were compiled on this run)"""
    out = {}
    for tie in TIE_FOR.get(prop, []):
        try:
            text = strip_comments(open(os.path.join(COQ, tie + '.v')).read())
        except OSError:
            continue
        out[tie] = len(re.findall(r'^\s*(Lemma|Theorem|Corollary)\s+\w+', text, flags=re.M))
    return out


def failing_lemma(vfile, line):
    try:
        lines = open(vfile).read().split('\n')
    except OSError:
        return '?'
    for i in range(min(line, len(lines)) - 1, -1, -1):
        m = re.match(r'\s*(Lemma|Theorem|Corollary)\s+(\w+)', lines[i])
        if m:
            return m.group(2)
    return '?'


def coqchk(prop):
    rc, out = sh('timeout 1500 coqchk -silent -o -Q . SM SM.Properties.%s' % prop, cwd=COQ, timeout=1600)
    return rc == 0, out[-3000:]


# ---------- evidence / verdict ----------
TRUSTED_BASE = [
    'Coq 8.16.1 kernel (coqc; full .vo build via coq_makefile; vm_compute only in Tie*.v and closed examples; no native_compute)',
    'axioms: only those printed by Print Assumptions, all declared by the standard library (listed under axioms)',
    'extraction: ExtrOcamlBasic only (bool, option, unit, list, prod, sumbool, sumor; andb/orb inlined); Z/positive/nat stay Coq datatypes',
    'ocaml/driver.ml: FloatOps over native doubles (glibc libm shared with CPython), parser, printer',
    'coq/PyNum.v: transcription of CPython 3.12 int/float coercions and builtin sum',
    'harness/*.py: generators, implementation runner, comparison, oracles; harness/tie_extract.py (ast extractor)',
    'CPython 3.12.1, OCaml 4.13.1, glibc',
]


def write_evidence(prop, tier, seed, level, coverage, assumptions, wall, violations):
    os.makedirs(EVIDENCE, exist_ok=True)
    ev = {
        'property_id': prop, 'tier': tier, 'seed': seed, 'level': level,
        'coverage': coverage, 'assumptions': assumptions, 'wall_s': round(wall, 2),
        'violations': violations,
    }
    path = os.path.join(EVIDENCE, prop + '.json')
    tmp = path + '.tmp'
    with open(tmp, 'w') as f:
        json.dump(ev, f, indent=1, sort_keys=True, default=str)
    os.replace(tmp, path)
    return path


def write_replay(prop, seed, k, payload):
    os.makedirs(REPLAYS, exist_ok=True)
    path = os.path.join(REPLAYS, '%s-%d-%d.json' % (prop, seed, k))
    with open(path, 'w') as f:
        json.dump(payload, f, indent=1, default=str)
    return path


def load_known_findings():
    path = os.path.join(VERIF, 'known_findings.json')
    if not os.path.exists(path):
        return {'findings': [], 'fixed': []}
    return json.load(open(path))
