"""Running cases on the implementation and on the extracted model, and comparing them."""
import os
import subprocess
import math
import re
import concurrent.futures as cf

import sx

VERIF = os.path.dirname(os.path.dirname(os.path.abspath(__file__)))
REPO = os.environ.get('VERIF_REPO', '/repo')
DRIVER = os.path.join(VERIF, 'ocaml', 'driver')
IMPL_PY = os.environ.get('VERIF_IMPL_PYTHON', '/venv/bin/python')
IMPL_RUNNER = os.path.join(VERIF, 'harness', 'impl_runner.py')
HOOK_GUARD = 'SMOOTHMATH_VERIF'
NPROC = int(os.environ.get('VERIF_JOBS', '12'))


def impl_env(hashseed=0):
    env = dict(os.environ)
    env['PYTHONPATH'] = os.path.join(REPO, 'src')
    env['PYTHONHASHSEED'] = str(hashseed)
    env['PYTHONDONTWRITEBYTECODE'] = '1'
    env[HOOK_GUARD] = '1'
    return env


def _run(cmd, lines, env=None, timeout=900):
    data = '\n'.join(lines) + '\n'
    try:
        pr = subprocess.run(cmd, input=data.encode(), stdout=subprocess.PIPE, stderr=subprocess.PIPE,
                            env=env, timeout=timeout)
    except subprocess.TimeoutExpired:
        return ['ERROR timeout after %ds' % timeout] * len(lines)
    out = pr.stdout.decode().split('\n')
    if out and out[-1] == '':
        out.pop()
    if pr.returncode != 0 or len(out) != len(lines):
        err = pr.stderr.decode()[-2000:]
        # pad so that callers can still report per-line
        out = out + ['ERROR runner-died rc=%d %s' % (pr.returncode, err.replace('\n', ' | ')[:300])] * (len(lines) - len(out))
        out = out[:len(lines)]
    return out


def _chunks(lines, n):
    if not lines:
        return []
    k = max(1, min(n, (len(lines) + 49) // 50))
    size = (len(lines) + k - 1) // k
    return [lines[i:i + size] for i in range(0, len(lines), size)]


def _parallel(cmd, lines, env, jobs):
    chunks = _chunks(lines, jobs)
    if len(chunks) <= 1:
        return _run(cmd, lines, env)
    with cf.ThreadPoolExecutor(max_workers=jobs) as ex:
        res = list(ex.map(lambda c: _run(cmd, c, env), chunks))
    out = []
    for r in res:
        out.extend(r)
    return out


def _dearlynum(line):
    """Derivative(e, compute_early=True).at(x) for an expression with at most one variable is, in the model, the early
    partial in that variable (or in the placeholder) at the point {variable: x}"""
    import sx
    ts = sx.tokenize(line)
    e, _ = sx.parse_expr(ts, 2)
    ids = sx.var_ids(e)
    v = ids[0] if ids else 1
    return 'PEARLY %d [%d=%s] %s' % (v, v, ts[1], sx.to_sx(e))


def run_model(lines, jobs=None):
    # 'NF ' asks the implementation runner to spell integer parameters as integral floats; the model
    # has one spelling
    lines = [l[3:] if l.startswith('VO ') else l for l in lines]      # 'VO ': the variable given as an object; one spelling in the model
    lines = [l[4:] if l.startswith('MSG ') else l for l in lines]
    lines = [_dearlynum(l) if l.startswith('DEARLYNUM ') else l for l in lines]
    lines = [l[3:] if l.startswith('NF ') else l for l in lines]
    return _parallel(['/bin/sh', '-c', 'ulimit -s unlimited 2>/dev/null; exec "%s"' % DRIVER],
                     lines, None, jobs or NPROC)


def run_impl(lines, hashseed=0, jobs=None, runner=None, args=()):
    return _parallel([IMPL_PY, runner or IMPL_RUNNER, *args], lines, impl_env(hashseed), jobs or NPROC)


_FLOAT = re.compile(r'f([0-9a-f]{16})')


def has_nonfinite(s):
    for m in _FLOAT.finditer(s):
        b = int(m.group(1), 16)
        if (b >> 52) & 0x7ff == 0x7ff:
            return True
    return False


def classify(impl, model):
    """agree | range | fuel | disagree | error"""
    if impl == model:
        if impl.startswith('ERROR'):
            return 'error'
        if 'OverflowError' in impl or has_nonfinite(impl):
            return 'range'
        if impl.startswith('PYERR') or impl.startswith('WARN PYERR'):
            # the model is proved free of foreign exceptions in exact arithmetic (C17): when the
            # float model raises one too, an intermediate left the double range (e.g. sin(inf))
            return 'range'
        return 'agree'
    if impl.startswith('PYERR') and model.startswith('PYERR'):
        return 'range'
    if 'OverflowError' in impl or 'OverflowError' in model or has_nonfinite(impl) or has_nonfinite(model):
        return 'range'
    if model.startswith('FUEL') or impl.startswith('WARN'):
        return 'fuel'
    if 'ERROR recursion' in impl or 'ERROR stack' in model:
        return 'range'
    if impl.startswith('ERROR') or model.startswith('ERROR'):
        return 'error'
    return 'disagree'


def differential(lines, hashseed=0):
    impl = run_impl(lines, hashseed)
    model = run_model(lines)
    return [(l, i, m, classify(i, m)) for l, i, m in zip(lines, impl, model)]


# ---------- reading results back ----------
def parse_outcome(s):
    """-> ('VAL', num) | ('DOMERR',) | ('COORD',) | ('PYERR', kind) | ('REJECT',) | ('OTHER', s)"""
    if s.startswith('WARN '):
        s = s[5:]
    if s.startswith('VAL '):
        body = s[4:].strip()
        if '=' in body or body == '':
            d = {}
            for tok in body.split():
                i, v = tok.split('=', 1)
                d[int(i)] = sx.parse_num(v)
            return ('VALS', d)
        return ('VAL', sx.parse_num(body))
    if s == 'VAL':
        return ('VALS', {})
    if s == 'DOMERR':
        return ('DOMERR',)
    if s == 'COORD':
        return ('COORD',)
    if s.startswith('PYERR'):
        return ('PYERR', s[6:])
    if s == 'REJECT':
        return ('REJECT',)
    return ('OTHER', s)


def parse_expr_line(s):
    if s.startswith('WARN '):
        s = s[5:]
    e, _ = sx.parse_expr(sx.tokenize(s))
    return e


def close(a, b, rel=1e-9, abs_=1e-12):
    a = float(a)
    b = float(b)
    if a == b:
        return True
    if not (math.isfinite(a) and math.isfinite(b)):
        return False
    return abs(a - b) <= max(abs_, rel * max(abs(a), abs(b)))
