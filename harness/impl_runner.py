"""Runs protocol cases on the real smoothmath (PYTHONPATH must point at /repo/src).

One case per input line, one canonical result line per case; same format as ocaml/driver.
Only the library's public API and the private methods named in DESIGN.md are called; every
case builds fresh objects, so cases are independent of each other.
"""
import sys
import os
import io
import logging
import math

sys.path.insert(0, os.path.dirname(os.path.abspath(__file__)))
import sx  # noqa: E402

import smoothmath  # noqa: E402
from smoothmath import (Point, Partial, Derivative, Differential, LocatedDifferential,  # noqa: E402
                        DomainError, CoordinateMissing)
import smoothmath.expression as X  # noqa: E402
import smoothmath._private.base_expression.expression as be  # noqa: E402

CTOR = {'Add': X.Add, 'Mul': X.Multiply, 'Minus': X.Minus, 'Divide': X.Divide, 'Power': X.Power,
        'Neg': X.Negation, 'Recip': X.Reciprocal, 'Sin': X.Sine, 'Cos': X.Cosine,
        'NthPow': X.NthPower, 'NthRoot': X.NthRoot, 'Exp': X.Exponential, 'Log': X.Logarithm}
HEAD = {v.__name__: k for k, v in CTOR.items()}


def build(e):
    h = e[0]
    if h == 'C':
        return X.Constant(e[1])
    if h == 'V':
        return X.Variable(sx.name_of(e[1]))
    if h in sx.NARY:
        return CTOR[h](*[build(a) for a in e[1]])
    if h in sx.BINARY:
        return CTOR[h](build(e[1]), build(e[2]))
    if h in sx.UNARY:
        return CTOR[h](build(e[1]))
    if h in sx.NPARAM:
        return CTOR[h](build(e[1]), float(e[2]) if FLOAT_N else e[2])
    if h in sx.BPARAM:
        return CTOR[h](build(e[1]), e[2])
    raise ValueError(h)


WITH_MESSAGE = False  # lines prefixed 'MSG ': a DomainError / CoordinateMissing outcome also carries the exception's text
FLOAT_N = False      # lines prefixed 'NF ': the integer parameter n is passed as an integral float (3.0)
VAR_AS_OBJECT = False  # lines prefixed 'VO ': the differentiation variable is passed as a Variable object, not as a name


def var_arg(v):
    return X.Variable(sx.name_of(v)) if VAR_AS_OBJECT else sx.name_of(v)


def from_obj(o):
    cn = o.__class__.__name__
    if cn == 'Constant':
        return ('C', o.value)
    if cn == 'Variable':
        return ('V', sx.id_of(o.name))
    h = HEAD[cn]
    if h in sx.NARY:
        return (h, [from_obj(a) for a in o._inners])
    if h in sx.BINARY:
        return (h, from_obj(o._left), from_obj(o._right))
    if h in sx.UNARY:
        return (h, from_obj(o._inner))
    if h in sx.NPARAM:
        return (h, from_obj(o._inner), o.n)
    return (h, from_obj(o._inner), o.base)


def show_obj(o):
    return sx.to_sx(from_obj(o))


def mkpoint(p):
    return Point(**{sx.name_of(i): v for i, v in p})


def show_val(v):
    if isinstance(v, (int, float)) and not isinstance(v, bool):
        return 'VAL ' + sx.num_sx(v)
    if isinstance(v, bool):
        return 'VAL ' + sx.num_sx(v)
    if isinstance(v, complex):
        return 'PYERR ComplexResult'
    return 'PYERR ResultType:' + type(v).__name__


def outcome(thunk, show=show_val):
    try:
        v = thunk()
    except DomainError as ex:
        return 'DOMERR' + ((' ' + str(ex)) if WITH_MESSAGE else '')
    except CoordinateMissing as ex:
        return 'COORD' + ((' ' + str(ex)) if WITH_MESSAGE else '')
    except RecursionError:
        return 'ERROR recursion'
    except Exception as ex:  # noqa: BLE001
        return 'PYERR ' + type(ex).__name__
    return show(v)


def show_partials_dict(d):
    items = sorted(((sx.id_of(k), v) for k, v in d.items()))
    for _, v in items:
        if not isinstance(v, (int, float)):
            return 'PYERR ResultType:' + type(v).__name__
    return 'VAL ' + ' '.join('%d=%s' % (i, sx.num_sx(v)) for i, v in items)


def show_located(ld):
    return show_partials_dict(ld._numeric_partials)


PUBLIC = {}
for _n in smoothmath.__all__:
    PUBLIC[_n] = getattr(smoothmath, _n)
for _n in X.__all__:
    PUBLIC[_n] = getattr(X, _n)


def py_arg(a):
    if a == 'str':
        return 'abc'
    if a == 'badstr':
        return 'a-b'
    if a == 'none':
        return None
    if a == 'expr':
        return X.Variable('v3')
    return sx.parse_num(a)


def repr_tokens(text):
    """Tokenise a printed form into the model's token text (see driver.ml show_token)."""
    import tokenize as _tk
    toks = []
    try:
        gen = list(_tk.generate_tokens(io.StringIO(text).readline))
    except Exception as ex:  # noqa: BLE001
        return 'ERROR tokenize ' + type(ex).__name__
    raw = [(t.type, t.string) for t in gen
           if t.type not in (_tk.NEWLINE, _tk.NL, _tk.ENDMARKER, _tk.INDENT, _tk.DEDENT)]
    i = 0
    out = []
    neg = False
    while i < len(raw):
        ty, st = raw[i]
        nxt = raw[i + 1][1] if i + 1 < len(raw) else ''
        if ty == _tk.NAME:
            if nxt == '=' and st not in ('n', 'base'):
                try:
                    out.append('"%d"' % sx.id_of(st))
                except ValueError:
                    out.append('"?%s"' % st)
            else:
                out.append(st)
        elif ty == _tk.STRING:
            body = st[1:-1]
            try:
                out.append('"%d"' % sx.id_of(body))
            except ValueError:
                out.append('"?%s"' % body)
        elif ty == _tk.NUMBER:
            prev_kw = out[-2] if len(out) >= 2 and out[-1] == '=' else None
            val = (-1 if neg else 1) * (int(st) if st.isdigit() else float(st))
            if st.isdigit() and neg:
                val = -int(st)
            neg = False
            if prev_kw == 'n' and isinstance(val, int) and val >= 1:
                out.append('p%d' % val)
            else:
                out.append(sx.num_sx(val))
        elif ty == _tk.OP and st == '-':
            neg = True
        elif ty == _tk.OP:
            out.append(st)
        else:
            out.append('?' + st)
        i += 1
    return ' '.join(out)


def struct_float(rg):
    import struct as _s
    while True:
        x = _s.unpack('>d', _s.pack('>Q', rg.getrandbits(64)))[0]
        if math.isfinite(x):
            return x


FOREIGN = [None, 0, 1, 1.5, 'x', (1, 2), [3], {'a': 1}, object(), True, b'x', float('nan')]


def impersonators(o):
    """foreign objects that merely LOOK like o: a class of the same name (as ast.Add, sympy.Add or a user's own node class
    would be) without attributes, and one carrying a copy of o's attributes; neither is o's constructor"""
    out = []
    for fill in (False, True):
        cls = type(type(o).__name__, (object,), {'__module__': type(o).__module__, '__qualname__': type(o).__qualname__})
        z = cls()
        if fill:
            try:
                z.__dict__.update(vars(o))
            except TypeError:
                continue
        out.append(z)
    return out


def foreign_like(o):
    """None when o behaves towards its impersonators as towards any foreign object, else a description"""
    for z in impersonators(o):
        if (o == z) is not False or (z == o) is not False or (o != z) is not True:
            return 'a foreign object of a class named %s%s' % (type(o).__name__, ' with the same attributes' if vars(z) else '')
    return None


def walk_objects(o):
    out, stack, seen = [], [o], set()
    while stack:
        x = stack.pop()
        if id(x) in seen:
            continue
        seen.add(id(x))
        out.append(x)
        if hasattr(x, '_inners'):
            stack.extend(x._inners)
        elif hasattr(x, '_left'):
            stack.extend([x._left, x._right])
        elif hasattr(x, '_inner'):
            stack.append(x._inner)
    return out


def eq_laws(oa, ob, oc, oa2):
    """oc is ob with numbers respelled (2 <-> 2.0); oa2 is oa rebuilt"""
    try:
        ab, ba = (oa == ob), (ob == oa)
        if not isinstance(ab, bool) or ab != ba:
            return 'bad: == not symmetric / not bool'
        if (oa != ob) != (not ab):
            return 'bad: != inconsistent with =='
        if not (oa == oa) or not (oa == oa2) or not (oa2 == oa):
            return 'bad: not reflexive on a rebuilt copy'
        if hash(oa) != hash(oa2):
            return 'bad: equal objects hash differently (rebuilt copy)'
        if not (ob == oc) or not (oc == ob):
            return 'bad: int/float respelling compares unequal'
        if hash(ob) != hash(oc):
            return 'bad: int/float respelling hashes differently'
        if ab:
            if hash(oa) != hash(ob):
                return 'bad: equal expressions with different hashes'
            if ob not in {oa} or {oa: 1}.get(ob) != 1:
                return 'bad: equal expressions are different set members / dict keys'
            if not (oa == oc):
                return 'bad: == not transitive'
        for z in FOREIGN:
            if (oa == z) is not False or (z == oa) is not False or (oa != z) is not True:
                return 'bad: comparison with foreign object %r' % (z,)
        for sub in walk_objects(oa)[:12]:
            w = foreign_like(sub)
            if w:
                return 'bad: comparison with %s' % w
        # derivative objects
        p1, p2 = Partial(oa, 'v2'), Partial(ob, 'v2')
        if (p1 == p2) != ab or (p2 == p1) != ab:
            return 'bad: Partial equality does not follow expression equality'
        if ab and hash(p1) != hash(p2):
            return 'bad: equal Partials hash differently'
        if p1 == Partial(oa, 'v3') or not (p1 == Partial(oa, X.Variable('v2'))):
            return 'bad: Partial equality w.r.t. variable / spelling'
        # names that are equal strings but different objects (built at run time, hence not interned)
        n1, n2 = 'v' + str(2), ''.join(['v', '2'])
        q1, q2 = Partial(oa, n1), Partial(oa, X.Variable(n2))
        if n1 is not n2 and (not (q1 == q2) or not (q2 == q1) or not (q1 == p1) or hash(q1) != hash(q2) or q2 not in {q1}):
            return 'bad: Partials over equal but distinct name strings compare unequal'
        if not (X.Variable(n1) == X.Variable(n2)) or hash(X.Variable(n1)) != hash(X.Variable(n2)):
            return 'bad: Variables over equal but distinct name strings compare unequal'
        try:
            early_p, early_d = Partial(oa, 'v2', compute_early=True), Differential(oa, compute_early=True)
        except OverflowError:
            early_p = early_d = None       # a folded constant leaves the double range: outside the property
        if early_p is not None and (not (p1 == early_p) or hash(p1) != hash(early_p)):
            return 'bad: Partial equality w.r.t. the early flag'
        if hash(p1) != hash(Partial(oa, X.Variable('v2'))):
            return 'bad: Partial hash depends on the spelling of the variable'
        d1, d2 = Differential(oa), Differential(ob)
        if (d1 == d2) != ab or (ab and hash(d1) != hash(d2)) or (early_d is not None and not (d1 == early_d)):
            return 'bad: Differential equality / hash'
        if d1 == p1 or p1 == d1 or p1 == oa or oa == p1 or d1 == oa:
            return 'bad: objects of different classes compare equal'
        for z in FOREIGN:
            if (p1 == z) is not False or (d1 == z) is not False:
                return 'bad: derivative object compared with foreign object %r' % (z,)
        for o_ in (p1, d1, early_p, early_d):
            w = foreign_like(o_) if o_ is not None else None
            if w:
                return 'bad: derivative object compared with %s' % w
        if len(oa._variable_names) <= 1 and len(ob._variable_names) <= 1:
            v1, v2 = Derivative(oa), Derivative(ob)
            if (v1 == v2) != ab or (ab and hash(v1) != hash(v2)) or v1 == p1 or v1 == d1:
                return 'bad: Derivative equality / hash'
        pt = Point(v2=1.5, v3=2, v4=0.5)
        try:
            l1 = LocatedDifferential(oa, pt)
            l2 = LocatedDifferential(ob, Point(v4=0.5, v3=2.0, v2=1.5))
        except (DomainError, CoordinateMissing, OverflowError):
            l1 = l2 = None
        if l1 is not None:
            if (l1 == l2) != ab or (ab and hash(l1) != hash(l2)):
                return 'bad: LocatedDifferential equality / hash'
            try:
                l3 = LocatedDifferential(oa, Point(v2=1.5, v3=2, v4=0.75))
                if l1 == l3:
                    return 'bad: LocatedDifferentials at different points compare equal'
            except (DomainError, CoordinateMissing, OverflowError):
                pass
            if (l1 == None) is not False:  # noqa: E711
                return 'bad: LocatedDifferential == None'
            w = foreign_like(l1)
            if w:
                return 'bad: LocatedDifferential compared with %s' % w
    except Exception as ex:  # noqa: BLE001
        return 'bad: comparison raised %s' % type(ex).__name__
    return 'ok'


def point_laws(p, q):
    try:
        a, c = mkpoint(p), mkpoint(q)
        ab, ba = (a == c), (c == a)
        if ab != ba or (a != c) != (not ab):
            return 'bad: point == not symmetric / != inconsistent'
        if ab and hash(a) != hash(c):
            return 'bad: equal points hash differently'
        if ab and (c not in {a}):
            return 'bad: equal points are different set members'
        r = mkpoint(list(reversed(p)))
        if not (a == r) or hash(a) != hash(r):
            return 'bad: coordinate order matters for point equality / hash'
        want = (dict((k, v) for k, v in p) == dict((k, v) for k, v in q))
        if ab != want:
            return 'bad: point equality is %s, coordinates say %s' % (ab, want)
        for z in FOREIGN:
            if (a == z) is not False or (z == a) is not False:
                return 'bad: point compared with foreign object %r' % (z,)
        w = foreign_like(a)
        if w:
            return 'bad: point compared with %s' % w
    except Exception as ex:  # noqa: BLE001
        return 'bad: raised %s' % type(ex).__name__
    return 'ok'


GOOD_BAD_NAMES = ['x', 'X1', '_', '_a', '9', '9lives', 'x_y_z', '\u00e9t\u00e9', '\u03a9mega', '\u53d8\u91cf', 'x\u0663', '\uff58',
                  'a' * 200, 'whatever', 'self', 'point', 'class', 'None', 'lambda', 'n', 'base', 'args', 'kwargs',
                  'x\u0301', '\u01c5', '\u00aa', '\u00b2', 'variable', 'inner', 'cls',
                  '', ' ', 'a b', 'a-b', 'x\n', '\nx', 'x.y', 'x+', '\u00e9-', '"', "a'b", 'x\t', 'x\x00', '-', '(x)', 'x,y', 'x=1',
                  'x\r', ' x', 'x ', '\u00a0', 'a\u200bb', 'x\u2028']


def names_check():
    import re as _re
    for nm in GOOD_BAD_NAMES:
        legal = bool(nm) and _re.fullmatch(r'\w+', nm) is not None
        try:
            v = X.Variable(nm)
            acc = True
        except Exception:  # noqa: BLE001
            acc = False
        if acc != legal:
            return 'bad: Variable(%r) %s but the name is %s' % (nm, 'accepted' if acc else 'rejected', 'legal' if legal else 'illegal')
        if not acc:
            continue
        try:
            if v.name != nm:
                return 'bad: name reported as %r for %r' % (v.name, nm)
            pt = Point(**{nm: 2.5})
            if pt.coordinate(nm) != 2.5 or pt.coordinate(v) != 2.5:
                return 'bad: coordinate %r not retrievable' % nm
            if v.at(pt) != 2.5 or v.at(2.5) != 2.5:
                return 'bad: Variable(%r).at' % nm
            z = X.Multiply(v, X.Add(v, X.Constant(1)))
            if z.at(pt) != 8.75 or Partial(z, nm).at(pt) != 6.0 or Partial(z, v, compute_early=True).at(pt) != 6.0:
                return 'bad: evaluation/differentiation with the name %r' % nm
            if LocatedDifferential(z, pt).component(nm) != 6.0 or Differential(z, compute_early=True).component_at(v, pt) != 6.0:
                return 'bad: differential with the name %r' % nm
            if Derivative(z).at(2.5) != 6.0:
                return 'bad: Derivative with the name %r' % nm
        except Exception as ex:  # noqa: BLE001
            return 'bad: accepted name %r cannot be used: %s' % (nm, type(ex).__name__)
    for bad in (None, 3, 1.5, ['x'], ('x',), b'x', X.Variable('x')):
        try:
            X.Variable(bad)
            return 'bad: Variable(%r) accepted' % (bad,)
        except Exception:  # noqa: BLE001
            pass
    return 'ok'


def ops_check(a, c):
    try:
        big = int('3' + '00')             # 300, 1000, 2**40: ints outside CPython's small-int cache, each made twice
        pairs = [(-a, X.Negation(a)), (a + c, X.Add(a, c)), (a - c, X.Minus(a, c)), (a * c, X.Multiply(a, c)),
                 (a / c, X.Divide(a, c)), (a ** c, X.Power(a, c)), (a ** 3, X.NthPower(a, 3)), (a ** 2.0, X.NthPower(a, 2)),
                 (a ** 1, X.NthPower(a, 1)), (a ** big, X.NthPower(a, int('300'))), (a ** 300.0, X.NthPower(a, 300)),
                 (a ** float('1000'), X.NthPower(a, 10 ** 3)), (a ** (2 ** 40), X.NthPower(a, int(2.0 ** 40))),
                 (X.NthRoot(a, 257.0), X.NthRoot(a, int('257')))]
        for got, want in pairs:
            if not (got == want) or repr(got) != repr(want) or got.__class__ is not want.__class__:
                return 'bad: %r is not %r' % (got, want)
        if (a + c)._inners[0] is not a or (a + c)._inners[1] is not c or (a - c)._left is not a or (a ** c)._right is not c:
            return 'bad: operands were copied or rewritten'
        if (a ** 3).n != 3 or type((a ** 2.0).n) is not int:
            return 'bad: exponent stored as %r' % ((a ** 2.0).n,)
        import fractions as _fr
        for z in (None, 1, 2.5, 'x', (1,), [a], 0, 0.0, -0.0, False, True, 1.0, '', (), [], {}, 0j, _fr.Fraction(0), _fr.Fraction(1)):
            for f in (lambda u, w: u + w, lambda u, w: u - w, lambda u, w: u * w, lambda u, w: u / w):
                for u, w in ((a, z), (z, a)):
                    try:
                        r_ = f(u, w)
                        return 'bad: operator accepted the foreign operand %r -> %r' % (z, r_)
                    except Exception:  # noqa: BLE001
                        pass
            try:
                r_ = z ** a
                return 'bad: %r ** expression accepted' % (z,)
            except Exception:  # noqa: BLE001
                pass
        import decimal as _dec
        for z in (_fr.Fraction(5, 2), _fr.Fraction(2), _dec.Decimal('2.5'), _dec.Decimal(2), 2 + 0j, 2.5 + 0j, [2], (2,), '2', b'2', None):
            # exponents that are neither an expression nor an int nor a float (numeric towers included): never coerced
            try:
                r_ = a ** z
                return 'bad: expression ** %r accepted -> %r' % (z, r_)
            except Exception:  # noqa: BLE001
                pass
            for ctor in (X.NthPower, X.NthRoot):
                try:
                    r_ = ctor(a, z)
                    return 'bad: %s(a, %r) accepted -> %r' % (ctor.__name__, z, r_)
                except Exception:  # noqa: BLE001
                    pass
        for f, what in ((lambda: sum([a, c]), 'sum([a, b])'), (lambda: sum([a]), 'sum([a])'),
                        (lambda: math.prod([a, c]), 'math.prod([a, b])')):
            try:
                r_ = f()
                return 'bad: %s coerced its start value and returned %r' % (what, r_)
            except Exception:  # noqa: BLE001
                pass
    except Exception as ex:  # noqa: BLE001
        return 'bad: raised %s: %s' % (type(ex).__name__, ex)
    return 'ok'


def ctor_ops_check():
    x = X.Variable('v2')
    bads = [None, 3, 1.5, 'x', (1,), [x], True]
    try:
        for cls in (X.Negation, X.Reciprocal, X.Sine, X.Cosine):
            for z in bads:
                try:
                    cls(z)
                    return 'bad: %s(%r) accepted' % (cls.__name__, z)
                except Exception:  # noqa: BLE001
                    pass
        for cls in (X.Minus, X.Divide, X.Power):
            for z in bads:
                for args in ((x, z), (z, x), (z, z)):
                    try:
                        cls(*args)
                        return 'bad: %s%r accepted' % (cls.__name__, args)
                    except Exception:  # noqa: BLE001
                        pass
        for cls in (X.Add, X.Multiply):
            for z in bads:
                for args in ((z,), (x, z), (z, x), (x, x, z), (x, z, x)):
                    try:
                        cls(*args)
                        return 'bad: %s%r accepted' % (cls.__name__, args)
                    except Exception:  # noqa: BLE001
                        pass
        for cls in (X.NthPower, X.NthRoot):
            for z in bads:
                try:
                    cls(z, 2)
                    return 'bad: %s(%r, 2) accepted' % (cls.__name__, z)
                except Exception:  # noqa: BLE001
                    pass
        for cls in (X.Exponential, X.Logarithm):
            for z in bads:
                try:
                    cls(z)
                    return 'bad: %s(%r) accepted' % (cls.__name__, z)
                except Exception:  # noqa: BLE001
                    pass
        if X.Constant(5).value != 5 or X.Constant(2.5).value != 2.5 or x.name != 'v2':
            return 'bad: value/name not reported back'
        if X.NthPower(x, 3.0).n != 3 or type(X.NthPower(x, 3.0).n) is not int or X.NthRoot(x, 4).n != 4:
            return 'bad: n not reported back as the integer'
        if X.Exponential(x, base=2.5).base != 2.5 or X.Logarithm(x, base=10).base != 10:
            return 'bad: base not reported back'
        if X.Exponential(x).base != math.e or X.Logarithm(x).base != math.e:
            return 'bad: default base is not e'
        if len(X.Add()._inners) != 0 or X.Add().at(Point()) != 0 or X.Multiply().at(Point()) != 1:
            return 'bad: empty sum / product'
    except Exception as ex:  # noqa: BLE001
        return 'bad: raised %s: %s' % (type(ex).__name__, ex)
    return 'ok'


class WarnCatcher(logging.Handler):
    def __init__(self):
        super().__init__()
        self.hit = False

    def emit(self, record):
        if 'Unable to fully reduce' in record.getMessage():
            self.hit = True


CATCH = WarnCatcher()
logging.getLogger().addHandler(CATCH)
logging.getLogger().setLevel(logging.WARNING)
# keep stderr quiet
for _h in list(logging.getLogger().handlers):
    if _h is not CATCH:
        logging.getLogger().removeHandler(_h)

# ---- which rule fired: wrap the reducers from outside (no source change) ----
LAST = {'label': None}


def _install_rule_recorder():
    classes = [X.Add, X.Minus, X.Negation, X.Multiply, X.Divide, X.Reciprocal, X.Power,
               X.NthPower, X.NthRoot, X.Exponential, X.Logarithm, X.Cosine, X.Sine]
    for cls in classes:
        prop = cls.__dict__.get('_reducers')
        if prop is None or not isinstance(prop, property):
            continue
        orig_get = prop.fget

        def make(orig_get):
            def getter(self):
                out = []
                for red in orig_get(self):
                    def wrapped(red=red):
                        r = red()
                        if r is not None:
                            LAST['label'] = getattr(red, '__name__', 'unknown')
                        return r
                    out.append(wrapped)
                return out
            return getter
        setattr(cls, '_reducers', property(make(orig_get)))
    orig_cons = be.Expression._consolidate_expression_lacking_variables

    def cons(self):
        r = orig_cons(self)
        if r is not None:
            LAST['label'] = 'consolidate'
        return r
    be.Expression._consolidate_expression_lacking_variables = cons


_install_rule_recorder()


def one_form_step(obj):
    """Drive _take_reduction_step until the form changes (skipping marking steps).
    Returns (label, new_obj) or None when the object is rule-free."""
    before = show_obj(obj)
    cur = obj
    for _ in range(100000):
        if cur._is_fully_reduced:
            return None
        LAST['label'] = None
        nxt = cur._take_reduction_step()
        after = show_obj(nxt)
        if after != before or LAST['label'] is not None:
            return (LAST['label'] or 'unknown', nxt)
        cur = nxt
    return ('ERROR nostep', cur)


def do_norm(obj):
    CATCH.hit = False
    r = obj._normalize()
    if CATCH.hit:
        return 'WARN ' + show_obj(r)
    return show_obj(r)


def as_expr_checked(thunk):
    CATCH.hit = False
    r = thunk()
    return r, CATCH.hit


def run_line(line):
    ts = sx.tokenize(line)
    if not ts:
        return ''
    cmd = ts[0]
    if cmd == 'EVAL':
        p, k = sx.parse_point(ts, 1)
        e, _ = sx.parse_expr(ts, k)
        o = build(e)
        return outcome(lambda: o.at(mkpoint(p)))
    if cmd == 'ATNUM':
        x = sx.parse_num(ts[1])
        e, _ = sx.parse_expr(ts, 2)
        o = build(e)
        if len(o._variable_names) > 1:
            try:
                o.at(x)
            except (DomainError, CoordinateMissing):
                return 'ERROR accepted'
            except Exception as ex:  # noqa: BLE001
                return 'REJECT' + ((' ' + str(ex)) if WITH_MESSAGE else '')
            return 'ERROR accepted'
        return outcome(lambda: o.at(x))
    if cmd == 'FWD':
        v = int(ts[1])
        p, k = sx.parse_point(ts, 2)
        e, _ = sx.parse_expr(ts, k)
        o = build(e)
        return outcome(lambda: Partial(o, var_arg(v)).at(mkpoint(p)))
    if cmd == 'REV':
        p, k = sx.parse_point(ts, 1)
        e, _ = sx.parse_expr(ts, k)
        o = build(e)
        return outcome(lambda: LocatedDifferential(o, mkpoint(p)), show_located)
    if cmd == 'DIFFAT':
        p, k = sx.parse_point(ts, 1)
        e, _ = sx.parse_expr(ts, k)
        o = build(e)
        return outcome(lambda: Differential(o).at(mkpoint(p)), show_located)
    if cmd in ('DERIV', 'DERIVNUM'):
        if cmd == 'DERIV':
            p, k = sx.parse_point(ts, 1)
            arg = mkpoint(p)
        else:
            arg = sx.parse_num(ts[1])
            k = 2
        e, _ = sx.parse_expr(ts, k)
        o = build(e)
        try:
            d = Derivative(o)
        except (DomainError, CoordinateMissing):
            return 'ERROR ctor'
        except Exception as ex:  # noqa: BLE001
            return 'REJECT' + ((' ' + str(ex)) if WITH_MESSAGE else '')
        return outcome(lambda: d.at(arg))
    if cmd == 'DEARLYNUM':
        x = sx.parse_num(ts[1])
        e, _ = sx.parse_expr(ts, 2)
        o = build(e)
        CATCH.hit = False
        try:
            d = Derivative(o, compute_early=True)
        except (DomainError, CoordinateMissing):
            return 'ERROR ctor'
        except OverflowError:
            return 'PYERR OverflowError'
        res = outcome(lambda: d.at(x))
        return ('WARN ' if CATCH.hit else '') + res
    if cmd == 'SYNFWD':
        v = int(ts[1])
        e, _ = sx.parse_expr(ts, 2)
        return show_obj(build(e)._synthetic_partial(sx.name_of(v)))
    if cmd == 'SYNREV':
        e, _ = sx.parse_expr(ts, 1)
        d = build(e)._synthetic_partials()
        items = sorted((sx.id_of(k), v) for k, v in d.items())
        return ' '.join('%d=%s' % (i, show_obj(v)) for i, v in items)
    if cmd == 'STEP':
        e, _ = sx.parse_expr(ts, 1)
        r = one_form_step(build(e))
        if r is None:
            return 'NONE'
        return '%s %s' % (r[0], show_obj(r[1]))
    if cmd == 'REDUCE':
        e, _ = sx.parse_expr(ts, 1)
        CATCH.hit = False
        r = build(e)._fully_reduce()
        return ('WARN ' if CATCH.hit else '') + show_obj(r)
    if cmd == 'NORM':
        e, _ = sx.parse_expr(ts, 1)
        return do_norm(build(e))
    if cmd == 'PEXPR':
        v = int(ts[1])
        e, _ = sx.parse_expr(ts, 2)
        o = build(e)
        r, warned = as_expr_checked(lambda: Partial(o, var_arg(v)).as_expression())
        return ('WARN ' if warned else '') + show_obj(r)
    if cmd == 'PEARLY':
        v = int(ts[1])
        p, k = sx.parse_point(ts, 2)
        e, _ = sx.parse_expr(ts, k)
        o = build(e)
        CATCH.hit = False
        res = outcome(lambda: Partial(o, var_arg(v), compute_early=True).at(mkpoint(p)))
        return ('WARN ' if CATCH.hit else '') + res
    if cmd == 'DEXPR':
        v = int(ts[1])
        e, _ = sx.parse_expr(ts, 2)
        o = build(e)
        r, warned = as_expr_checked(
            lambda: Differential(o, compute_early=True).component(var_arg(v)).as_expression())
        return ('WARN ' if warned else '') + show_obj(r)
    if cmd == 'DEARLYAT':
        v = int(ts[1])
        p, k = sx.parse_point(ts, 2)
        e, _ = sx.parse_expr(ts, k)
        o = build(e)
        CATCH.hit = False
        res = outcome(lambda: Differential(o, compute_early=True).component_at(var_arg(v), mkpoint(p)))
        return ('WARN ' if CATCH.hit else '') + res
    if cmd == 'DEARLYALL':
        p, k = sx.parse_point(ts, 1)
        e, _ = sx.parse_expr(ts, k)
        o = build(e)
        CATCH.hit = False
        res = outcome(lambda: Differential(o, compute_early=True).at(mkpoint(p)), show_located)
        return ('WARN ' if CATCH.hit else '') + res
    if cmd in ('NTRACE', 'PTRACE', 'DTRACE'):
        return 'SKIP'
    if cmd == 'EQ':
        a, k = sx.parse_expr(ts, 1)
        b, _ = sx.parse_expr(ts, k)
        oa, ob = build(a), build(b)
        r = (oa == ob)
        if not isinstance(r, bool):
            return 'ERROR eq-not-bool'
        return 'true' if r else 'false'
    if cmd == 'PEQ':
        p, k = sx.parse_point(ts, 1)
        q, _ = sx.parse_point(ts, k)
        r = (mkpoint(p) == mkpoint(q))
        return 'true' if r else 'false'
    if cmd == 'SHOW':
        e, _ = sx.parse_expr(ts, 1)
        o = build(e)
        t1, t2 = repr_tokens(repr(o)), repr_tokens(str(o))
        return t1 if t1 == t2 else 'ERROR repr!=str'
    if cmd == 'SHOWPOINT':
        p, _ = sx.parse_point(ts, 1)
        return repr_tokens(repr(mkpoint(p)))
    if cmd == 'SHOWPARTIAL':
        v = int(ts[1])
        e, _ = sx.parse_expr(ts, 2)
        return repr_tokens(repr(Partial(build(e), sx.name_of(v))))
    if cmd == 'SHOWDERIV':
        e, _ = sx.parse_expr(ts, 1)
        o = build(e)
        if len(o._variable_names) > 1:
            return 'REJECT'
        return repr_tokens(repr(Derivative(o)))
    if cmd == 'SHOWDIFF':
        e, _ = sx.parse_expr(ts, 1)
        return repr_tokens(repr(Differential(build(e))))
    if cmd == 'SHOWLOC':
        p, k = sx.parse_point(ts, 1)
        e, _ = sx.parse_expr(ts, k)
        o = build(e)
        try:
            ld = LocatedDifferential(o, mkpoint(p))
        except (DomainError, CoordinateMissing):
            return 'SKIP'
        except (OverflowError, ValueError, ZeroDivisionError):
            return 'SKIP'          # an intermediate leaves the double range (cos(inf)): no object to print
        return repr_tokens(repr(ld))
    if cmd == 'OPCHAIN':
        # a running total built with + (or *), link by link, against the named constructors: at EVERY length the operator
        # result is Add(previous, term) / Multiply(previous, term), nothing flattened, nothing edited in place
        k = int(ts[1])
        terms = [X.Variable('v%d' % (2 + i % 3)) if i % 4 else X.Constant(i + 1) for i in range(k)]
        for name, fn, ctor in (('+', lambda a_, b_: a_ + b_, X.Add), ('*', lambda a_, b_: a_ * b_, X.Multiply)):
            tot_op, tot_ct = terms[0], terms[0]
            for i in range(1, k):
                prev_repr = None if i % 37 else repr(tot_op)
                new_op = fn(tot_op, terms[i])
                new_ct = ctor(tot_ct, terms[i])
                if new_op.__class__ is not new_ct.__class__ or len(new_op._inners) != 2 or new_op._inners[0] is not tot_op \
                        or new_op._inners[1] is not terms[i]:
                    return 'bad: after %d consecutive %s the operator result is not %s(previous, term): %d operands' % (
                        i, name, ctor.__name__, len(new_op._inners))
                if prev_repr is not None and repr(tot_op) != prev_repr:
                    return 'bad: %s edited its left operand in place (link %d)' % (name, i)
                tot_op, tot_ct = new_op, new_ct
            if not (tot_op == tot_ct) or hash(tot_op) != hash(tot_ct):
                return 'bad: a chain of %d %s is not equal to the nested constructor calls' % (k, name)
        return 'ok'
    if cmd == 'WIDEEQ':
        # equality, hashing and printing of n-ary nodes with MANY operands (beyond CPython's small-int cache, 257+)
        k = int(ts[1])
        for ctor in (X.Add, X.Multiply):
            mk = lambda: ctor(*[X.Variable('v%d' % (2 + i % 5)) if i % 3 else X.Constant(i) for i in range(k)])   # noqa: E731
            a_, c_ = mk(), mk()
            d_ = ctor(*(list(a_._inners) + [X.Constant(1)]))
            if not (a_ == a_) or not (a_ == c_) or not (c_ == a_) or (a_ != c_) or hash(a_) != hash(c_) or c_ not in {a_}:
                return 'bad: two %s nodes built from %d equal operands compare unequal / hash differently' % (ctor.__name__, k)
            if a_ == d_ or d_ == a_:
                return 'bad: %s nodes of %d and %d operands compare equal' % (ctor.__name__, k, k + 1)
            try:
                back = eval(repr(a_), dict(PUBLIC))
            except Exception as ex:  # noqa: BLE001
                return 'bad: repr of a %d-operand %s does not evaluate (%s)' % (k, ctor.__name__, type(ex).__name__)
            if not (back == a_) or repr(back) != repr(a_) or repr(a_) == repr(d_) or str(a_) != repr(a_):
                return 'bad: repr of a %d-operand %s does not read back equal' % (k, ctor.__name__)
            p1, p2 = Partial(a_, 'v2'), Partial(c_, 'v2')
            if not (p1 == p2) or hash(p1) != hash(p2):
                return 'bad: Partials of equal %d-operand nodes compare unequal' % k
        return 'ok'
    if cmd == 'AUGASSIGN':
        # augmented assignment (s += t ...) on a name bound to an existing expression must build a new node, like s + t:
        # the old object, every alias of it and every tree containing it keep their meaning
        p_, k = sx.parse_point(ts, 1)
        e1, k = sx.parse_expr(ts, k)
        e2, _ = sx.parse_expr(ts, k)
        import operator as _op
        for name, fn, plain in (('+=', _op.iadd, _op.add), ('-=', _op.isub, _op.sub), ('*=', _op.imul, _op.mul),
                                ('/=', _op.itruediv, _op.truediv), ('**=', _op.ipow, _op.pow)):
            a, c = build(e1), build(e2)
            holder = X.Sine(a)
            before = (repr(a), repr(holder), outcome(lambda: holder.at(mkpoint(p_))), outcome(lambda: a.at(mkpoint(p_))))
            try:
                t = fn(a, c)
            except Exception as ex:  # noqa: BLE001
                return 'bad: a %s b raised %s' % (name, type(ex).__name__)
            want = plain(build(e1), build(e2))
            if t is a:
                return 'bad: a %s b returned the left operand itself (edited in place)' % name
            if not (t == want) or repr(t) != repr(want):
                return 'bad: a %s b is %r, not %r' % (name, t, want)
            after = (repr(a), repr(holder), outcome(lambda: holder.at(mkpoint(p_))), outcome(lambda: a.at(mkpoint(p_))))
            if after != before:
                return 'bad: after a %s b the old operand or a tree containing it changed: %r -> %r' % (name, before, after)
        return 'ok'
    if cmd == 'USEDRT':
        # an expression that was printed and hashed BEFORE it is differentiated and simplified: the result must equal,
        # hash like and print like the result obtained from a never-touched copy, and its printed form must read back
        v = int(ts[1])
        e, _ = sx.parse_expr(ts, 2)
        nm = sx.name_of(v)
        o, o2 = build(e), build(e)
        _ = (repr(o), str(o), hash(o), o in {o: 1})
        for sub in walk_objects(o):
            _ = (repr(sub), hash(sub))
        try:
            CATCH.hit = False
            r = Partial(o, nm).as_expression()
            r2 = Partial(o2, nm).as_expression()
            if CATCH.hit:
                return 'SKIP'
        except OverflowError:
            return 'SKIP'
        if not (r == r2) or not (r2 == r):
            return 'bad: the derivative of a printed-and-hashed expression differs from that of an untouched copy'
        if hash(r) != hash(r2):
            return 'bad: equal results hash differently (one comes from an expression that was hashed before)'
        if repr(r) != repr(r2) or str(r) != str(r2):
            return 'bad: equal results print differently: %s / %s' % (repr(r)[:80], repr(r2)[:80])
        try:
            back = eval(repr(r), dict(PUBLIC))
        except Exception as ex:  # noqa: BLE001
            return 'bad: printed result does not evaluate (%s)' % type(ex).__name__
        if not (back == r) or hash(back) != hash(r):
            return 'bad: printed result reads back unequal or with another hash: %s' % repr(r)[:100]
        return 'ok'
    if cmd == 'NAMERT':
        # every name the Variable constructor accepts prints in a form that reads back to an equal object
        # (alone, inside an expression, inside a Partial and as a coordinate name of a Point)
        for nm in GOOD_BAD_NAMES:
            try:
                v = X.Variable(nm)
            except Exception:  # noqa: BLE001
                continue
            for o in (v, X.Sine(v), X.Add(v, X.Constant(1)), Partial(X.Sine(v), nm)):
                try:
                    back = eval(repr(o), dict(PUBLIC))
                except Exception as ex:  # noqa: BLE001
                    return 'bad: repr of an object over the accepted name %r does not evaluate (%s)' % (nm, type(ex).__name__)
                if not (back == o) or repr(back) != repr(o) or str(o) != repr(o):
                    return 'bad: repr of an object over the accepted name %r reads back unequal' % (nm,)
            import unicodedata as _ud
            import keyword as _kw
            # a coordinate name "is a Python identifier" when it can be written as a keyword at all: the language
            # compares identifiers in NFKC normal form (a fullwidth 'x' typed as a keyword IS x), and keywords are excluded
            if nm.isidentifier() and _ud.normalize('NFKC', nm) == nm and not _kw.iskeyword(nm):
                p_ = Point(**{nm: 1.5})
                try:
                    back = eval(repr(p_), dict(PUBLIC))
                except Exception as ex:  # noqa: BLE001
                    return 'bad: repr of a point with the coordinate name %r does not evaluate (%s)' % (nm, type(ex).__name__)
                if not (back == p_):
                    return 'bad: repr of a point with the coordinate name %r reads back unequal' % (nm,)
        return 'ok'
    if cmd == 'ERRCLASSES':
        # the two exceptions are unrelated direct subclasses of Exception: neither can be caught as the other,
        # nor as ValueError / ArithmeticError / KeyError
        want = lambda c: (c, Exception, BaseException, object)   # noqa: E731
        for c in (DomainError, CoordinateMissing):
            if tuple(c.__mro__) != want(c):
                return 'bad: %s has the bases %s' % (c.__name__, [k.__name__ for k in c.__mro__[1:]])
        if smoothmath.DomainError is not DomainError or smoothmath.CoordinateMissing is not CoordinateMissing:
            return 'bad: the public names are other classes'
        return 'ok'
    if cmd == 'OBJEQ':
        # the last sentence of C06: Differential(e).component(v) == Partial(e, v) and
        # Differential(e).at(p) == LocatedDifferential(e, p), early or late, both ways round, with equal hashes
        v = int(ts[1])
        p, k = sx.parse_point(ts, 2)
        e, _ = sx.parse_expr(ts, k)
        o = build(e)
        name = sx.name_of(v)
        out = []

        def same(a, b_):
            r1, r2 = (a == b_), (b_ == a)
            if not isinstance(r1, bool) or not isinstance(r2, bool):
                return 'notbool'
            return 'true' if (r1 and r2 and hash(a) == hash(b_)) else 'false'

        def guarded(thunk):
            try:
                return ('OBJ', thunk())
            except DomainError:
                return ('DOMERR', None)
            except CoordinateMissing:
                return ('COORD', None)
            except RecursionError:
                return ('RECURSION', None)
            except Exception as ex:  # noqa: BLE001
                return ('PYERR:' + type(ex).__name__, None)

        loc = guarded(lambda: LocatedDifferential(o, mkpoint(p)))
        for early in (False, True):
            d = guarded(lambda: Differential(o, compute_early=early))
            if d[0] != 'OBJ':
                out.append('diff%d=%s' % (early, d[0]))
                continue
            for early2 in (False, True):
                q = guarded(lambda: Partial(o, name, compute_early=early2))
                c = guarded(lambda: d[1].component(name))
                if q[0] == 'OBJ' and c[0] == 'OBJ':
                    out.append('comp%d%d=%s' % (early, early2, same(c[1], q[1])))
                else:
                    out.append('comp%d%d=%s/%s' % (early, early2, c[0], q[0]))
            a = guarded(lambda: d[1].at(mkpoint(p)))
            if a[0] == 'OBJ' and loc[0] == 'OBJ':
                out.append('at%d=%s' % (early, same(a[1], loc[1])))
            else:
                out.append('at%d=%s/%s' % (early, a[0], loc[0]))
        return 'OBJEQ ' + ' '.join(out)
    if cmd == 'RTOBJ':
        # eval(repr(obj)) == obj for the object that the SHOW* command in the rest of the line prints
        sub = ts[1]
        if sub == 'SHOWPOINT':
            p, _ = sx.parse_point(ts, 2)
            o = mkpoint(p)
        elif sub == 'SHOWPARTIAL':
            e, _ = sx.parse_expr(ts, 3)
            o = Partial(build(e), sx.name_of(int(ts[2])))
        elif sub == 'SHOWDERIV':
            e, _ = sx.parse_expr(ts, 2)
            x = build(e)
            if len(x._variable_names) > 1:
                return 'SKIP'
            o = Derivative(x)
        elif sub == 'SHOWDIFF':
            e, _ = sx.parse_expr(ts, 2)
            o = Differential(build(e))
        elif sub == 'SHOWLOC':
            p, k = sx.parse_point(ts, 2)
            e, _ = sx.parse_expr(ts, k)
            try:
                o = LocatedDifferential(build(e), mkpoint(p))
            except (DomainError, CoordinateMissing):
                return 'SKIP'
            except (OverflowError, ValueError, ZeroDivisionError):
                return 'SKIP'      # an intermediate leaves the double range (cos(inf)): no object to print
        else:
            return 'ERROR RTOBJ ' + sub
        try:
            back = eval(repr(o), dict(PUBLIC))
        except Exception as ex:  # noqa: BLE001
            return 'false (%s while evaluating %s)' % (type(ex).__name__, repr(o)[:120])
        ok = back == o and o == back and not (back != o) and repr(back) == repr(o)
        return 'true' if ok else 'false (%s)' % repr(o)[:160]
    if cmd == 'PARSEBACK':
        e, _ = sx.parse_expr(ts, 1)
        o = build(e)
        back = eval(repr(o), dict(PUBLIC))
        return 'true' if (back == o and o == back and not (back != o)) else 'false'
    if cmd == 'OPPOW':
        x = X.Variable('v2')
        try:
            r = x ** py_arg(ts[1])
        except Exception:  # noqa: BLE001
            return 'RAISES'
        return 'OK ' + show_obj(r)
    if cmd == 'OPBIN':
        x = X.Variable('v2')
        out = []
        for f in (lambda a, b: a + b, lambda a, b: a - b):
            try:
                out.append('OK ' + show_obj(f(x, py_arg(ts[1]))))
            except Exception:  # noqa: BLE001
                out.append('RAISES')
        return ' | '.join(out)
    if cmd == 'MKNTH':
        ctor = X.NthPower if ts[1] == 'pow' else X.NthRoot
        try:
            r = ctor(py_arg(ts[2]), py_arg(ts[3]))
        except Exception:  # noqa: BLE001
            return 'RAISES'
        return 'OK ' + show_obj(r)
    if cmd == 'MKBASE':
        ctor = X.Exponential if ts[1] == 'exp' else X.Logarithm
        try:
            r = ctor(py_arg(ts[2]), py_arg(ts[3]))
        except Exception:  # noqa: BLE001
            return 'RAISES'
        return 'OK ' + show_obj(r)
    if cmd == 'MKVAR':
        a = ts[1]
        arg = {'str': 'v2', 'badstr': 'a-b', 'none': None}.get(a, None) if a in ('str', 'badstr', 'none') else (
            X.Variable('v3') if a == 'expr' else sx.parse_num(a))
        try:
            r = X.Variable(arg)
        except Exception:  # noqa: BLE001
            return 'RAISES'
        return 'OK ' + show_obj(r)
    if cmd in ('STEPCOUNT', 'STEPINFO'):
        e, _ = sx.parse_expr(ts, 1)
        obj = build(e)
        cur = obj
        last = from_obj(obj)
        last_s = sx.to_sx(last)
        seen = {last_s}
        forms = 1
        pysteps = 0
        revisit = False
        mudec = True
        try:
            last_mu = sx.mu(last)
        except sx.TooBig:
            last_mu = None
        while not cur._is_fully_reduced and pysteps < 300000:
            cur = cur._take_reduction_step()
            pysteps += 1
            t = from_obj(cur)
            s_ = sx.to_sx(t)
            if s_ != last_s:
                forms += 1
                if s_ in seen:
                    revisit = True
                seen.add(s_)
                try:
                    m_ = sx.mu(t) if last_mu is not None else None
                except sx.TooBig:
                    m_ = None
                if m_ is not None and last_mu is not None and not m_ < last_mu:
                    mudec = False
                last, last_s, last_mu = t, s_, m_
        if cmd == 'STEPCOUNT':
            return 'forms=%d final=%s' % (forms, last_s)
        CATCH.hit = False
        build(e)._normalize()
        return 'pysteps=%d forms=%d revisit=%s mudec=%s warn=%s size=%d' % (
            pysteps, forms, revisit, mudec, CATCH.hit, sx.size(e))
    if cmd == 'EQX':
        a, k = sx.parse_expr(ts, 1)
        c, k = sx.parse_expr(ts, k)
        g, _ = sx.parse_expr(ts, k)
        return eq_laws(build(a), build(c), build(g), build(a))
    if cmd == 'PEQX':
        p, k = sx.parse_point(ts, 1)
        q, _ = sx.parse_point(ts, k)
        return point_laws(p, q)
    if cmd == 'REPRINJ':
        a, k = sx.parse_expr(ts, 1)
        c, _ = sx.parse_expr(ts, k)
        oa, oc = build(a), build(c)
        if oa == oc:
            return 'same'
        if repr(oa) == repr(oc) or str(oa) == str(oc):
            return 'bad: %s prints like %s' % (sx.to_sx(a), sx.to_sx(c))
        pa, pc = Partial(oa, 'v2'), Partial(oc, 'v2')
        if repr(pa) == repr(pc) or repr(Differential(oa)) == repr(Differential(oc)):
            return 'bad: derivative objects of unequal expressions print identically'
        return 'ok'
    if cmd == 'LOCHASH':
        p, k = sx.parse_point(ts, 1)
        q, k = sx.parse_point(ts, k)
        e, _ = sx.parse_expr(ts, k)
        o = build(e)
        pp, qq = mkpoint(p), mkpoint(q)
        if not (pp == qq) or hash(pp) != hash(qq) or qq not in {pp} or {pp: 1}.get(qq) != 1:
            return 'bad: points written in a different coordinate order are different set members'
        try:
            l1, l2 = LocatedDifferential(o, pp), LocatedDifferential(build(e), qq)
        except (DomainError, CoordinateMissing, OverflowError):
            return 'ok'
        if not (l1 == l2) or hash(l1) != hash(l2) or l2 not in {l1} or {l1: 7}.get(l2) != 7:
            return 'bad: LocatedDifferentials at the same point (coordinates in a different order) are different set members'
        if str(l1._numeric_partials) != str({k_: l2._numeric_partials[k_] for k_ in l1._numeric_partials}):
            return 'bad: components differ'
        return 'ok'
    if cmd == 'NUMREPR':
        import random as _r
        rg = _r.Random(int(ts[1]))
        for _ in range(int(ts[2])):
            k_ = rg.random()
            if k_ < 0.3:
                x = rg.uniform(-1e6, 1e6)
            elif k_ < 0.5:
                x = rg.random() * 10.0 ** rg.randint(-300, 300)
            elif k_ < 0.7:
                x = struct_float(rg)
            elif k_ < 0.85:
                x = rg.randint(-10 ** 20, 10 ** 20)
            else:
                x = float(rg.randint(-10 ** 6, 10 ** 6))
            if isinstance(x, float) and not math.isfinite(x):
                continue
            c = X.Constant(x)
            back = eval(repr(c), dict(PUBLIC))
            if not (back == c and back.value == x and type(back.value) is type(x)):
                return 'bad: Constant(%r) reads back as %r' % (x, back)
            e_ = X.Exponential(X.Variable('v2'), base=abs(x) + 0.5) if isinstance(x, float) else None
            if e_ is not None and math.isfinite(abs(x) + 0.5):
                if not eval(repr(e_), dict(PUBLIC)) == e_:
                    return 'bad: %r does not read back' % (e_,)
        return 'ok'
    if cmd == 'NAMES':
        return names_check()
    if cmd == 'OPS':
        a, k = sx.parse_expr(ts, 1)
        c, _ = sx.parse_expr(ts, k)
        return ops_check(build(a), build(c))
    if cmd == 'CTOROPS':
        return ctor_ops_check()
    if cmd == 'VARS':
        e, _ = sx.parse_expr(ts, 1)
        return ' '.join(str(i) for i in sorted(sx.id_of(n) for n in build(e)._variable_names))
    if cmd == 'SIZE':
        e, _ = sx.parse_expr(ts, 1)
        return str(sx.size(e))
    if cmd == 'SETFUEL':
        return 'OK'
    if cmd == 'TRACE':
        return 'SKIP'
    return 'ERROR command ' + cmd


_run_line_inner = run_line


def bad_param(line):
    """BADPARAM <cls> <param> <x> <y>: a constructor call with a parameter outside the documented
    range.  'REJECT' when the constructor raises (what C16 demands); otherwise the object exists, and
    every route is driven on it: 'ACCEPTED route=KIND ...' (C17: no foreign exception may escape)."""
    ts = line.split()
    cls, par = ts[1], sx.parse_num(ts[2])
    xv, yv = sx.parse_num(ts[3]), sx.parse_num(ts[4])
    x, y = X.Variable(sx.name_of(2)), X.Variable(sx.name_of(3))
    inner = {'0': x, '1': X.Add(x, y), '2': X.Multiply(x, y)}[ts[5]] if len(ts) > 5 else x
    try:
        if cls in ('NthPow', 'NthRoot'):
            o = CTOR[cls](inner, par)
        else:
            o = CTOR[cls](inner, base=par)
    except Exception:  # noqa: BLE001
        return 'REJECT'
    outer = {'0': o, '1': X.Add(o, y), '2': X.Negation(o), '3': X.Minus(y, o)}[ts[6]] if len(ts) > 6 else o
    pt = Point(**{sx.name_of(2): xv, sx.name_of(3): yv})
    name = sx.name_of(2)
    routes = [
        ('at', lambda: outer.at(pt)),
        ('partial', lambda: Partial(outer, name).at(pt)),
        ('partial_early', lambda: Partial(outer, name, compute_early=True).at(pt)),
        ('located', lambda: LocatedDifferential(outer, pt).component(name)),
        ('diff', lambda: Differential(outer).at(pt).component(name)),
        ('diff_compat', lambda: Differential(outer).component_at(name, pt)),
        ('diff_early', lambda: Differential(outer, compute_early=True).at(pt).component(name)),
        ('as_expression', lambda: (Partial(outer, name).as_expression(), 0)[1]),
    ]
    out = []
    for nm, th in routes:
        r = outcome(th)
        out.append('%s=%s' % (nm, r.replace(' ', ':') if r.startswith('PYERR') else r.split(' ')[0]))
    return 'ACCEPTED ' + ' '.join(out)


def run_line(line):   # noqa: F811
    global FLOAT_N, WITH_MESSAGE, VAR_AS_OBJECT
    FLOAT_N = False
    WITH_MESSAGE = False
    VAR_AS_OBJECT = False
    if line.startswith('VO '):
        VAR_AS_OBJECT = True
        line = line[3:]
    if line.startswith('MSG '):
        WITH_MESSAGE = True
        line = line[4:]
    if line.startswith('NF '):
        FLOAT_N = True
        line = line[3:]
    try:
        if line.startswith('BADPARAM '):
            return bad_param(line)
        return _run_line_inner(line)
    except OverflowError:
        # only the step-driving commands let an exception escape: a folded constant left the double range
        return 'PYERR OverflowError'


class CaseTimeout(BaseException):
    """a single case ran longer than the per-case limit (not an Exception: the broad handlers
    around individual operations must not swallow it)"""


class CaseRange(BaseException):
    """the per-case limit expired INSIDE a function of math_functions.py: the only thing there that can take
    long is exact integer exponentiation (x ** n on Python ints), and a result that takes this long to
    compute has millions of digits, so the float() around it raises OverflowError as soon as it returns:
    an exact intermediate outside the double range, which every property excludes"""


EARLY = 5.0          # first look at the stack after this many seconds
_STAGE = {'second': False, 'rest': 0.0}


def _alarm(_sig, frm):
    f = frm
    while f is not None:
        if f.f_code.co_filename.endswith('math_functions.py'):
            raise CaseRange()
        f = f.f_back
    if not _STAGE['second'] and _STAGE['rest'] > 0:
        import signal as _signal
        _STAGE['second'] = True
        _signal.setitimer(_signal.ITIMER_REAL, _STAGE['rest'])
        return
    raise CaseTimeout()


def arm(limit):
    """two-stage alarm: after EARLY seconds look whether the time is going into exact integer arithmetic of
    math_functions (then it is a range case at once); otherwise let the case run up to the full limit"""
    import signal as _signal
    _STAGE['second'] = False
    _STAGE['rest'] = max(limit - EARLY, 0.0)
    _signal.setitimer(_signal.ITIMER_REAL, min(EARLY, limit))


def main():
    if os.environ.get('VERIF_RECLIMIT') != 'default':
        sys.setrecursionlimit(20000)      # 'default': the interpreter's own limit of 1000 frames, as a user has it
    pre = os.environ.get('VERIF_PRECREATE')
    if pre:
        import random as _r
        ids = list(range(2, 10))
        _r.Random(int(pre)).shuffle(ids)
        keep = [X.Variable(sx.name_of(i)) for i in ids]   # variables first created in a permuted order
        _ = keep
    out = sys.stdout
    import signal
    limit = float(os.environ.get('VERIF_CASE_TIMEOUT', '30'))
    signal.signal(signal.SIGALRM, _alarm)
    timeouts = 0
    import time as _time
    t_start = _time.time()
    budget = float(os.environ.get('VERIF_BATCH_BUDGET', '1500'))
    for line in sys.stdin:
        line = line.rstrip('\n')
        if _time.time() - t_start > budget:
            out.write('ERROR timeout: skipped, this batch used up its time budget of %.0f s (cases far slower than on the unchanged tree)\n' % budget)
            continue
        if timeouts >= 3:
            # do not let a non-terminating implementation stall the whole check
            out.write('ERROR timeout: skipped after %d cases of this batch ran into the per-case limit\n' % timeouts)
            continue
        t_case = _time.time()
        try:
            arm(limit)
            try:
                res = run_line(line)
            finally:
                signal.setitimer(signal.ITIMER_REAL, 0)
        except CaseRange:
            res = 'PYERR OverflowError'
            t_start += _time.time() - t_case      # does not count against the batch budget
        except CaseTimeout:
            timeouts += 1
            res = 'ERROR timeout: the case did not finish within %.0f s (non-termination or unbounded growth)' % limit
        except Exception as ex:  # noqa: BLE001
            res = 'ERROR runner %s: %s' % (type(ex).__name__, str(ex).replace('\n', ' ')[:200])
        if _time.time() - t_case > 3.0:
            try:
                with open(os.path.join(os.path.dirname(os.path.dirname(os.path.abspath(__file__))), '_work', 'slow_cases.log'), 'a') as _f:
                    _f.write('%.1f s\t%s\t%s\n' % (_time.time() - t_case, line[:400], res[:80]))
            except OSError:
                pass
        out.write(res + '\n')
    out.flush()


if __name__ == '__main__':
    main()
