"""Runs protocol cases on the real smoothmath (PYTHONPATH must point at /repo/src).

One case per input line, one canonical result line per case; same format as ocaml/driver.
Only the library's public API and the private methods named in DESIGN.md are called; every
case builds fresh objects, so cases are independent of each other.
"""
import sys
import os
import io
import logging
import math

sys.path.insert(0, os.path.dirname(os.path.abspath(__file__)))
import sx  # noqa: E402

import smoothmath  # noqa: E402
from smoothmath import (Point, Partial, Derivative, Differential, LocatedDifferential,  # noqa: E402
                        DomainError, CoordinateMissing)
import smoothmath.expression as X  # noqa: E402
import smoothmath._private.base_expression.expression as be  # noqa: E402

CTOR = {'Add': X.Add, 'Mul': X.Multiply, 'Minus': X.Minus, 'Divide': X.Divide, 'Power': X.Power,
        'Neg': X.Negation, 'Recip': X.Reciprocal, 'Sin': X.Sine, 'Cos': X.Cosine,
        'NthPow': X.NthPower, 'NthRoot': X.NthRoot, 'Exp': X.Exponential, 'Log': X.Logarithm}
HEAD = {v.__name__: k for k, v in CTOR.items()}


def build(e):
    h = e[0]
    if h == 'C':
        return X.Constant(e[1])
    if h == 'V':
        return X.Variable(sx.name_of(e[1]))
    if h in sx.NARY:
        return CTOR[h](*[build(a) for a in e[1]])
    if h in sx.BINARY:
        return CTOR[h](build(e[1]), build(e[2]))
    if h in sx.UNARY:
        return CTOR[h](build(e[1]))
    if h in sx.NPARAM:
        return CTOR[h](build(e[1]), e[2])
    if h in sx.BPARAM:
        return CTOR[h](build(e[1]), e[2])
    raise ValueError(h)


def from_obj(o):
    cn = o.__class__.__name__
    if cn == 'Constant':
        return ('C', o.value)
    if cn == 'Variable':
        return ('V', sx.id_of(o.name))
    h = HEAD[cn]
    if h in sx.NARY:
        return (h, [from_obj(a) for a in o._inners])
    if h in sx.BINARY:
        return (h, from_obj(o._left), from_obj(o._right))
    if h in sx.UNARY:
        return (h, from_obj(o._inner))
    if h in sx.NPARAM:
        return (h, from_obj(o._inner), o.n)
    return (h, from_obj(o._inner), o.base)


def show_obj(o):
    return sx.to_sx(from_obj(o))


def mkpoint(p):
    return Point(**{sx.name_of(i): v for i, v in p})


def show_val(v):
    if isinstance(v, (int, float)) and not isinstance(v, bool):
        return 'VAL ' + sx.num_sx(v)
    if isinstance(v, bool):
        return 'VAL ' + sx.num_sx(v)
    if isinstance(v, complex):
        return 'PYERR ComplexResult'
    return 'PYERR ResultType:' + type(v).__name__


def outcome(thunk, show=show_val):
    try:
        v = thunk()
    except DomainError:
        return 'DOMERR'
    except CoordinateMissing:
        return 'COORD'
    except RecursionError:
        return 'ERROR recursion'
    except Exception as ex:  # noqa: BLE001
        return 'PYERR ' + type(ex).__name__
    return show(v)


def show_partials_dict(d):
    items = sorted(((sx.id_of(k), v) for k, v in d.items()))
    for _, v in items:
        if not isinstance(v, (int, float)):
            return 'PYERR ResultType:' + type(v).__name__
    return 'VAL ' + ' '.join('%d=%s' % (i, sx.num_sx(v)) for i, v in items)


def show_located(ld):
    return show_partials_dict(ld._numeric_partials)


PUBLIC = {}
for _n in smoothmath.__all__:
    PUBLIC[_n] = getattr(smoothmath, _n)
for _n in X.__all__:
    PUBLIC[_n] = getattr(X, _n)


def py_arg(a):
    if a == 'str':
        return 'abc'
    if a == 'badstr':
        return 'a-b'
    if a == 'none':
        return None
    if a == 'expr':
        return X.Variable('v3')
    return sx.parse_num(a)


def repr_tokens(text):
    """Tokenise a printed form into the model's token text (see driver.ml show_token)."""
    import tokenize as _tk
    toks = []
    try:
        gen = list(_tk.generate_tokens(io.StringIO(text).readline))
    except Exception as ex:  # noqa: BLE001
        return 'ERROR tokenize ' + type(ex).__name__
    raw = [(t.type, t.string) for t in gen
           if t.type not in (_tk.NEWLINE, _tk.NL, _tk.ENDMARKER, _tk.INDENT, _tk.DEDENT)]
    i = 0
    out = []
    neg = False
    while i < len(raw):
        ty, st = raw[i]
        nxt = raw[i + 1][1] if i + 1 < len(raw) else ''
        if ty == _tk.NAME:
            if nxt == '=' and st not in ('n', 'base'):
                try:
                    out.append('"%d"' % sx.id_of(st))
                except ValueError:
                    out.append('"?%s"' % st)
            else:
                out.append(st)
        elif ty == _tk.STRING:
            body = st[1:-1]
            try:
                out.append('"%d"' % sx.id_of(body))
            except ValueError:
                out.append('"?%s"' % body)
        elif ty == _tk.NUMBER:
            prev_kw = out[-2] if len(out) >= 2 and out[-1] == '=' else None
            val = (-1 if neg else 1) * (int(st) if st.isdigit() else float(st))
            if st.isdigit() and neg:
                val = -int(st)
            neg = False
            if prev_kw == 'n' and isinstance(val, int) and val >= 1:
                out.append('p%d' % val)
            else:
                out.append(sx.num_sx(val))
        elif ty == _tk.OP and st == '-':
            neg = True
        elif ty == _tk.OP:
            out.append(st)
        else:
            out.append('?' + st)
        i += 1
    return ' '.join(out)


class WarnCatcher(logging.Handler):
    def __init__(self):
        super().__init__()
        self.hit = False

    def emit(self, record):
        if 'Unable to fully reduce' in record.getMessage():
            self.hit = True


CATCH = WarnCatcher()
logging.getLogger().addHandler(CATCH)
logging.getLogger().setLevel(logging.WARNING)
# keep stderr quiet
for _h in list(logging.getLogger().handlers):
    if _h is not CATCH:
        logging.getLogger().removeHandler(_h)

# ---- which rule fired: wrap the reducers from outside (no source change) ----
LAST = {'label': None}


def _install_rule_recorder():
    classes = [X.Add, X.Minus, X.Negation, X.Multiply, X.Divide, X.Reciprocal, X.Power,
               X.NthPower, X.NthRoot, X.Exponential, X.Logarithm, X.Cosine, X.Sine]
    for cls in classes:
        prop = cls.__dict__.get('_reducers')
        if prop is None or not isinstance(prop, property):
            continue
        orig_get = prop.fget

        def make(orig_get):
            def getter(self):
                out = []
                for red in orig_get(self):
                    def wrapped(red=red):
                        r = red()
                        if r is not None:
                            LAST['label'] = getattr(red, '__name__', 'unknown')
                        return r
                    out.append(wrapped)
                return out
            return getter
        setattr(cls, '_reducers', property(make(orig_get)))
    orig_cons = be.Expression._consolidate_expression_lacking_variables

    def cons(self):
        r = orig_cons(self)
        if r is not None:
            LAST['label'] = 'consolidate'
        return r
    be.Expression._consolidate_expression_lacking_variables = cons


_install_rule_recorder()


def one_form_step(obj):
    """Drive _take_reduction_step until the form changes (skipping marking steps).
    Returns (label, new_obj) or None when the object is rule-free."""
    before = show_obj(obj)
    cur = obj
    for _ in range(100000):
        if cur._is_fully_reduced:
            return None
        LAST['label'] = None
        nxt = cur._take_reduction_step()
        after = show_obj(nxt)
        if after != before or LAST['label'] is not None:
            return (LAST['label'] or 'unknown', nxt)
        cur = nxt
    return ('ERROR nostep', cur)


def do_norm(obj):
    CATCH.hit = False
    r = obj._normalize()
    if CATCH.hit:
        return 'WARN ' + show_obj(r)
    return show_obj(r)


def as_expr_checked(thunk):
    CATCH.hit = False
    r = thunk()
    return r, CATCH.hit


def run_line(line):
    ts = sx.tokenize(line)
    if not ts:
        return ''
    cmd = ts[0]
    if cmd == 'EVAL':
        p, k = sx.parse_point(ts, 1)
        e, _ = sx.parse_expr(ts, k)
        o = build(e)
        return outcome(lambda: o.at(mkpoint(p)))
    if cmd == 'ATNUM':
        x = sx.parse_num(ts[1])
        e, _ = sx.parse_expr(ts, 2)
        o = build(e)
        if len(o._variable_names) > 1:
            try:
                o.at(x)
            except (DomainError, CoordinateMissing):
                return 'ERROR accepted'
            except Exception:  # noqa: BLE001
                return 'REJECT'
            return 'ERROR accepted'
        return outcome(lambda: o.at(x))
    if cmd == 'FWD':
        v = int(ts[1])
        p, k = sx.parse_point(ts, 2)
        e, _ = sx.parse_expr(ts, k)
        o = build(e)
        return outcome(lambda: Partial(o, sx.name_of(v)).at(mkpoint(p)))
    if cmd == 'REV':
        p, k = sx.parse_point(ts, 1)
        e, _ = sx.parse_expr(ts, k)
        o = build(e)
        return outcome(lambda: LocatedDifferential(o, mkpoint(p)), show_located)
    if cmd == 'DIFFAT':
        p, k = sx.parse_point(ts, 1)
        e, _ = sx.parse_expr(ts, k)
        o = build(e)
        return outcome(lambda: Differential(o).at(mkpoint(p)), show_located)
    if cmd in ('DERIV', 'DERIVNUM'):
        if cmd == 'DERIV':
            p, k = sx.parse_point(ts, 1)
            arg = mkpoint(p)
        else:
            arg = sx.parse_num(ts[1])
            k = 2
        e, _ = sx.parse_expr(ts, k)
        o = build(e)
        try:
            d = Derivative(o)
        except (DomainError, CoordinateMissing):
            return 'ERROR ctor'
        except Exception:  # noqa: BLE001
            return 'REJECT'
        return outcome(lambda: d.at(arg))
    if cmd == 'SYNFWD':
        v = int(ts[1])
        e, _ = sx.parse_expr(ts, 2)
        return show_obj(build(e)._synthetic_partial(sx.name_of(v)))
    if cmd == 'SYNREV':
        e, _ = sx.parse_expr(ts, 1)
        d = build(e)._synthetic_partials()
        items = sorted((sx.id_of(k), v) for k, v in d.items())
        return ' '.join('%d=%s' % (i, show_obj(v)) for i, v in items)
    if cmd == 'STEP':
        e, _ = sx.parse_expr(ts, 1)
        r = one_form_step(build(e))
        if r is None:
            return 'NONE'
        return '%s %s' % (r[0], show_obj(r[1]))
    if cmd == 'REDUCE':
        e, _ = sx.parse_expr(ts, 1)
        CATCH.hit = False
        r = build(e)._fully_reduce()
        return ('WARN ' if CATCH.hit else '') + show_obj(r)
    if cmd == 'NORM':
        e, _ = sx.parse_expr(ts, 1)
        return do_norm(build(e))
    if cmd == 'PEXPR':
        v = int(ts[1])
        e, _ = sx.parse_expr(ts, 2)
        o = build(e)
        r, warned = as_expr_checked(lambda: Partial(o, sx.name_of(v)).as_expression())
        return ('WARN ' if warned else '') + show_obj(r)
    if cmd == 'PEARLY':
        v = int(ts[1])
        p, k = sx.parse_point(ts, 2)
        e, _ = sx.parse_expr(ts, k)
        o = build(e)
        CATCH.hit = False
        res = outcome(lambda: Partial(o, sx.name_of(v), compute_early=True).at(mkpoint(p)))
        return ('WARN ' if CATCH.hit else '') + res
    if cmd == 'DEXPR':
        v = int(ts[1])
        e, _ = sx.parse_expr(ts, 2)
        o = build(e)
        r, warned = as_expr_checked(
            lambda: Differential(o, compute_early=True).component(sx.name_of(v)).as_expression())
        return ('WARN ' if warned else '') + show_obj(r)
    if cmd == 'DEARLYAT':
        v = int(ts[1])
        p, k = sx.parse_point(ts, 2)
        e, _ = sx.parse_expr(ts, k)
        o = build(e)
        CATCH.hit = False
        res = outcome(lambda: Differential(o, compute_early=True).component_at(sx.name_of(v), mkpoint(p)))
        return ('WARN ' if CATCH.hit else '') + res
    if cmd == 'DEARLYALL':
        p, k = sx.parse_point(ts, 1)
        e, _ = sx.parse_expr(ts, k)
        o = build(e)
        CATCH.hit = False
        res = outcome(lambda: Differential(o, compute_early=True).at(mkpoint(p)), show_located)
        return ('WARN ' if CATCH.hit else '') + res
    if cmd in ('NTRACE', 'PTRACE', 'DTRACE'):
        return 'SKIP'
    if cmd == 'EQ':
        a, k = sx.parse_expr(ts, 1)
        b, _ = sx.parse_expr(ts, k)
        oa, ob = build(a), build(b)
        r = (oa == ob)
        if not isinstance(r, bool):
            return 'ERROR eq-not-bool'
        return 'true' if r else 'false'
    if cmd == 'PEQ':
        p, k = sx.parse_point(ts, 1)
        q, _ = sx.parse_point(ts, k)
        r = (mkpoint(p) == mkpoint(q))
        return 'true' if r else 'false'
    if cmd == 'SHOW':
        e, _ = sx.parse_expr(ts, 1)
        o = build(e)
        t1, t2 = repr_tokens(repr(o)), repr_tokens(str(o))
        return t1 if t1 == t2 else 'ERROR repr!=str'
    if cmd == 'SHOWPOINT':
        p, _ = sx.parse_point(ts, 1)
        return repr_tokens(repr(mkpoint(p)))
    if cmd == 'SHOWPARTIAL':
        v = int(ts[1])
        e, _ = sx.parse_expr(ts, 2)
        return repr_tokens(repr(Partial(build(e), sx.name_of(v))))
    if cmd == 'SHOWDERIV':
        e, _ = sx.parse_expr(ts, 1)
        o = build(e)
        if len(o._variable_names) > 1:
            return 'REJECT'
        return repr_tokens(repr(Derivative(o)))
    if cmd == 'SHOWDIFF':
        e, _ = sx.parse_expr(ts, 1)
        return repr_tokens(repr(Differential(build(e))))
    if cmd == 'SHOWLOC':
        p, k = sx.parse_point(ts, 1)
        e, _ = sx.parse_expr(ts, k)
        o = build(e)
        try:
            ld = LocatedDifferential(o, mkpoint(p))
        except (DomainError, CoordinateMissing):
            return 'SKIP'
        return repr_tokens(repr(ld))
    if cmd == 'PARSEBACK':
        e, _ = sx.parse_expr(ts, 1)
        o = build(e)
        back = eval(repr(o), dict(PUBLIC))
        return 'true' if (back == o and o == back and not (back != o)) else 'false'
    if cmd == 'OPPOW':
        x = X.Variable('v2')
        try:
            r = x ** py_arg(ts[1])
        except Exception:  # noqa: BLE001
            return 'RAISES'
        return 'OK ' + show_obj(r)
    if cmd == 'OPBIN':
        x = X.Variable('v2')
        out = []
        for f in (lambda a, b: a + b, lambda a, b: a - b):
            try:
                out.append('OK ' + show_obj(f(x, py_arg(ts[1]))))
            except Exception:  # noqa: BLE001
                out.append('RAISES')
        return ' | '.join(out)
    if cmd == 'MKNTH':
        ctor = X.NthPower if ts[1] == 'pow' else X.NthRoot
        try:
            r = ctor(py_arg(ts[2]), py_arg(ts[3]))
        except Exception:  # noqa: BLE001
            return 'RAISES'
        return 'OK ' + show_obj(r)
    if cmd == 'MKBASE':
        ctor = X.Exponential if ts[1] == 'exp' else X.Logarithm
        try:
            r = ctor(py_arg(ts[2]), py_arg(ts[3]))
        except Exception:  # noqa: BLE001
            return 'RAISES'
        return 'OK ' + show_obj(r)
    if cmd == 'MKVAR':
        a = ts[1]
        arg = {'str': 'v2', 'badstr': 'a-b', 'none': None}.get(a, None) if a in ('str', 'badstr', 'none') else (
            X.Variable('v3') if a == 'expr' else sx.parse_num(a))
        try:
            r = X.Variable(arg)
        except Exception:  # noqa: BLE001
            return 'RAISES'
        return 'OK ' + show_obj(r)
    if cmd == 'VARS':
        e, _ = sx.parse_expr(ts, 1)
        return ' '.join(str(i) for i in sorted(sx.id_of(n) for n in build(e)._variable_names))
    if cmd == 'SIZE':
        e, _ = sx.parse_expr(ts, 1)
        return str(sx.size(e))
    if cmd == 'SETFUEL':
        return 'OK'
    if cmd == 'TRACE':
        return 'SKIP'
    return 'ERROR command ' + cmd


def main():
    sys.setrecursionlimit(20000)
    out = sys.stdout
    for line in sys.stdin:
        line = line.rstrip('\n')
        try:
            res = run_line(line)
        except Exception as ex:  # noqa: BLE001
            res = 'ERROR runner %s: %s' % (type(ex).__name__, str(ex).replace('\n', ' ')[:200])
        out.write(res + '\n')
    out.flush()


if __name__ == '__main__':
    main()
