"""Runs operation histories on the real smoothmath over pools of expressions that share
sub-expression OBJECTS (PYTHONPATH must point at /repo/src).

Input: one JSON history per line  {"pool": [sx with (REF k)], "points": [point_sx], "ops": [[...], ...]}
Output: one JSON line per history {"outs": [...], "fresh": [...mismatches], "mutations": [...], "final": [...]}

 * outs[i]      canonical outcome of operation i on the used objects
 * fresh        operations whose outcome differs from the outcome on freshly built, never-used
                copies (same sharing pattern; only the operations on the same derivative-object
                slot are replayed before it)                                   -> C09 oracle
 * mutations    operations after which the STRUCTURE of any pre-existing object (pool expression,
                point, derivative object, expression returned earlier) differs from its structure
                at creation; memo fields are not structure                      -> C10 oracle
 * final        pool objects that no longer compare equal to / print as a fresh copy
"""
import sys
import os
import json

sys.path.insert(0, os.path.dirname(os.path.abspath(__file__)))
import sx  # noqa: E402
import impl_runner as ir  # noqa: E402
from impl_runner import (X, Point, Partial, Derivative, Differential, LocatedDifferential,  # noqa: E402
                         outcome, show_obj, show_located, mkpoint, CATCH, DomainError, CoordinateMissing)

MEMO = ('_value', '_is_fully_reduced', '_evaluation_failed', '_synthetic_partial', '_synthetic_partials')


def parse_pool_expr(ts, k, pool):
    """like sx.parse_expr but (REF j) denotes the object pool[j]; returns (object, k)"""
    if ts[k] != '(':
        raise ValueError('expr')
    h = ts[k + 1]
    k += 2
    if h == 'REF':
        o = pool[int(ts[k])]
        k += 1
    elif h == 'C':
        o = X.Constant(sx.parse_num(ts[k]))
        k += 1
    elif h == 'V':
        o = X.Variable(sx.name_of(int(ts[k])))
        k += 1
    elif h in sx.NARY:
        l = []
        while ts[k] != ')':
            a, k = parse_pool_expr(ts, k, pool)
            l.append(a)
        o = ir.CTOR[h](*l)
    elif h in sx.BINARY:
        a, k = parse_pool_expr(ts, k, pool)
        c, k = parse_pool_expr(ts, k, pool)
        o = ir.CTOR[h](a, c)
    elif h in sx.UNARY:
        a, k = parse_pool_expr(ts, k, pool)
        o = ir.CTOR[h](a)
    elif h in sx.NPARAM:
        a, k = parse_pool_expr(ts, k, pool)
        o = ir.CTOR[h](a, int(ts[k]))
        k += 1
    elif h in sx.BPARAM:
        a, k = parse_pool_expr(ts, k, pool)
        o = ir.CTOR[h](a, sx.parse_num(ts[k]))
        k += 1
    else:
        raise ValueError('head ' + h)
    if ts[k] != ')':
        raise ValueError(')')
    return o, k + 1


def build_pool(specs):
    pool = []
    for s in specs:
        o, _ = parse_pool_expr(sx.tokenize(s), 0, pool)
        pool.append(o)
    return pool


def build_points(specs, exotic=None):
    """exotic: {point index: {variable id: ['F', num, den] | ['D', text]}}: coordinates that are real numbers of a
    type other than int / float (fractions.Fraction, decimal.Decimal), which the Point documentation admits"""
    from fractions import Fraction
    from decimal import Decimal
    pts = []
    for j, s in enumerate(specs):
        p, _ = sx.parse_point(sx.tokenize(s))
        ov = (exotic or {}).get(str(j), {})
        p = [(i, (Fraction(ov[str(i)][1], ov[str(i)][2]) if ov[str(i)][0] == 'F' else Decimal(ov[str(i)][1])) if str(i) in ov else v)
             for i, v in p]
        pts.append(mkpoint(p))
    return pts


def structure(o, seen=None):
    """structural snapshot with object identities; memo fields excluded"""
    if seen is None:
        seen = {}
    if id(o) in seen:
        return ('seen', id(o))
    cn = o.__class__.__name__
    if isinstance(o, Point):
        return ('Point', id(o), id(o._coordinates), tuple((k, repr(v)) for k, v in o._coordinates.items()))
    if isinstance(o, Partial):
        return ('Partial', id(o), id(o._original_expression), o._variable_name)
    if isinstance(o, Derivative):
        return ('Derivative', id(o), id(o._original_expression), o._variable_name, id(o._partial))
    if isinstance(o, Differential):
        return ('Differential', id(o), id(o._original_expression))
    if isinstance(o, LocatedDifferential):
        return ('LocatedDifferential', id(o), id(o._original_expression), id(o._point),
                tuple(sorted((k, repr(v)) for k, v in o._numeric_partials.items())))
    seen[id(o)] = True
    extra = tuple(sorted((k, repr(v)) for k, v in vars(o).items()
                         if k not in MEMO and k not in ('_inner', '_left', '_right', '_inners')))
    if cn == 'Constant' or cn == 'Variable':
        return (cn, id(o), extra)
    if hasattr(o, '_inners'):
        return (cn, id(o), extra, id(o._inners), tuple(structure(c, seen) for c in o._inners))
    if hasattr(o, '_left'):
        return (cn, id(o), extra, structure(o._left, seen), structure(o._right, seen))
    return (cn, id(o), extra, structure(o._inner, seen))


def occurring_names(o, seen=None):
    """the names of the Variable leaves below o (by walking the tree, not by reading _variable_names)"""
    if seen is None:
        seen = set()
    out = set()
    stack = [o]
    while stack:
        x = stack.pop()
        if id(x) in seen:
            continue
        seen.add(id(x))
        if x.__class__.__name__ == 'Variable':
            out.add(x.name)
        elif hasattr(x, '_inners'):
            stack.extend(x._inners)
        elif hasattr(x, '_left'):
            stack.extend([x._left, x._right])
        elif hasattr(x, '_inner'):
            stack.append(x._inner)
    return out


class World:
    def __init__(self, h):
        self.pool = build_pool(h['pool'])
        self.points = build_points(h['points'], h.get('exotic'))
        self.slots = {}
        self.results = {}

    def do(self, op):
        k = op[0]
        P, pts, S = self.pool, self.points, self.slots
        CATCH.hit = False
        if k == 'at':
            return outcome(lambda: P[op[1]].at(pts[op[2]]))
        if k == 'atnum':
            return outcome(lambda: P[op[1]].at(sx.parse_num(op[2])))
        if k == 'located':
            return outcome(lambda: LocatedDifferential(P[op[1]], pts[op[2]]), show_located)
        if k == 'norm':
            r = P[op[1]]._normalize()
            self.results[('norm', len(self.results))] = r
            return ('WARN ' if CATCH.hit else '') + show_obj(r)
        if k == 'reuse':
            # an expression the library RETURNED earlier (as_expression, component, _normalize) becomes an operand of a
            # new expression, which is simplified, differentiated and evaluated; the same is done with the same
            # expression built from constructors only: an expression is what it is, wherever its nodes came from
            rs = list(self.results.values())
            if not rs:
                return 'NOSLOT'
            R, a, name, q = rs[op[1] % len(rs)], P[op[3]], sx.name_of(op[4]), pts[op[5]]

            def mk(r_, a_):
                sh = op[2]
                if sh == 0:
                    return X.Divide(a_, r_)
                if sh == 1:
                    return X.Minus(a_, X.Divide(a_, r_))          # a Newton step
                if sh == 2:
                    return X.Multiply(r_, a_, r_)
                if sh == 3:
                    return X.Add(r_, X.Negation(a_), r_)
                if sh == 4:
                    return X.Power(r_, a_)
                if sh == 5:
                    return X.Sine(r_)
                return X.NthPower(X.Add(r_, a_), 2)

            def answers(new):
                CATCH.hit = False
                out = [show_obj(new._normalize()),
                       outcome(lambda: Partial(new, name, compute_early=True).at(q)),
                       outcome(lambda: new.at(q)),
                       outcome(lambda: Partial(new, name).at(q))]
                return out, CATCH.hit
            try:
                used, w1 = answers(mk(R, a))
                rebuilt, w2 = answers(mk(ir.build(ir.from_obj(R)), ir.build(ir.from_obj(a))))
            except OverflowError:
                return 'RANGE'
            if w1 or w2:
                return 'BUDGET'
            if used != rebuilt:
                k_ = [i_ for i_ in range(4) if used[i_] != rebuilt[i_]][0]
                return 'PROVENANCE %s: with the returned object %s | built from constructors %s' % (
                    ('normal form', 'early partial', 'value', 'late partial')[k_], used[k_][:160], rebuilt[k_][:160])
            return 'REUSED ' + used[2]
        if k == 'mkpartial':
            S[op[1]] = Partial(P[op[2]], sx.name_of(op[3]), compute_early=bool(op[4]))
            return 'OK'
        if k == 'mkpartialobj':     # the variable given as a Variable object
            S[op[1]] = Partial(P[op[2]], X.Variable(sx.name_of(op[3])), compute_early=bool(op[4]))
            return 'OK'
        if k == 'mkderiv':
            try:
                S[op[1]] = Derivative(P[op[2]], compute_early=bool(op[3]))
            except Exception:  # noqa: BLE001
                S[op[1]] = None
                return 'REJECT'
            return 'OK'
        if k == 'mkdiff':
            S[op[1]] = Differential(P[op[2]], compute_early=bool(op[3]))
            return 'OK'
        if k in ('pat', 'dat'):
            o = S.get(op[1])
            if o is None:
                return 'NOSLOT'
            return ('WARN ' if CATCH.hit else '') + outcome(lambda: o.at(pts[op[2]]))
        if k == 'datnum':
            o = S.get(op[1])
            if o is None:
                return 'NOSLOT'
            return outcome(lambda: o.at(sx.parse_num(op[2])))
        if k in ('pexpr', 'dexpr'):
            o = S.get(op[1])
            if o is None:
                return 'NOSLOT'
            r = o.as_expression()
            self.results[(op[1], len(self.results))] = r
            return ('WARN ' if CATCH.hit else '') + show_obj(r)
        if k == 'dfat':
            o = S.get(op[1])
            if o is None:
                return 'NOSLOT'
            return outcome(lambda: o.at(pts[op[2]]), show_located)
        if k == 'dfcompat':
            o = S.get(op[1])
            if o is None:
                return 'NOSLOT'
            return outcome(lambda: o.component_at(sx.name_of(op[2]), pts[op[3]]))
        if k == 'dfcompexpr':
            o = S.get(op[1])
            if o is None:
                return 'NOSLOT'
            r = o.component(sx.name_of(op[2])).as_expression()
            self.results[(op[1], len(self.results))] = r
            return ('WARN ' if CATCH.hit else '') + show_obj(r)
        return 'ERROR op ' + str(k)

    def everything(self):
        objs = list(self.pool) + list(self.points) + [s for s in self.slots.values() if s is not None]
        objs += list(self.results.values())
        return objs


_MODULE_SNAPSHOT = {}


def _library_namespaces():
    out = []
    for name, mod in list(sys.modules.items()):
        if name == 'smoothmath' or name.startswith('smoothmath.'):
            out.append((name, vars(mod)))
            for k, v in list(vars(mod).items()):
                if isinstance(v, type) and getattr(v, '__module__', '').startswith('smoothmath'):
                    out.append((name + '.' + k, dict(vars(v))))
    return out


def snapshot_module_state():
    """remember the contents of every module-level / class-level container of the library as they are after import"""
    import copy
    for ns_name, ns in _library_namespaces():
        for k, v in list(ns.items()):
            if k.startswith('__'):
                continue
            if isinstance(v, (dict, list, set)):
                try:
                    _MODULE_SNAPSHOT[(ns_name, k)] = (v, copy.copy(v))
                except Exception:  # noqa: BLE001
                    pass


def reset_module_state():
    """empty every functools cache of the library and put module-level / class-level containers back to their
    import-time contents: afterwards the process knows nothing about earlier operations"""
    for _ns_name, ns in _library_namespaces():
        for _k, v in list(ns.items()):
            f = getattr(v, 'cache_clear', None)
            if callable(f):
                try:
                    f()
                except Exception:  # noqa: BLE001
                    pass
    for (_ns, _k), (live, saved) in _MODULE_SNAPSHOT.items():
        try:
            if isinstance(live, dict):
                live.clear()
                live.update(saved)
            elif isinstance(live, list):
                live[:] = saved
            elif isinstance(live, set):
                live.clear()
                live.update(saved)
        except Exception:  # noqa: BLE001
            pass


def slot_of(op):
    return op[1] if op[0] in ('mkpartial', 'mkpartialobj', 'mkderiv', 'mkdiff', 'pat', 'dat', 'datnum', 'pexpr',
                              'dexpr', 'dfat', 'dfcompat', 'dfcompexpr') else None


def run_history(h, fresh_oracle=True):
    w = World(h)
    outs, fresh, mutations = [], [], []
    snaps = {}
    for o in w.everything():
        snaps[id(o)] = (o, structure(o))
    for i, op in enumerate(h['ops']):
        try:
            r = w.do(op)
        except Exception as ex:  # noqa: BLE001
            r = 'PYERR ' + type(ex).__name__
        outs.append(r)
        # C10 monitor
        for key, (o, st) in list(snaps.items()):
            now = structure(o)
            if now != st:
                mutations.append({'op': i, 'object': o.__class__.__name__, 'before': repr(st)[:300], 'after': repr(now)[:300]})
                snaps[key] = (o, now)
        for o in w.everything():
            if id(o) not in snaps:
                snaps[id(o)] = (o, structure(o))
    # C09 oracle, after the used run is complete: every answer against the answer of never-used copies (only the
    # earlier operations on the same derivative object are replayed), each time from a process state in which every
    # module-level memo of the library has been emptied (a memo keyed by ==, say, survives across objects)
    if fresh_oracle:
        for i, op in enumerate(h['ops']):
            r = outs[i]
            if r.startswith(('OK', 'NOSLOT')) or op[0] == 'reuse':     # a reuse operation carries its own comparison
                continue
            reset_module_state()
            w2 = World(h)
            s = slot_of(op)
            r2 = None
            try:
                if s is not None:
                    # a Partial / Derivative switches to its symbolic path at its first as_expression(): the earlier
                    # operations on the same object are part of what the object IS.  A Differential has no such
                    # switch (component() hands out a new Partial every time): only its construction is replayed
                    only_mk = op[0] in ('dfat', 'dfcompat', 'dfcompexpr')
                    for prev in h['ops'][:i]:
                        if slot_of(prev) == s and (not only_mk or prev[0] == 'mkdiff'):
                            try:
                                w2.do(prev)
                            except Exception:  # noqa: BLE001
                                pass            # as in the used run, where every operation is attempted on its own
                r2 = w2.do(op)
            except Exception as ex:  # noqa: BLE001
                r2 = 'PYERR ' + type(ex).__name__
            if r2 != r:
                fresh.append({'op': i, 'used': r, 'fresh': r2})
    final = []
    w3 = World(h)
    for j, (a, c) in enumerate(zip(w.pool, w3.pool)):
        try:
            if not (a == c) or repr(a) != repr(c) or str(a) != str(c):
                final.append({'pool': j, 'used': repr(a)[:200], 'fresh': repr(c)[:200]})
        except Exception as ex:  # noqa: BLE001
            final.append({'pool': j, 'error': type(ex).__name__})
    for j, a in enumerate(w.pool):
        try:
            occurring = sorted(occurring_names(a))
            if sorted(a._variable_names) != occurring:
                final.append({'pool': j, 'variable_names': sorted(a._variable_names), 'occurring': occurring})
        except Exception as ex:  # noqa: BLE001
            final.append({'pool': j, 'error': 'variable names: ' + type(ex).__name__})
    for j, (a, c) in enumerate(zip(w.points, w3.points)):
        if not (a == c) or repr(a) != repr(c):
            final.append({'point': j, 'used': repr(a), 'fresh': repr(c)})
    # ... and evaluates like a fresh copy (C10's wording), at every point of the history
    def _ev(o, q):
        try:
            return repr(o.at(q))
        except DomainError:
            return 'DOMERR'
        except CoordinateMissing:
            return 'COORD'
        except Exception as ex:  # noqa: BLE001
            return 'PYERR ' + type(ex).__name__
    for j, (a, c) in enumerate(zip(w.pool, w3.pool)):
        for k, q in enumerate(w3.points):
            ra, rc = _ev(a, q), _ev(c, q)
            if ra != rc:
                final.append({'pool': j, 'at_point': k, 'used_value': ra, 'fresh_value': rc})
                break
    # ... and so does every derivative object: a used Partial / Derivative / Differential answers at(q) with the same
    # KIND of outcome (a number, DomainError, CoordinateMissing) as a freshly built copy brought to the same
    # symbolic state (values are compared elsewhere: the late numeric and the symbolic path differ by rounding)
    def _kind(o, q):
        try:
            o.at(q)
            return 'VAL'
        except DomainError:
            return 'DOMERR'
        except CoordinateMissing:
            return 'COORD'
        except Exception as ex:  # noqa: BLE001
            return 'PYERR ' + type(ex).__name__
    def _kind_ca(o, vn, q):
        try:
            o.component_at(vn, q)
            return 'VAL'
        except DomainError:
            return 'DOMERR'
        except CoordinateMissing:
            return 'COORD'
        except Exception as ex:  # noqa: BLE001
            return 'PYERR ' + type(ex).__name__

    def _fresh_copy(sname, like):
        """a never-used copy of the derivative object in slot [sname], in the same symbolic state as [like]"""
        wf = World(h)
        for op in h['ops']:
            if op[0] in ('mkpartial', 'mkpartialobj', 'mkderiv', 'mkdiff') and op[1] == sname:
                wf.do(op)
        copy = wf.slots.get(sname)
        if copy is None:
            return None, wf
        part_u = like._partial if isinstance(like, Derivative) else like
        part_c = copy._partial if isinstance(copy, Derivative) else copy
        if isinstance(part_u, Partial) and part_u._synthetic_partial is not None and part_c._synthetic_partial is None:
            CATCH.hit = False
            part_c.as_expression()
            if CATCH.hit:
                return None, wf          # the step budget was hit: KF-BUDGET territory, judged by C09
        return copy, wf
    try:
        for sname, used in w.slots.items():
            if used is None:
                continue
            found = False
            npts = len(w.points)
            for kp in range(npts):
                for k in range(npts):
                    _kind(used, w.points[kp])     # whatever was asked before (here: the same object at another point) ...
                    ku = _kind(used, w.points[k])
                    copy, wf = _fresh_copy(sname, used)
                    if copy is None:
                        continue
                    kc = _kind(copy, wf.points[k])   # ... the answer at this point is that of a never-used copy
                    if ku == kc and isinstance(used, Differential):
                        # ... and so is every component asked through component_at
                        for vn in sorted(used._original_expression._variable_names) + ['v9']:
                            _kind_ca(used, vn, w.points[kp])
                            ku = _kind_ca(used, vn, w.points[k])
                            copy, wf = _fresh_copy(sname, used)
                            kc = _kind_ca(copy, vn, wf.points[k])
                            if ku != kc:
                                break
                    if ku != kc and not ku.startswith('PYERR') and not kc.startswith('PYERR'):
                        final.append({'slot': sname, 'after_point': kp, 'at_point': k, 'used_object': ku, 'fresh_copy': kc})
                        found = True
                        break
                if found:
                    break
    except OverflowError:
        pass
    return {'outs': outs, 'fresh': fresh, 'mutations': mutations, 'final': final}


class CaseTimeout(BaseException):
    """a single history ran longer than the per-case limit (not an Exception, so that the broad
    handlers around individual operations cannot swallow it)"""


class CaseRange(BaseException):
    """the per-case limit expired INSIDE a function of math_functions.py: the only thing there that can take
    long is exact integer exponentiation (x ** n on Python ints), and a result that takes this long to
    compute has millions of digits, so the float() around it raises OverflowError as soon as it returns:
    an exact intermediate outside the double range, which every property excludes"""


EARLY = 5.0          # first look at the stack after this many seconds
_STAGE = {'second': False, 'rest': 0.0}


def _alarm(_sig, frm):
    f = frm
    while f is not None:
        if f.f_code.co_filename.endswith('math_functions.py'):
            raise CaseRange()
        f = f.f_back
    if not _STAGE['second'] and _STAGE['rest'] > 0:
        import signal as _signal
        _STAGE['second'] = True
        _signal.setitimer(_signal.ITIMER_REAL, _STAGE['rest'])
        return
    raise CaseTimeout()


def arm(limit):
    """two-stage alarm: after EARLY seconds look whether the time is going into exact integer arithmetic of
    math_functions (then it is a range case at once); otherwise let the case run up to the full limit"""
    import signal as _signal
    _STAGE['second'] = False
    _STAGE['rest'] = max(limit - EARLY, 0.0)
    _signal.setitimer(_signal.ITIMER_REAL, min(EARLY, limit))


def main():
    import signal
    sys.setrecursionlimit(20000)
    snapshot_module_state()
    limit = float(os.environ.get('VERIF_CASE_TIMEOUT', '30'))
    signal.signal(signal.SIGALRM, _alarm)
    timeouts = 0
    import time as _time
    t_start = _time.time()
    budget = float(os.environ.get('VERIF_BATCH_BUDGET', '1500'))
    for line in sys.stdin:
        line = line.strip()
        if not line:
            print('{}')
            continue
        if _time.time() - t_start > budget:
            print(json.dumps({'error': 'timeout: skipped, this batch used up its time budget of %.0f s' % budget}))
            continue
        if timeouts >= 3:
            print(json.dumps({'error': 'timeout: skipped after %d histories of this batch ran into the per-case limit' % timeouts}))
            continue
        t_case = _time.time()
        try:
            h = json.loads(line)
            arm(limit)
            try:
                res = run_history(h, fresh_oracle=h.get('fresh_oracle', True))
            finally:
                signal.setitimer(signal.ITIMER_REAL, 0)
        except CaseRange:
            res = {'range': 'exact integer arithmetic outside the double range exceeded the per-case limit'}
            t_start += _time.time() - t_case
        except CaseTimeout:
            timeouts += 1
            res = {'error': 'timeout: the history did not finish within %.0f s (non-termination or unbounded growth)' % limit}
        except Exception as ex:  # noqa: BLE001
            res = {'error': '%s: %s' % (type(ex).__name__, str(ex)[:300])}
        print(json.dumps(res))
    sys.stdout.flush()


if __name__ == '__main__':
    main()
