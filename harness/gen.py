"""Seeded generators of expressions, points, rule patterns, chains and boundary points.
Every random choice comes from the one random.Random handed in."""
import math
import random
import itertools

import sx

E = math.e
N_POOL = [1, 2, 3, 4, 5, 6, 7, 12]
EXP_BASES = [E, E, 2, 10, 0.5, 1, 3.0, 2.0, 1.5]
LOG_BASES = [E, E, 2, 10, 0.5, 3.0, 2.0, 1.5]
INT_CONSTS = [0, 1, -1, 2, 3, -2, 5, 7, -3]
FLT_CONSTS = [0.0, 1.0, -1.0, 0.5, 2.0, -0.5, 1.5, 2.5, -0.25, 3.0, 0.125, E]
GRID = [-2, -1, -0.5, 0, 0.5, 1, 2, 3, -2.0, -1.0, 0.0, 1.0, 2.0, 3.0, 0.25, 1.5, -3, 4]


def rconst(rng):
    r = rng.random()
    if r < 0.45:
        return ('C', rng.choice(INT_CONSTS))
    if r < 0.9:
        return ('C', rng.choice(FLT_CONSTS))
    return ('C', round(rng.uniform(-4, 4), 3))


def rleaf(rng, var_pool, p_const=0.3):
    if not var_pool or rng.random() < p_const:
        return rconst(rng)
    return ('V', rng.choice(var_pool))


HEAD_WEIGHTS = {
    'Add': 10, 'Mul': 10, 'Minus': 6, 'Divide': 6, 'Power': 5, 'Neg': 6, 'Recip': 5,
    'Sin': 4, 'Cos': 4, 'NthPow': 7, 'NthRoot': 7, 'Exp': 6, 'Log': 6,
}


def rexpr(rng, budget, var_pool, p_const=0.3, weights=None, max_arity=4):
    """random tree with about [budget] nodes"""
    if budget <= 1:
        return rleaf(rng, var_pool, p_const)
    w = weights or HEAD_WEIGHTS
    h = rng.choices(list(w.keys()), list(w.values()))[0]
    rest = budget - 1
    if h in sx.NARY:
        r = rng.random()
        if r < 0.04:
            return (h, [])
        if r < 0.10:
            k = 1
        else:
            k = rng.randint(2, max(2, min(max_arity, rest)))
        parts = split_budget(rng, rest, k)
        return (h, [rexpr(rng, b, var_pool, p_const, weights, max_arity) for b in parts])
    if h in sx.BINARY:
        a, b = split_budget(rng, rest, 2)
        return (h, rexpr(rng, a, var_pool, p_const, weights, max_arity),
                rexpr(rng, b, var_pool, p_const, weights, max_arity))
    inner = rexpr(rng, rest, var_pool, p_const, weights, max_arity)
    if h in sx.UNARY:
        return (h, inner)
    if h in sx.NPARAM:
        return (h, inner, rng.choice(N_POOL))
    if h == 'Exp':
        return (h, inner, rng.choice(EXP_BASES))
    return (h, inner, rng.choice(LOG_BASES))


def split_budget(rng, total, k):
    total = max(total, k)
    cuts = sorted(rng.randint(0, total - k) for _ in range(k - 1))
    parts = []
    prev = 0
    for c in cuts:
        parts.append(c - prev + 1)
        prev = c
    parts.append(total - k - prev + 1)
    return parts


def rnum(rng):
    r = rng.random()
    if r < 0.55:
        return rng.choice(GRID)
    if r < 0.8:
        return round(rng.uniform(-3, 3), 2)
    return rng.uniform(-3, 3)


def rpoint(rng, ids, extra=0):
    ids = list(ids)
    for _ in range(extra):
        ids.append(rng.randint(50, 60))
    ids = list(dict.fromkeys(ids))
    rng.shuffle(ids)
    return [(i, rnum(rng)) for i in ids]


def positive_point(rng, ids):
    return [(i, rng.choice([0.5, 1, 2, 3, 1.5, 2.0, 0.25, 4])) for i in ids]


# ---------- rule patterns (generator 3) ----------
def fillers(rng, var_pool):
    v = ('V', var_pool[0])
    w = ('V', var_pool[-1])
    return [
        v, w, ('C', 2), ('C', -3), ('C', 0), ('C', 1), ('C', 0.5), ('C', -1),
        ('Add', [v, ('C', 1)]), ('Mul', [v, w]), ('Neg', v), ('Recip', v), ('Sin', v), ('Cos', w),
        ('NthPow', v, 2), ('NthPow', w, 3), ('NthRoot', v, 2), ('NthRoot', w, 3),
        ('Exp', v, E), ('Exp', w, 2), ('Log', v, E), ('Log', w, 2), ('Power', v, w),
        ('Minus', v, w), ('Divide', v, w),
        ('Log', ('C', -1), E),          # variable-free, undefined
        ('Recip', ('C', 0)),            # variable-free, undefined
        ('Add', [('C', 1), ('C', 2)]),  # variable-free, defined
    ]


def rule_patterns(rng, var_pool, per_pattern=3):
    """left-hand patterns of every rule with fillers in the holes, all parameter combinations"""
    F = fillers(rng, var_pool)
    out = []

    def f():
        return rng.choice(F)
    ns = [1, 2, 3, 4, 6, 9]
    bases = [E, 2, 2.0, 10, 0.5, 1]
    for _ in range(per_pattern):
        # Add / Multiply families
        for h, other in (('Add', 'Mul'), ('Mul', 'Add')):
            out.append((h, [f(), (h, [f(), f()]), f()]))
            out.append((h, [f(), ('C', 0), f()]))
            out.append((h, [('C', 1), f(), ('C', 1.0)]))
            out.append((h, [f(), ('C', 2), f(), ('C', 0.5)]))
            out.append((h, [('Neg', f()), f(), ('Neg', f())]))
            out.append((h, [('Neg', f()), ('Neg', f()), ('Neg', f()), f()]))
            out.append((h, [('Recip', f()), f(), ('Recip', f())]))
            out.append((h, [('Recip', f())]))
            out.append((h, [('Neg', f())]))
            out.append((h, []))
            out.append((h, [f()]))
        for b1, b2 in itertools.product(bases, repeat=2):
            if b1 != 1 and b2 != 1:
                out.append(('Add', [('Log', f(), b1), f(), ('Log', f(), b2), ('Log', f(), b1)]))
            out.append(('Mul', [('Exp', f(), b1), f(), ('Exp', f(), b2), ('Exp', f(), b1)]))
        for n1, n2 in itertools.product(ns, repeat=2):
            out.append(('Mul', [('NthPow', f(), n1), ('NthPow', f(), n2), f(), ('NthPow', f(), n1)]))
            out.append(('Mul', [('NthRoot', f(), n1), ('NthRoot', f(), n2), f(), ('NthRoot', f(), n1)]))
            out.append(('NthPow', ('NthRoot', f(), n1), n2))
            out.append(('NthPow', ('NthPow', f(), n1), n2))
            out.append(('NthRoot', ('NthPow', f(), n1), n2))
            out.append(('NthRoot', ('NthRoot', f(), n1), n2))
        for n in ns:
            out.append(('NthPow', ('Neg', f()), n))
            out.append(('NthPow', ('Recip', f()), n))
            out.append(('NthRoot', ('Neg', f()), n))
            out.append(('NthRoot', ('Recip', f()), n))
            out.append(('NthPow', f(), n))
            out.append(('NthRoot', f(), n))
            for b in bases:
                out.append(('NthPow', ('Exp', f(), b), n))
                if b != 1:
                    out.append(('Log', ('NthPow', f(), n), b))
        for b1, b2 in itertools.product(bases, repeat=2):
            if b2 != 1:
                out.append(('Exp', ('Log', f(), b2), b1))
            if b1 != 1:
                out.append(('Log', ('Exp', f(), b2), b1))
        for b in bases:
            out.append(('Exp', ('Neg', f()), b))
            if b != 1:
                out.append(('Log', ('Recip', f()), b))
        out.append(('Minus', f(), f()))
        out.append(('Divide', f(), f()))
        out.append(('Neg', ('Neg', f())))
        out.append(('Neg', ('Add', [f(), f(), f()])))
        out.append(('Recip', ('Recip', f())))
        out.append(('Recip', ('Neg', f())))
        out.append(('Recip', ('Mul', [f(), f()])))
        out.append(('Cos', ('Neg', f())))
        out.append(('Sin', ('Neg', f())))
        for c in (1, 1.0, 0, 0.0, 2, 3.0, 5, -1, -1.0, 0.5, -2, 2.5, 3.5, 4.25, 1e3):
            out.append(('Power', f(), ('C', c)))
            out.append(('Power', ('C', c), f()))
        out.append(('Power', ('Power', f(), f()), f()))
        out.append(('Power', f(), ('Neg', f())))
        out.append(('Power', ('Recip', f()), f()))
    return out


def in_context(rng, e, var_pool):
    """put a pattern at a random position under a random parent"""
    F = fillers(rng, var_pool)
    r = rng.random()
    if r < 0.35:
        return e
    if r < 0.55:
        l = [rng.choice(F) for _ in range(rng.randint(1, 3))]
        l.insert(rng.randint(0, len(l)), e)
        return (rng.choice(['Add', 'Mul']), l)
    if r < 0.7:
        h = rng.choice(['Minus', 'Divide', 'Power'])
        return (h, e, rng.choice(F)) if rng.random() < 0.5 else (h, rng.choice(F), e)
    h = rng.choice(['Neg', 'Recip', 'Sin', 'Cos', 'NthPow', 'NthRoot', 'Exp', 'Log'])
    if h in sx.UNARY:
        return (h, e)
    if h in sx.NPARAM:
        return (h, e, rng.choice([1, 2, 3, 4]))
    return (h, e, rng.choice([E, 2, 0.5]))


# ---------- adversarial chains (generator 5) ----------
def chains(rng, var_pool, length):
    v = lambda: ('V', rng.choice(var_pool))  # noqa: E731
    out = []
    e = v()
    for _ in range(length):
        e = ('Minus', e, v())
    out.append(e)
    e = v()
    for _ in range(length):
        e = ('Minus', v(), e)
    out.append(e)
    e = v()
    for _ in range(length):
        e = ('Divide', e, v())
    out.append(e)
    e = v()
    for _ in range(length):
        e = ('Divide', v(), e)
    out.append(e)
    e = v()
    for _ in range(length):
        e = ('Neg', ('Add', [e, v()]))
    out.append(e)
    e = v()
    for _ in range(length):
        e = ('Recip', ('Mul', [e, v()]))
    out.append(e)
    e = v()
    for _ in range(max(1, length // 2)):
        e = ('Power', e, v())
    out.append(e)
    e = v()
    for _ in range(length):
        e = ('Add', [('Mul', [e, v()]), v()])
    out.append(e)
    return out


# ---------- boundary points (generator 2) ----------
def boundary_values():
    tiny = 5e-324
    eps = 2.220446049250313e-16
    return [0, 0.0, -0.0, tiny, -tiny, eps, -eps, 1, 1.0, 1 - eps / 2, 1 + eps, -1, 2, -2, 0.5, -0.5, 1e-300, -1e-300]


def respell(e):
    """the same tree with every integral constant spelled the other way round (2 <-> 2.0): equal under the
    library's ==, equal hash, different object and different printed form"""
    h = e[0]
    if h == 'C':
        x = e[1]
        if isinstance(x, bool):
            return e
        if isinstance(x, int) and abs(x) < 2 ** 53:
            return ('C', float(x))
        if isinstance(x, float) and x.is_integer() and abs(x) < 2 ** 53:
            return ('C', int(x))
        return e
    if h == 'V':
        return e
    return sx.with_children(e, [respell(c) for c in sx.children(e)])


def twins(rng, var_pool, budget=5):
    """expressions in which two different variables sit next to sub-trees that are == but spelled
    differently (int against float constants): whatever is keyed or deduplicated by expression equality
    then depends on which of the two is met first"""
    a, b = rng.sample(var_pool, 2)
    others = [w for w in var_pool if w not in (a, b)] or [a]
    for _ in range(20):
        t = rexpr(rng, budget, others, p_const=0.5)
        if sx.to_sx(respell(t)) != sx.to_sx(t):
            break
    else:
        t = ('Add', [('V', others[0]), ('C', 1)])
    t2 = respell(t)
    shape = rng.choice(['addmul', 'mulpow', 'minusdiv', 'nested'])
    if shape == 'addmul':
        return ('Add', [('Mul', [('V', a), t]), ('Mul', [('V', b), t2])])
    if shape == 'mulpow':
        return ('Mul', [('Add', [('V', a), t]), ('Add', [('V', b), t2])])
    if shape == 'minusdiv':
        return ('Minus', ('Mul', [t, ('V', a)]), ('Mul', [t2, ('V', b)]))
    return ('Add', [('Mul', [('V', a), t, ('V', b)]), ('Mul', [('V', b), t2]), ('Mul', [t2, ('V', a)])])


def order_sensitive_sum(rng, var_pool):
    """an n-ary node with repeated (==) operands whose contributions to one variable do not add up to the
    same double in every order (0.1 + 0.2 + 0.3): any traversal in set order shows in the last bit"""
    coeffs = [0.1, 0.2, 0.3, 0.7, 1.1, 1e-3, 3.3, 0.6]
    x = rng.choice(var_pool)
    terms = []
    for c in rng.sample(coeffs, rng.randint(3, 5)):
        shape = rng.random()
        if shape < 0.5:
            terms.append(('Mul', [('C', c), ('V', x)]))
        elif shape < 0.75:
            terms.append(('Mul', [('V', x), ('C', c)]))
        else:
            terms.append(('Sin', ('Mul', [('C', c), ('V', x)])))
    others = [w for w in var_pool if w != x] or [x]
    d = rleaf(rng, others, 0.1) if rng.random() < 0.6 else rexpr(rng, 3, others, 0.2)
    terms += [d] * rng.randint(2, 3)
    rng.shuffle(terms)
    head = 'Add' if rng.random() < 0.8 else 'Mul'
    e = (head, terms)
    if rng.random() < 0.3:
        e = rng.choice([('Neg', e), ('Exp', e, 2), ('Mul', [e, ('V', rng.choice(var_pool))])])
    return e


def repairable_singular(rng, var_pool, count):
    """variable-free sub-trees that raise DomainError as written but are REPAIRED by a domain-widening rewrite of
    something inside them (1/(1/0) -> 0, e^(ln(-1)) -> -1, (sqrt(-4))^2 -> -4, (-3)^2 as a Power -> 9, 0 * (1/0) -> 0),
    placed under every kind of parent and next to a variable: memo flags carried from the form that failed to the
    form that no longer does show here"""
    E_ = math.e
    sing = [('Recip', ('Recip', ('C', 0))), ('Exp', ('Log', ('C', -1), E_), E_), ('NthPow', ('NthRoot', ('C', -4), 2), 2),
            ('Power', ('C', -3), ('C', 2)), ('Mul', [('C', 0), ('Recip', ('C', 0))]), ('Neg', ('Neg', ('Log', ('C', 0), E_))),
            ('Power', ('C', -8), ('C', 2)), ('Divide', ('C', 0), ('Recip', ('C', 0))),
            ('NthPow', ('NthPow', ('NthRoot', ('C', -4), 2), 2), 3)]
    heads = [lambda u: ('Log', u, E_), lambda u: ('Log', u, 2), lambda u: ('NthRoot', u, 3), lambda u: ('NthRoot', u, 2),
             lambda u: ('Exp', u, 2), lambda u: ('NthPow', u, 3), lambda u: ('Sin', u), lambda u: ('Cos', u),
             lambda u: ('Neg', u), lambda u: ('Recip', u), lambda u: u,
             lambda u: ('Minus', u, ('C', 1)), lambda u: ('Add', [u, ('C', 2)]), lambda u: ('Mul', [u, ('C', 2)])]
    out = []
    for _ in range(count):
        u = rng.choice(heads)(rng.choice(sing))
        if rng.random() < 0.4:
            u = rng.choice(heads[:2] + heads[6:])(u)      # no tower of exponentials: 2 ** (2 ** 64) is an exact-integer bomb
        x = ('V', rng.choice(var_pool))
        out.append(rng.choice([('Mul', [x, u]), ('Add', [x, u]), ('Mul', [u, x, x]), ('Minus', x, u), ('Power', x, u),
                               ('Add', [('Sin', x), u, ('C', 1)]), ('Divide', u, x)]))
    return out


def hash_collision_variant(e):
    """the same tree with constants replaced by DIFFERENT numbers that have the same Python hash (hash(-1) == hash(-2),
    hash(0) == hash(2**61 - 1), hash(1) == hash(2**61)): an unequal expression with an equal hash - whatever is
    remembered under hash(expression) instead of the expression is handed to the wrong one.  None if nothing to replace"""
    swap = {-1: -2, -2: -1, 0: 2 ** 61 - 1, 1: 2 ** 61}
    changed = [False]

    def go(x):
        if x[0] == 'C' and not isinstance(x[1], bool) and x[1] in swap and not changed[0]:
            changed[0] = True
            y = swap[x[1]]
            return ('C', float(y) if isinstance(x[1], float) and abs(y) < 2 ** 53 else y)
        if x[0] in ('C', 'V'):
            return x
        return sx.with_children(x, [go(c) for c in sx.children(x)])
    out = go(e)
    return out if changed[0] else None


def hash_collision_pairs(rng, var_pool, n):
    out = []
    tries = 0
    while len(out) < n and tries < 30 * n:
        tries += 1
        u = rexpr(rng, rng.randint(1, 4), var_pool, p_const=0.1)
        c = rng.choice([-1, -2, -1.0, 1, 0])
        e = rng.choice([('Add', [('Mul', [('C', c), ('NthPow', u, 2)]), ('V', var_pool[0])]), ('Recip', ('Add', [u, ('C', c)])),
                        ('Mul', [('C', c), u, ('V', var_pool[0])]), ('Sin', ('Add', [('V', var_pool[0]), ('C', c)])),
                        ('Power', ('V', var_pool[0]), ('Add', [('C', c), ('C', 3)])), ('Exp', ('Mul', [('C', c), u]), math.e)])
        t = hash_collision_variant(e)
        if t is not None and sx.var_ids(e):
            out.append((e, t))
    return out


# ------------------------------------------------------------------ large inputs
WIDE_ARITIES = [9, 10, 11, 12, 13, 15, 16, 17, 18, 19, 23, 24, 25, 33, 40]


def wide_node(rng, var_pool, head=None, arity=None, kind=None):
    """an n-ary node with MANY operands (9 and more): variables, small multiples, linear factors with integer roots,
    constants; kinds: 'vars' (all different variables where possible), 'linear' ((v - k) factors / terms), 'mixed'"""
    head = head or rng.choice(['Add', 'Mul'])
    k = arity or rng.choice(WIDE_ARITIES)
    kind = kind or rng.choice(['vars', 'linear', 'mixed', 'mixed'])
    ops = []
    for i in range(k):
        v = ('V', var_pool[i % len(var_pool)])
        if kind == 'vars':
            ops.append(v if rng.random() < 0.8 else ('Mul', [('C', rng.choice([2, 3, 0.5])), v]) if head == 'Add' else ('Add', [v, ('C', 1)]))
        elif kind == 'linear':
            ops.append(('Minus', v, ('C', i + 1)) if head == 'Mul' else ('Mul', [('C', i + 1), v]))
        else:
            r = rng.random()
            if r < 0.35:
                ops.append(v)
            elif r < 0.5:
                ops.append(('C', rng.choice([1, 2, -1, 0.5, 3, 1.5, -2])))
            elif r < 0.65:
                ops.append(('Divide', v, ('C', rng.choice([2, 4, 3]))))
            elif r < 0.8:
                ops.append(('Minus', v, ('C', rng.choice([1, 2, 3]))))
            elif r < 0.9:
                ops.append(('NthPow', v, 2))
            else:
                ops.append(('Sin', v))
    return (head, ops)


def large_cases(rng, count, max_arity=40, chains=True, max_chain=130):
    """(expression, point) pairs that are LARGE in some direction: wide sums and products (bare and under a parent with a
    domain condition), at generic points, at points where one factor of a product is exactly zero, where a sum is
    exactly 0 or 1; deep towers of odd roots whose indices multiply beyond 2^53; long operator-like chains"""
    out = []
    pools = [[2], [2, 3], [2, 3, 4, 5, 6, 7]]
    for _ in range(count):
        pool = rng.choice(pools)
        r = rng.random()
        if r < 0.45:
            w = wide_node(rng, pool, arity=rng.choice([a for a in WIDE_ARITIES if a <= max_arity]))
            e = rng.choice([w, w, ('Recip', w), ('Log', w, math.e), ('NthRoot', w, 2), ('Divide', ('C', 1), w), ('Sin', w),
                            ('NthPow', w, 2), ('Mul', [('V', pool[0]), w]), ('Add', [w, ('V', pool[-1])]), ('Power', ('C', 2), w)])
            p = [(k, rng.choice([1, 2, 3, 0.5, -1, 1.5, 0, 4, -2.5])) for k in pool]
            out.append((e, p))
        elif r < 0.65:
            # a product of linear factors at one of its roots / next to it; a sum of k*v at a point making it 0 or 1
            k = rng.choice([a for a in WIDE_ARITIES if a <= max_arity])
            v = pool[0]
            prod = ('Mul', [('Minus', ('V', v), ('C', i + 1)) for i in range(k)])
            root = rng.randint(1, k)
            for xv in (root, root + 0.5, float(root)):
                out.append((rng.choice([prod, ('Add', [prod, ('V', v)]), ('Mul', [('V', v), prod])]), [(k_, xv) for k_ in pool]))
            sm = ('Add', [('V', v)] * 0 + [('Mul', [('C', 1), ('V', v)]) for _ in range(k - 1)] + [('C', -(k - 1))])
            out.append((rng.choice([('Recip', sm), ('Log', sm, math.e), ('Divide', ('C', 1), sm), sm]), [(k_, 1) for k_ in pool]))
            out.append((rng.choice([('Recip', sm), ('Log', sm, math.e), sm]), [(k_, 1 + 1.0 / (k - 1)) for k_ in pool]))
        elif r < 0.8:
            # towers of odd roots: the product of the indices exceeds 2^53 (a float cannot hold it: parities get lost)
            ns = [rng.choice([9, 15, 21, 27, 33, 45, 81, 101, 7, 5, 3]) for _ in range(rng.randint(12, 18))]
            t = ('V', pool[0])
            for n_ in ns:
                t = ('NthRoot', t, n_)
            e = rng.choice([t, ('NthPow', t, 4), ('NthPow', t, 3), ('NthPow', t, 9), ('NthPow', t, 15), ('Mul', [t, ('V', pool[0])]), ('Sin', t)])
            for xv in (-2, -0.5, 2, 0.25):
                out.append((e, [(k_, xv) for k_ in pool]))
        elif chains:
            # long left-nested chains, as a running total built with + or * produces them
            L = rng.choice([c_ for c_ in (30, 60, 101, 130) if c_ <= max_chain] or [30])
            h = rng.choice(['Add', 'Mul'])
            t = ('V', pool[0])
            for i in range(L):
                t = (h, [t, rng.choice([('V', pool[i % len(pool)]), ('C', rng.choice([1, 2, 0.5]))])])
            out.append((t, [(k_, rng.choice([1, 0.5, 1.5, 2])) for k_ in pool]))
    return out
