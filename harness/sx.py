"""Protocol shared by the generator, the implementation runner and the OCaml model driver.

Expressions are nested tuples:
  ('C', num) ('V', id) ('Add', [e...]) ('Mul', [e...]) ('Minus', a, b) ('Divide', a, b)
  ('Power', a, b) ('Neg', a) ('Recip', a) ('Sin', a) ('Cos', a) ('NthPow', a, n)
  ('NthRoot', a, n) ('Exp', a, base) ('Log', a, base)
num is a Python int or float.  Text form (one line):
  (C i3) (C f4008000000000000) (V 2) (Add e e) (NthPow e 3) (Exp e f4005bf0a8b145769)
Points: [2=i3 3=f3fe0000000000000]   (id=num in keyword order)
"""
import struct
import math

NARY = ('Add', 'Mul')
BINARY = ('Minus', 'Divide', 'Power')
UNARY = ('Neg', 'Recip', 'Sin', 'Cos')
NPARAM = ('NthPow', 'NthRoot')
BPARAM = ('Exp', 'Log')
ALL_HEADS = ('C', 'V') + NARY + BINARY + UNARY + NPARAM + BPARAM

BIG = 1 << 62


def fbits(x):
    return '%016x' % struct.unpack('>Q', struct.pack('>d', x))[0]


def bits_to_float(s):
    return struct.unpack('>d', struct.pack('>Q', int(s, 16)))[0]


def int_sx(z):
    if -BIG < z < BIG:
        return str(z)
    return ('-' if z < 0 else '') + hex(abs(z))


def num_sx(x):
    if isinstance(x, bool):
        return 'i%d' % int(x)
    if isinstance(x, int):
        return 'i' + int_sx(x)
    if isinstance(x, float):
        return 'f' + fbits(x)
    raise TypeError('not a number: %r' % (x,))


def parse_num(a):
    if a[0] == 'i':
        return int(a[1:], 0) if a[1:].lstrip('-').startswith('0x') else int(a[1:])
    if a[0] == 'f':
        return bits_to_float(a[1:])
    raise ValueError('num ' + a)


def to_sx(e):
    h = e[0]
    if h == 'C':
        return '(C %s)' % num_sx(e[1])
    if h == 'V':
        return '(V %d)' % e[1]
    if h in NARY:
        return '(%s%s)' % (h, ''.join(' ' + to_sx(a) for a in e[1]))
    if h in BINARY:
        return '(%s %s %s)' % (h, to_sx(e[1]), to_sx(e[2]))
    if h in UNARY:
        return '(%s %s)' % (h, to_sx(e[1]))
    if h in NPARAM:
        return '(%s %s %s)' % (h, to_sx(e[1]), int_sx(e[2]))
    if h in BPARAM:
        return '(%s %s %s)' % (h, to_sx(e[1]), num_sx(e[2]))
    raise ValueError('head ' + str(h))


def point_sx(p):
    """p: list of (id, num) in keyword order"""
    return '[' + ' '.join('%d=%s' % (i, num_sx(v)) for i, v in p) + ']'


def tokenize(s):
    out = []
    i, n = 0, len(s)
    while i < n:
        c = s[i]
        if c in ' \t\r,':
            i += 1
        elif c in '()[]':
            out.append(c)
            i += 1
        else:
            j = i
            while j < n and s[j] not in ' \t\r,()[]':
                j += 1
            out.append(s[i:j])
            i = j
    return out


def parse_expr(ts, k=0):
    if ts[k] != '(':
        raise ValueError('expr at %d: %r' % (k, ts[k]))
    h = ts[k + 1]
    k += 2
    if h == 'C':
        e = ('C', parse_num(ts[k]))
        k += 1
    elif h == 'V':
        e = ('V', int(ts[k]))
        k += 1
    elif h in NARY:
        l = []
        while ts[k] != ')':
            a, k = parse_expr(ts, k)
            l.append(a)
        e = (h, l)
    elif h in BINARY:
        a, k = parse_expr(ts, k)
        b, k = parse_expr(ts, k)
        e = (h, a, b)
    elif h in UNARY:
        a, k = parse_expr(ts, k)
        e = (h, a)
    elif h in NPARAM:
        a, k = parse_expr(ts, k)
        e = (h, a, int(ts[k], 0))
        k += 1
    elif h in BPARAM:
        a, k = parse_expr(ts, k)
        e = (h, a, parse_num(ts[k]))
        k += 1
    else:
        raise ValueError('head ' + h)
    if ts[k] != ')':
        raise ValueError('missing )')
    return e, k + 1


def parse_point(ts, k=0):
    if ts[k] != '[':
        raise ValueError('point')
    k += 1
    p = []
    while ts[k] != ']':
        i, v = ts[k].split('=', 1)
        p.append((int(i), parse_num(v)))
        k += 1
    return p, k + 1


# legal variable names (non-empty strings of word characters) that are NOT in NFKC normal form, that differ
# from one another only after normalisation or case folding, or that are Python keywords: a library that normalises,
# folds or mangles names somewhere (and not everywhere) confuses them
UNUSUAL_NAMES = {
    9001: '\u00b5',        # MICRO SIGN            (NFKC: GREEK SMALL LETTER MU)
    9002: '\u03bc',        # GREEK SMALL LETTER MU (already normal: a different variable from 9001)
    9003: 'x\u00b2',       # x SUPERSCRIPT TWO     (NFKC: x2)
    9004: 'x2',
    9005: '\uff58',        # FULLWIDTH x           (NFKC: x)
    9006: 'x',
    9007: '\ufb01',        # LIGATURE fi           (NFKC: fi)
    9008: 'X',             # differs from 9006 by case only
    9009: 'lambda',        # a keyword
    9010: '_',
    9011: '\u212b',        # ANGSTROM SIGN         (NFKC: LATIN CAPITAL A WITH RING)
}
_UNUSUAL_IDS = {v: k for k, v in UNUSUAL_NAMES.items()}


def name_of(i):
    if i in UNUSUAL_NAMES:
        return UNUSUAL_NAMES[i]
    return 'whatever' if i == 1 else 'v%d' % i


def id_of(name):
    if name in _UNUSUAL_IDS:
        return _UNUSUAL_IDS[name]
    if name == 'whatever':
        return 1
    if name.startswith('v') and name[1:].isdigit():
        return int(name[1:])
    raise ValueError('unknown variable name %r' % name)


def size(e):
    h = e[0]
    if h in ('C', 'V'):
        return 1
    if h in NARY:
        return 1 + sum(size(a) for a in e[1])
    if h in BINARY:
        return 1 + size(e[1]) + size(e[2])
    return 1 + size(e[1])


def children(e):
    h = e[0]
    if h in ('C', 'V'):
        return []
    if h in NARY:
        return list(e[1])
    if h in BINARY:
        return [e[1], e[2]]
    return [e[1]]


def with_children(e, ch):
    h = e[0]
    if h in ('C', 'V'):
        return e
    if h in NARY:
        return (h, list(ch))
    if h in BINARY:
        return (h, ch[0], ch[1])
    if h in UNARY:
        return (h, ch[0])
    return (h, ch[0], e[2])


def var_ids(e):
    out = []

    def go(x):
        if x[0] == 'V':
            if x[1] not in out:
                out.append(x[1])
        else:
            for c in children(x):
                go(c)
    go(e)
    return out


def subterms(e):
    yield e
    for c in children(e):
        yield from subterms(c)


def heads(e):
    return [s[0] for s in subterms(e)]


def is_finite_num(x):
    return isinstance(x, int) or (isinstance(x, float) and math.isfinite(x))


# ---------- the termination measure of proofs/Termination.v, for traces of the implementation
class TooBig(Exception):
    pass


def power_depth(e):
    d = 0
    for c in children(e):
        d = max(d, power_depth(c))
    return d + (1 if e[0] in ('Power', 'Exp') else 0)


def mu(e):
    """(#Power, #{Power,NthPow,NthRoot,Exp,Log}, sum of n over NthPow/NthRoot, W)"""
    if power_depth(e) > 10:
        raise TooBig()          # W squares at every Power/Exp level: the number itself gets too long to write down
    g1 = g2 = g3 = 0
    for s in subterms(e):
        h = s[0]
        if h == 'Power':
            g1 += 1
        if h in ('Power', 'NthPow', 'NthRoot', 'Exp', 'Log'):
            g2 += 1
        if h in ('NthPow', 'NthRoot'):
            g3 += s[2]
    return (g1, g2, g3, weight(e))


def weight(e):
    h = e[0]
    if h in ('C', 'V'):
        return 1
    if h == 'Add':
        return sum(weight(a) for a in e[1]) + 3 * len(e[1]) + 2
    if h == 'Mul':
        return sum(weight(a) for a in e[1]) + 2 * len(e[1]) + 2
    if h == 'Minus':
        return weight(e[1]) + 2 * weight(e[2]) + 12
    if h == 'Divide':
        return weight(e[1]) + 3 * weight(e[2]) + 8
    if h == 'Power':
        return weight(e[1]) ** 2 * weight(e[2]) ** 2 + 1
    a = weight(e[1])
    if h == 'Neg':
        return 2 * a + 3
    if h == 'Recip':
        return 3 * a + 1
    if h == 'NthPow':
        return 4 * a + 1
    if h in ('NthRoot', 'Log', 'Sin', 'Cos'):
        return 2 * a
    if h == 'Exp':
        return a * a + 1
    raise ValueError(h)
