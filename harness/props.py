"""Per-property dynamic checks: case generation, correspondence (implementation vs extracted
model, bit for bit) and property oracles evaluated on the implementation's own outputs."""
import collections
import math
import random
from fractions import Fraction

import sx
import gen
import core

E = math.e


class Batch:
    """protocol lines to run on both sides, with the results"""

    def __init__(self):
        self.lines = []
        self.impl = []
        self.model = []
        self.status = []

    def add(self, line):
        self.lines.append(line)
        return len(self.lines) - 1

    def run(self, hashseed=0, model=True):
        start = len(self.impl)
        new = self.lines[start:]
        if not new:
            return
        impl = core.run_impl(new, hashseed)
        mod = core.run_model(new) if model else ['SKIP'] * len(new)
        self.impl += impl
        self.model += mod
        self.status += [core.classify(i, m) if m != 'SKIP' and i != 'SKIP' else 'skip' for i, m in zip(impl, mod)]


class Report:
    def __init__(self, prop):
        self.prop = prop
        self.cases = 0
        self.stats = collections.Counter()
        self.disagreements = []     # dict(line, impl, model, note)
        self.oracle_failures = []   # dict(what, lines:[(line, impl, model)], kf)
        self.known = collections.defaultdict(list)   # kf key -> witnesses
        self.samples = []
        self.distinct = set()
        self.rule = ''

    def corr(self, b, i, note=''):
        """record the correspondence status of line i of batch b; returns True when it agrees"""
        st = b.status[i]
        self.stats['corr_' + st] += 1
        if st in ('disagree', 'error'):
            self.disagreements.append({'line': b.lines[i], 'impl': b.impl[i], 'model': b.model[i], 'note': note})
            return False
        return st == 'agree'

    def oracle_fail(self, what, b, idxs, kf=None, extra=None):
        rec = {'what': what, 'lines': [(b.lines[i], b.impl[i], b.model[i]) for i in idxs], 'kf': kf}
        if extra:
            rec['extra'] = extra
        if kf:
            self.known[kf].append(rec)
        else:
            self.oracle_failures.append(rec)

    def sample(self, s):
        if len(self.samples) < 8:
            self.samples.append(s)


def sizes(tier, quick, thorough):
    return thorough if tier == 'thorough' else quick


def is_bad_trace(s):
    return s.startswith('bad=true')


def finite_val(o):
    return o[0] == 'VAL' and sx.is_finite_num(o[1]) and abs(float(o[1])) < 1e150


def kind(s):
    """outcome kind of a result line: VAL / DOMERR / COORD / PYERR / REJECT / OTHER"""
    if s.startswith('WARN '):
        s = s[5:]
    return s.split(' ', 1)[0] if s else 'EMPTY'


# ------------------------------------------------------------------ expression pools
def expr_pool(rng, n, max_size=14, nvars=3, with_patterns=True):
    out = []
    for _ in range(n):
        pool = [2, 3, 4][:rng.randint(1, nvars)] if rng.random() < 0.92 else []
        out.append(gen.rexpr(rng, rng.randint(1, max_size), pool))
    if with_patterns:
        pats = gen.rule_patterns(rng, [2, 3], per_pattern=1)
        rng.shuffle(pats)
        out += [gen.in_context(rng, p, [2, 3]) for p in pats[:max(10, n // 3)]]
    return out


def points_for(rng, e, k, extra=0):
    ids = sx.var_ids(e)
    pts = [gen.rpoint(rng, ids, extra) for _ in range(k)]
    if ids:
        pts.append(gen.positive_point(rng, ids))
    return pts


# ------------------------------------------------------------------ exact oracle (C01, C03)
class NotExact(Exception):
    pass


def _small_dyadic(q):
    d = q.denominator
    if d & (d - 1):
        raise NotExact()
    n = abs(q.numerator)
    while n and n % 2 == 0:
        n //= 2
    if n > (1 << 12) or d > (1 << 40) or abs(q.numerator) > (1 << 40):
        raise NotExact()
    return q


def exact_eval(e, env):
    """exact value of the polynomial/rational fragment on dyadic inputs; NotExact when the tree
    leaves the fragment or an intermediate is not a small dyadic rational; None outside the domain"""
    h = e[0]
    if h == 'C':
        if isinstance(e[1], bool) or not sx.is_finite_num(e[1]):
            raise NotExact()
        return _small_dyadic(Fraction(e[1]))
    if h == 'V':
        if e[1] not in env:
            raise NotExact()
        return _small_dyadic(Fraction(env[e[1]]))
    if h in ('Add', 'Mul'):
        if len(e[1]) > 4:
            raise NotExact()
        vals = [exact_eval(a, env) for a in e[1]]
        if any(v is None for v in vals):
            return None
        r = Fraction(0) if h == 'Add' else Fraction(1)
        for v in vals:
            r = r + v if h == 'Add' else r * v
            _small_dyadic(r)
        return r
    if h in ('Minus', 'Divide'):
        a = exact_eval(e[1], env)
        b = exact_eval(e[2], env)
        if a is None or b is None:
            return None
        if h == 'Minus':
            return _small_dyadic(a - b)
        if b == 0:
            return None
        return _small_dyadic(a / b)
    if h == 'Neg':
        a = exact_eval(e[1], env)
        return None if a is None else -a
    if h == 'Recip':
        a = exact_eval(e[1], env)
        if a is None or a == 0:
            return None
        return _small_dyadic(1 / a)
    if h == 'NthPow':
        a = exact_eval(e[1], env)
        if a is None:
            return None
        if e[2] > 6:
            raise NotExact()
        return _small_dyadic(a ** e[2])
    raise NotExact()


def exact_partial(e, v, env):
    """exact partial derivative on the same fragment (quotient rule etc.), for domain points"""
    h = e[0]
    if h == 'C':
        exact_eval(e, env)
        return Fraction(0)
    if h == 'V':
        exact_eval(e, env)
        return Fraction(1 if e[1] == v else 0)
    if h == 'Add':
        ds = [exact_partial(a, v, env) for a in e[1]]
        if len(ds) > 4:
            raise NotExact()
        r = Fraction(0)
        for d in ds:
            r = _small_dyadic(r + d)
        return r
    if h == 'Mul':
        if len(e[1]) > 3:
            raise NotExact()
        vals = [exact_eval(a, env) for a in e[1]]
        ds = [exact_partial(a, v, env) for a in e[1]]
        r = Fraction(0)
        for i in range(len(vals)):
            t = ds[i]
            for j in range(len(vals)):
                if j != i:
                    t = _small_dyadic(t * vals[j])
            r = _small_dyadic(r + t)
        return r
    if h == 'Minus':
        return _small_dyadic(exact_partial(e[1], v, env) - exact_partial(e[2], v, env))
    if h == 'Neg':
        return -exact_partial(e[1], v, env)
    if h == 'NthPow':
        a = exact_eval(e[1], env)
        d = exact_partial(e[1], v, env)
        n = e[2]
        if n == 1:
            return d
        if n > 5:
            raise NotExact()
        return _small_dyadic(_small_dyadic(n * _small_dyadic(a ** (n - 1))) * d)
    raise NotExact()


# ------------------------------------------------------------------ C01
def augmented_assignments(rep, rng, n):
    """s += t and friends on names bound to existing expressions (implementation only): a new node, the old one intact"""
    b = Batch()
    idx = []
    for _ in range(n):
        e1 = gen.rexpr(rng, rng.randint(1, 6), [2, 3], weights={'Add': 10, 'Mul': 10, 'Minus': 3, 'Neg': 2, 'Sin': 2, 'NthPow': 2})
        e2 = gen.rexpr(rng, rng.randint(1, 4), [2, 3])
        p = gen.positive_point(rng, [2, 3])
        idx.append(b.add('AUGASSIGN %s %s %s' % (sx.point_sx(p), sx.to_sx(e1), sx.to_sx(e2))))
    b.run(model=False)
    for i in idx:
        rep.stats['augmented_assignment_' + b.impl[i].split(':')[0].split(' ')[0]] += 1
        if b.impl[i].startswith(('bad', 'ERROR')):
            rep.oracle_fail('augmented assignment: %s' % b.impl[i], b, [i])


def sensitive_parameter_cases():
    """(expression, point) pairs on which a parameter or constant that is stored slightly off (snapped to a nearby
    integer or to e, rounded to some digits, taken with a tolerance) changes the value grossly or changes its kind:
    bases next to 1 at arguments of the order of 1/(base - 1), roots and powers whose index is given as a float,
    constants next to a pole or to the edge of a domain"""
    x = ('V', 2)
    out = []
    for d in (1e-13, 4e-13, 1e-12, 1e-10, 3e-9, -1e-13, -1e-11):
        b1 = 1 + d
        big = abs(1 / d)
        out += [(('Exp', x, b1), [(2, big)]), (('Exp', x, b1), [(2, -big)]), (('Exp', ('Neg', x), b1), [(2, big / 2)]),
                (('Log', x, b1), [(2, 2)]), (('Log', x, b1), [(2, 0.5)]), (('Log', ('Exp', x, b1), b1), [(2, big)]),
                (('Power', ('C', b1), x), [(2, big)]), (('Power', ('Add', [('C', 1), ('C', d)]), x), [(2, big)]),
                (('Recip', ('Minus', x, ('C', b1))), [(2, 1)]), (('Log', ('Minus', x, ('C', b1)), E), [(2, 1 + 2 * d if d > 0 else 1)]),
                (('Divide', ('C', 1), ('Minus', ('C', b1), x)), [(2, 1)]),
                (('NthRoot', ('Minus', x, ('C', 1)), 2), [(2, b1)]), (('NthPow', ('Mul', [x, ('C', b1)]), 7), [(2, 1e40)])]
    for b0 in (2, 3, 10, E, 0.5):
        for d in (1e-9, -1e-9, 1e-7):
            bb = b0 * (1 + d)
            out += [(('Log', x, bb), [(2, 1e300)]), (('Exp', x, bb), [(2, 600 / math.log(max(b0, 1.5)) if b0 > 1 else -600 / math.log(2))])]
    return out


def check_C01(ctx):
    rng, tier = ctx.rng, ctx.tier
    rep = Report('C01')
    rep.rule = ('random trees over all 15 constructors (arity 0-4, n in {1..7,12}, 9 bases), rule patterns in '
                'context and raw symbolic derivatives of those, each at 3-4 points (grid, random, positive); '
                'distinct = distinct (expression, point) pairs; non-trivial = the tree has at least 2 nodes')
    n = sizes(tier, 500, 12000)
    exprs = expr_pool(rng, n)
    # derivative closures: raw symbolic partials produced by the model, used as inputs
    pre = [('SYNFWD %d %s' % ((sx.var_ids(e) or [2])[0], sx.to_sx(e))) for e in exprs[:n // 5] if sx.size(e) <= 8]
    for s in core.run_model(pre):
        try:
            d = core.parse_expr_line(s)
            if sx.size(d) <= 40:
                exprs.append(d)
        except Exception:  # noqa: BLE001
            pass
    b = Batch()
    meta = []
    for e, p in sensitive_parameter_cases() + gen.large_cases(rng, sizes(tier, 25, 300)):
        i = b.add('EVAL %s %s' % (sx.point_sx(p), sx.to_sx(e)))
        meta.append((i, e, p, 'EVAL'))
    for e in exprs:
        es = sx.to_sx(e)
        for p in points_for(rng, e, 2):
            i = b.add('EVAL %s %s' % (sx.point_sx(p), es))
            meta.append((i, e, p, 'EVAL'))
        ids = sx.var_ids(e)
        if len(ids) <= 1 and rng.random() < 0.5:
            x = gen.rnum(rng)
            i = b.add('ATNUM %s %s' % (sx.num_sx(x), es))
            meta.append((i, e, [((ids or [1])[0], x)], 'ATNUM'))
        elif len(ids) > 1 and rng.random() < 0.1:
            i = b.add('ATNUM %s %s' % (sx.num_sx(1.5), es))
            meta.append((i, e, None, 'ATNUM-REJECT'))
    b.run()
    heads = collections.Counter()
    kinds = collections.Counter()
    exact_checked = 0
    for i, e, p, what in meta:
        rep.cases += 1
        ok = rep.corr(b, i, what)
        kinds[kind(b.impl[i])] += 1
        if sx.size(e) >= 2:
            rep.distinct.add(b.lines[i])
        for h in set(sx.heads(e)):
            heads[h] += 1
        rep.sample(b.lines[i] + '  =>  ' + b.impl[i])
        # oracle 1: exact value on the dyadic polynomial/rational fragment
        if p is not None:
            try:
                q = exact_eval(e, dict(p))
            except NotExact:
                q = 'n/a'
            if q != 'n/a':
                exact_checked += 1
                o = core.parse_outcome(b.impl[i])
                if q is None:
                    if o[0] != 'DOMERR':
                        rep.oracle_fail('exact oracle: point outside the domain but implementation returned %s' % b.impl[i], b, [i])
                elif o[0] != 'VAL' or Fraction(o[1]) != q:
                    rep.oracle_fail('exact oracle: exact value is %s but implementation returned %s' % (q, b.impl[i]), b, [i])
        if not ok and b.status[i] == 'disagree':
            label_numeric_disagreement(rep, b, i)
    rep.stats['exact_fragment_cases'] = exact_checked
    rep.stats.update({'head_' + k: v for k, v in heads.items()})
    rep.stats.update({'outcome_' + k: v for k, v in kinds.items()})
    augmented_assignments(rep, rng, sizes(tier, 40, 400))
    shared_evaluation(ctx, rep)
    import props2
    props2.history_correspondence(ctx, rep, sizes(tier, 200, 4000), ('at',), maxlen=sizes(tier, 12, 30),
                                  what='sequence', disturb=('located', 'pat', 'dat', 'dfat', 'dfcompat'))
    return rep


def shared_evaluation(ctx, rep):
    """C01 on DAGs: pools of expressions that reuse the same sub-expression OBJECTS, evaluated in
    sequence at several points and at bare numbers; every answer against the pure model"""
    import props2
    rng, tier = ctx.rng, ctx.tier
    hs, mls = [], []
    for _ in range(sizes(tier, 150, 3000)):
        pool, flat = props2.share_pool(rng, rng.randint(2, 5))
        pts = [[(2, gen.rnum(rng)), (3, gen.rnum(rng))] for _ in range(3)]
        ops, ml = [], []
        for _ in range(rng.randint(3, 10)):
            e = rng.randrange(len(pool))
            if len(sx.var_ids(flat[e])) <= 1 and rng.random() < 0.4:
                x = gen.rnum(rng)
                ops.append(['atnum', e, sx.num_sx(x)])
                ml.append('ATNUM %s %s' % (sx.num_sx(x), sx.to_sx(flat[e])))
            else:
                p = rng.randrange(3)
                ops.append(['at', e, p])
                ml.append('EVAL %s %s' % (sx.point_sx(pts[p]), sx.to_sx(flat[e])))
        hs.append({'pool': pool, 'points': [sx.point_sx(p) for p in pts], 'ops': ops})
        mls.append(ml)
    res = props2.run_histories(hs, fresh_oracle=False)
    flat_lines = [l for ml in mls for l in ml]
    model = core.run_model(flat_lines)
    k = 0
    for h, r, ml in zip(hs, res, mls):
        rep.cases += 1
        rep.distinct.add(repr(h))
        if 'error' in r:
            rep.oracle_failures.append({'what': 'history runner failed: ' + r['error'], 'lines': [], 'kf': None, 'history': h})
            k += len(ml)
            continue
        for oi, l in enumerate(ml):
            i, m = r['outs'][oi], model[k]
            k += 1
            st = core.classify(i, m)
            rep.stats['corr_' + st] += 1
            rep.stats['shared_evaluations'] += 1
            if st in ('disagree', 'error'):
                oi_, om_ = core.parse_outcome(i), core.parse_outcome(m)
                wrong = oi_[0] != om_[0] or (oi_[0] == 'VAL' and not core.close(oi_[1], om_[1]))
                if wrong:
                    rep.oracle_failures.append({
                        'what': 'evaluation %d of a sequence over expressions sharing objects: implementation %s, real-arithmetic value %s'
                                % (oi, i, m), 'lines': [(l, i, m)], 'kf': None, 'history': props2.trim_history(h, oi)})
                else:
                    rep.disagreements.append({'line': l, 'impl': i, 'model': m, 'note': 'shared evaluation', 'failing_input': False})


def label_numeric_disagreement(rep, b, i):
    """a bit-level disagreement: is the implementation's number wrong beyond rounding?"""
    oi, om = core.parse_outcome(b.impl[i]), core.parse_outcome(b.model[i])
    d = rep.disagreements[-1]
    if oi[0] == 'VAL' and om[0] == 'VAL':
        if not core.close(oi[1], om[1], rel=1e-9, abs_=1e-12):
            d['failing_input'] = True
            d['why'] = 'implementation value %r differs from the exact-arithmetic-correct model value %r beyond rounding' % (oi[1], om[1])
        else:
            d['failing_input'] = False
            d['why'] = 'values differ in the last bits or in the int/float tag only'
    elif oi[0] == 'VALS' and om[0] == 'VALS':
        bad = [k for k in set(oi[1]) | set(om[1])
               if k not in oi[1] or k not in om[1] or not core.close(oi[1][k], om[1][k], rel=1e-9, abs_=1e-12)]
        d['failing_input'] = bool(bad)
        d['why'] = 'components %s differ beyond rounding' % bad if bad else 'last-bit/tag difference only'
    elif oi[0] != om[0]:
        d['failing_input'] = True
        d['why'] = 'outcome kinds differ: implementation %s, model %s' % (oi[0], om[0])
    else:
        d['failing_input'] = False
        d['why'] = 'same outcome kind'


# ------------------------------------------------------------------ C02
def offenders(rng):
    """(sub-expression, point values making it undefined / just defined)"""
    x = ('V', 2)
    return [
        (('Log', x, E), [0, -1, -0.0, -5e-324, 5e-324, 1]),
        (('Log', x, 2), [0.0, -2.5, 1e-300]),
        (('Recip', x), [0, 0.0, -0.0, 5e-324, 2]),
        (('Divide', ('C', 1), x), [0, -0.0, 1]),
        (('Divide', ('C', 0), x), [0, 0.0, 3]),
        (('NthRoot', x, 2), [0, -1, -1e-300, 4]),
        (('NthRoot', x, 3), [0, -0.0, -8, 8]),
        (('NthRoot', x, 4), [-1, 0, 16]),
        (('NthRoot', x, 5), [0, -32, 32]),
        (('NthRoot', x, 1), [0, -1, 1]),
        (('Power', x, ('C', 2)), [0, -1, 3]),
        (('Power', x, ('V', 3)), [0, -2, 2]),
        (('Power', x, ('C', -1)), [0, 0.0, 2]),
        (('Power', x, ('C', 0)), [0, -1, 1]),
        (('Exp', x, 2), [0, -1, 700]),
    ]


def parents(rng, bad):
    y = ('V', 3)
    return [
        bad,
        ('Mul', [('C', 0), bad]), ('Mul', [bad, ('C', 0)]), ('Mul', [y, ('C', 0.0), bad]),
        ('Divide', ('C', 0), ('Add', [bad, ('C', 1)])), ('Divide', bad, y), ('Divide', ('Mul', [('C', 0), bad]), y),
        ('Power', ('C', 1), bad), ('Power', ('C', 1.0), bad), ('Power', ('Add', [('C', 0.5), ('C', 0.5)]), bad),
        ('Power', ('Divide', y, y), bad), ('Power', bad, ('C', 0)),
        ('Add', [y, bad]), ('Minus', bad, bad), ('Neg', bad), ('Sin', bad), ('Cos', bad),
        ('NthPow', bad, 2), ('NthPow', bad, 1), ('NthRoot', ('NthPow', bad, 2), 3), ('Exp', bad, 1), ('Exp', bad, E),
        ('Log', ('Exp', bad, E), E), ('Mul', [('C', 0), ('Recip', bad)]), ('Recip', ('Add', [bad, ('C', 3)])),
        ('Add', [('C', 1), ('Mul', [('C', 0), bad])]), ('Minus', bad, ('C', 1)),
    ]


def cancelling_sum_cases(rng, n):
    """a constrained node over a sum of three or more floating-point terms that cancel: whether the sum is exactly zero (or
    negative) -- hence whether the node is inside its domain -- is decided by how the additions are carried out; the
    reference computation adds exactly as the interpreter's sum() does"""
    import math as _m
    x, y = ('V', 2), ('V', 3)
    out = []
    for _ in range(n):
        a = rng.choice([1.0, 3.0, 1e16, 0.1, 1e-3, 12345.678, 2.0 ** 60]) * rng.choice([1, -1])
        tiny = _m.ulp(a) * rng.choice([0.25, 0.4, 0.5, 0.75, 1.0, 1.5]) * rng.choice([1, -1])
        terms = rng.choice([[x, y, ('Neg', x)], [x, y, ('Neg', x), ('Neg', y)], [y, x, ('Neg', x)], [x, y, y, ('Neg', x)],
                            [x, ('C', tiny), ('Neg', x)], [('C', a), y, ('C', -a)], [x, y, ('Mul', [('C', -1.0), x])],
                            [x, y, ('Neg', x), ('Neg', y), ('C', 0.0)], [x, y, y, ('Neg', x), ('Neg', y), ('Neg', y)]])
        s = ('Add', list(terms))
        node = rng.choice([('Recip', s), ('Log', s, E), ('Divide', ('C', 1), s), ('NthRoot', s, 2), ('Power', s, ('C', 0.5)),
                           ('Power', s, ('C', -1)), ('Log', ('Add', [s, ('C', 0.0)]), 2), ('Recip', ('Mul', [s, ('C', 2.0)]))])
        out.append((node, [(2, a), (3, tiny)]))
    return out


def check_C02(ctx):
    rng, tier = ctx.rng, ctx.tier
    rep = Report('C02')
    rep.rule = ('every kind of domain-constrained node at points on / next to / off its boundary, placed under '
                '27 kinds of parent (zero factors, zero numerators, base one, powers, folds), plus random trees at '
                'boundary values; distinct = distinct (expression, point); non-trivial = at least one node with a domain condition')
    b = Batch()
    meta = []
    for bad, vals in offenders(rng):
        for par in parents(rng, bad):
            for xv in vals:
                for yv in ([2, 1.0] if tier == 'thorough' else [2]):
                    p = [(2, xv), (3, yv)]
                    rng.shuffle(p)
                    i = b.add('EVAL %s %s' % (sx.point_sx(p), sx.to_sx(par)))
                    meta.append((i, par))
    # general powers: offending bases x exponents for which an implementation may have a fast path (1/2, 1, 2, -1, 0, 1/3 ...)
    x_, y_ = ('V', 2), ('V', 3)
    for ev in (0.5, 1, 1.0, 2, 2.0, -1, -1.0, 0, 0.0, -0.0, 0.25, 1 / 3, 3, -0.5, 1.5, -2):
        for bv_ in (0, 0.0, -0.0, -1, -2.5, -1e-300, 5e-324, 1, 4):
            for e_ in (('Power', x_, y_), ('Power', x_, ('C', ev)), ('Power', x_, ('Mul', [('C', ev), ('Divide', y_, y_)])),
                       ('Mul', [('C', 0), ('Power', x_, y_)]), ('Add', [('Power', ('Neg', ('Neg', x_)), y_), ('C', 1)])):
                p = [(2, bv_), (3, ev)]
                i = b.add('EVAL %s %s' % (sx.point_sx(p), sx.to_sx(e_)))
                meta.append((i, e_))
    for e_, p in sensitive_parameter_cases() + gen.large_cases(rng, sizes(tier, 30, 300)) + cancelling_sum_cases(rng, sizes(tier, 40, 600)):
        i = b.add('EVAL %s %s' % (sx.point_sx(p), sx.to_sx(e_)))
        meta.append((i, e_))
    n = sizes(tier, 300, 8000)
    bv = gen.boundary_values()
    for _ in range(n):
        pool = [2, 3][:rng.randint(1, 2)]
        e = gen.rexpr(rng, rng.randint(2, 12), pool, p_const=0.2)
        ids = sx.var_ids(e)
        p = [(k, rng.choice(bv) if rng.random() < 0.7 else gen.rnum(rng)) for k in ids]
        i = b.add('EVAL %s %s' % (sx.point_sx(p), sx.to_sx(e)))
        meta.append((i, e))
    b.run()
    kinds = collections.Counter()
    for i, e in meta:
        rep.cases += 1
        ok = rep.corr(b, i)
        kinds[kind(b.impl[i])] += 1
        if any(h in ('Log', 'Recip', 'Divide', 'NthRoot', 'Power') for h in sx.heads(e)):
            rep.distinct.add(b.lines[i])
        rep.sample(b.lines[i] + '  =>  ' + b.impl[i])
        if not ok and b.status[i] == 'disagree':
            label_numeric_disagreement(rep, b, i)
        o = core.parse_outcome(b.impl[i])
        om = core.parse_outcome(b.model[i])
        if o[0] == 'VAL' and not sx.is_finite_num(o[1]) and om[0] == 'VAL' and sx.is_finite_num(om[1]):
            # the same arithmetic in the reference computation stays an ordinary double
            rep.oracle_fail('non-finite value %s returned at a point where the value is the ordinary double %s' % (
                b.impl[i], b.model[i]), b, [i])
            continue
        if b.status[i] == 'range':
            continue
        if o[0] == 'VAL' and not sx.is_finite_num(o[1]):
            rep.oracle_fail('non-finite value returned: %s' % b.impl[i], b, [i])
        if o[0] == 'PYERR' and 'Overflow' not in o[1]:
            rep.oracle_fail('foreign exception %s' % o[1], b, [i])
    rep.stats.update({'outcome_' + k: v for k, v in kinds.items()})
    augmented_assignments(rep, rng, sizes(tier, 40, 400))
    # the same question asked of USED objects: evaluations that follow failed evaluations, derivative
    # queries and evaluations of sharing expressions at other points (boundary points included)
    import props2
    props2.history_correspondence(ctx, rep, sizes(tier, 300, 5000), ('at',), maxlen=sizes(tier, 12, 30),
                                  what='sequence', disturb=('located', 'pat', 'dat', 'dfat', 'dfcompat'))
    return rep


# ------------------------------------------------------------------ bundles of routes (C03-C07, C17)
ROUTES = ['EVAL', 'FWD', 'REV', 'DIFFAT', 'PEARLY', 'DEARLYAT', 'DEARLYALL']


def add_bundle(b, e, p, v, with_traces=True, nf=''):
    """nf='NF ': the implementation is given every integer parameter n as an integral float (3.0)"""
    es, ps = sx.to_sx(e), sx.point_sx(p)
    idx = {}
    idx['EVAL'] = b.add(nf + 'EVAL %s %s' % (ps, es))
    idx['FWD'] = b.add(nf + 'FWD %d %s %s' % (v, ps, es))
    idx['REV'] = b.add(nf + 'REV %s %s' % (ps, es))
    idx['DIFFAT'] = b.add(nf + 'DIFFAT %s %s' % (ps, es))
    idx['PEARLY'] = b.add(nf + 'PEARLY %d %s %s' % (v, ps, es))
    idx['DEARLYAT'] = b.add(nf + 'DEARLYAT %d %s %s' % (v, ps, es))
    idx['DEARLYALL'] = b.add(nf + 'DEARLYALL %s %s' % (ps, es))
    if with_traces:
        idx['PTRACE'] = b.add('PTRACE %d %s' % (v, es))
        idx['DTRACE'] = b.add('DTRACE %s' % es)
    if len(sx.var_ids(e)) <= 1:
        idx['DERIV'] = b.add(nf + 'DERIV %s %s' % (ps, es))
    return idx


def route_value(b, idx, route, v):
    """the outcome of a route reduced to the component for variable v: ('VAL', x) / ('DOMERR',) ..."""
    o = core.parse_outcome(b.impl[idx[route]])
    if o[0] == 'VALS':
        return ('VAL', o[1].get(v, 0))
    return o


def bundle_cases(rng, tier, quick, thorough, special=None):
    n = sizes(tier, quick, thorough)
    exprs = expr_pool(rng, n, max_size=12)
    if special:
        exprs = special + exprs
    for e_, t_ in gen.hash_collision_pairs(rng, [2, 3], max(6, n // 40)):
        exprs += [e_, t_]            # unequal, equal hashes, next to one another in the same process
    cases = []
    for e in exprs:
        ids = sx.var_ids(e)
        for p in points_for(rng, e, 1):
            r = rng.random()
            if ids and r < 0.8:
                v = rng.choice(ids)
            else:
                v = rng.choice([2, 3, 4, 7])     # possibly absent from e and from the point
            r_ = rng.random()
            if r_ < 0.08:
                # unusual but legal names: not NFKC-normalised, equal after normalisation or case folding, keywords
                m_ = dict(zip([2, 3, 4, 5, 6, 7], rng.sample(sorted(sx.UNUSUAL_NAMES), 6)))
                cases.append((rename_vars(e, m_), [(m_.get(k, k), x) for k, x in p], m_.get(v, v)))
            elif r_ < 0.20:
                # variable names that contain one another (v2, v22, v222; v3, v32): a name test that is not an
                # exact comparison confuses them
                e2, p2, v2 = rename_vars(e, SUBSTRING_NAMES), [(SUBSTRING_NAMES.get(k, k), x) for k, x in p], SUBSTRING_NAMES.get(v, v)
                cases.append((e2, p2, v2))
            else:
                cases.append((e, p, v))
    # large inputs: wide sums and products (also at a root of one factor), towers of odd roots, long chains
    for e, p in gen.large_cases(rng, max(10, n // 40), max_arity=17, max_chain=30):
        ids = sx.var_ids(e)
        cases.append((e, p, rng.choice(ids) if ids else 2))
    # always: products of 11-17 linear factors at a root of one factor, and towers of odd roots whose indices multiply
    # beyond 2^53 (under a power sharing a factor with them), at negative and positive abscissae
    x_ = ('V', 2)
    for k_ in rng.sample([11, 12, 13, 15, 17], 3):
        prod = ('Mul', [('Minus', x_, ('C', i + 1)) for i in range(k_)])
        root = rng.randint(1, k_)
        for e_ in (prod, ('Add', [prod, x_])):
            cases.append((e_, [(2, root)], 2))
            cases.append((e_, [(2, float(root))], 2))
    for _ in range(5):
        # indices with many common factors (3, 9, 15, 21, 27, 33, 45, 81 ...): their product is far beyond 2^53 and so is
        # its quotient by the gcd with the exponent of the power around the tower
        ns = [rng.choice([9, 15, 21, 27, 33, 45, 81, 101, 7, 5]) for _ in range(rng.randint(12, 16))]
        t = x_
        for n_ in ns:
            t = ('NthRoot', t, n_)
        e_ = rng.choice([t, ('NthPow', t, 3), ('NthPow', t, 9), ('NthPow', t, 4), ('NthPow', t, 15)])
        for xv in (-2, -0.5, 2):
            cases.append((e_, [(2, xv)], 2))
    cases += variable_free_offender_cases(rng)
    return cases


def variable_free_offender_cases(rng):
    """a sub-expression WITHOUT variables that is outside its domain, at every kind of position: no partial derivative depends
    on it, so a differentiation rule can skip it, and then that route returns a number where the others raise"""
    c = lambda v_: ('C', v_)      # noqa: E731
    x, y = ('V', 2), ('V', 3)
    bads = [('Log', c(-1), E), ('Log', ('Minus', c(1), c(1)), 2), ('Recip', ('Add', [c(1), c(-1)])), ('Divide', c(1), c(0)),
            ('NthRoot', c(-4), 2), ('Power', c(-2), c(0.5)), ('Power', c(0), c(-1)), ('Sin', ('Log', c(0), E)),
            ('NthPow', ('NthRoot', ('Minus', c(2), c(6)), 2), 2), ('Exp', ('Recip', c(0)), 2)]
    ctxs = [lambda b: ('Minus', x, b), lambda b: ('Minus', b, x), lambda b: ('Add', [x, b]), lambda b: ('Add', [b, x, y]),
            lambda b: ('Minus', ('Minus', x, b), y), lambda b: ('Add', [y, ('Minus', x, b)]), lambda b: ('Minus', y, ('Add', [x, b])),
            lambda b: ('Mul', [x, b]), lambda b: ('Mul', [b, x, y]), lambda b: ('Divide', x, b), lambda b: ('Divide', b, x),
            lambda b: ('Power', x, b), lambda b: ('Power', b, x), lambda b: ('Neg', ('Minus', x, b)),
            lambda b: ('Add', [x, ('Neg', b)]), lambda b: ('Add', [x, ('Mul', [c(0), b])]), lambda b: ('Sin', ('Minus', x, b)),
            lambda b: ('Minus', ('Sin', x), ('Minus', c(1), b)), lambda b: ('Add', [('Minus', c(1), b), ('NthPow', x, 2)])]
    out = []
    for k_, b in enumerate(bads):
        for j_, ctx in enumerate(ctxs):
            if (k_ + j_) % 2 == rng.randrange(2):
                continue
            out.append((ctx(b), [(2, 1.5), (3, 0.75)], rng.choice([2, 2, 3])))
    return out


SUBSTRING_NAMES = {2: 2, 3: 22, 4: 222, 5: 3, 6: 32, 7: 223}


def rename_vars(e, m):
    if e[0] == 'V':
        return ('V', m.get(e[1], e[1]))
    if e[0] == 'C':
        return e
    return sx.with_children(e, [rename_vars(c, m) for c in sx.children(e)])


def power_shortcut_cases():
    """undefined sub-expressions placed where differentiation rules can skip them"""
    x, y = ('V', 2), ('V', 3)
    und = [('Log', x, E), ('Recip', x), ('NthRoot', x, 2), ('Divide', y, x), ('Power', x, y)]
    out = []
    for u in und:
        out += [
            ('Power', ('C', 1), u), ('Power', ('C', 1.0), u), ('Power', ('Add', [('C', 0.5), ('C', 0.5)]), u),
            ('Power', ('Divide', y, y), u), ('Power', ('Exp', ('C', 0), E), u),
            ('Mul', [('C', 0), u]), ('Mul', [y, ('C', 0), u]), ('Mul', [u, ('C', 0)]),
            ('Divide', ('C', 0), ('Add', [u, ('C', 2)])), ('Divide', ('Mul', [('C', 0), u]), y),
            ('Add', [y, ('Mul', [('C', 0), u])]), ('Exp', u, 1), ('NthPow', u, 1), ('Minus', u, u),
            ('Power', ('C', 1), ('Mul', [y, u])), ('Power', ('NthPow', ('C', 1), 3), ('Add', [u, y])),
        ]
    return out


def check_routes(ctx, prop):
    """shared engine for C03, C04, C06, C07, C17 (each looks at its own aspect)"""
    rng, tier = ctx.rng, ctx.tier
    rep = Report(prop)
    special = power_shortcut_cases() if prop in ('C07', 'C06', 'C17') else None
    cases = bundle_cases(rng, tier, {'C03': 450, 'C04': 450, 'C06': 350, 'C07': 350, 'C17': 400}[prop],
                         {'C03': 9000, 'C04': 9000, 'C06': 7000, 'C07': 7000, 'C17': 8000}[prop], special)
    if prop in ('C07', 'C06', 'C17'):
        # the offending point for the special cases: x <= 0
        for e in special:
            for xv in (-1, 0, 0.0, -2.5):
                cases.append((e, [(2, xv), (3, 2)], 2))
                cases.append((e, [(3, 1.5), (2, xv)], 3))
    if prop in ('C03', 'C04', 'C06', 'C07'):
        # powers whose VALUE is exactly one although the base is not (exponent exactly zero at the point), and bases
        # that evaluate to exactly one without being the constant 1: a shortcut keyed on the wrong quantity shows here
        x, y = ('V', 2), ('V', 3)
        zero_exp = [('Minus', x, y), ('Mul', [x, ('C', 0)]), ('Sin', ('Minus', x, y)), ('Log', ('Divide', x, y), E),
                    ('Minus', ('NthPow', x, 2), ('Mul', [x, y]))]
        for z in zero_exp:
            for base in (('C', 2), ('C', 0.5), ('C', 3.0), ('Add', [('C', 1), ('C', 1)]), ('Exp', ('C', 1), E), x, ('Add', [x, y])):
                e0 = ('Power', base, z)
                for e1 in (e0, ('Add', [e0, ('Mul', [x, y])]), ('Mul', [e0, y])):
                    for pv in (1.5, 2, 0.25):
                        cases.append((e1, [(2, pv), (3, pv)], rng.choice([2, 3])))
        for base in (('Divide', x, y), ('Add', [('Minus', x, y), ('C', 1)]), ('Cos', ('Minus', x, y)), ('Exp', ('Minus', x, y), E)):
            for w in (('C', 2.5), ('C', 3), y, ('Add', [x, y]), ('Log', y, E)):
                for pv in (1.5, 2, 3):
                    cases.append((('Power', base, w), [(2, pv), (3, pv)], rng.choice([2, 3])))
    if prop == 'C17':
        # points with missing coordinates, extra coordinates
        more = []
        for e, p, v in cases[:len(cases) // 3]:
            if p:
                q = list(p)
                q.pop(rng.randrange(len(q)))
                more.append((e, q, v))
            more.append((e, p + [(55, 1.0)], v))
        cases += more
    b = Batch()
    bundles = []
    nf_cases = []
    if prop in ('C17', 'C06', 'C07'):
        # the same questions with the integer parameters spelled as integral floats (NthRoot(u, 3.0))
        nf_cases = [(e, p, v) for e, p, v in cases if any(h in ('NthPow', 'NthRoot') for h in sx.heads(e))]
        rng.shuffle(nf_cases)
        nf_cases = nf_cases[:max(60, len(cases) // 6)]
    for k_, (e, p, v) in enumerate(cases + nf_cases):
        idx = add_bundle(b, e, p, v, nf='NF ' if k_ >= len(cases) else '')
        if prop in ('C04', 'C06'):
            idx['FWDALL'] = {w: b.add('FWD %d %s %s' % (w, sx.point_sx(p), sx.to_sx(e))) for w in sx.var_ids(e)}
        if prop in ('C06',):
            idx['PEXPR'] = b.add('PEXPR %d %s' % (v, sx.to_sx(e)))
            idx['DEXPR'] = b.add('DEXPR %d %s' % (v, sx.to_sx(e)))
            if k_ % 2 == 0:
                # "with the variable given as object or as name": the same routes asked with a Variable object
                for r_ in ('FWD', 'PEARLY', 'DEARLYAT'):
                    idx['VO' + r_] = b.add('VO %s %d %s %s' % (r_, v, sx.point_sx(p), sx.to_sx(e)))
                idx['VOPEXPR'] = b.add('VO PEXPR %d %s' % (v, sx.to_sx(e)))
                idx['VODEXPR'] = b.add('VO DEXPR %d %s' % (v, sx.to_sx(e)))
        if prop == 'C03' and len(sx.var_ids(e)) <= 1 and p:
            idx['DERIVNUM'] = b.add('DERIVNUM %s %s' % (sx.num_sx(p[0][1]), sx.to_sx(e)))
        if prop in ('C06', 'C07', 'C17') and len(sx.var_ids(e)) <= 1:
            # Derivative(e, compute_early=True).at(number): the bare-number form of the early route
            vals = [p[0][1]] if p else []
            vals += [rng.choice([-1, 0, -2.5, 2, 0.5, -0.0])]
            idx['DEARLYNUM'] = [b.add('DEARLYNUM %s %s' % (sx.num_sx(xv), sx.to_sx(e))) for xv in vals]
        bundles.append((e, p, v, idx))
    b.run()
    kinds = collections.Counter()
    relevant = {'C03': ['FWD', 'DERIV', 'DERIVNUM'], 'C04': ['REV', 'DIFFAT'],
                'C06': ROUTES[1:] + ['DERIV', 'PEXPR', 'DEXPR', 'VOFWD', 'VOPEARLY', 'VODEARLYAT', 'VOPEXPR', 'VODEXPR'],
                'C07': ROUTES, 'C17': ROUTES + ['DERIV']}[prop]
    for e, p, v, idx in bundles:
        rep.cases += 1
        supplied = all(k in dict(p) for k in sx.var_ids(e))
        all_agree = True
        for r in relevant:
            if r in idx:
                ok = rep.corr(b, idx[r], r)
                all_agree = all_agree and (ok or b.status[idx[r]] in ('range', 'fuel', 'skip'))
                if not ok and b.status[idx[r]] == 'disagree':
                    label_numeric_disagreement(rep, b, idx[r])
        if prop in ('C04', 'C06'):
            for w, j in idx['FWDALL'].items():
                rep.corr(b, j, 'FWD')
        for j in idx.get('DEARLYNUM', []):
            ok_ = rep.corr(b, j, 'DEARLYNUM')
            if not ok_ and b.status[j] == 'disagree':
                label_numeric_disagreement(rep, b, j)
        ev = core.parse_outcome(b.impl[idx['EVAL']])
        kinds[ev[0]] += 1
        if sx.size(e) >= 2:
            rep.distinct.add((sx.to_sx(e), sx.point_sx(p), v))
        rep.sample({'expr': sx.to_sx(e), 'point': sx.point_sx(p), 'var': v,
                    'at': b.impl[idx['EVAL']], 'partial_late': b.impl[idx['FWD']],
                    'partial_early': b.impl[idx['PEARLY']], 'located': b.impl[idx['REV']]})
        in_range = all(b.status[idx[r]] not in ('range', 'fuel') for r in ROUTES)
        if not in_range:
            rep.stats['bundles_out_of_range'] += 1
            continue
        bad_trace = is_bad_trace(b.model[idx['PTRACE']]) or is_bad_trace(b.model[idx['DTRACE']])
        kf = 'KF-ROOT' if (bad_trace and all_agree) else None
        # ---- oracles on the implementation's own outputs ----
        if prop == 'C17':
            for r in ROUTES + ['DERIV']:
                if r in idx:
                    o = core.parse_outcome(b.impl[idx[r]])
                    if o[0] == 'PYERR' and 'Overflow' not in o[1]:
                        rep.oracle_fail('%s raised %s' % (r, o[1]), b, [idx[r]])
                    if o[0] == 'VAL' and not sx.is_finite_num(o[1]):
                        rep.oracle_fail('%s returned a non-finite or non-real value' % r, b, [idx[r]])
            continue
        if not supplied:
            continue
        if prop == 'C07':
            for r in ROUTES[1:]:
                ko, ke = kind(b.impl[idx[r]]), kind(b.impl[idx['EVAL']])
                if ko != ke and {ko, ke} <= {'VAL', 'DOMERR'}:
                    early = r in ('PEARLY', 'DEARLYAT', 'DEARLYALL')
                    if all_agree and not bad_trace:
                        rep.stats['float_range_effects'] += 1   # proved impossible in exact arithmetic
                    else:
                        rep.oracle_fail('%s is %s but at() is %s' % (r, ko, ke), b, [idx['EVAL'], idx[r]],
                                        kf=kf if early else None)
        if prop in ('C03', 'C04', 'C06'):
            ref = route_value(b, idx, 'FWD', v)
            routes = {'C03': ['DERIV', 'DERIVNUM'], 'C04': ['REV', 'DIFFAT'],
                      'C06': ['REV', 'DIFFAT', 'PEARLY', 'DEARLYAT', 'DEARLYALL', 'DERIV', 'VOFWD', 'VOPEARLY', 'VODEARLYAT']}[prop]
            for r in routes:
                if r not in idx:
                    continue
                if r in ('DERIV', 'DERIVNUM') and sx.var_ids(e) not in ([v], []):
                    continue      # Derivative differentiates w.r.t. the expression's own variable
                if r == 'DERIVNUM' and (not p or p[0][0] != v):
                    continue
                o = route_value(b, idx, r, v)
                if o[0] == 'REJECT':
                    continue
                early = r in ('PEARLY', 'DEARLYAT', 'DEARLYALL', 'VOPEARLY', 'VODEARLYAT')
                if o[0] != ref[0]:
                    if {o[0], ref[0]} <= {'VAL', 'DOMERR'}:
                        if all_agree and not bad_trace:
                            rep.stats['float_range_effects'] += 1
                        else:
                            rep.oracle_fail('%s is %s but Partial.at is %s' % (r, o[0], ref[0]), b, [idx['FWD'], idx[r]],
                                            kf=kf if early else None)
                elif o[0] == 'VAL' and finite_val(o) and finite_val(ref):
                    if not core.close(o[1], ref[1], rel=1e-6, abs_=1e-9):
                        if all_agree and not bad_trace:
                            rep.stats['rounding_or_conditioning_discrepancies'] += 1
                        else:
                            rep.oracle_fail('%s = %r but Partial.at = %r' % (r, o[1], ref[1]), b, [idx['FWD'], idx[r]],
                                            kf=kf if early else None)
            if prop in ('C04', 'C06'):
                rv = core.parse_outcome(b.impl[idx['REV']])
                if rv[0] == 'VALS':
                    for w, j in idx['FWDALL'].items():
                        fo = core.parse_outcome(b.impl[j])
                        if fo[0] == 'VAL' and finite_val(fo) and not core.close(rv[1].get(w, 0), fo[1], rel=1e-6, abs_=1e-9):
                            if all_agree:
                                rep.stats['rounding_or_conditioning_discrepancies'] += 1
                            else:
                                rep.oracle_fail('gradient component %d = %r but Partial.at = %r' % (w, rv[1].get(w, 0), fo[1]),
                                                b, [idx['REV'], j])
            if prop == 'C03':
                # exact oracle on the polynomial fragment
                try:
                    q = exact_partial(e, v, dict(p))
                except NotExact:
                    q = 'n/a'
                if q != 'n/a':
                    rep.stats['exact_fragment_cases'] += 1
                    if ref[0] != 'VAL' or Fraction(ref[1]) != q:
                        rep.oracle_fail('exact oracle: true partial is %s but implementation returned %s' % (q, b.impl[idx['FWD']]),
                                        b, [idx['FWD']])
                if ref[0] == 'VAL' and v not in sx.var_ids(e) and float(ref[1]) != 0.0:
                    rep.oracle_fail('partial w.r.t. an absent variable is %r, not 0' % (ref[1],), b, [idx['FWD']])
            if prop == 'C06':
                pe, de = b.impl[idx['PEXPR']], b.impl[idx['DEXPR']]
                if pe != de and not pe.startswith('WARN') and not de.startswith('WARN'):
                    # structural difference between the forward and the reverse symbolic route
                    # the two symbolic routes: when implementation and model agree on both expressions
                    # and on both numeric answers, the theorems (synth_fwd_sound, synth_rev_sound,
                    # normalize_sound under good_trace) say they denote the same function on the domain,
                    # so the difference is structural only
                    four = all(b.status[idx[r]] in ('agree', 'range') for r in ('PEXPR', 'DEXPR', 'PEARLY', 'DEARLYAT'))
                    if four and not bad_trace:
                        rep.oracle_fail('Differential(early).component.as_expression() != Partial.as_expression() (structural only)',
                                        b, [idx['PEXPR'], idx['DEXPR']], kf='KF-ORDER')
                    elif four and bad_trace:
                        rep.oracle_fail('early component expression differs from Partial.as_expression()', b,
                                        [idx['PEXPR'], idx['DEXPR']], kf='KF-ROOT')
                    else:
                        rep.oracle_fail('early component expression differs from Partial.as_expression()', b,
                                        [idx['PEXPR'], idx['DEXPR']])
    rep.stats.update({'at_outcome_' + k: v for k, v in kinds.items()})
    if prop == 'C17':
        bad_parameters(ctx, rep)
    if prop == 'C06':
        object_equalities(rep, [(e, p, v) for e, p, v, _ in bundles])
    if prop == 'C17':
        shared_evaluation(ctx, rep)
    if prop == 'C17':
        # the same questions on USED objects that share leaves and sub-expressions with other expressions (a constructor
        # that edits an operand's variable-name set in place surfaces as a bare Exception from a later bare-number call)
        import props2
        props2.history_correspondence(ctx, rep, sizes(tier, 200, 3000),
                                      ('at', 'atnum', 'located', 'pat', 'dat', 'datnum', 'dfat', 'dfcompat', 'pexpr', 'dexpr', 'dfcompexpr'),
                                      maxlen=sizes(tier, 10, 24), what='sequence', disturb=())
    if prop in ('C03', 'C04', 'C06', 'C07'):
        import props2
        keep = {'C03': ('pat', 'dat'), 'C04': ('located', 'dfat', 'at'),
                'C06': ('pat', 'dat', 'located', 'dfat', 'dfcompat', 'pexpr', 'dexpr', 'dfcompexpr', 'at'),
                'C07': ('pat', 'dat', 'located', 'dfat', 'dfcompat', 'at', 'pexpr', 'dexpr')}[prop]
        disturb = tuple(k for k in ('at', 'located', 'pat', 'dat', 'dfat', 'dfcompat') if k not in keep)
        props2.history_correspondence(ctx, rep, sizes(tier, 300, 5000), keep, maxlen=sizes(tier, 12, 30),
                                      what='sequence', disturb=disturb)
    return rep


def object_equalities(rep, cases):
    """the last sentence of C06, on the implementation's own objects: Differential(e).component(v) ==
    Partial(e, v) and Differential(e).at(p) == LocatedDifferential(e, p), early or late, both ways
    round and with equal hashes (theorems C06_component_equals_partial / C06_at_equals_located say so
    of the object model; TieObj ties __eq__/__hash__ to it)"""
    b = Batch()
    idxs = []
    for e, p, v in cases:
        if sx.size(e) > 60:
            continue          # four symbolic differentiations of a large tree: minutes, and nothing about equality
        idxs.append(b.add('OBJEQ %d %s %s' % (v, sx.point_sx(p), sx.to_sx(e))))
    b.run(model=False)
    for i in idxs:
        r = b.impl[i]
        rep.stats['object_equality_cases'] += 1
        if not r.startswith('OBJEQ'):
            if r.startswith('ERROR'):
                rep.oracle_fail('runner error on an object-equality case: %s' % r, b, [i])
            continue
        for item in r.split(' ')[1:]:
            k, _, val = item.partition('=')
            if val in ('false', 'notbool'):
                what = ('Differential(e, compute_early=%s).component(v) == Partial(e, v, compute_early=%s)' % (k[4] == '1', k[5] == '1')
                        if k.startswith('comp') else
                        'Differential(e, compute_early=%s).at(p) == LocatedDifferential(e, p)' % (k[2] == '1'))
                rep.oracle_fail('%s is %s (or the hashes differ)' % (what, val), b, [i])
            elif val == 'true':
                rep.stats['object_equalities_true'] += 1


def bad_parameters(ctx, rep):
    """C17 at the edge of C16: constructor calls with a parameter outside the documented range.  The
    constructor should refuse them (then nothing exists and C17 has nothing to say).  When one is
    accepted, every route is driven on the object: a foreign exception escaping is a C17 failure."""
    b = Batch()
    idxs = []
    pars = {'NthPow': [0, -1, -3, 0.0, 2.5, -2.0], 'NthRoot': [0, -1, -2, 0.0, 2.5, -3.0, 0.5],
            'Exp': [0, 0.0, -1, -2.5, -0.0], 'Log': [0, 0.0, -1, -2.5, 1, 1.0, -0.0]}
    for cls, ps in pars.items():
        for par in ps:
            for xv, yv in ((2, 3), (0.5, -1), (-2, 0.25), (0, 0), (1, 1)):
                for inner in ('0', '1'):
                    for outer in ('0', '1', '2', '3'):
                        idxs.append(b.add('BADPARAM %s %s %s %s %s %s' % (cls, sx.num_sx(par), sx.num_sx(xv), sx.num_sx(yv), inner, outer)))
    err = b.add('ERRCLASSES')
    b.run(model=False)
    if b.impl[err] != 'ok':
        rep.oracle_fail('exception classes: %s' % b.impl[err], b, [err])
    for i in idxs:
        rep.cases += 1
        r = b.impl[i]
        rep.stats['bad_parameter_' + r.split(' ')[0]] += 1
        if r.startswith('ACCEPTED') and 'PYERR' in r and 'Overflow' not in r:
            rep.oracle_fail('a constructor accepted a parameter outside its range and a query on the object then '
                            'raised a foreign exception: %s' % r, b, [i])
        elif r.startswith('ERROR'):
            rep.oracle_fail('runner error on a bad-parameter case: %s' % r, b, [i])


def _close_lines(a, c):
    oa, oc = core.parse_outcome(a), core.parse_outcome(c)
    if oa[0] != oc[0]:
        return False
    if oa[0] == 'VAL':
        return core.close(oa[1], oc[1], rel=1e-6, abs_=1e-9)
    return True


def check_C03(ctx):
    rep = check_routes(ctx, 'C03')
    rep.rule = ('random trees and rule patterns x a variable (occurring with prob. 0.8, else possibly absent from tree and '
                'point) x grid/random/positive points; Partial.at, Derivative.at(Point), Derivative.at(number); '
                'distinct = distinct (expression, point, variable); non-trivial = tree of >= 2 nodes')
    return rep


def check_C04(ctx):
    rep = check_routes(ctx, 'C04')
    rep.rule = ('random trees (repeated variables; DAG sharing is exercised by C09) x points; LocatedDifferential and '
                'Differential.at whole dictionaries, each component against Partial.at; distinct = (expression, point)')
    return rep


def check_C06(ctx):
    rep = check_routes(ctx, 'C06')
    rep.rule = ('every API route x {early, late} on random trees, rule patterns and base-one/zero-factor specials, inside '
                'and outside the domain; distinct = (expression, point, variable); non-trivial = >= 2 nodes')
    return rep


def check_C07(ctx):
    rep = check_routes(ctx, 'C07')
    rep.rule = ('outcome kind of every numeric derivative route against at(): random trees plus undefined sub-expressions '
                'as exponent of bases evaluating to one, next to zero factors, as zero numerators, variable-free; '
                'distinct = (expression, point, variable)')
    return rep


def check_C17(ctx):
    rep = check_routes(ctx, 'C17')
    rep.rule = ('exception and result types of every route on random trees and specials, at points inside, outside, on '
                'the boundary, with missing and with extra coordinates; distinct = (expression, point, variable)')
    return rep


# ------------------------------------------------------------------ C05
def check_C05(ctx):
    rng, tier = ctx.rng, ctx.tier
    rep = Report('C05')
    rep.rule = ('both symbolic routes (raw and normalised) on random trees and rule patterns, structurally against the model; '
                'as_expression() evaluated at points of the original\'s domain against the late numeric partial; variable '
                'sets; first-order results differentiated once more; distinct = (expression, variable)')
    n = sizes(tier, 350, 7000)
    exprs = expr_pool(rng, n, max_size=11, with_patterns=False)
    # every rule pattern (bare and under a parent): their derivatives exercise every rule on derivative shapes
    pats = gen.rule_patterns(rng, [2, 3], per_pattern=sizes(tier, 1, 3))
    exprs += [p_ if rng.random() < 0.5 else gen.in_context(rng, p_, [2, 3]) for p_ in pats]
    # operands that are almost the same: one n-ary argument list is a prefix of the other, or they differ in the last
    # place only (a cancellation rule that compares operands too loosely fires on them)
    for _ in range(sizes(tier, 30, 400)):
        L = [gen.rexpr(rng, rng.randint(1, 3), [2, 3], p_const=0.2) for _ in range(rng.randint(1, 3))]
        t = gen.rexpr(rng, rng.randint(1, 4), [2, 3], p_const=0.1)
        hd = rng.choice(['Add', 'Mul'])
        a_, c_ = (hd, list(L)), (hd, list(L) + [t])
        exprs += [rng.choice([('Minus', a_, c_), ('Minus', c_, a_), ('Divide', a_, c_), ('Divide', c_, a_),
                              ('Minus', ('Sin', a_), ('Sin', c_)), ('Add', [a_, ('Neg', c_)]), ('Mul', [c_, ('Recip', a_)])])]
    # unequal expressions with equal hashes, differentiated one after the other in the same process
    for e_, t_ in gen.hash_collision_pairs(rng, [2, 3], sizes(tier, 25, 300)):
        exprs += [e_, t_]
    own_points = {}
    for e_, p_ in gen.large_cases(rng, sizes(tier, 14, 150), max_arity=13, chains=False):
        exprs.append(e_)
        own_points.setdefault(sx.to_sx(e_), []).append(p_)
    w = ('V', 4)
    exprs += [('Mul', [('Neg', ('V', 2)), ('Neg', ('V', 3)), ('Neg', ('Sin', ('V', 2))), w]),
              ('Mul', [('Neg', ('V', 2)), ('Neg', ('V', 3)), ('Neg', w), ('Neg', ('Cos', w)), ('Neg', ('C', 2))]),
              ('Power', ('V', 2), ('C', 3.5)), ('Power', ('Add', [('V', 2), ('V', 3)]), ('C', 4.25)),
              ('Divide', ('C', 1), ('Power', ('V', 2), ('C', 5.5)))]
    b = Batch()
    recs = []
    for e in exprs:
        ids = sx.var_ids(e)
        v = rng.choice(ids) if ids and rng.random() < 0.85 else rng.choice([2, 3, 5])
        es = sx.to_sx(e)
        idx = {'SYNFWD': b.add('SYNFWD %d %s' % (v, es)), 'SYNREV': b.add('SYNREV %s' % es),
               'PEXPR': b.add('PEXPR %d %s' % (v, es)), 'DEXPR': b.add('DEXPR %d %s' % (v, es)),
               'PTRACE': b.add('PTRACE %d %s' % (v, es)), 'DTRACE': b.add('DTRACE %s' % es), 'VARS': b.add('VARS %s' % es)}
        if any(h in ('NthPow', 'NthRoot') for h in sx.heads(e)) and rng.random() < 0.6:
            # the same questions with every integer parameter n spelled as an integral float (NthRoot(u, 3.0))
            idx['NFPEXPR'] = b.add('NF PEXPR %d %s' % (v, es))
            idx['NFDEXPR'] = b.add('NF DEXPR %d %s' % (v, es))
        pts = points_for(rng, e, 2) + own_points.get(es, [])[:3]
        idx['PTS'] = [(p, b.add('EVAL %s %s' % (sx.point_sx(p), es)), b.add('FWD %d %s %s' % (v, sx.point_sx(p), es)),
                       b.add('PEARLY %d %s %s' % (v, sx.point_sx(p), es)), b.add('DEARLYAT %d %s %s' % (v, sx.point_sx(p), es)))
                      for p in pts]
        recs.append((e, v, idx))
    b.run()
    # second round: differentiate the as_expression() results once more, check their variables
    b2 = Batch()
    second = []
    for e, v, idx in recs:
        rep.cases += 1
        agree = True
        for r in ('SYNFWD', 'SYNREV', 'PEXPR', 'DEXPR'):
            ok = rep.corr(b, idx[r], r)
            agree = agree and (ok or b.status[idx[r]] in ('fuel', 'range'))
        for r in ('NFPEXPR', 'NFDEXPR'):
            if r in idx:
                ok = rep.corr(b, idx[r], r)
                o_ = core.parse_outcome(b.impl[idx[r]]) if b.impl[idx[r]].startswith(('PYERR', 'ERROR')) else None
                if not ok and b.status[idx[r]] in ('disagree', 'error') and (b.impl[idx[r]].startswith(('PYERR', 'ERROR runner'))
                                                                   and 'Overflow' not in b.impl[idx[r]]):
                    rep.oracle_fail('%s with n written as an integral float: no derivative expression is produced (%s) although '
                                    'the parameter is documented as accepted' % (r[2:], b.impl[idx[r]][:80]), b, [idx[r]])
                _ = o_
        if sx.size(e) >= 2:
            rep.distinct.add((sx.to_sx(e), v))
        rep.sample({'expr': sx.to_sx(e), 'var': v, 'as_expression': b.impl[idx['PEXPR']]})
        bad_trace = is_bad_trace(b.model[idx['PTRACE']]) or is_bad_trace(b.model[idx['DTRACE']])
        kf = 'KF-ROOT' if bad_trace and agree else None
        for r in ('PEXPR', 'DEXPR'):
            if b.impl[idx[r]].startswith(('ERROR', 'WARN')):
                continue
            if b.status[idx[r]] == 'range':
                # constant folding left the double range (OverflowError out of `**`): outside the properties
                rep.stats['float_range_effects'] += 1
                continue
            try:
                s = core.parse_expr_line(b.impl[idx[r]])
            except Exception:  # noqa: BLE001
                rep.oracle_fail('%s did not return an expression: %s' % (r, b.impl[idx[r]]), b, [idx[r]])
                continue
            extra = [w for w in sx.var_ids(s) if w not in sx.var_ids(e)]
            if extra:
                rep.oracle_fail('%s mentions variables %s the original does not' % (r, extra), b, [idx[r]])
            if r == 'PEXPR' and sx.size(s) <= 40 and rng.random() < 0.5:
                for p, _, _, _, _ in idx['PTS'][:1]:
                    j = b2.add('FWD %d %s %s' % (v, sx.point_sx(p), sx.to_sx(s)))
                    k = b2.add('EVAL %s %s' % (sx.point_sx(p), sx.to_sx(s)))
                    second.append((j, k))
        agree_expr = agree
        for p, ie, ifw, ipe, ide in idx['PTS']:
            for j in (ie, ifw, ipe, ide):
                rep.corr(b, j)
            if any(b.status[j] in ('range', 'fuel') for j in (ie, ifw, ipe, ide)):
                continue
            # agreement of implementation and model on THIS point (a point that left the double range must
            # not colour the verdict on another point)
            agree = agree_expr and all(b.status[j] == 'agree' for j in (ie, ifw, ipe, ide))
            ev, fw = core.parse_outcome(b.impl[ie]), core.parse_outcome(b.impl[ifw])
            if ev[0] != 'VAL' or fw[0] != 'VAL' or not finite_val(fw):
                continue
            for nm, j in (('Partial(early).at', ipe), ('Differential(early).component_at', ide)):
                o = core.parse_outcome(b.impl[j])
                ok_num = o[0] == 'VAL' and finite_val(o) and core.close(o[1], fw[1], rel=1e-6, abs_=1e-9)
                if not ok_num:
                    if o[0] == 'VAL' and agree and not bad_trace:
                        rep.stats['rounding_or_conditioning_discrepancies'] += 1
                    elif o[0] != 'VAL' and agree and not bad_trace:
                        rep.stats['float_range_effects'] += 1
                    else:
                        rep.oracle_fail('%s is %s at a point of the original\'s domain where the true partial is %r'
                                        % (nm, b.impl[j], fw[1]), b, [ie, ifw, j], kf=kf)
    b2.run()
    for j, k in second:
        rep.corr(b2, j, 'second-order FWD')
        rep.corr(b2, k, 'EVAL of as_expression')
        rep.stats['second_order_cases'] += 1
        o = core.parse_outcome(b2.impl[j])
        if o[0] == 'PYERR' and 'Overflow' not in o[1]:
            rep.oracle_fail('differentiating as_expression() once more raised %s' % o[1], b2, [j])
    # symbolic answers on USED objects: as_expression() of an early Differential's component after the differential was
    # located, after other components were taken, after evaluations at other points (judged: the symbolic operations;
    # executed in between, not judged: the numeric ones)
    import props2
    props2.history_correspondence(ctx, rep, sizes(tier, 150, 3000), ('pexpr', 'dexpr', 'dfcompexpr'),
                                  maxlen=sizes(tier, 10, 24), what='sequence',
                                  disturb=('at', 'located', 'pat', 'dat', 'dfat', 'dfcompat'))
    return rep


# ------------------------------------------------------------------ C08
def folded_constant_cases(rng, n):
    """variable-free sub-trees whose folded value is tiny, huge, or next to an integer, placed where the
    value matters (factor, argument of log / reciprocal, numerator, exponent): constant folding must keep it"""
    x, y = ('V', 2), ('V', 3)
    tiny = [('NthPow', ('C', 1e-5), 3), ('Exp', ('C', -30), E), ('Mul', [('C', 6.674e-11), ('C', 1e-3)]),
            ('Recip', ('C', 3e14)), ('Exp', ('C', -200), 2), ('Divide', ('C', 1), ('NthPow', ('C', 10), 15)),
            ('NthPow', ('C', 1e-3), 7), ('Sin', ('C', math.pi)), ('Minus', ('C', 0.1 + 0.2), ('C', 0.3))]
    huge = [('NthPow', ('C', 1e5), 4), ('Exp', ('C', 40), E), ('Mul', [('C', 3e8), ('C', 3e8)])]
    near = [('Divide', ('C', 0.3), ('C', 0.1)), ('Mul', [('C', 0.1), ('C', 3), ('C', 10)]), ('Add', [('C', 0.1), ('C', 0.2), ('C', 0.7)]),
            ('Mul', [('C', 0.29), ('C', 100)]), ('Add', [('C', 1), ('C', 1e-13)]), ('Minus', ('C', 5), ('C', 1e-12))]
    out = []
    for _ in range(n):
        c = rng.choice(tiny + tiny + huge + near)
        ctx_ = rng.choice([
            lambda c: ('Mul', [c, x]), lambda c: ('Log', ('Mul', [c, x]), E), lambda c: ('Recip', ('Mul', [x, c])),
            lambda c: ('Divide', ('Sin', x), ('Mul', [c, x])), lambda c: ('Add', [('Mul', [c, x]), y]),
            lambda c: ('Power', x, c), lambda c: ('Mul', [c, ('NthPow', x, 2), y]), lambda c: ('Minus', x, ('Mul', [c, y])),
            lambda c: ('NthRoot', ('Mul', [c, x]), 3), lambda c: ('Exp', ('Mul', [c, x]), 2)])
        out.append(ctx_(c))
    return out


def check_C08(ctx):
    rng, tier = ctx.rng, ctx.tier
    rep = Report('C08')
    rep.rule = ('every rule\'s left-hand pattern x hole fillers x parameter grid (parities, n = m, gcd > 1, equal/unequal '
                'bases, int/float spellings) x position under a random parent, random trees, raw symbolic derivatives and '
                'long chains beyond the step budget; every single rewrite step (up to 8 in a row) and _normalize compared '
                'structurally with the model; before/after evaluated at 3 points; distinct = distinct input expression')
    pats = gen.rule_patterns(rng, [2, 3], per_pattern=sizes(tier, 1, 4))
    exprs = [gen.in_context(rng, p, [2, 3]) for p in pats]
    exprs += expr_pool(rng, sizes(tier, 250, 5000), max_size=14, with_patterns=False)
    exprs += folded_constant_cases(rng, sizes(tier, 40, 600))
    exprs += gen.repairable_singular(rng, [2, 3], sizes(tier, 60, 800))
    exprs += [e_ for e_, _p in gen.large_cases(rng, sizes(tier, 10, 120), max_arity=13)]
    for _ in range(sizes(tier, 4, 30)):
        # a power around a tower of odd roots whose indices share factors with the exponent and multiply far beyond 2^53
        ns = [rng.choice([9, 15, 21, 27, 33, 45, 81, 101, 7, 5]) for _ in range(rng.randint(12, 16))]
        t = ('V', 2)
        for n_ in ns:
            t = ('NthRoot', t, n_)
        exprs.append(('NthPow', t, rng.choice([3, 9, 15, 5, 45])))
    # inverse pairs whose parameters are almost, but not exactly, the same (a tolerant comparison cancels them):
    # bases next to one another and next to 1, where the exponent ln b2 / ln b1 is far from 1
    for b1, b2 in ((1 + 1e-9, 1 + 1.5e-9), (1 + 1e-10, 1 + 3e-10), (2.0, math.nextafter(2.0, 3)), (E, math.nextafter(E, 3)),
                   (1.000001, math.nextafter(1.000001, 2)), (0.5, 0.5 * (1 + 1e-10)), (10, 10.000000001), (1 - 1e-9, 1 - 2e-9)):
        for u in (('V', 2), ('Add', [('V', 2), ('C', 1)]), ('Mul', [('V', 2), ('V', 3)])):
            exprs += [('Exp', ('Log', u, b1), b2), ('Log', ('Exp', u, b1), b2), ('Exp', ('Log', u, b2), b1),
                      ('Mul', [('Exp', u, b1), ('Exp', ('V', 3), b2)]), ('Add', [('Log', u, b1), ('Log', ('V', 3), b2)])]
    pre = ['SYNFWD 2 %s' % sx.to_sx(e) for e in exprs[:sizes(tier, 150, 2000)] if sx.size(e) <= 7]
    for s in core.run_model(pre):
        try:
            d = core.parse_expr_line(s)
            if sx.size(d) <= 45:
                exprs.append(d)
        except Exception:  # noqa: BLE001
            pass
    if tier == 'thorough':
        exprs += gen.chains(rng, [2, 3], 40) + gen.chains(rng, [2], 90)
    else:
        exprs += gen.chains(rng, [2, 3], 12)
    seen = set()
    uniq = []
    for e in exprs:
        s = sx.to_sx(e)
        if s not in seen:
            seen.add(s)
            uniq.append(e)
    exprs = uniq
    b = Batch()
    recs = []
    for e in exprs:
        es = sx.to_sx(e)
        recs.append({'e': e, 'norm': b.add('NORM %s' % es), 'ntrace': b.add('NTRACE %s' % es),
                     'chain': [(e, b.add('STEP %s' % es))]})
    b.run()
    rounds = sizes(tier, 6, 10)
    for _ in range(rounds):
        added = False
        for r in recs:
            cur, j = r['chain'][-1]
            if b.status[j] != 'agree' or b.impl[j] == 'NONE' or len(r['chain']) > rounds:
                continue
            try:
                nxt = core.parse_expr_line(b.impl[j].split(' ', 1)[1])
            except Exception:  # noqa: BLE001
                continue
            if sx.size(nxt) > 400:
                continue
            r['chain'].append((nxt, b.add('STEP %s' % sx.to_sx(nxt))))
            added = True
        if not added:
            break
        b.run()
    # semantic oracle: before / after at points
    b2 = Batch()
    pairs = []
    versus = []
    labels = collections.Counter()
    for r in recs:
        rep.cases += 1
        rep.distinct.add(sx.to_sx(r['e']))
        rep.corr(b, r['norm'], 'NORM')
        rep.sample({'input': sx.to_sx(r['e']), 'normalized': b.impl[r['norm']],
                    'first_step': b.impl[r['chain'][0][1]]})
        steps = []
        for cur, j in r['chain']:
            rep.corr(b, j, 'STEP')
            if b.impl[j] not in ('NONE',) and not b.impl[j].startswith('ERROR'):
                lab, rest = b.impl[j].split(' ', 1)
                labels[lab] += 1
                try:
                    steps.append((cur, core.parse_expr_line(rest), lab, j))
                except Exception:  # noqa: BLE001
                    if b.status[j] == 'range':
                        rep.stats['float_range_effects'] += 1
                    else:
                        rep.oracle_fail('STEP did not return an expression', b, [j])
        cands = [(a, c, lab, j) for a, c, lab, j in steps]
        if not b.impl[r['norm']].startswith('ERROR'):
            try:
                cands.append((r['e'], core.parse_expr_line(b.impl[r['norm']]), 'normalize', r['norm']))
            except Exception:  # noqa: BLE001
                if b.status[r['norm']] == 'range':
                    rep.stats['float_range_effects'] += 1
                else:
                    rep.oracle_fail('_normalize did not return an expression', b, [r['norm']])
        for a, c, lab, j in cands:
            if sx.size(a) > 120 or sx.size(c) > 200:
                continue
            for p in points_for(rng, a, 1) + ([[(k_, -2) for k_ in sx.var_ids(a)]] if 'NthRoot' in sx.heads(a) and rng.random() < 0.5 else []):
                ps = sx.point_sx(p)
                pairs.append((b2.add('EVAL %s %s' % (ps, sx.to_sx(a))), b2.add('EVAL %s %s' % (ps, sx.to_sx(c))),
                              lab, j, r, a, c))
            if b.status[j] == 'disagree':
                # the implementation's result differs from the reference simplification (whose soundness is
                # proved): compare the two results at points, relatively (no absolute slack)
                try:
                    mline = b.model[j] if lab == 'normalize' else b.model[j].split(' ', 1)[1]
                    cm = core.parse_expr_line(mline)
                except Exception:  # noqa: BLE001
                    cm = None
                if cm is not None and sx.size(cm) <= 200:
                    for p in points_for(rng, a, 2) + [[(k_, 1e18) for k_ in sx.var_ids(a)], [(k_, -2) for k_ in sx.var_ids(a)]]:
                        ps = sx.point_sx(p)
                        versus.append((b2.add('EVAL %s %s' % (ps, sx.to_sx(a))), b2.add('EVAL %s %s' % (ps, sx.to_sx(c))),
                                       b2.add('EVAL %s %s' % (ps, sx.to_sx(cm))), lab, j))
    b2.run(model=False)
    for ia, ic, lab, j, r, a, c in pairs:
        rep.stats['semantic_pairs'] += 1
        oa, oc = core.parse_outcome(b2.impl[ia]), core.parse_outcome(b2.impl[ic])
        if oa[0] != 'VAL' or not finite_val(oa):
            continue
        rep.stats['semantic_pairs_in_domain'] += 1
        good = oc[0] == 'VAL' and finite_val(oc) and core.close(oa[1], oc[1], rel=1e-6, abs_=1e-9)
        if good:
            continue
        agree = b.status[j] == 'agree'
        # attribute to KF-ROOT only when the model (which contains the same rule) agrees with the
        # implementation and the trace of this very rewrite contains the even/even application
        bad = False
        if lab == 'normalize':
            bad = is_bad_trace(b.model[r['ntrace']])
        elif lab == '_reduce_nth_root_of_mth_power':
            bad = _even_even_redex(a)
        if agree and bad:
            kf = 'KF-ROOT'
        elif agree and oc[0] == 'VAL' and finite_val(oc):
            rep.stats['rounding_or_conditioning_discrepancies'] += 1
            continue
        elif agree and 'Overflow' in b2.impl[ic]:
            rep.stats['float_range_effects'] += 1
            continue
        elif agree and oc[0] == 'DOMERR':
            # the rewrite is the model's, proved (rule_sound / normalize_sound, good trace) to keep every point of the
            # REAL domain: the input is defined here only because of rounding (x - e^(ln x) is 1e-16 instead of 0 under
            # a root or a logarithm; sin of an ill-conditioned huge argument changes sign). Not a violation of the property
            rep.stats['defined_by_rounding_only'] += 1
            continue
        else:
            kf = None
        rep.oracle_fail('%s: input is %s but result is %s at the same point' % (lab, b2.impl[ia], b2.impl[ic]),
                        b2, [ia, ic], kf=kf, extra={'rewrite': b.lines[j], 'result': b.impl[j]})
    for ia, ic, im, lab, j in versus:
        oa, oc, om = (core.parse_outcome(b2.impl[x]) for x in (ia, ic, im))
        if oa[0] != 'VAL' or not finite_val(oa) or om[0] != 'VAL' or not finite_val(om):
            continue
        rep.stats['versus_reference_pairs'] += 1
        if oc[0] != 'VAL' or not finite_val(oc) or not core.close(oc[1], om[1], rel=1e-9, abs_=0.0):
            rep.oracle_fail('%s: at a point where the input has the value %s the result has %s, the reference '
                            'simplification %s' % (lab, b2.impl[ia], b2.impl[ic], b2.impl[im]), b2, [ia, ic, im],
                            extra={'rewrite': b.lines[j], 'result': b.impl[j], 'reference': b.model[j]})
    rep.stats.update({'label_' + k: v for k, v in labels.items()})
    rep.labels = labels
    # simplification of DAGs: expressions that reuse sub-expression objects, normalised / differentiated
    # symbolically in sequence, against the (tree) model
    import props2
    props2.history_correspondence(ctx, rep, sizes(tier, 150, 3000), ('norm', 'pexpr', 'dexpr', 'dfcompexpr', 'at'),
                                  maxlen=sizes(tier, 10, 30), what='dag_simplification',
                                  extra=props2.dag_rule_histories(rng, sizes(tier, 250, 5000)))
    return rep


def _even_even_redex(e):
    for s in sx.subterms(e):
        if s[0] == 'NthRoot' and s[1][0] == 'NthPow' and s[2] % 2 == 0 and s[1][2] % 2 == 0:
            return True
    return False
